(* ZK.v -- executable model of the 15 proof systems of pkg/zk/* (sch, log, elog, nth, enc, logstar, dec, mul,
   affg, affp, mulstar, encelg, fac, prm, mod), of pkg/pedersen (Commit, Verify, ValidateParameters),
   pkg/math/arith/int.go (range predicates, IsValidNatModN, IsValidBigModN) and of the challenge derivation
   (sample.Scalar / IntervalScalar / IntervalL / ModN on the digest stream).

   For every system X:
     X_fields   : the ordered, typed list of values that Go's challenge() passes to hash.WriteAny
     X_challenge_items = map fld_hval (X_fields ...) : list hval   (Framing.write_any gives the exact byte stream)
     (this version models the tree with work/zkfix/01-zk-validate.diff applied: IsValid validates the Pedersen commitments,
      pedersen.Verify and zkfac bound the integer exponents, zkdec / zkmul reject responses EncWithNonce would refuse)
     X_verify   : the verifier, check by check IN THE ORDER of the Go Verify (IsValid, range checks, Pedersen
                  check, Paillier / group equations) as a function of (public statement, commitment, challenge,
                  responses).  Result [option bool]:  Some true = accept, Some false = reject,
                  None = Go panics (paillier.EncWithNonce refuses a plaintext with |m| > N/2).
     X_commit / X_respond / X_prove : the prover as a function of (witness, prover randomness, challenge).

   Numbers are Z.  Go's *saferith.Nat / *big.Int arguments are >= 0 by type (negative big.Int where Go admits
   them: documented at the use).  curve.Scalar values are integers in [0,q) (the Go type cannot hold anything else;
   the model reduces where that matters).  The group is abstract (Section variables): [smul k P] is k.P for any
   integer k, [gadd], [geqb], [gis_id] (Point.IsIdentity), [gbase], the order [q], and [pt_enc] (the compressed
   encoding: x coordinate and parity of y; identity = (0, even) as Secp256k1Point.MarshalBinary writes it).
   Model/DispatchZK.v instantiates it with the textbook curve of Model/Secp256k1.v.

   NOT modelled: nil fields (Go: IsValid / nil checks / nil dereference panics -- exercised by the harness only),
   announced lengths of saferith.Nat other than the ones honest computation produces (modulus length),
   big.Int.ProbablyPrime(20) is modelled by Miller-Rabin with 12 fixed bases (zkmod only).
   Definitions only. *)
From Coq Require Import String.
From Coq Require Import List NArith ZArith Bool.
From MPS Require Import Model.Bytes Model.Framing Model.Paillier.
Import ListNotations.
Local Open Scope Z_scope.

(* ---- internal/params ---- *)
Definition zk_L : Z := 256.
Definition zk_LPrime : Z := 1280.
Definition zk_Eps : Z := 512.
Definition zk_LEps : Z := 768.           (* LPlusEpsilon *)
Definition zk_LPrimeEps : Z := 1792.     (* LPrimePlusEpsilon *)
Definition zk_BitsN : Z := 2048.         (* BitsIntModN *)
Definition zk_Stat : nat := 80.          (* StatParam *)

(* ---- pkg/math/arith/int.go ---- *)
(* saferith Int.TrueLen: bit length of the absolute value *)
Definition truelen (z : Z) : Z :=
  match z with Z0 => 0 | _ => Z.log2 (Z.abs z) + 1 end.

Definition in_leps (z : Z) : bool := truelen z <=? zk_LEps.                 (* IsInIntervalLEps *)
Definition in_lprimeeps (z : Z) : bool := truelen z <=? zk_LPrimeEps.       (* IsInIntervalLPrimeEps *)
Definition in_leps1rootn (z : Z) : bool := truelen z <=? 1 + zk_LEps + zk_BitsN / 2.  (* IsInIntervalLEpsPlus1RootN *)

(* IsValidNatModN for one value: CmpMod < n and IsUnit(n)  (x is a Nat: 0 <= x by type) *)
Definition valid_mod (n x : Z) : bool := (0 <=? x) && (x <? n) && (gcd_mod n x =? 1).
(* IsValidBigModN for one value: Sign = 1, < n, gcd = 1 *)
Definition valid_big (n x : Z) : bool := (0 <? x) && (x <? n) && (gcd_mod n x =? 1).

(* IsBoundedInt: |n| < 2^(1+l+eps) N^2 for N of the size of a Paillier modulus: TrueLen <= 1 + 768 + 2*2048 *)
Definition zk_bounded (z : Z) : bool := truelen z <=? 1 + zk_LEps + 2 * zk_BitsN.
(* IsInPlaintextRange: |m| <= (N-1)/2, the range accepted by EncWithNonce (N odd: N >> 1 = N / 2) *)
Definition in_plaintext (n m : Z) : bool := Z.abs m <=? n / 2.

(* ---- pkg/pedersen ---- *)
(* Commit: s^x t^y mod N (ExpI with signed exponents) *)
Definition ped_commit (n s t x y : Z) : Z := (expI n s x * expI n t y) mod n.

(* Verify(a, b, e, S, T): a, b of bounded size, S, T valid mod N and s^a t^b = S T^e *)
Definition ped_verify (n s t a b e S T : Z) : bool :=
  zk_bounded a && zk_bounded b &&
  valid_mod n S && valid_mod n T &&
  ((expI n s a * expI n t b) mod n =? (expI n T e * S) mod n).

(* ValidateParameters *)
Definition ped_validate (n s t : Z) : bool := valid_mod n s && valid_mod n t && negb (s =? t).

(* ---- Paillier pieces not in Paillier.v ---- *)
(* Ciphertext.Randomize with a given nonce: c * r^N mod N^2 *)
Definition randomize (n c r : Z) : Z := (c * powmod (n * n) r n) mod (n * n).

(* ---- control flow of a verifier ---- *)
Definition guard (b : bool) (k : option bool) : option bool := if b then k else Some false.
Definition accept : option bool := Some true.
(* lhs := EncWithNonce(m, rho) (may panic), then lhs.Equal(rhs) *)
Definition enc_eq (n m rho rhs : Z) (k : option bool) : option bool :=
  match enc n m rho with
  | None => None
  | Some lhs => guard (lhs =? rhs) k
  end.

(* ---- typed fields of the Fiat-Shamir transcript ---- *)
Inductive fld :=
| FPed (n s t : Z)                 (* *pedersen.Parameters : 3 x 256 bytes                     *)
| FPk (n : Z)                      (* *paillier.PublicKey  : minimal bytes of N                *)
| FCt (c : Z)                      (* *paillier.Ciphertext : 512 bytes                         *)
| FNat (k : nat) (v : Z)           (* *saferith.Nat with announced byte length k               *)
| FMod (n : Z)                     (* *saferith.Modulus    : minimal bytes                     *)
| FBig (z : Z)                     (* *big.Int             : Gob encoding                      *)
| FSc (s : Z)                      (* curve.Scalar         : 32 bytes                          *)
| FPt (x : Z) (odd : bool)         (* curve.Point          : 33 bytes compressed               *)
| FElg (lx : Z) (lodd : bool) (mx : Z) (modd : bool).   (* *elgamal.Ciphertext: L || M compressed, own domain *)

Definition pt_bytes (x : Z) (odd : bool) : bytes :=
  (if odd then 3%N else 2%N) :: be_bytes 32 (Z.to_N x).

Definition elg_domain : bytes := str "ElGamal Ciphertext"%string.

Definition fld_hval (f : fld) : hval :=
  match f with
  | FPed n s t => HPedersen (Z.to_N n) (Z.to_N s) (Z.to_N t)
  | FPk n => HPaillierPK (Z.to_N n)
  | FCt c => HCiphertext (Z.to_N c)
  | FNat k v => HNat k (Z.to_N v)
  | FMod n => HModulus (Z.to_N n)
  | FBig z => HBigInt z
  | FSc s => HScalar (Z.to_N s)
  | FPt x o => HPoint (Z.to_N x) o
  | FElg lx lo mx mo => HWithDomain elg_domain (Some (pt_bytes lx lo ++ pt_bytes mx mo))
  end.

(* range conditions under which the byte encoding of a field loses nothing (and every length fits the 64-bit
   length prefix of the framing) *)
Definition fld_wf (f : fld) : bool :=
  match f with
  | FPed n s t => (0 <=? n) && (n <? 2 ^ 2048) && (0 <=? s) && (s <? 2 ^ 2048) && (0 <=? t) && (t <? 2 ^ 2048)
  | FPk n => (0 <=? n) && (n <? 2 ^ 4096)
  | FCt c => (0 <=? c) && (c <? 2 ^ 4096)
  | FNat k v => (0 <=? v) && (v <? 2 ^ (8 * Z.of_nat k)) && (Z.of_nat k <? 2 ^ 32)
  | FMod n => (0 <=? n) && (n <? 2 ^ 4096)
  | FBig z => Z.abs z <? 2 ^ 4096
  | FSc s => (0 <=? s) && (s <? 2 ^ 256)
  | FPt x _ => (0 <=? x) && (x <? 2 ^ 256)
  | FElg lx _ mx _ => (0 <=? lx) && (lx <? 2 ^ 256) && (0 <=? mx) && (mx <? 2 ^ 256)
  end.

(* announced byte length of a Nat reduced modulo n (ModMul / Exp results): that of the modulus *)
Definition nlen (n : Z) : nat := byte_len (Z.to_N n).
Definition FNatN (n v : Z) : fld := FNat (nlen n) v.

(* ---- challenge derivation from the digest stream (pkg/math/sample) ---- *)
(* sample.Scalar(digest): 32 bytes big endian, reduced modulo the group order *)
Definition e_scalar (q : Z) (d : bytes) : Z := Z.of_N (be_val (firstn 32 d)) mod q.
(* sampleNeg(digest, 256) = IntervalScalar = IntervalL: 33 bytes; sign = low bit of the first, magnitude = the other 32 *)
Definition e_interval (d : bytes) : Z :=
  match d with
  | [] => 0
  | b0 :: r => let m := Z.of_N (be_val (firstn 32 r)) in
               if N.testbit b0 0 then - m else m
  end.
(* zkprm: StatParam bytes, the low bit of each *)
Definition e_bits (d : bytes) : list bool := map (fun b => N.testbit b 0) (firstn zk_Stat d).
(* zkmod: sample.ModN repeated on ONE digest reader: chunks of ceil(bits(n)/8) bytes, rejected while >= n.
   Returns the samples found in the supplied prefix of the stream (fuel = number of chunks available). *)
Fixpoint e_modn_go (fuel : nat) (n : Z) (k : nat) (count : nat) (d : bytes) : list Z :=
  match count with
  | O => []
  | S count' =>
      match fuel with
      | O => []
      | S fuel' =>
          let v := Z.of_N (be_val (firstn k d)) in
          if (length (firstn k d) =? k)%nat then
            if v <? n then v :: e_modn_go fuel' n k count' (skipn k d)
            else e_modn_go fuel' n k count (skipn k d)
          else []
      end
  end.
Definition e_modn (n : Z) (count : nat) (d : bytes) : list Z :=
  let k := nlen n in e_modn_go (S (length d)) n k count d.

(* ================================================================================================ *)
Section Curve.
  Context {G : Type}.
  Variable gadd : G -> G -> G.
  Variable smul : Z -> G -> G.
  Variable geqb : G -> G -> bool.
  Variable gis_id : G -> bool.        (* Point.IsIdentity *)
  Variable gbase : G.                 (* group.NewBasePoint() *)
  Variable q : Z.                     (* group.Order() *)
  Variable pt_enc : G -> Z * bool.    (* compressed encoding *)

  Definition FP (P : G) : fld := let '(x, o) := pt_enc P in FPt x o.
  Definition FE (L M : G) : fld := let '(lx, lo) := pt_enc L in let '(mx, mo) := pt_enc M in FElg lx lo mx mo.

  Definition sc_zero (s : Z) : bool := s mod q =? 0.          (* Scalar.IsZero *)
  Definition act (s : Z) (P : G) : G := smul (s mod q) P.     (* Scalar.Act; NewScalar().SetNat(x.Mod(q)).Act *)

  (* ------------------------------------------------------------------------------------------ *)
  (* sch: Schnorr proof of knowledge of x with X = x.gen.   Proof.Verify(hash, public, gen)      *)
  Definition sch_fields (gen X C : G) : list fld := [FP C; FP X; FP gen].
  Definition sch_challenge_items gen X C := map fld_hval (sch_fields gen X C).
  Definition sch_verify (gen X C : G) (z e : Z) : option bool :=
    guard (negb (sc_zero z)) (            (* p.Z.IsValid *)
    guard (negb (gis_id C)) (             (* p.C.IsValid *)
    guard (negb (gis_id X)) (             (* Response.Verify: public.IsIdentity *)
    guard (geqb (act z gen) (gadd (act e X) C))
    accept))).
  Definition sch_commit (gen : G) (a : Z) : G := act a gen.
  Definition sch_respond (x a e : Z) : Z := (e * x + a) mod q.
  Definition sch_prove (gen : G) (x a e : Z) : G * Z := (sch_commit gen a, sch_respond x a e).

  (* ------------------------------------------------------------------------------------------ *)
  (* log: H = b.G, X = a.G, Y = a.H *)
  Definition log_fields (H X Y A B C : G) : list fld := [FP H; FP X; FP Y; FP A; FP B; FP C].
  Definition log_challenge_items H X Y A B C := map fld_hval (log_fields H X Y A B C).
  Definition log_verify (H X Y A B C : G) (z1 z2 e : Z) : option bool :=
    guard (negb (gis_id A || gis_id B || gis_id C)) (
    guard (negb (sc_zero z1 || sc_zero z2)) (
    guard (geqb (act z1 gbase) (gadd (act e X) A)) (
    guard (geqb (act z1 H) (gadd (act e Y) B)) (
    guard (geqb (act z2 gbase) (gadd (act e H) C))
    accept)))).
  Definition log_commit (H : G) (alpha beta : Z) : G * G * G := (act alpha gbase, act alpha H, act beta gbase).
  Definition log_respond (a b alpha beta e : Z) : Z * Z := ((e * a + alpha) mod q, (e * b + beta) mod q).
  Definition log_prove H a b alpha beta e := (log_commit H alpha beta, log_respond a b alpha beta e).

  (* ------------------------------------------------------------------------------------------ *)
  (* elog: E = (L = lambda.G, M = y.G + lambda.X), Y = y.H *)
  Definition elog_fields (L M X H Y A Np B : G) : list fld := [FE L M; FP X; FP Y; FP H; FP A; FP Np; FP B].
  Definition elog_challenge_items L M X H Y A Np B := map fld_hval (elog_fields L M X H Y A Np B).
  Definition elog_verify (L M X H Y A Np B : G) (z u e : Z) : option bool :=
    guard (negb (gis_id A || gis_id Np || gis_id B)) (
    guard (negb (sc_zero z || sc_zero u)) (
    guard (geqb (act z gbase) (gadd (act e L) A)) (
    guard (geqb (gadd (act u gbase) (act z X)) (gadd (act e M) Np)) (
    guard (geqb (act u H) (gadd (act e Y) B))
    accept)))).
  Definition elog_commit (X H : G) (alpha m : Z) : G * G * G :=
    (act alpha gbase, gadd (act m gbase) (act alpha X), act m H).
  Definition elog_respond (y lambda alpha m e : Z) : Z * Z := ((e * lambda + alpha) mod q, (e * y + m) mod q).
  Definition elog_prove X H y lambda alpha m e := (elog_commit X H alpha m, elog_respond y lambda alpha m e).

  (* ------------------------------------------------------------------------------------------ *)
  (* logstar: C = Enc_N0(x; rho), X = x.G   (G is the optional base of the statement) *)
  Definition logstar_fields (nh s t n0 C : Z) (X Gb : G) (S A : Z) (Y : G) (D : Z) : list fld :=
    [FPed nh s t; FPk n0; FCt C; FP X; FP Gb; FNatN nh S; FCt A; FP Y; FNatN nh D].
  Definition logstar_challenge_items nh s t n0 C X Gb S A Y D :=
    map fld_hval (logstar_fields nh s t n0 C X Gb S A Y D).
  Definition logstar_verify (nh s t n0 C : Z) (X Gb : G) (S A : Z) (Y : G) (D : Z) (z1 z2 z3 e : Z) : option bool :=
    guard (valid_mod nh S && valid_mod nh D) (
    guard (validate_ct n0 A) (
    guard (negb (gis_id Y)) (
    guard (valid_mod n0 z2) (
    guard (in_leps z1) (
    guard (ped_verify nh s t z1 z3 e D S) (
    enc_eq n0 z1 z2 (add n0 (mul n0 e C) A) (
    guard (geqb (act z1 Gb) (gadd (act e X) Y))
    accept))))))).
  Definition logstar_commit (nh s t n0 : Z) (Gb : G) (x alpha r mu gamma : Z) : option (Z * Z * G * Z) :=
    match enc n0 alpha r with
    | None => None
    | Some A => Some (ped_commit nh s t x mu, A, act alpha Gb, ped_commit nh s t alpha gamma)
    end.
  Definition enc_respond (n0 x rho alpha r mu gamma e : Z) : Z * Z * Z :=
    (e * x + alpha, (expI n0 rho e * r) mod n0, e * mu + gamma).

  (* ------------------------------------------------------------------------------------------ *)
  (* dec: C = Enc_N0(y; rho), X = y mod q (a scalar) *)
  Definition dec_fields (nh s t n0 C X S T A Gamma : Z) : list fld :=
    [FPed nh s t; FPk n0; FCt C; FSc X; FNatN nh S; FNatN nh T; FCt A; FSc Gamma].
  Definition dec_challenge_items nh s t n0 C X S T A Gamma := map fld_hval (dec_fields nh s t n0 C X S T A Gamma).
  Definition dec_verify (nh s t n0 C X S T A Gamma z1 z2 w e : Z) : option bool :=
    guard (negb (sc_zero Gamma)) (
    guard (valid_mod nh S && valid_mod nh T) (
    guard (validate_ct n0 A) (
    guard (valid_mod n0 w) (
    guard (in_plaintext n0 z1) (
    guard (ped_verify nh s t z1 z2 e T S) (
    enc_eq n0 z1 w (add n0 (mul n0 e C) A) (
    guard (z1 mod q =? (((e mod q) * (X mod q)) mod q + Gamma mod q) mod q)
    accept))))))).
  Definition dec_commit (nh s t n0 y alpha mu nu r : Z) : option (Z * Z * Z * Z) :=
    match enc n0 alpha r with
    | None => None
    | Some A => Some (ped_commit nh s t y mu, ped_commit nh s t alpha nu, A, alpha mod q)
    end.
  Definition dec_respond (n0 y rho alpha mu nu r e : Z) : Z * Z * Z :=
    (e * y + alpha, e * mu + nu, (expI n0 rho e * r) mod n0).

  (* ------------------------------------------------------------------------------------------ *)
  (* affg: Dv = (x (.) Kv) (+) Enc_N0(y; s), Fp = Enc_N1(y; r), Xp = x.G ; N0 = verifier, N1 = prover *)
  Definition affg_fields (nh s t n1 n0 Kv Dv Fp : Z) (Xp : G) (A : Z) (Bx : G) (By E S F T : Z) : list fld :=
    [FPed nh s t; FPk n1; FPk n0; FCt Kv; FCt Dv; FCt Fp; FP Xp;
     FCt A; FP Bx; FCt By; FNatN nh E; FNatN nh S; FNatN nh F; FNatN nh T].
  Definition affg_challenge_items nh s t n1 n0 Kv Dv Fp Xp A Bx By E S F T :=
    map fld_hval (affg_fields nh s t n1 n0 Kv Dv Fp Xp A Bx By E S F T).
  Definition affg_verify (nh s t n1 n0 Kv Dv Fp : Z) (Xp : G) (A : Z) (Bx : G) (By E S F T : Z)
             (z1 z2 z3 z4 w wy e : Z) : option bool :=
    guard (valid_mod nh E && valid_mod nh S && valid_mod nh F && valid_mod nh T) (
    guard (validate_ct n0 A) (
    guard (validate_ct n1 By) (
    guard (valid_mod n1 wy) (
    guard (valid_mod n0 w) (
    guard (negb (gis_id Bx)) (
    guard (in_leps z1) (
    guard (in_lprimeeps z2) (
    guard (ped_verify nh s t z1 z3 e E S) (
    guard (ped_verify nh s t z2 z4 e F T) (
    match enc n0 z2 w with
    | None => None
    | Some c =>
        guard (add n0 c (mul n0 z1 Kv) =? add n0 (mul n0 e Dv) A) (
        guard (geqb (act z1 gbase) (gadd (act e Xp) Bx)) (
        enc_eq n1 z2 wy (add n1 (mul n1 e Fp) By)
        accept))
    end)))))))))).
  Definition affg_commit (nh s t n1 n0 Kv x y alpha beta rho rhoy gamma m delta mu : Z)
    : option (Z * G * Z * Z * Z * Z * Z) :=
    match enc n0 beta rho, enc n1 beta rhoy with
    | Some c, Some By =>
        Some (add n0 c (mul n0 alpha Kv), act alpha gbase, By,
              ped_commit nh s t alpha gamma, ped_commit nh s t x m,
              ped_commit nh s t beta delta, ped_commit nh s t y mu)
    | _, _ => None
    end.
  Definition affg_respond (n1 n0 x y sn r alpha beta rho rhoy gamma m delta mu e : Z) : Z * Z * Z * Z * Z * Z :=
    (e * x + alpha, e * y + beta, e * m + gamma, e * mu + delta,
     (expI n0 sn e * rho) mod n0, (expI n1 r e * rhoy) mod n1).

  (* ------------------------------------------------------------------------------------------ *)
  (* mulstar: D = (x (.) C) randomized by rho, X = x.G *)
  Definition mulstar_fields (nh s t n0 C D : Z) (X : G) (A : Z) (Bx : G) (E S : Z) : list fld :=
    [FPed nh s t; FPk n0; FCt C; FCt D; FP X; FCt A; FP Bx; FNatN nh E; FNatN nh S].
  Definition mulstar_challenge_items nh s t n0 C D X A Bx E S := map fld_hval (mulstar_fields nh s t n0 C D X A Bx E S).
  Definition mulstar_verify (nh s t n0 C D : Z) (X : G) (A : Z) (Bx : G) (E S z1 z2 w e : Z) : option bool :=
    guard (valid_mod nh E && valid_mod nh S) (
    guard (valid_mod n0 w) (
    guard (validate_ct n0 A) (
    guard (negb (gis_id Bx)) (
    guard (in_leps z1) (
    guard (ped_verify nh s t z1 z2 e E S) (
    guard (randomize n0 (mul n0 z1 C) w =? add n0 (mul n0 e D) A) (
    guard (geqb (act z1 gbase) (gadd (act e X) Bx))
    accept))))))).
  Definition mulstar_commit (nh s t n0 C x alpha r gamma m : Z) : Z * G * Z * Z :=
    (randomize n0 (mul n0 alpha C) r, act alpha gbase, ped_commit nh s t alpha gamma, ped_commit nh s t x m).
  Definition mulstar_respond (n0 x rho alpha r gamma m e : Z) : Z * Z * Z :=
    (e * x + alpha, e * m + gamma, (expI n0 rho e * r) mod n0).

  (* ------------------------------------------------------------------------------------------ *)
  (* encelg: C = Enc_N0(x; rho), A = a.G, B = b.G, X = (a b + x).G *)
  Definition encelg_fields (nh s t n0 C : Z) (A B X : G) (S D : Z) (Y Zp : G) (T : Z) : list fld :=
    [FPed nh s t; FPk n0; FCt C; FP A; FP B; FP X; FNatN nh S; FCt D; FP Y; FP Zp; FNatN nh T].
  Definition encelg_challenge_items nh s t n0 C A B X S D Y Zp T :=
    map fld_hval (encelg_fields nh s t n0 C A B X S D Y Zp T).
  Definition encelg_verify (nh s t n0 C : Z) (A B X : G) (S D : Z) (Y Zp : G) (T : Z) (z1 w z2 z3 e : Z) : option bool :=
    guard (valid_mod nh S && valid_mod nh T) (
    guard (validate_ct n0 D) (
    guard (negb (sc_zero w || gis_id Y || gis_id Zp)) (
    guard (valid_mod n0 z2) (
    guard (in_leps z1) (
    enc_eq n0 z1 z2 (add n0 (mul n0 e C) D) (
    guard (geqb (gadd (act z1 gbase) (act w A)) (gadd (act e X) Y)) (
    guard (geqb (act w gbase) (gadd (act e B) Zp)) (
    guard (ped_verify nh s t z1 z3 e T S)
    accept)))))))).
  Definition encelg_commit (nh s t n0 : Z) (A : G) (x alpha mu r beta gamma : Z) : option (Z * Z * G * G * Z) :=
    match enc n0 alpha r with
    | None => None
    | Some D => Some (ped_commit nh s t x mu, D, gadd (act beta A) (act alpha gbase), act beta gbase,
                      ped_commit nh s t alpha gamma)
    end.
  Definition encelg_respond (n0 x rho b alpha mu r beta gamma e : Z) : Z * Z * Z * Z :=
    (e * x + alpha, (((e mod q) * (b mod q)) mod q + beta mod q) mod q, (expI n0 rho e * r) mod n0, e * mu + gamma).
End Curve.

(* ------------------------------------------------------------------------------------------ *)
(* nth: R = rho^N mod N^2 *)
Definition nth_fields (n R A : Z) : list fld := [FPk n; FNatN (n * n) R; FNatN (n * n) A].
Definition nth_challenge_items n R A := map fld_hval (nth_fields n R A).
Definition nth_verify (n R A z e : Z) : option bool :=
  guard (valid_mod n z) (
  guard (valid_mod (n * n) A) (
  guard (powmod (n * n) z n =? (expI (n * n) R e * A) mod (n * n))
  accept)).
Definition nth_commit (n alpha : Z) : Z := powmod (n * n) alpha n.
Definition nth_respond (n rho alpha e : Z) : Z := (expI n rho e * alpha) mod n.
Definition nth_prove n rho alpha e := (nth_commit n alpha, nth_respond n rho alpha e).

(* ------------------------------------------------------------------------------------------ *)
(* enc: K = Enc_N0(k; rho), k in +-2^l *)
Definition enc_fields (nh s t n0 K S A C : Z) : list fld :=
  [FPed nh s t; FPk n0; FCt K; FNatN nh S; FCt A; FNatN nh C].
Definition enc_challenge_items nh s t n0 K S A C := map fld_hval (enc_fields nh s t n0 K S A C).
Definition enc_verify (nh s t n0 K S A C z1 z2 z3 e : Z) : option bool :=
  guard (valid_mod nh S && valid_mod nh C) (
  guard (validate_ct n0 A) (
  guard (valid_mod n0 z2) (
  guard (in_leps z1) (
  guard (ped_verify nh s t z1 z3 e C S) (
  enc_eq n0 z1 z2 (add n0 (mul n0 e K) A)
  accept))))).
Definition enc_commit (nh s t n0 k alpha r mu gamma : Z) : option (Z * Z * Z) :=
  match enc n0 alpha r with
  | None => None
  | Some A => Some (ped_commit nh s t k mu, A, ped_commit nh s t alpha gamma)
  end.

(* ------------------------------------------------------------------------------------------ *)
(* mul: X = Enc(x; rhox), C = (x (.) Y) randomized by rho; all under the prover's key *)
Definition mul_fields (n X Y C A B : Z) : list fld := [FPk n; FCt X; FCt Y; FCt C; FCt A; FCt B].
Definition mul_challenge_items n X Y C A B := map fld_hval (mul_fields n X Y C A B).
Definition mul_verify (n X Y C A B z u v e : Z) : option bool :=
  guard (valid_mod n u && valid_mod n v) (
  guard (validate_ct n A && validate_ct n B) (
  guard (in_plaintext n z) (
  guard (randomize n (mul n z Y) u =? add n (mul n e C) A) (
  enc_eq n z v (add n (mul n e X) B)
  accept)))).
Definition mul_commit (n Y alpha r s : Z) : option (Z * Z) :=
  match enc n alpha s with
  | None => None
  | Some B => Some (randomize n (mul n alpha Y) r, B)
  end.
Definition mul_respond (n x rho rhox alpha r s e : Z) : Z * Z * Z :=
  (e * x + alpha, (expI n rho e * r) mod n, (expI n rhox e * s) mod n).

(* ------------------------------------------------------------------------------------------ *)
(* affp: as affg with Xp = Enc_N1(x; rx) *)
Definition affp_fields (nh s t n1 n0 Kv Dv Fp Xp A Bx By E S F T : Z) : list fld :=
  [FPed nh s t; FPk n1; FPk n0; FCt Kv; FCt Dv; FCt Fp; FCt Xp;
   FCt A; FCt Bx; FCt By; FNatN nh E; FNatN nh S; FNatN nh F; FNatN nh T].
Definition affp_challenge_items nh s t n1 n0 Kv Dv Fp Xp A Bx By E S F T :=
  map fld_hval (affp_fields nh s t n1 n0 Kv Dv Fp Xp A Bx By E S F T).
Definition affp_verify (nh s t n1 n0 Kv Dv Fp Xp A Bx By E S F T z1 z2 z3 z4 w wx wy e : Z) : option bool :=
  guard (valid_mod nh E && valid_mod nh S && valid_mod nh F && valid_mod nh T) (
  guard (validate_ct n0 A) (
  guard (validate_ct n1 Bx && validate_ct n1 By) (
  guard (valid_mod n1 wx && valid_mod n1 wy) (
  guard (valid_mod n0 w) (
  guard (in_leps z1) (
  guard (in_lprimeeps z2) (
  match enc n0 z2 w with
  | None => None
  | Some c =>
      guard (add n0 c (mul n0 z1 Kv) =? add n0 (mul n0 e Dv) A) (
      enc_eq n1 z1 wx (add n1 (mul n1 e Xp) Bx) (
      enc_eq n1 z2 wy (add n1 (mul n1 e Fp) By) (
      guard (ped_verify nh s t z1 z3 e E S) (
      guard (ped_verify nh s t z2 z4 e F T)
      accept))))
  end))))))).
Definition affp_commit (nh s t n1 n0 Kv x y alpha beta rho rhox rhoy gamma m delta mu : Z)
  : option (Z * Z * Z * Z * Z * Z * Z) :=
  match enc n0 beta rho, enc n1 alpha rhox, enc n1 beta rhoy with
  | Some c, Some Bx, Some By =>
      Some (add n0 c (mul n0 alpha Kv), Bx, By,
            ped_commit nh s t alpha gamma, ped_commit nh s t x m,
            ped_commit nh s t beta delta, ped_commit nh s t y mu)
  | _, _, _ => None
  end.
Definition affp_respond (n1 n0 x y sn rx r alpha beta rho rhox rhoy gamma m delta mu e : Z)
  : Z * Z * Z * Z * Z * Z * Z :=
  (e * x + alpha, e * y + beta, e * m + gamma, e * mu + delta,
   (expI n0 sn e * rho) mod n0, (expI n1 rx e * rhox) mod n1, (expI n1 r e * rhoy) mod n1).

(* ------------------------------------------------------------------------------------------ *)
(* fac: N0 = p q with p, q < 2^l sqrt(N0).  Sigma is a proof field that is NOT part of the transcript. *)
Definition fac_fields (n0 nh s t P Q A B T : Z) : list fld :=
  [FMod n0; FPed nh s t; FNatN nh P; FNatN nh Q; FNatN nh A; FNatN nh B; FNatN nh T].
Definition fac_challenge_items n0 nh s t P Q A B T := map fld_hval (fac_fields n0 nh s t P Q A B T).
Definition fac_verify (n0 nh s t P Q A B T sigma z1 z2 w1 w2 v e : Z) : option bool :=
  guard (valid_mod nh P && valid_mod nh Q && valid_mod nh A && valid_mod nh B && valid_mod nh T) (
  guard (zk_bounded sigma && zk_bounded z1 && zk_bounded z2 && zk_bounded w1 && zk_bounded w2 && zk_bounded v) (
  guard (ped_verify nh s t z1 w1 e A P) (
  guard (ped_verify nh s t z2 w2 e B Q) (
  let R := (powmod nh s n0 * expI nh t sigma) mod nh in
  let lhs := (expI nh Q z1 * expI nh t v) mod nh in
  let rhs := (expI nh R e * T) mod nh in
  guard (lhs =? rhs) (
  guard (in_leps1rootn z1 && in_leps1rootn z2)
  accept))))).
Definition fac_commit (nh s t p q alpha beta mu nu r x y : Z) : Z * Z * Z * Z * Z :=
  let Q := ped_commit nh s t q nu in
  (ped_commit nh s t p mu, Q, ped_commit nh s t alpha x, ped_commit nh s t beta y,
   (expI nh Q alpha * expI nh t r) mod nh).
Definition fac_respond (p q alpha beta mu nu sigma r x y e : Z) : Z * Z * Z * Z * Z :=
  (e * p + alpha, e * q + beta, e * mu + x, e * nu + y, e * (sigma - nu * p) + r).

(* ------------------------------------------------------------------------------------------ *)
(* prm: s = t^lambda mod N; StatParam parallel repetitions with one challenge bit each *)
Definition prm_fields (n s t : Z) (As : list Z) : list fld := FPed n s t :: map FBig As.
Definition prm_challenge_items n s t As := map fld_hval (prm_fields n s t As).
Fixpoint prm_rounds (n s t : Z) (As Zs : list Z) (es : list bool) : bool :=
  match As, Zs, es with
  | [], [], [] => true
  | a :: As', z :: Zs', e :: es' =>
      valid_big n a && valid_big n z && negb (a =? 1) &&
      (powmod n t z =? (if e then (a * s) mod n else a)) &&
      prm_rounds n s t As' Zs' es'
  | _, _, _ => false
  end.
(* Parallelize evaluates every round; the verdict is the conjunction *)
Definition prm_verify (n s t : Z) (As Zs : list Z) (es : list bool) : option bool :=
  guard (ped_validate n s t) (
  guard (forallb (valid_big n) (As ++ Zs)) (     (* Proof.IsValid, before any work goes to the pool *)
  guard (prm_rounds n s t As Zs es)
  accept)).
Definition prm_commit (n t : Z) (al : list Z) : list Z := map (fun a => powmod n t a) al.
Definition prm_respond (phi lambda : Z) (al : list Z) (es : list bool) : list Z :=
  map (fun ae : Z * bool => let '(a, e) := ae in if e then (a + lambda) mod phi else a) (combine al es).

(* ------------------------------------------------------------------------------------------ *)
(* mod: N is a Blum integer.  big.Jacobi and ProbablyPrime *)
Fixpoint tz_pos (p : positive) : Z * positive :=
  match p with
  | xO p' => let '(k, r) := tz_pos p' in (k + 1, r)
  | _ => (0, p)
  end.

(* Jacobi symbol (a / n) for odd n > 0, binary algorithm; fuel = 2 log2 n + 3 iterations *)
Fixpoint jacobi_go (fuel : nat) (a n acc : Z) : Z :=
  match fuel with
  | O => 0
  | S f =>
      match a mod n with
      | Zpos p =>
          let '(k, r) := tz_pos p in
          let n8 := n mod 8 in
          let acc := if Z.odd k && ((n8 =? 3) || (n8 =? 5)) then - acc else acc in
          let a' := Zpos r in
          let acc := if (a' mod 4 =? 3) && (n mod 4 =? 3) then - acc else acc in
          jacobi_go f n a' acc
      | _ => if n =? 1 then acc else 0
      end
  end.
Definition jacobi (a n : Z) : Z := jacobi_go (Z.to_nat (2 * Z.log2 n + 3)) a n 1.

(* Miller-Rabin for one base *)
Fixpoint mr_squares (k : nat) (n x : Z) : bool :=
  match k with
  | O => false
  | S k' => let x2 := (x * x) mod n in
            if x2 =? n - 1 then true else mr_squares k' n x2
  end.
Definition mr_pass (n a : Z) : bool :=
  match n - 1 with
  | Zpos p =>
      let '(s, d) := tz_pos p in
      let x := powmod n a (Zpos d) in
      (a mod n =? 0) || (x =? 1) || (x =? n - 1) || mr_squares (Z.to_nat s - 1)%nat n x
  | _ => false
  end.
Definition mr_bases : list Z := [2; 3; 5; 7; 11; 13; 17; 19; 23; 29; 31; 37].
Definition probably_prime (n : Z) : bool :=
  (1 <? n) && ((n =? 2) || (Z.odd n && forallb (mr_pass n) mr_bases)).

Definition mod_fields (n w : Z) : list fld := [FMod n; FBig w].
Definition mod_challenge_items n w := map fld_hval (mod_fields n w).

(* Response.Verify(n, w, y) *)
Definition mod_response (n w y : Z) (r : bool * bool * Z * Z) : bool :=
  let '(a, b, x, z) := r in
  (powmod n z n =? y) &&
  ((x * x * (x * x)) mod n =? ((if a then - y else y) * (if b then w else 1)) mod n).
Fixpoint mod_rounds (n w : Z) (ys : list Z) (rs : list (bool * bool * Z * Z)) : bool :=
  match ys, rs with
  | [], [] => true
  | y :: ys', r :: rs' => mod_response n w y r && mod_rounds n w ys' rs'
  | _, _ => false
  end.
(* Proof.IsValid (since the fix "zkmod.Verify validates W and the responses"): W valid, Jacobi symbol -1, every X and Z valid *)
Definition mod_resp_valid (n : Z) (r : bool * bool * Z * Z) : bool :=
  let '(_, _, x, z) := r in valid_big n x && valid_big n z.
Definition mod_verify (n w : Z) (rs : list (bool * bool * Z * Z)) (ys : list Z) : option bool :=
  guard (negb (Z.even n || probably_prime n)) (
  guard (valid_big n w) (
  guard (jacobi w n =? -1) (
  guard (forallb (mod_resp_valid n) rs) (
  guard (mod_rounds n w ys rs)
  accept)))).

(* the verifier before that fix: Proof.IsValid was never called, X and Z were *big.Int of either sign and any size
   (kept for the regression witness C10.ex_mod_v0_range_refuted) *)
Definition mod_verify_v0 (n w : Z) (rs : list (bool * bool * Z * Z)) (ys : list Z) : option bool :=
  guard (negb (Z.even n || probably_prime n)) (
  guard (jacobi w n =? -1) (
  guard (valid_big n w) (
  guard (mod_rounds n w ys rs)
  accept))).

(* the prover (p, q the factors, w the non-residue, ys the challenge) *)
Definition is_qr_pq (p q y : Z) : bool := (powmod p y (p / 2) =? 1) && (powmod q y (q / 2) =? 1).
Definition fourth_root_exp (phi : Z) : Z := let e := (phi + 4) / 8 in (e * e) mod phi.
Definition make_qr (p q w y : Z) : bool * bool * Z :=
  let n := p * q in
  let o := y mod n in
  if is_qr_pq p q o then (false, false, o)
  else let o := (- o) mod n in
  if is_qr_pq p q o then (true, false, o)
  else let o := (o * w) mod n in
  if is_qr_pq p q o then (true, true, o)
  else (false, true, (- o) mod n).
Definition mod_respond1 (p q w y : Z) : bool * bool * Z * Z :=
  let n := p * q in
  let phi := (p - 1) * (q - 1) in
  let z := powmod n y (modinv phi n) in
  let '(a, b, y') := make_qr p q w y in
  (a, b, powmod n y' (fourth_root_exp phi), z).
Definition mod_respond (p q w : Z) (ys : list Z) : list (bool * bool * Z * Z) := map (mod_respond1 p q w) ys.
