(* DispatchOT.v -- ops for the OT model (C13): decode sx arguments, run Model/OT.v.

   Encodings
   * byte strings: [Bs]; numbers, scalars, sizes: [At]; lists: [Li].
   * a bit vector argument ("choices") is either [Bs data] (bit i = bitAt(i, data)) or
     [Li [At 0/1; ...]] (one entry per bit).
   * a 16-byte GF element argument (a, b, X, Delta, rows, chi) is [Bs] of 16 bytes, exactly the Go
     [params.OTBytes]byte; a fieldElement ([4]uint64, little endian limbs) is [Bs] of 32 bytes:
     limb 0 little endian, then limb 1, ... (= the little-endian bytes of the 256-bit number).
   * bit matrices are flattened row after row: "ot.transpose (Li [At rows; At cols; Bs data])" takes
     [rows] entries of [cols/8] bytes each (Go: M[j], j < rows = OTParam, l = cols) and returns the
     [cols] transposed rows of [(rows+7)/8] bytes each, concatenated.
   * booleans are returned as [At 1] / [At 0].
   * a [res] value is returned as  Li [At 0; v] (normal return), Li [At 1] (Go returns an error),
     Li [At 2] (Go panics: index out of range).
   * scalar pairs are [Li [At x0; At x1]].
   [None] (reported by [run] as sx_err 2) = malformed arguments.

   Ops
     ot.bit_at        (Li [At i; Bs data])                              -> res bool
     ot.transpose     (Li [At rows; At cols; Bs data])                  -> Bs
     ot.accumulate    (Li [Bs a16; Bs b16]) | (Li [Bs f32; Bs a16; Bs b16]) -> Bs f32'   (loop as written)
     ot.clmul         (Li [Bs a16; Bs b16])                             -> Bs 32         (reference product)
     ot.fe_eq         (Li [Bs f32; Bs g32])                             -> bool
     ot.gadget        (Li [At q; At nbytes; Li noise])                  -> Li [At g_j ...]
     ot.gadget_dot    (Li [Li g; choices]) | (Li [At q; Li g; choices]) -> At            (q defaults to secp256k1)
     ot.encode        (Li [At q; At nbytes; At beta; Li noise; Bs gamma]) -> res Bs
     ot.encode_check  (Li [At q; Li g; choices; At beta])               -> bool          (<choices, g> = beta mod q)
     ot.corre_check   (Li [Bs delta; choices; Li Trows; Li Qrows])      -> bool
     ot.ext_x         (Li [At k8; choices(extra); Li chi])              -> Bs            (the message field X)
     ot.ext_t         (Li [Li rows; Li chi])                            -> Bs 32         (sum rows_i * chi_i)
     ot.ext_check     (Li [Bs delta; Li Qrows; Li chi; Bs X; Bs T32])   -> bool          (sender's check)
     ot.masked_pad    (Li [At c; Bs pad]) | (Li [lens; At c; Bs pad])   -> res Bs        (AdditiveOT.Round2 mask loop,
                                                                                         repaired code: whole pad, always ok;
                                                                                         [lens] is accepted and ignored)
     ot.masked_pad_v0 (Li [Li [At len_j ...]; At c; Bs pad])            -> res Bs        (mask loop before the repair)
     ot.additive_recv_class (Li [At q; At nbytes; choices; Li [Li [Bs p0; Bs p1] ...]]) -> res (At 0)
                      outcome of AdditiveOTReceiver.Round2 on the message: wrong number of pads or an
                      undecodable masked pad = error (never a panic)
     ot.additive_check (Li [At q; At alpha; choices; Li send; Li recv]) -> bool          (one component)
     ot.mult_recv_check (Li [At q; At chi0; At chi1; choices; Li result; Li rcheck; At ucheck]) -> res (At 0)
                      (repaired code: len(rcheck) != len(result) is an error)
     ot.mult_recv_check_v0 (same arguments)                             -> res (At 0)   (before the repair)
     ot.mult_check    (Li [At q; At alpha; At beta; At share_s; At share_r]) -> bool *)
From Coq Require Import String.
From Coq Require Import List NArith ZArith Bool.
From MPS Require Import Model.Bytes Model.Sx Model.Framing Model.OT.
Import ListNotations.

Definition sx_res {A} (f : A -> sx) (r : res A) : sx :=
  match r with
  | ROk a => Li [At 0%Z; f a]
  | RErr => Li [At 1%Z]
  | RPanic => Li [At 2%Z]
  end.

Definition as_choices (s : sx) : option bytes :=
  match s with
  | Bs b => Some b
  | Li l => do bs <- map_opt as_bool l; Some (bytes_of_bits bs)
  | _ => None
  end.
Definition as_choice_bits (s : sx) : option (list bool) :=
  match s with
  | Bs b => Some (bits_of_bytes b)
  | Li l => map_opt as_bool l
  | _ => None
  end.
Definition as_bytes_n (n : nat) (s : sx) : option bytes :=
  match s with Bs b => if (length b =? n)%nat then Some b else None | _ => None end.
Definition as_pair (s : sx) : option (Z * Z) :=
  match s with Li [At a; At b] => Some (a, b) | _ => None end.

(* split a flat byte string into [n] chunks of [k] bytes *)
Fixpoint chunks (n k : nat) (d : bytes) : list bytes :=
  match n with
  | O => []
  | S n' => firstn k d :: chunks n' k (skipn k d)
  end.

Definition op_ot_bit_at (arg : sx) : option sx :=
  match arg with
  | Li [i; Bs d] =>
      do i <- as_nat i;
      Some (sx_res sx_bool (match bit_at_opt i d with Some b => ROk b | None => RPanic end))
  | _ => None end.

Definition op_ot_transpose (arg : sx) : option sx :=
  match arg with
  | Li [rows; cols; Bs d] =>
      do rows <- as_nat rows; do cols <- as_nat cols;
      if negb ((cols mod 8 =? 0)%nat && (length d =? rows * (cols / 8))%nat) then None
      else Some (Bs (concat (transpose_bits cols (chunks rows (cols / 8) d))))
  | _ => None end.

Definition op_ot_accumulate (arg : sx) : option sx :=
  match arg with
  | Li [a; b] =>
      do a <- as_bytes_n 16 a; do b <- as_bytes_n 16 b;
      Some (Bs (fe_to_bytes (accumulate_bytes 0 a b)))
  | Li [f; a; b] =>
      do f <- as_bytes_n 32 f; do a <- as_bytes_n 16 a; do b <- as_bytes_n 16 b;
      Some (Bs (fe_to_bytes (accumulate_bytes (fe_of_bytes f) a b)))
  | _ => None end.

Definition op_ot_clmul (arg : sx) : option sx :=
  match arg with
  | Li [a; b] =>
      do a <- as_bytes_n 16 a; do b <- as_bytes_n 16 b;
      Some (Bs (fe_to_bytes (clmul (le_val a) (le_val b))))
  | _ => None end.

Definition op_ot_fe_eq (arg : sx) : option sx :=
  match arg with
  | Li [f; g] =>
      do f <- as_bytes_n 32 f; do g <- as_bytes_n 32 g;
      Some (sx_bool (fe_eq (fe_of_bytes f) (fe_of_bytes g)))
  | _ => None end.

Definition op_ot_gadget (arg : sx) : option sx :=
  match arg with
  | Li [At q; nb; noise] =>
      do nb <- as_nat nb; do noise <- as_list_of as_Z noise;
      Some (sx_list At (make_gadget q nb noise))
  | _ => None end.

Definition op_ot_gadget_dot (arg : sx) : option sx :=
  match arg with
  | Li [At q; g; ch] =>
      do g <- as_list_of as_Z g; do ch <- as_choices ch; Some (At (gadget_dot q g ch))
  | Li [g; ch] =>
      do g <- as_list_of as_Z g; do ch <- as_choices ch; Some (At (gadget_dot secp256k1_q g ch))
  | _ => None end.

Definition op_ot_encode (arg : sx) : option sx :=
  match arg with
  | Li [At q; nb; At beta; noise; Bs gamma] =>
      do nb <- as_nat nb; do noise <- as_list_of as_Z noise;
      Some (sx_res Bs (encode_opt q nb beta noise gamma))
  | _ => None end.

Definition op_ot_encode_check (arg : sx) : option sx :=
  match arg with
  | Li [At q; g; ch; At beta] =>
      do g <- as_list_of as_Z g; do ch <- as_choices ch;
      Some (sx_bool (gadget_dot q g ch =? beta mod q)%Z)
  | _ => None end.

Definition op_ot_corre_check (arg : sx) : option sx :=
  match arg with
  | Li [Bs delta; ch; T; Q] =>
      do ch <- as_choices ch; do T <- as_list_of as_bytes T; do Q <- as_list_of as_bytes Q;
      Some (sx_bool (corre_check delta ch T Q))
  | _ => None end.

Definition op_ot_ext_x (arg : sx) : option sx :=
  match arg with
  | Li [k8; extra; chi] =>
      do k8 <- as_nat k8; do extra <- as_choices extra; do chi <- as_list_of as_bytes chi;
      Some (Bs (ext_X k8 extra chi))
  | _ => None end.

Definition op_ot_ext_t (arg : sx) : option sx :=
  match arg with
  | Li [rows; chi] =>
      do rows <- as_list_of (as_bytes_n 16) rows; do chi <- as_list_of (as_bytes_n 16) chi;
      Some (Bs (fe_to_bytes (ext_acc rows chi 0)))
  | _ => None end.

Definition op_ot_ext_check (arg : sx) : option sx :=
  match arg with
  | Li [delta; Q; chi; X; T] =>
      do delta <- as_bytes_n 16 delta; do Q <- as_list_of (as_bytes_n 16) Q;
      do chi <- as_list_of (as_bytes_n 16) chi; do X <- as_bytes_n 16 X; do T <- as_bytes_n 32 T;
      Some (sx_bool (ext_send_check delta Q chi X (fe_of_bytes T)))
  | _ => None end.

Definition op_ot_masked_pad (arg : sx) : option sx :=
  match arg with
  | Li [c; Bs pad] => do c <- as_bool c; Some (sx_res Bs (ROk (masked_pad c pad)))
  | Li [Li _; c; Bs pad] => do c <- as_bool c; Some (sx_res Bs (ROk (masked_pad c pad)))
  | _ => None end.

Definition op_ot_masked_pad_v0 (arg : sx) : option sx :=
  match arg with
  | Li [lens; c; Bs pad] =>
      do lens <- as_list_of as_nat lens; do c <- as_bool c;
      Some (sx_res Bs (masked_pad_v0 lens c pad))
  | _ => None end.

Definition as_bytes_pair (s : sx) : option (bytes * bytes) :=
  match s with Li [Bs a; Bs b] => Some (a, b) | _ => None end.

Definition op_ot_additive_recv_class (arg : sx) : option sx :=
  match arg with
  | Li [At q; nb; ch; CP] =>
      do nb <- as_nat nb; do ch <- as_choices ch; do CP <- as_list_of as_bytes_pair CP;
      Some (sx_res (fun _ : unit => At 0%Z) (if additive_msg_ok q nb ch CP then ROk tt else RErr))
  | _ => None end.

Definition op_ot_additive_check (arg : sx) : option sx :=
  match arg with
  | Li [At q; At alpha; ch; send; recv] =>
      do ch <- as_choice_bits ch; do send <- as_list_of as_Z send; do recv <- as_list_of as_Z recv;
      Some (sx_bool (additive_check1 q alpha (firstn (length send) ch) send recv))
  | _ => None end.

Definition op_ot_mult_recv_check (arg : sx) : option sx :=
  match arg with
  | Li [At q; At chi0; At chi1; ch; result; rcheck; At ucheck] =>
      do ch <- as_choices ch; do result <- as_list_of as_pair result; do rcheck <- as_list_of as_Z rcheck;
      Some (sx_res (fun _ : unit => At 0%Z) (mult_recv_check q chi0 chi1 ch result rcheck ucheck))
  | _ => None end.

Definition op_ot_mult_recv_check_v0 (arg : sx) : option sx :=
  match arg with
  | Li [At q; At chi0; At chi1; ch; result; rcheck; At ucheck] =>
      do ch <- as_choices ch; do result <- as_list_of as_pair result; do rcheck <- as_list_of as_Z rcheck;
      Some (sx_res (fun _ : unit => At 0%Z) (mult_recv_check_from q chi0 chi1 0 ch result rcheck ucheck))
  | _ => None end.

Definition op_ot_mult_check (arg : sx) : option sx :=
  match arg with
  | Li [At q; At alpha; At beta; At ss; At sr] => Some (sx_bool (mult_check q alpha beta ss sr))
  | _ => None end.

Definition ot_ops : list (bytes * (sx -> option sx)) :=
  [ (str "ot.bit_at"%string, op_ot_bit_at);
    (str "ot.transpose"%string, op_ot_transpose);
    (str "ot.accumulate"%string, op_ot_accumulate);
    (str "ot.clmul"%string, op_ot_clmul);
    (str "ot.fe_eq"%string, op_ot_fe_eq);
    (str "ot.gadget"%string, op_ot_gadget);
    (str "ot.gadget_dot"%string, op_ot_gadget_dot);
    (str "ot.encode"%string, op_ot_encode);
    (str "ot.encode_check"%string, op_ot_encode_check);
    (str "ot.corre_check"%string, op_ot_corre_check);
    (str "ot.ext_x"%string, op_ot_ext_x);
    (str "ot.ext_t"%string, op_ot_ext_t);
    (str "ot.ext_check"%string, op_ot_ext_check);
    (str "ot.masked_pad"%string, op_ot_masked_pad);
    (str "ot.masked_pad_v0"%string, op_ot_masked_pad_v0);
    (str "ot.additive_recv_class"%string, op_ot_additive_recv_class);
    (str "ot.additive_check"%string, op_ot_additive_check);
    (str "ot.mult_recv_check"%string, op_ot_mult_recv_check);
    (str "ot.mult_recv_check_v0"%string, op_ot_mult_recv_check_v0);
    (str "ot.mult_check"%string, op_ot_mult_check) ].
