(* SigEq -- the signing equations of the five signing protocols (CMP sign, CMP presign + online sign,
   FROST, FROST/Taproot, Doerner) written over an abstract scalar field / point module, following
   /repo/protocols/{cmp/sign,cmp/presign,frost/sign,doerner/sign} and /repo/pkg/ecdsa line by line.

   Executable, total definitions only.  The structure [alg] only packages carriers and operations;
   the laws (field, module) are hypotheses of the theorems in Proofs/SigningAlgebra.v.
   [Z101] at the end is the concrete instance (scalars = points = Z/101, generator 1) used by the
   Examples.

   Conventions used throughout:
   * a party is an [N] (its position / any injective code of its party.ID); maps [party.ID -> T] of the Go
     code are total functions [party -> T], only their values on the signer list matter;
   * [S] is the signer list ([round.Helper.PartyIDs()], sorted and duplicate-free by round.NewSession);
     a second list [S'] (a permutation of [S]) stands for the order in which one particular signer
     happens to iterate (several Go loops range over maps);
   * hash outputs (binding factors, challenges, Doerner's pads) are arbitrary scalars / arbitrary
     functions of their inputs;
   * zero-knowledge proofs, Paillier ciphertexts and the commitments of the presignature id do not occur:
     they do not enter the equations (they are C10 / C12 / C19). *)
From Coq Require Import List NArith ZArith Bool.
Import ListNotations.

Record alg : Type := mkAlg {
  Sc : Type;                       (* curve.Scalar *)
  sc0 : Sc; sc1 : Sc;
  scadd : Sc -> Sc -> Sc; scmul : Sc -> Sc -> Sc; scsub : Sc -> Sc -> Sc; scopp : Sc -> Sc;
  scdiv : Sc -> Sc -> Sc; scinv : Sc -> Sc;        (* Scalar.Invert *)
  sceqb : Sc -> Sc -> bool;                          (* Scalar.Equal *)
  Pt : Type;                       (* curve.Point *)
  pt0 : Pt;                        (* group.NewPoint(), the identity *)
  ptadd : Pt -> Pt -> Pt; ptopp : Pt -> Pt;          (* Point.Add, Point.Negate; Sub P Q = Add P (Negate Q) *)
  act : Sc -> Pt -> Pt;                              (* Scalar.Act *)
  base : Pt;                                         (* generator; Scalar.ActOnBase s = act s base *)
  pteqb : Pt -> Pt -> bool;                          (* Point.Equal *)
  xsc : Pt -> Sc                                     (* Point.XScalar *)
}.

(* the x-only (BIP-340) view of points needed by the Taproot variant of FROST *)
Record tapx (A : alg) : Type := mkTap {
  Xb : Type;                                   (* 32-byte x coordinate *)
  xbytes : Pt A -> Xb;                         (* Secp256k1Point.XBytes *)
  lift_x : Xb -> option (Pt A);                (* Secp256k1.LiftX *)
  has_even_y : Pt A -> bool;                   (* Secp256k1Point.HasEvenY *)
  xeqb : Xb -> Xb -> bool                      (* bytes.Equal *)
}.
Arguments Xb {A}. Arguments xbytes {A}. Arguments lift_x {A}. Arguments has_even_y {A}. Arguments xeqb {A}.

Definition party := N.

Section Defs.
  Variable A : alg.
  Local Notation "0" := (sc0 A).
  Local Notation "1" := (sc1 A).
  Local Infix "+" := (scadd A).
  Local Infix "*" := (scmul A).
  Local Notation "- x" := (scopp A x).
  Local Infix "+'" := (ptadd A) (at level 50, left associativity).
  Local Infix "•" := (act A) (at level 39, right associativity).
  Local Notation g := (base A).
  Local Notation F := (Sc A).
  Local Notation G := (Pt A).

  (* -------------------------------------------------------------------------------------------- *)
  (* accumulation loops, written as the Go code accumulates:  acc := init; for j in l { acc += f j } *)
  Definition accF (init : F) (f : party -> F) (l : list party) : F := fold_left (fun acc j => acc + f j) l init.
  Definition accG (init : G) (f : party -> G) (l : list party) : G := fold_left (fun acc j => acc +' f j) l init.
  Definition sumF (f : party -> F) (l : list party) : F := accF 0 f l.       (* s := NewScalar(); ... s.Add(f j) *)
  Definition sumG (f : party -> G) (l : list party) : G := accG (pt0 A) f l. (* P := NewPoint();  ... P = P.Add(f j) *)

  (* Helper.OtherPartyIDs(): the signer list with self removed *)
  Definition others (S : list party) (i : party) : list party := filter (fun j => negb (N.eqb j i)) S.

  Definition neg_if_sc (b : bool) (a : F) : F := if b then - a else a.
  Definition neg_if_pt (b : bool) (P : G) : G := if b then ptopp A P else P.
  Definition ptsub (P Q : G) : G := P +' ptopp A Q.

  (* pkg/ecdsa/signature.go Signature.Verify; [m] = curve.FromHash(hash) *)
  Definition ecdsa_verify (X : G) (m : F) (R : G) (s : F) : bool :=
    let r := xsc A R in
    if sceqb A r 0 || sceqb A s 0 then false
    else pteqb A (scinv A s • (m • g +' r • X)) R.

  (* -------------------------------------------------------------------------------------------- *)
  (* CMP: everything one honest run of cmp/sign or cmp/presign draws or receives                    *)
  Record cmp_run : Type := mkCmpRun {
    cS : list party;                 (* signers *)
    c_lam : party -> F;              (* polynomial.Lagrange(group, signers)[j] *)
    c_xs : party -> F;               (* config.ECDSA of party j (its Shamir share) *)
    c_k : party -> F;                (* KShare of j *)
    c_gam : party -> F;              (* GammaShare of j *)
    c_ad : party -> party -> F;      (* c_ad i j = DeltaShareAlpha[j] held by i  (decryption of D sent by j to i) *)
    c_bd : party -> party -> F;      (* c_bd i j = DeltaShareBeta[j]  held by i  (beta of i's ProveAff against K_j) *)
    c_ac : party -> party -> F;      (* ChiShareAlpha, same indexing *)
    c_bc : party -> party -> F;      (* ChiShareBeta,  same indexing *)
    c_m : F;                         (* curve.FromHash(group, message) *)
    c_ea : party -> F;               (* config.ElGamal of j (presign only) *)
    c_bk : party -> F;               (* ElGamalKNonce of j   (presign only) *)
    c_bchi : party -> F              (* ElGamalChiNonce of j (presign only) *)
  }.

  (* The MtA relation between what i decrypts and what j kept (internal/mta/mta.go: D = enc_i(a_j*k_i - beta),
     Beta = beta):      alpha_ij + beta_ji = a_j * k_i.                                               *)
  Definition mta_rel (alpha beta : party -> party -> F) (a b : party -> F) (i j : party) : Prop :=
    alpha i j + beta j i = a j * b i.

  (* sign.go / presign sign.go: SecretECDSA = lagrange[id]*config.ECDSA, ECDSA[j] = lagrange[j].Act(Public[j].ECDSA),
     PublicKey = sum_j ECDSA[j] over helper.PartyIDs() *)
  Definition cmp_secret (r : cmp_run) (i : party) : F := c_lam r i * c_xs r i.
  Definition cmp_pubshare (r : cmp_run) (j : party) : G := c_xs r j • g.
  Definition cmp_ECDSA (r : cmp_run) (j : party) : G := c_lam r j • cmp_pubshare r j.
  Definition cmp_PublicKey (r : cmp_run) : G := sumG (cmp_ECDSA r) (cS r).

  (* round3.Finalize / presign3.Finalize:
       DeltaShare = GammaShare*KShare; for j in others { DeltaShare += alpha[j]; DeltaShare += beta[j] } *)
  Definition mta_loop (init : F) (alpha beta : party -> F) (l : list party) : F :=
    fold_left (fun acc j => acc + alpha j + beta j) l init.
  Definition cmp_delta_share (r : cmp_run) (i : party) : F :=
    mta_loop (c_gam r i * c_k r i) (c_ad r i) (c_bd r i) (others (cS r) i).
  Definition cmp_chi_share (r : cmp_run) (i : party) : F :=
    mta_loop (cmp_secret r i * c_k r i) (c_ac r i) (c_bc r i) (others (cS r) i).
  Definition cmp_BigGammaShare (r : cmp_run) (i : party) : G := c_gam r i • g.
  Definition cmp_Gamma (r : cmp_run) : G := sumG (cmp_BigGammaShare r) (cS r).
  Definition cmp_BigDeltaShare (r : cmp_run) (i : party) : G := c_k r i • cmp_Gamma r.

  (* round4.Finalize, as a function of the broadcast tables only.
     None = AbortRound("computed Delta is inconsistent with [delta]G"); Some (BigR, r). *)
  Definition cmp_round4 (S' : list party) (Gamma : G) (dsh : party -> F) (Dsh : party -> G) : option (G * F) :=
    let Delta := sumF dsh S' in
    let BigDelta := sumG Dsh S' in
    if pteqb A (Delta • g) BigDelta
    then let BigR := scinv A Delta • Gamma in Some (BigR, xsc A BigR)
    else None.
  (* SigmaShare = R*ChiShare + m*KShare *)
  Definition cmp_sigma_share (r_ m k_i chi_i : F) : F := r_ * chi_i + m * k_i.
  (* round5.Finalize; None = AbortRound("failed to validate signature") *)
  Definition cmp_round5 (S' : list party) (X : G) (m : F) (BigR : G) (sig : party -> F) : option (G * F) :=
    let s := sumF sig S' in
    if ecdsa_verify X m BigR s then Some (BigR, s) else None.

  (* what a signer iterating in order S' outputs at the end of an all-honest run *)
  Definition cmp_sign_view (r : cmp_run) (S' : list party) : option (G * F) :=
    match cmp_round4 S' (sumG (cmp_BigGammaShare r) S') (cmp_delta_share r) (cmp_BigDeltaShare r) with
    | None => None
    | Some (BigR, rr) =>
        cmp_round5 S' (cmp_PublicKey r) (c_m r) BigR
                   (fun j => cmp_sigma_share rr (c_m r) (c_k r j) (cmp_chi_share r j))
    end.

  (* closed forms used in the statements: k = sum k_i, gamma = sum gamma_i, x = sum lambda_i x_i,
     R = k^-1 G, r = R|x, s = k (m + r x) *)
  Definition cmp_k (r : cmp_run) : F := sumF (c_k r) (cS r).
  Definition cmp_gamma (r : cmp_run) : F := sumF (c_gam r) (cS r).
  Definition cmp_x (r : cmp_run) : F := sumF (cmp_secret r) (cS r).
  Definition cmp_R (r : cmp_run) : G := scinv A (cmp_k r) • g.
  Definition cmp_r (r : cmp_run) : F := xsc A (cmp_R r).
  Definition cmp_s (r : cmp_run) : F := cmp_k r * (c_m r + cmp_r r * cmp_x r).
  (* both MtA instances of every ordered pair of distinct signers gave correct output shares (C12) *)
  Definition cmp_mta_ok (r : cmp_run) : Prop :=
    forall i j, In i (cS r) -> In j (cS r) -> i <> j ->
      mta_rel (c_ad r) (c_bd r) (c_gam r) (c_k r) i j /\ mta_rel (c_ac r) (c_bc r) (cmp_secret r) (c_k r) i j.

  (* -------------------------------------------------------------------------------------------- *)
  (* CMP presign (7 rounds) + sign1/sign2                                                          *)
  (* internal/elgamal Encrypt: (L, M) = (nonce*G, message*G + nonce*public) *)
  Definition elg_enc (Y : G) (msg nonce : F) : G * G := (nonce • g, msg • g +' nonce • Y).
  Definition ps_ElGamalPub (r : cmp_run) (j : party) : G := c_ea r j • g.
  Definition ps_ElGamalK (r : cmp_run) (j : party) : G * G := elg_enc (ps_ElGamalPub r j) (c_k r j) (c_bk r j).
  Definition ps_ElGamalChi (r : cmp_run) (j : party) : G * G :=
    elg_enc (ps_ElGamalPub r j) (cmp_chi_share r j) (c_bchi r j).

  (* the relations proved by zkelog (presign5/presign6 Finalize) and zklog (presign7, abort branch) *)
  Definition elog_rel (E : G * G) (Ypub Base Y : G) (y lam : F) : Prop :=
    fst E = lam • g /\ snd E = y • g +' lam • Ypub /\ Y = y • Base.
  Definition log_rel (H X Y : G) (a b : F) : Prop := H = b • g /\ X = a • g /\ Y = a • H.

  (* presign6.Finalize: None = go to abort1; Some (R, DeltaInv) *)
  Definition ps_round6 (S' : list party) (Gamma : G) (dsh : party -> F) (Dsh : party -> G) : option (G * F) :=
    let Delta := sumF dsh S' in
    let DeltaInv := scinv A Delta in
    let R := DeltaInv • Gamma in
    let BigDeltaExpected := Delta • g in
    let BigDeltaActual := sumG Dsh S' in
    if pteqb A BigDeltaActual BigDeltaExpected then Some (R, DeltaInv) else None.
  (* presign7.Finalize: false = go to abort2 *)
  Definition ps_round7 (S' : list party) (PublicKey : G) (Ssh : party -> G) : bool :=
    pteqb A PublicKey (sumG Ssh S').

  (* pkg/ecdsa/presignature.go *)
  Record presignature : Type := mkPre {
    pR : G; pRBar : party -> G; pS : party -> G; pK : F; pChi : F }.
  Definition signature_share (p : presignature) (m : F) : F :=
    let r := xsc A (pR p) in m * pK p + r * pChi p.
  Definition ps_signature (S' : list party) (p : presignature) (shares : party -> F) : G * F :=
    (pR p, sumF shares S').
  Definition share_ok (p : presignature) (m : F) (j : party) (share : F) : bool :=
    pteqb A (share • pR p) (m • pRBar p j +' xsc A (pR p) • pS p j).
  Definition verify_signature_shares (S' : list party) (p : presignature) (shares : party -> F) (m : F) : list party :=
    filter (fun j => negb (share_ok p m j (shares j))) S'.

  Inductive ps_out : Type :=
  | PsAbort1 | PsAbort2
  | PsSig (R : G) (s : F)
  | PsCulprits (l : list party).
  (* sign2.Finalize *)
  Definition ps_sign2 (S' : list party) (X : G) (m : F) (p : presignature) (shares : party -> F) : ps_out :=
    let '(R, s) := ps_signature S' p shares in
    if ecdsa_verify X m R s then PsSig R s
    else PsCulprits (verify_signature_shares S' p shares m).

  Definition ps_presig (r : cmp_run) (R : G) (DeltaInv : F) (j : party) : presignature :=
    {| pR := R;
       pRBar := fun l => DeltaInv • cmp_BigDeltaShare r l;
       pS := fun l => cmp_chi_share r l • R;
       pK := c_k r j; pChi := cmp_chi_share r j |}.
  (* the all-honest presign + online run as seen by signer [i] iterating in order S';
     X is the key sign2 verifies against (presign1.PublicKey in the full variant, config.PublicPoint() online) *)
  Definition ps_view (r : cmp_run) (S' : list party) (X : G) (i : party) : ps_out :=
    match ps_round6 S' (sumG (cmp_BigGammaShare r) S') (cmp_delta_share r) (cmp_BigDeltaShare r) with
    | None => PsAbort1
    | Some (R, DeltaInv) =>
        if negb (ps_round7 S' (cmp_PublicKey r) (fun l => cmp_chi_share r l • R)) then PsAbort2
        else ps_sign2 S' X (c_m r) (ps_presig r R DeltaInv i)
                      (fun j => signature_share (ps_presig r R DeltaInv j) (c_m r))
    end.

  (* abort1.Finalize: recomputation of delta_j from the revealed k, gamma and alpha tables
       delta = k_j*gamma_j; for l in PartyIDs, l <> j { delta += alpha[j][l]; delta += k_l*gamma_j; delta += -alpha[l][j] } *)
  Definition abort1_recompute (S : list party) (kk gg : party -> F) (al : party -> party -> F) (j : party) : F :=
    fold_left (fun delta l => delta + al j l + kk l * gg j + (- al l j)) (others S j) (kk j * gg j).
  Definition abort1_culprits (S : list party) (self : party) (kk gg : party -> F) (al : party -> party -> F)
             (dsh : party -> F) : list party :=
    filter (fun j => negb (sceqb A (abort1_recompute S kk gg al j) (dsh j))) (others S self).

  (* abort2.Finalize:  M = YHat_j + k_j*X_j; for l <> j { M += alpha^[j][l]*G; M += k_l*X_j; M -= alpha^[l][j]*G };
     compared with ElGamalChi[j].M *)
  Definition abort2_recompute (S : list party) (kk : party -> F) (al : party -> party -> F)
             (YHat Xs : party -> G) (j : party) : G :=
    fold_left (fun M l => ptsub (M +' al j l • g +' kk l • Xs j) (al l j • g))
              (others S j) (pt0 A +' YHat j +' kk j • Xs j).
  Definition abort2_culprits (S : list party) (self : party) (kk : party -> F) (al : party -> party -> F)
             (YHat Xs ChiM : party -> G) : list party :=
    filter (fun j => negb (pteqb A (abort2_recompute S kk al YHat Xs j) (ChiM j))) (others S self).

  (* Which ciphertext of the broadcast table ct[from][to] (DeltaCiphertext / ChiCiphertext) an Nth-root opening
     refers to.  [opens p c v] abstracts abortNth.Verify(paillier key of p, c) with Plaintext v.
     prover  (presign6.go:97, presign7.go:115): for j in others(self): opens ct[j][self]
     verifier as written (abort1.go:60, abort2.go:62): for id in DeltaProofs: checks against ct[from][id]
     verifier with the indices the prover used:                                 checks against ct[id][from] *)
  Section Openings.
    Variable C : Type.
    Variable opens : party -> C -> F -> bool.
    Definition abort_open_check_as_written (S : list party) (ct : party -> party -> C)
               (from : party) (plain : party -> F) : bool :=
      forallb (fun id => opens from (ct from id) (plain id)) (others S from).
    Definition abort_open_check_swapped (S : list party) (ct : party -> party -> C)
               (from : party) (plain : party -> F) : bool :=
      forallb (fun id => opens from (ct id from) (plain id)) (others S from).
  End Openings.

  (* -------------------------------------------------------------------------------------------- *)
  (* FROST sign                                                                                     *)
  Record frost_run : Type := mkFrostRun {
    fS : list party;
    f_lam : party -> F;       (* polynomial.Lagrange(PartyIDs)[l] *)
    f_s : party -> F;         (* PrivateShare of l *)
    f_d : party -> F; f_e : party -> F;    (* nonces of l *)
    f_rho : party -> F        (* binding factor rho_l = H(m, B, l) *)
  }.
  Definition frost_Yshare (r : frost_run) (l : party) : G := f_s r l • g.       (* VerificationShares[l] *)
  Definition frost_D (r : frost_run) (l : party) : G := f_d r l • g.
  Definition frost_E (r : frost_run) (l : party) : G := f_e r l • g.
  (* RShares[l] = rho[l].Act(E[l]).Add(D[l]);  R = sum_l RShares[l] *)
  Definition frost_Rshare (rho : party -> F) (D E : party -> G) (l : party) : G := rho l • E l +' D l.
  Definition frost_R (r : frost_run) : G := sumG (frost_Rshare (f_rho r) (frost_D r) (frost_E r)) (fS r).
  Definition frost_sk (r : frost_run) : F := sumF (fun l => f_lam r l * f_s r l) (fS r).        (* sum lambda_l s_l *)
  Definition frost_nonce (r : frost_run) : F := sumF (fun l => f_d r l + f_rho r l * f_e r l) (fS r).
  (* z_i = Lambda_i * s_i * c + d_i + rho_i * e_i *)
  Definition frost_z (lam s c d e rho : F) : F := lam * s * c + d + rho * e.
  (* round3.StoreBroadcastMessage: expected = c.Act(Lambda[from].Act(YShares[from])).Add(RShares[from]) *)
  Definition frost_share_ok (c : F) (lam : F) (Ysh Rsh : G) (z : F) : bool :=
    pteqb A (z • g) (c • (lam • Ysh) +' Rsh).
  (* frost/sign/types.go Signature.Verify; [c] is the recomputed challenge H(R, public, m) *)
  Definition frost_verify (c : F) (Y R : G) (z : F) : bool := pteqb A (c • Y +' R) (z • g).

  (* all-honest non-Taproot run; Hc R Y = challenge hash (message fixed); observer iterates in order S'.
     None = some share rejected or final self-verification failed *)
  Definition frost_view (Hc : G -> G -> F) (r : frost_run) (Y : G) (S' : list party) : option (G * F) :=
    let Rsh := frost_Rshare (f_rho r) (frost_D r) (frost_E r) in
    let R := sumG Rsh S' in
    let c := Hc R Y in
    let z l := frost_z (f_lam r l) (f_s r l) c (f_d r l) (f_e r l) (f_rho r l) in
    if forallb (fun l => frost_share_ok c (f_lam r l) (frost_Yshare r l) (Rsh l) (z l)) S'
    then let zz := sumF z S' in
         if frost_verify (Hc R Y) Y R zz then Some (R, zz) else None
    else None.

  (* Taproot *)
  Section Taproot.
    Variable T : tapx A.
    (* frost/keygen/round3.go:140-155: if the group key has odd y, negate the private share and all
       verification shares; the stored public key is the x coordinate *)
    Definition tap_key_flip (Yraw : G) : bool := negb (has_even_y T Yraw).
    Definition tap_adjust_share (Yraw : G) (s : F) : F := neg_if_sc (tap_key_flip Yraw) s.
    Definition tap_adjust_vshare (Yraw : G) (Ysh : G) : G := neg_if_pt (tap_key_flip Yraw) Ysh.
    Definition tap_pubkey (Yraw : G) : Xb T := xbytes T Yraw.

    (* the TaprootConfig contents produced from a raw sharing [r] whose raw group key is Yraw *)
    Definition tap_stored_run (r : frost_run) (Yraw : G) : frost_run :=
      mkFrostRun (fS r) (f_lam r) (fun l => tap_adjust_share Yraw (f_s r l)) (f_d r) (f_e r) (f_rho r).
    Definition tap_stored_vshares (r : frost_run) (Yraw : G) (l : party) : G :=
      tap_adjust_vshare Yraw (frost_Yshare r l).

    (* pkg/taproot/signature.go PublicKey.Verify; [Hc rx pk] = BIP0340/challenge hash (message fixed) *)
    Definition taproot_verify (Hc : Xb T -> Xb T -> F) (pk : Xb T) (rx : Xb T) (s : F) : bool :=
      match lift_x T pk with
      | None => false
      | Some P =>
          let e := Hc rx pk in
          let check := ptsub (s • g) (e • P) in
          if pteqb A check (pt0 A) then false
          else if negb (has_even_y T check) then false
          else xeqb T (xbytes T check) rx
      end.

    (* frost.SignTaproot + sign rounds with taproot = true.  [r] carries the shares as stored in the TaprootConfig
       (already adjusted), [pk] the stored x-only key, [Ysh] the stored verification shares. *)
    Definition frost_taproot_view (Hc : Xb T -> Xb T -> F) (r : frost_run) (pk : Xb T) (Ysh : party -> G)
               (S' : list party) : option (Xb T * F) :=
      match lift_x T pk with
      | None => None
      | Some Y =>
          let Rsh0 := frost_Rshare (f_rho r) (frost_D r) (frost_E r) in
          let R := sumG Rsh0 S' in
          let flip := negb (has_even_y T R) in
          let d l := neg_if_sc flip (f_d r l) in
          let e l := neg_if_sc flip (f_e r l) in
          let Rsh l := neg_if_pt flip (Rsh0 l) in
          let c := Hc (xbytes T R) (xbytes T Y) in
          let z l := frost_z (f_lam r l) (f_s r l) c (d l) (e l) (f_rho r l) in
          if forallb (fun l => frost_share_ok c (f_lam r l) (Ysh l) (Rsh l) (z l)) S'
          then let zz := sumF z S' in
               if taproot_verify Hc (xbytes T Y) (xbytes T R) zz then Some (xbytes T R, zz) else None
          else None
      end.
  End Taproot.

  (* -------------------------------------------------------------------------------------------- *)
  (* Doerner two-party signing (Sender = Alice, Receiver = Bob)                                     *)
  Record doerner_run : Type := mkDoernerRun {
    d_skA : F; d_skB : F;          (* config.SecretShare of Sender / Receiver *)
    d_kB : F;                      (* Receiver's nonce (before the in-place Invert) *)
    d_kAp : F;                     (* kAPrime *)
    d_phi : F;
    d_tA1 : F; d_tB1 : F;          (* outputs of multiply0 (Sender.Round1 / Receiver.Round2) *)
    d_tA21 : F; d_tB21 : F;        (* multiply1 *)
    d_tA22 : F; d_tB22 : F;        (* multiply2 *)
    d_m : F                        (* curve.FromHash(hash) *)
  }.
  Definition doerner_Public (r : doerner_run) : G := d_skA r • g +' d_skB r • g.   (* keygen: publicShare.Add(other's) *)
  Definition doerner_D (r : doerner_run) : G := d_kB r • g.
  Definition doerner_kBInv (r : doerner_run) : F := scinv A (d_kB r).
  (* round1S.Finalize *)
  Definition doerner_RPrime (r : doerner_run) : G := d_kAp r • doerner_D r.
  Definition doerner_kA (HR : G -> F) (r : doerner_run) : F := HR (doerner_RPrime r) + d_kAp r.
  Definition doerner_R_S (HR : G -> F) (r : doerner_run) : G := doerner_kA HR r • doerner_D r.
  (* inputs of the three multiplications *)
  Definition doerner_alpha0 (HR : G -> F) (r : doerner_run) : F := scinv A (doerner_kA HR r) + d_phi r.
  Definition doerner_alpha1 (HR : G -> F) (r : doerner_run) : F := d_skA r * scinv A (doerner_kA HR r).
  Definition doerner_alpha2 (HR : G -> F) (r : doerner_run) : F := scinv A (doerner_kA HR r).
  Definition doerner_beta0 (r : doerner_run) : F := doerner_kBInv r.
  Definition doerner_beta1 (r : doerner_run) : F := doerner_kBInv r.
  Definition doerner_beta2 (r : doerner_run) : F := d_skB r * doerner_kBInv r.
  Definition doerner_tA2 (r : doerner_run) : F := d_tA21 r + d_tA22 r.
  Definition doerner_tB2 (r : doerner_run) : F := d_tB21 r + d_tB22 r.
  Definition doerner_Gamma1_S (HR : G -> F) (r : doerner_run) : G :=
    ptsub (g +' d_phi r • (doerner_kA HR r • g)) (d_tA1 r • doerner_R_S HR r).
  Definition doerner_muPhi (HR HG1 : G -> F) (r : doerner_run) : F := HG1 (doerner_Gamma1_S HR r) + d_phi r.
  Definition doerner_sigA (HR : G -> F) (r : doerner_run) : F :=
    d_m r * d_tA1 r + xsc A (doerner_R_S HR r) * doerner_tA2 r.
  Definition doerner_Gamma2_S (r : doerner_run) : G :=
    ptsub (d_tA1 r • doerner_Public r) (doerner_tA2 r • g).
  Definition doerner_muSig (HR HG2 : G -> F) (r : doerner_run) : F := HG2 (doerner_Gamma2_S r) + doerner_sigA HR r.
  (* round2R.Finalize *)
  Definition doerner_R_R (HR : G -> F) (r : doerner_run) : G :=
    HR (doerner_RPrime r) • doerner_D r +' doerner_RPrime r.
  Definition doerner_Gamma1_R (HR : G -> F) (r : doerner_run) : G := d_tB1 r • doerner_R_R HR r.
  Definition doerner_phi_R (HR HG1 : G -> F) (r : doerner_run) : F :=
    - HG1 (doerner_Gamma1_R HR r) + doerner_muPhi HR HG1 r.
  Definition doerner_theta (HR HG1 : G -> F) (r : doerner_run) : F :=
    - (doerner_phi_R HR HG1 r * doerner_kBInv r) + d_tB1 r.
  Definition doerner_sigB (HR HG1 : G -> F) (r : doerner_run) : F :=
    d_m r * doerner_theta HR HG1 r + xsc A (doerner_R_R HR r) * doerner_tB2 r.
  Definition doerner_Gamma2_R (HR HG1 : G -> F) (r : doerner_run) : G :=
    ptsub (doerner_tB2 r • g) (doerner_theta HR HG1 r • doerner_Public r).
  Definition doerner_sigAB (HR HG1 HG2 : G -> F) (r : doerner_run) : F :=
    scsub A (doerner_sigB HR HG1 r + doerner_muSig HR HG2 r) (HG2 (doerner_Gamma2_R HR HG1 r)).
  (* closed forms: k = kA kB, R = k G, s = (m + r x)/k *)
  Definition doerner_R (HR : G -> F) (r : doerner_run) : G := (doerner_kA HR r * d_kB r) • g.
  Definition doerner_s (HR : G -> F) (r : doerner_run) : F :=
    scdiv A (d_m r + xsc A (doerner_R HR r) * (d_skA r + d_skB r)) (doerner_kA HR r * d_kB r).
  Definition doerner_ot_ok (HR : G -> F) (r : doerner_run) : Prop :=
    d_tA1 r + d_tB1 r = doerner_alpha0 HR r * doerner_beta0 r /\
    d_tA21 r + d_tB21 r = doerner_alpha1 HR r * doerner_beta1 r /\
    d_tA22 r + d_tB22 r = doerner_alpha2 HR r * doerner_beta2 r.
  (* Receiver's result; None = "failed to verify signature" *)
  Definition doerner_view (HR HG1 HG2 : G -> F) (r : doerner_run) : option (G * F) :=
    let R := doerner_R_R HR r in
    let s := doerner_sigAB HR HG1 HG2 r in
    if ecdsa_verify (doerner_Public r) (d_m r) R s then Some (R, s) else None.
End Defs.

Arguments cmp_k {A}.
Arguments cmp_gamma {A}.
Arguments cmp_x {A}.
Arguments cmp_R {A}.
Arguments cmp_r {A}.
Arguments cmp_s {A}.
Arguments cmp_mta_ok {A}.
Arguments elog_rel {A}.
Arguments log_rel {A}.
Arguments frost_sk {A}.
Arguments frost_nonce {A}.
Arguments tap_stored_run {A}.
Arguments tap_stored_vshares {A}.
Arguments doerner_R {A}.
Arguments doerner_s {A}.
Arguments doerner_ot_ok {A}.
Arguments accF {A}.
Arguments accG {A}.
Arguments sumF {A}.
Arguments sumG {A}.
Arguments neg_if_sc {A}.
Arguments neg_if_pt {A}.
Arguments ptsub {A}.
Arguments ecdsa_verify {A}.
Arguments cS {A}.
Arguments c_lam {A}.
Arguments c_xs {A}.
Arguments c_k {A}.
Arguments c_gam {A}.
Arguments c_ad {A}.
Arguments c_bd {A}.
Arguments c_ac {A}.
Arguments c_bc {A}.
Arguments c_m {A}.
Arguments c_ea {A}.
Arguments c_bk {A}.
Arguments c_bchi {A}.
Arguments mta_rel {A}.
Arguments cmp_secret {A}.
Arguments cmp_pubshare {A}.
Arguments cmp_ECDSA {A}.
Arguments cmp_PublicKey {A}.
Arguments mta_loop {A}.
Arguments cmp_delta_share {A}.
Arguments cmp_chi_share {A}.
Arguments cmp_BigGammaShare {A}.
Arguments cmp_Gamma {A}.
Arguments cmp_BigDeltaShare {A}.
Arguments cmp_round4 {A}.
Arguments cmp_sigma_share {A}.
Arguments cmp_round5 {A}.
Arguments cmp_sign_view {A}.
Arguments elg_enc {A}.
Arguments ps_ElGamalPub {A}.
Arguments ps_ElGamalK {A}.
Arguments ps_ElGamalChi {A}.
Arguments ps_round6 {A}.
Arguments ps_round7 {A}.
Arguments pR {A}.
Arguments pRBar {A}.
Arguments pS {A}.
Arguments pK {A}.
Arguments pChi {A}.
Arguments signature_share {A}.
Arguments ps_signature {A}.
Arguments share_ok {A}.
Arguments verify_signature_shares {A}.
Arguments PsAbort1 {A}.
Arguments PsAbort2 {A}.
Arguments PsSig {A}.
Arguments PsCulprits {A}.
Arguments ps_sign2 {A}.
Arguments ps_presig {A}.
Arguments ps_view {A}.
Arguments abort1_recompute {A}.
Arguments abort1_culprits {A}.
Arguments abort2_recompute {A}.
Arguments abort2_culprits {A}.
Arguments abort_open_check_as_written {A}.
Arguments abort_open_check_swapped {A}.
Arguments fS {A}.
Arguments f_lam {A}.
Arguments f_s {A}.
Arguments f_d {A}.
Arguments f_e {A}.
Arguments f_rho {A}.
Arguments frost_Yshare {A}.
Arguments frost_D {A}.
Arguments frost_E {A}.
Arguments frost_Rshare {A}.
Arguments frost_R {A}.
Arguments frost_z {A}.
Arguments frost_share_ok {A}.
Arguments frost_verify {A}.
Arguments frost_view {A}.
Arguments tap_key_flip {A}.
Arguments tap_adjust_share {A}.
Arguments tap_adjust_vshare {A}.
Arguments tap_pubkey {A}.
Arguments taproot_verify {A}.
Arguments frost_taproot_view {A}.
Arguments d_skA {A}.
Arguments d_skB {A}.
Arguments d_kB {A}.
Arguments d_kAp {A}.
Arguments d_phi {A}.
Arguments d_tA1 {A}.
Arguments d_tB1 {A}.
Arguments d_tA21 {A}.
Arguments d_tB21 {A}.
Arguments d_tA22 {A}.
Arguments d_tB22 {A}.
Arguments d_m {A}.
Arguments doerner_Public {A}.
Arguments doerner_D {A}.
Arguments doerner_kBInv {A}.
Arguments doerner_RPrime {A}.
Arguments doerner_kA {A}.
Arguments doerner_R_S {A}.
Arguments doerner_alpha0 {A}.
Arguments doerner_alpha1 {A}.
Arguments doerner_alpha2 {A}.
Arguments doerner_beta0 {A}.
Arguments doerner_beta1 {A}.
Arguments doerner_beta2 {A}.
Arguments doerner_tA2 {A}.
Arguments doerner_tB2 {A}.
Arguments doerner_Gamma1_S {A}.
Arguments doerner_muPhi {A}.
Arguments doerner_sigA {A}.
Arguments doerner_Gamma2_S {A}.
Arguments doerner_muSig {A}.
Arguments doerner_R_R {A}.
Arguments doerner_Gamma1_R {A}.
Arguments doerner_phi_R {A}.
Arguments doerner_theta {A}.
Arguments doerner_sigB {A}.
Arguments doerner_Gamma2_R {A}.
Arguments doerner_sigAB {A}.
Arguments doerner_view {A}.

(* ================================================================================================ *)
(* The concrete instance: scalars = points = Z/101 (additive group, generator 1).                   *)
(* Elements are canonical: the range proof of every element built by [z101] computes to eq_refl.     *)
Definition in101 (z : Z) : bool := (0 <=? z)%Z && (z <? 101)%Z.
Definition Z101 : Type := { z : Z | in101 z = true }.
Definition z101_zero : Z101 := exist _ 0%Z eq_refl.
Definition z101 (z : Z) : Z101 :=
  let r := (z mod 101)%Z in
  match Sumbool.sumbool_of_bool (in101 r) with
  | left e => exist _ r e
  | right _ => z101_zero
  end.
Definition zv (a : Z101) : Z := proj1_sig a.
Definition z101_add (a b : Z101) : Z101 := z101 (zv a + zv b).
Definition z101_mul (a b : Z101) : Z101 := z101 (zv a * zv b).
Definition z101_sub (a b : Z101) : Z101 := z101 (zv a - zv b).
Definition z101_opp (a : Z101) : Z101 := z101 (- zv a).
(* square and multiply, exponent as positive *)
Fixpoint z101_powpos (a : Z) (e : positive) : Z :=
  match e with
  | xH => (a mod 101)%Z
  | xO e' => let h := z101_powpos a e' in ((h * h) mod 101)%Z
  | xI e' => let h := z101_powpos a e' in ((((h * h) mod 101) * a) mod 101)%Z
  end.
Definition z101_inv (a : Z101) : Z101 := z101 (z101_powpos (zv a) 99).
Definition z101_div (a b : Z101) : Z101 := z101_mul a (z101_inv b).
Definition z101_eqb (a b : Z101) : bool := (zv a =? zv b)%Z.

(* toy "x coordinate": any function will do; this one is not constant and not the identity *)
Definition z101_xsc (P : Z101) : Z101 := z101 (zv P * zv P + 7).

Definition A101 : alg :=
  {| Sc := Z101; sc0 := z101 0; sc1 := z101 1;
     scadd := z101_add; scmul := z101_mul; scsub := z101_sub; scopp := z101_opp;
     scdiv := z101_div; scinv := z101_inv; sceqb := z101_eqb;
     Pt := Z101; pt0 := z101 0; ptadd := z101_add; ptopp := z101_opp;
     act := z101_mul; base := z101 1; pteqb := z101_eqb; xsc := z101_xsc |}.

(* x-only view of Z/101: P and -P share the "x coordinate" min(P, 101-P); "even y" = P <= 50 *)
Definition t101_xbytes (P : Z101) : Z := Z.min (zv P) ((101 - zv P) mod 101).
Definition t101_lift (x : Z) : option Z101 :=
  if (1 <=? x)%Z && (x <=? 50)%Z then Some (z101 x) else None.
Definition t101_even (P : Z101) : bool := (zv P <=? 50)%Z.
Definition T101 : tapx A101 := mkTap A101 Z t101_xbytes t101_lift t101_even Z.eqb.

(* ------------------------------------------------------------------------------------------------ *)
(* Concrete runs over Z/101 used by the Examples of Properties/C01_alg.v and Properties/C04_alg.v.   *)
(* Signers {1,2,3}; key polynomial f(X) = 9 + 4X + 2X^2, shares f(1),f(2),f(3) = 15,25,39;           *)
(* Lagrange coefficients at 0 for the points 1,2,3: 3, -3, 1.                                        *)
Definition zN (n : N) : Z := Z.of_N n.
Definition ex_S : list party := [1; 2; 3]%N.
Definition ex_lam (i : party) : Z101 :=
  if N.eqb i 1 then z101 3 else if N.eqb i 2 then z101 (-3) else if N.eqb i 3 then z101 1 else z101 0.
Definition ex_xs (i : party) : Z101 := z101 (9 + 4 * zN i + 2 * zN i * zN i).
Definition ex_k (i : party) : Z101 := z101 (3 + zN i).
Definition ex_gam (i : party) : Z101 := z101 (5 + 2 * zN i).
Definition ex_bd (i j : party) : Z101 := z101 (11 * zN i + 13 * zN j).
Definition ex_bc (i j : party) : Z101 := z101 (17 * zN i + 19 * zN j + 1).
Definition ex_ad (i j : party) : Z101 := z101_sub (z101_mul (ex_gam j) (ex_k i)) (ex_bd j i).
Definition ex_ac (i j : party) : Z101 :=
  z101_sub (z101_mul (z101_mul (ex_lam j) (ex_xs j)) (ex_k i)) (ex_bc j i).
Definition ex_cmp : cmp_run A101 :=
  mkCmpRun A101 ex_S ex_lam ex_xs ex_k ex_gam ex_ad ex_bd ex_ac ex_bc (z101 43)
           (fun i => z101 (2 + zN i)) (fun i => z101 (20 + zN i)) (fun i => z101 (30 + zN i)).

(* FROST: same key; nonces and binding factors arbitrary; challenge = an arbitrary function *)
Definition ex_frost : frost_run A101 :=
  mkFrostRun A101 ex_S ex_lam ex_xs (fun i => z101 (40 + zN i)) (fun i => z101 (50 + 3 * zN i))
             (fun i => z101 (60 + 7 * zN i)).
Definition ex_Hc (R Y : Z101) : Z101 := z101 (3 * zv R + 5 * zv Y + 1).
(* Taproot: key polynomial 60 + 4X + 2X^2 (raw group key 60 is "odd": 60 > 50), so the adjustment fires *)
Definition ex_frost_odd : frost_run A101 :=
  mkFrostRun A101 ex_S ex_lam (fun i => z101 (60 + 4 * zN i + 2 * zN i * zN i))
             (fun i => z101 (40 + zN i)) (fun i => z101 (50 + 3 * zN i)) (fun i => z101 (60 + 7 * zN i)).
Definition ex_HcT (rx pk : Z) : Z101 := z101 (3 * rx + 5 * pk + 1).

(* Doerner *)
Definition ex_HR (P : Z101) : Z101 := z101 (zv P + 3).
Definition ex_HG1 (P : Z101) : Z101 := z101 (2 * zv P + 1).
Definition ex_HG2 (P : Z101) : Z101 := z101 (zv P * zv P + 2).
Definition ex_doerner0 : doerner_run A101 :=
  mkDoernerRun A101 (z101 12) (z101 34) (z101 5) (z101 6) (z101 7)
               (z101 0) (z101 0) (z101 0) (z101 0) (z101 0) (z101 0) (z101 42).
Definition ex_doerner : doerner_run A101 :=
  mkDoernerRun A101 (z101 12) (z101 34) (z101 5) (z101 6) (z101 7)
    (z101 9)  (z101_sub (z101_mul (@doerner_alpha0 A101 ex_HR ex_doerner0) (doerner_beta0 ex_doerner0)) (z101 9))
    (z101 21) (z101_sub (z101_mul (@doerner_alpha1 A101 ex_HR ex_doerner0) (doerner_beta1 ex_doerner0)) (z101 21))
    (z101 77) (z101_sub (z101_mul (@doerner_alpha2 A101 ex_HR ex_doerner0) (doerner_beta2 ex_doerner0)) (z101 77))
    (z101 42).

(* toy ciphertext table for the opening-index example: ct from to = (key owner = to, plaintext = alpha to from) *)
Definition ex_ct (from to : party) : party * Z101 := (to, ex_ad to from).

(* data for the C04 examples: honest tables of ex_cmp and versions in which one party deviates *)
Definition ex_dsh (j : party) : Z101 := cmp_delta_share ex_cmp j.
Definition ex_dsh_bad (j : party) : Z101 := if N.eqb j 3%N then z101_add (ex_dsh j) (z101 1) else ex_dsh j.
Definition ex_YHat (j : party) : Z101 := act A101 (c_bchi ex_cmp j) (ps_ElGamalPub ex_cmp j).
Definition ex_ChiM (j : party) : Z101 := snd (ps_ElGamalChi ex_cmp j).
Definition ex_ChiM_bad (j : party) : Z101 :=
  if N.eqb j 3%N
  then z101_add (act A101 (z101_add (cmp_chi_share ex_cmp 3%N) (z101 1)) (base A101)) (ex_YHat 3%N)
  else ex_ChiM j.
Definition ex_pre (i : party) : presignature A101 :=
  ps_presig ex_cmp (cmp_R ex_cmp) (scinv A101 (scmul A101 (cmp_gamma ex_cmp) (cmp_k ex_cmp))) i.
Definition ex_shares (j : party) : Z101 := signature_share (ex_pre j) (c_m ex_cmp).
Definition ex_shares_bad (j : party) : Z101 :=
  if N.eqb j 2%N then z101_add (ex_shares j) (z101 5) else ex_shares j.
