(* Nonce.v -- M12: the INPUTS of the two nonce derivations of the library, as the code assembles them.
   Executable definitions only (proofs are in Proofs/NonceProofs.v).

   (1) protocols/frost/sign/round1.go, round1.Finalize:
         s_iBytes  := r.s_i.MarshalBinary()                        -- secp256k1: 32 bytes big endian
         hashKey   := blake3.DeriveKey(deriveHashKeyContext, s_iBytes)   (32 bytes)
         h         := blake3.NewKeyed(hashKey)
         h.Write(r.Hash().Sum())                                   -- 64 bytes (hash.DigestLengthBytes), = SSID in round 1
         h.Write(r.M)                                              -- the message hash as given by the caller: ANY length, no framing
         a := make([]byte,32); rand.Read(a)  (error ignored)       -- always 32 bytes, whatever the reader does
         h.Write(a)
         d_i, e_i  := two successive sample.ScalarUnit(h.Digest()) -- read from the XOF of the SAME keyed hash
       The hashes (KDF, keyed XOF) are parameters; what is modelled is the byte strings they are applied to.

   (2) pkg/taproot/signature.go, SecretKey.Sign(rand, m):
         d := sk (rejected if >= n or 0);  P := d*G;  PBytes := x(P) (32 bytes);  if P has odd y then d := n - d
         a := 32 bytes:  rand != nil -> io.ReadFull(rand, a) ;  rand == nil -> a = be64(ctr) || 0^24 with
              ctr := atomic.AddUint64(&signatureCounter, 1)        -- process-global counter, the value AFTER the increment
         t := bytes32(d) XOR TaggedHash("BIP0340/aux", a)
         rand := TaggedHash("BIP0340/nonce", t, PBytes, m)         -- m: any length, written last, no framing
         k := rand mod n  (UnmarshalBinary reduces; error ignored); k = 0 -> error.   The loop body runs exactly once.
       TaggedHash(tag, data...) = SHA256(SHA256(tag) || SHA256(tag) || data...).  SHA-256 is a parameter [H]. *)
From Coq Require Import String.
From Coq Require Import List NArith ZArith Bool.
From MPS Require Import Model.Bytes Model.Framing.
Import ListNotations.
Open Scope N_scope.

(* ------------------------------------------------------------------ *)
(* FROST round 1                                                       *)

Definition frost_kdf_context : bytes :=
  str "github.com/taurusgroup/multi-party-sig/frost 2021-07-30T09:48+00:00 Derive hash Key"%string.

(* Secp256k1Scalar.MarshalBinary: ModNScalar.Bytes(), 32 bytes big endian *)
Definition scalar_bytes (s : N) : bytes := be_bytes 32 s.

Definition frost_digest_len : nat := 64.   (* hash.DigestLengthBytes *)
Definition frost_rand_len : nat := 32.     (* a := make([]byte, 32) *)

(* the fixed lengths the code guarantees for the first and the last component of the stream *)
Definition frost_lens_ok (digest rnd : bytes) : bool :=
  Nat.eqb (length digest) frost_digest_len && Nat.eqb (length rnd) frost_rand_len.

(* bytes absorbed by the keyed hash, in order *)
Definition frost_stream (digest msg rnd : bytes) : bytes := digest ++ msg ++ rnd.

(* (key material given to the KDF, stream given to the keyed hash) *)
Definition frost_nonce_input (share : N) (digest msg rnd : bytes) : bytes * bytes :=
  (scalar_bytes share, frost_stream digest msg rnd).

(* the op: None when the caller violates the fixed lengths (cannot happen in the Go code) *)
Definition frost_nonce_input_checked (share : N) (digest msg rnd : bytes) : option (bytes * bytes) :=
  if frost_lens_ok digest rnd && (share <? 2^256) then Some (frost_nonce_input share digest msg rnd) else None.

(* the nonce digest for ANY key-derivation function and ANY keyed hash *)
Definition frost_nonce {T : Type} (KDF : bytes -> bytes -> bytes) (KH : bytes -> bytes -> T)
    (share : N) (digest msg rnd : bytes) : T :=
  KH (KDF frost_kdf_context (scalar_bytes share)) (frost_stream digest msg rnd).

(* ------------------------------------------------------------------ *)
(* BIP-340 (taproot.SecretKey.Sign)                                    *)

Definition secp_n : N := 0xFFFFFFFFFFFFFFFFFFFFFFFFFFFFFFFEBAAEDCE6AF48A03BBFD25E8CD0364141.

Definition tag_aux : bytes := str "BIP0340/aux"%string.
Definition tag_nonce : bytes := str "BIP0340/nonce"%string.

(* what SHA-256 absorbs in TaggedHash(tag, data) *)
Definition tagged_input (H : bytes -> bytes) (tag data : bytes) : bytes := H tag ++ H tag ++ data.
Definition tagged (H : bytes -> bytes) (tag data : bytes) : bytes := H (tagged_input H tag data).

(* "if !P.HasEvenY() { d.Negate() }" *)
Definition bip340_norm_d (d : N) (even_y : bool) : N := if even_y then d else secp_n - d.

(* the 32-byte aux value: read from the reader, or derived from the global counter when rand == nil.
   [ctr] is the counter value BEFORE the call; atomic.AddUint64 wraps modulo 2^64. *)
Definition ctr_next (ctr : N) : N := (ctr + 1) mod 2^64.
Definition bip340_counter_aux (ctr_after : N) : bytes := be64 ctr_after ++ repeat 0 24.
Definition bip340_aux (rnd : option bytes) (ctr : N) : bytes * N :=
  match rnd with
  | Some a => (a, ctr)
  | None => (bip340_counter_aux (ctr_next ctr), ctr_next ctr)
  end.
(* the aux value used by the i-th nil-reader call of a process (i = 1, 2, ...), counter starting at 0 *)
Definition bip340_nth_counter_aux (i : N) : bytes := bip340_counter_aux (i mod 2^64).
(* the aux values of k successive nil-reader calls starting with counter value ctr *)
Fixpoint bip340_nil_calls (k : nat) (ctr : N) : list bytes :=
  match k with
  | O => []
  | S k' => let '(a, c') := bip340_aux None ctr in a :: bip340_nil_calls k' c'
  end.

(* t = bytes(d) xor H_aux(a)   (for i < 32: t[i] ^= aHash[i]) *)
Definition bip340_t (d : N) (aux_hash : bytes) : bytes := xor_bytes (scalar_bytes d) aux_hash.

(* data written after the two tag digests: t || P || m *)
Definition bip340_nonce_data (t pk msg : bytes) : bytes := t ++ pk ++ msg.

Definition bip340_lens_ok (aux_hash pk : bytes) : bool :=
  Nat.eqb (length aux_hash) 32 && Nat.eqb (length pk) 32.

(* (t, data) from the normalised key, the aux DIGEST, the x-only public key and the message *)
Definition bip340_nonce_input (d : N) (aux_hash pk msg : bytes) : bytes * bytes :=
  let t := bip340_t d aux_hash in (t, bip340_nonce_data t pk msg).

Definition bip340_nonce_input_checked (d : N) (even_y : bool) (aux_hash pk msg : bytes) : option (bytes * bytes) :=
  if bip340_lens_ok aux_hash pk && (0 <? d) && (d <? secp_n)
  then Some (bip340_nonce_input (bip340_norm_d d even_y) aux_hash pk msg) else None.

(* the complete derivation for ANY [H] in the place of SHA-256: the byte string H is finally applied to, and "rand" *)
Definition bip340_nonce_preimage (H : bytes -> bytes) (d : N) (pk msg a : bytes) : bytes :=
  tagged_input H tag_nonce (bip340_nonce_data (bip340_t d (tagged H tag_aux a)) pk msg).
Definition bip340_rand (H : bytes -> bytes) (d : N) (pk msg a : bytes) : bytes :=
  H (bip340_nonce_preimage H d pk msg a).
(* k = rand mod n *)
Definition bip340_k (H : bytes -> bytes) (d : N) (pk msg a : bytes) : N :=
  be_val (bip340_rand H d pk msg a) mod secp_n.
