(* Session.v -- model of internal/round.NewSession: parameter validation and the session tag (SSID) input.
   Executable definitions only. *)
From Coq Require Import String.
From Coq Require Import List NArith ZArith Bool.
From MPS Require Import Model.Bytes Model.Framing.
From MPS Require Model.Cbor.   (* utf8_valid *)
Import ListNotations.

(* Go string comparison: bytewise lexicographic *)
Fixpoint bytes_ltb (a b : bytes) : bool :=
  match a, b with
  | [], [] => false
  | [], _ :: _ => true
  | _ :: _, [] => false
  | x :: a', y :: b' => if (x <? y)%N then true else if (y <? x)%N then false else bytes_ltb a' b'
  end.
Definition bytes_leb (a b : bytes) : bool := negb (bytes_ltb b a).

(* party.NewIDSlice: sorted copy *)
Fixpoint insert_id (x : bytes) (l : list bytes) : list bytes :=
  match l with
  | [] => [x]
  | y :: l' => if bytes_leb x y then x :: l else y :: insert_id x l'
  end.
Definition sort_ids (l : list bytes) : list bytes := fold_right insert_id [] l.

(* IDSlice.Valid: strictly increasing *)
Fixpoint ids_valid (l : list bytes) : bool :=
  match l with
  | [] => true
  | x :: l' => match l' with
               | [] => true
               | y :: _ => bytes_ltb x y && ids_valid l'
               end
  end.

(* IDSlice.Contains on a valid (sorted, duplicate-free) slice is membership *)
Definition ids_contains (l : list bytes) (x : bytes) : bool := existsb (bytes_eqb x) l.

Record sess_params := mkSess {
  sp_sid   : option bytes;     (* sessionID, None = nil *)
  sp_proto : bytes;            (* info.ProtocolID *)
  sp_group : option bytes;     (* info.Group.Name(), None = nil group *)
  sp_ids   : list bytes;       (* info.PartyIDs as given *)
  sp_self  : bytes;
  sp_thr   : Z;                (* info.Threshold (Go int) *)
  sp_aux   : list hval         (* auxInfo... (nil entries are skipped by the caller of the model) *)
}.

Definition max_uint32 : Z := 4294967295.

(* order of the only group offered (secp256k1): an ID is an evaluation point = its bytes as a big-endian integer mod q *)
Definition group_order : N := 115792089237316195423570985008687907852837564279074904382605163141518161494337.

(* an ID must be non-empty, valid UTF-8 (it travels as text in protocol.Message) and, when a group is given,
   must not map to the zero scalar *)
Definition id_ok (grp : option bytes) (id : bytes) : bool :=
  match id with
  | [] => false
  | _ => Cbor.utf8_valid id &&
         match grp with
         | None => true
         | Some _ => negb ((be_val id mod group_order =? 0)%N)
         end
  end.

(* the checks of NewSession *)
Definition new_session_ok (p : sess_params) : bool :=
  let ids := sort_ids (sp_ids p) in
  ids_valid ids
  && forallb (id_ok (sp_group p)) ids
  && ids_contains ids (sp_self p)
  && (0 <=? sp_thr p)%Z && (sp_thr p <=? max_uint32)%Z
  && (0 <? Z.of_nat (length ids))%Z && (sp_thr p <=? Z.of_nat (length ids) - 1)%Z.

(* the values written into the session hash, in order *)
Definition ssid_vals (p : sess_params) : list hval :=
  (match sp_sid p with Some s => [HWithDomain (str "Session ID") (Some s)] | None => [] end)
  ++ [HWithDomain (str "Protocol ID") (Some (sp_proto p))]
  ++ (match sp_group p with Some g => [HWithDomain (str "Group Name") (Some g)] | None => [] end)
  ++ [HIDSlice (Some (sort_ids (sp_ids p))); HThreshold (Z.to_N (sp_thr p))]
  ++ sp_aux p.

(* NewSession: None = error; Some stream = the bytes whose digest is the SSID *)
Definition new_session (p : sess_params) : option bytes :=
  if new_session_ok p then
    match write_any init_state (ssid_vals p) with
    | (st, true) => Some st
    | (_, false) => None
    end
  else None.

(* Helper.HashForID(id): clone of the session hash with the id written (unless empty) *)
Definition hash_for_id (ssid_stream : bytes) (id : bytes) : bytes :=
  match id with
  | [] => ssid_stream
  | _ => ssid_stream ++ frame (mkItem (str "ID") id)
  end.

(* config.ValidThreshold / Config.CanSign *)
Definition valid_threshold (t : Z) (n : nat) : bool :=
  (0 <=? t)%Z && (t <=? max_uint32)%Z && (0 <? Z.of_nat n)%Z && (t <=? Z.of_nat n - 1)%Z.

Definition can_sign (t : Z) (self : bytes) (shareholders : list bytes) (signers_sorted : list bytes) : bool :=
  valid_threshold t (length signers_sorted)
  && ids_valid signers_sorted
  && ids_contains signers_sorted self
  && forallb (fun j => ids_contains shareholders j) signers_sorted.
