(* StartGuards.v -- what every public start function checks before it hands out a session (C20).
   The key material enters as a VIEW: which pointers are nil, the identifiers, the threshold -- exactly what the guards
   look at.  Each predicate is "the start function does not refuse"; Generated/Validators.v (translated from the source on
   every run) is proved equal to these in Proofs/StartGuardsProofs.v, and Properties/C20_start_guards.v characterises them.
   The session part is Model/Session.v ([new_session_ok], [can_sign]).  Executable definitions only. *)
From Coq Require Import List NArith ZArith Bool.
From MPS Require Import Model.Bytes Model.Session.
Import ListNotations.

Definition is_present {A} (o : option A) : bool := match o with Some _ => true | None => false end.

(* the parameter checks of round.NewSession for (group, ids, self, threshold); session id, protocol id and the hashed
   auxiliary values play no role in them *)
Definition sess_ok (grp : option bytes) (ids : list bytes) (self : bytes) (t : Z) : bool :=
  new_session_ok (mkSess None [] grp ids self t []).

(* `len(message) == 0` refuses *)
Definition msg_ok (len : nat) : bool := negb (Nat.eqb len 0).

Definition has_key {A} (id : bytes) (m : list (bytes * A)) : bool := existsb (fun e => bytes_eqb (fst e) id) m.

(* ---------------------------------------------------------------- CMP *)

(* one entry of Config.Public: the entry itself and its four fields, true = not nil *)
Record pub_view := mkPubView { pv_entry : bool; pv_ecdsa : bool; pv_elgamal : bool; pv_paillier : bool; pv_pedersen : bool }.
Definition pub_complete (p : pub_view) : bool := pv_entry p && pv_ecdsa p && pv_elgamal p && pv_paillier p && pv_pedersen p.

Record cmp_view := mkCmpView {
  cv_present : bool;                      (* the *Config is not nil *)
  cv_group : option bytes;                (* Group (its name), None = nil *)
  cv_ecdsa : bool; cv_elgamal : bool; cv_paillier : bool;     (* the secrets are not nil *)
  cv_thr : Z;
  cv_id : bytes;
  cv_public : list (bytes * pub_view) }.  (* the map Public, one pair per key *)

Definition cmp_holders (c : cmp_view) : list bytes := map fst (cv_public c).

(* Config.ValidateBasic *)
Definition cmp_validate_basic (c : cmp_view) : bool :=
  cv_present c && is_present (cv_group c) && (cv_ecdsa c && cv_elgamal c && cv_paillier c)
  && valid_threshold (cv_thr c) (length (cv_public c))
  && has_key (cv_id c) (cv_public c)
  && forallb (fun e => pub_complete (snd e)) (cv_public c).

(* cmp.Keygen *)
Definition cmp_keygen_start (grp : option bytes) (ids : list bytes) (self : bytes) (t : Z) : bool := sess_ok grp ids self t.

(* cmp.Refresh: ValidateBasic, then a key generation session among the holders (Config.PartyIDs) with the config's threshold *)
Definition cmp_refresh_start (c : cmp_view) : bool :=
  cmp_validate_basic c && sess_ok (cv_group c) (cmp_holders c) (cv_id c) (cv_thr c).

(* cmp.Presign: ValidateBasic, NewSession over the signers, CanSign on the sorted signers *)
Definition cmp_presign_start (c : cmp_view) (signers : list bytes) : bool :=
  cmp_validate_basic c
  && sess_ok (cv_group c) signers (cv_id c) (cv_thr c)
  && can_sign (cv_thr c) (cv_id c) (cmp_holders c) (sort_ids signers).

(* cmp.Sign: the same, and a message *)
Definition cmp_sign_start (c : cmp_view) (signers : list bytes) (msg_len : nat) : bool :=
  cmp_validate_basic c && msg_ok msg_len
  && sess_ok (cv_group c) signers (cv_id c) (cv_thr c)
  && can_sign (cv_thr c) (cv_id c) (cmp_holders c) (sort_ids signers).

(* cmp.PresignOnline: the presignature must be there and valid (PreSignature.Validate, Model/Cbor.v presig_validate without
   the "at least one signer" of the restore path); its signers (PreSignature.SignerIDs, sorted) must be able to sign *)
Definition cmp_presign_online_start (c : cmp_view) (pre_present pre_valid : bool) (pre_signers : list bytes) (msg_len : nat) : bool :=
  cv_present c && pre_present && cmp_validate_basic c && msg_ok msg_len && pre_valid
  && can_sign (cv_thr c) (cv_id c) (cmp_holders c) (sort_ids pre_signers)
  && sess_ok (cv_group c) (sort_ids pre_signers) (cv_id c) (cv_thr c).

(* ---------------------------------------------------------------- FROST *)

Record frost_view := mkFrostView {
  fv_present : bool;                          (* the *Config is not nil *)
  fv_share : bool; fv_public : bool;          (* PrivateShare, PublicKey not nil *)
  fv_shares : option (list (bytes * bool));   (* VerificationShares (None = nil); per party: the share is not nil *)
  fv_id : bytes;
  fv_thr : Z }.

Definition frost_complete (v : frost_view) : bool := fv_present v && fv_share v && fv_public v && is_present (fv_shares v).
Definition frost_entries (v : frost_view) : list (bytes * bool) := match fv_shares v with Some l => l | None => [] end.
(* a party that has a (non-nil) verification share *)
Definition frost_holder (v : frost_view) (id : bytes) : bool :=
  existsb (fun e => bytes_eqb (fst e) id && snd e) (frost_entries v).

(* frost.Keygen / KeygenTaproot *)
Definition frost_keygen_start (grp : option bytes) (ids : list bytes) (self : bytes) (t : Z) : bool := sess_ok grp ids self t.

(* frost.Sign (sign.StartSignCommon): complete config, a message, every signer a share holder, then NewSession over the signers
   with the config's threshold *)
Definition frost_sign_start (grp : bytes) (v : frost_view) (signers : list bytes) (msg_len : nat) : bool :=
  frost_complete v && msg_ok msg_len && forallb (frost_holder v) signers
  && sess_ok (Some grp) signers (fv_id v) (fv_thr v).

(* sameParties: as many participants as entries, every one a holder *)
Definition frost_same_parties (v : frost_view) (ids : list bytes) : bool :=
  Nat.eqb (length ids) (length (frost_entries v)) && forallb (frost_holder v) ids.

(* frost.Refresh *)
Definition frost_refresh_start (grp : bytes) (v : frost_view) (ids : list bytes) : bool :=
  frost_complete v && frost_same_parties v ids && sess_ok (Some grp) ids (fv_id v) (fv_thr v).

Record taproot_view := mkTaprootView {
  tv_present : bool;
  tv_share : bool;                            (* PrivateShare not nil *)
  tv_pk_len : nat; tv_liftable : bool;        (* len(PublicKey), LiftX succeeds *)
  tv_shares : option (list (bytes * bool));
  tv_id : bytes;
  tv_thr : Z }.

Definition taproot_complete (v : taproot_view) : bool :=
  tv_present v && tv_share v && Nat.eqb (tv_pk_len v) 32 && is_present (tv_shares v).
Definition taproot_entries (v : taproot_view) : list (bytes * bool) := match tv_shares v with Some l => l | None => [] end.
(* the keygen.Config that SignTaproot builds: same id, SAME THRESHOLD, same shares *)
Definition taproot_generic (v : taproot_view) : frost_view :=
  mkFrostView true (tv_share v) true (tv_shares v) (tv_id v) (tv_thr v).

Definition secp256k1_name : bytes := [115; 101; 99; 112; 50; 53; 54; 107; 49]%N.   (* "secp256k1" *)

(* frost.SignTaproot: complete, liftable key, no nil share, then as frost.Sign on the generic config *)
Definition frost_sign_taproot_start (v : taproot_view) (signers : list bytes) (msg_len : nat) : bool :=
  taproot_complete v && tv_liftable v && forallb (fun e => snd e) (taproot_entries v)
  && frost_sign_start secp256k1_name (taproot_generic v) signers msg_len.

(* frost.RefreshTaproot *)
Definition frost_refresh_taproot_start (v : taproot_view) (ids : list bytes) : bool :=
  taproot_complete v && frost_same_parties (taproot_generic v) ids && tv_liftable v
  && sess_ok (Some secp256k1_name) ids (tv_id v) (tv_thr v).

(* ---------------------------------------------------------------- Doerner (two parties, threshold 1) *)

Record doerner_view := mkDoernerView {
  dv_present : bool; dv_setup : bool; dv_share : bool; dv_public : bool;    (* not nil *)
  dv_share_zero : bool; dv_public_identity : bool }.

Definition doerner_pair_ok (grp : option bytes) (self other : bytes) : bool := sess_ok grp [self; other] self 1.

(* doerner.Keygen *)
Definition doerner_keygen_start (grp : option bytes) (self other : bytes) : bool := doerner_pair_ok grp self other.

Definition doerner_material (v : doerner_view) : bool :=
  dv_present v && dv_share v && dv_public v && negb (dv_share_zero v) && negb (dv_public_identity v).

(* doerner.RefreshReceiver / RefreshSender *)
Definition doerner_refresh_start (grp : bytes) (v : doerner_view) (self other : bytes) : bool :=
  doerner_material v && doerner_pair_ok (Some grp) self other.

(* doerner.SignReceiver / SignSender: also the OT setup and a message *)
Definition doerner_sign_start (grp : bytes) (v : doerner_view) (self other : bytes) (msg_len : nat) : bool :=
  doerner_material v && dv_setup v && msg_ok msg_len && doerner_pair_ok (Some grp) self other.

(* ---------------------------------------------------------------- protocols/example *)

(* example.StartXOR: info has no Group and no Threshold (nil, 0) *)
Definition xor_start (ids : list bytes) (self : bytes) : bool := sess_ok None ids self 0.
