(* Handler.v -- model of pkg/protocol.MultiHandler (handler.go), control logic only.
   The protocol enters through its *shape* (round table) and two oracles:
     - what the round code does with a message when it processes it: accepts it / rejects it with an error
       ([m_valid]) / PANICS while decoding, verifying or storing it, or accepts it and panics later in Finalize of
       that round ([m_panic]),
     - the digest of a round's broadcast view (hash of the stored broadcast messages in party order).
   A panic of the round code is the runtime state [Panicked 3]; it propagates out of verify / finalize like a Go
   panic (every function is the identity on a state that is not [Running]) and is turned into a clean abort by the
   deferred [recover_abort] of Accept -- and only there: NewMultiHandler and Stop have no recover.
   Executable definitions only; proofs are in Proofs/HandlerProofs.v. *)
From Coq Require Import List NArith ZArith Bool Arith.
Import ListNotations.

(* parties are indices 0..n-1 into the sorted party list; any other number = unknown sender *)
Definition party := nat.

Inductive p2p_kind := NoP2P | P2PAll | P2PEach.   (* round expects: nothing / one message addressed to all / one per peer *)

Record shape := mkShape {
  sh_final : nat;                   (* FinalRoundNumber *)
  sh_bcast : nat -> bool;           (* round r is a round.BroadcastRound *)
  sh_p2p   : nat -> p2p_kind        (* round r has MessageContent() != nil, and how the previous round addresses it *)
}.

(* what processing a message does to the round code besides accepting / rejecting it (only consulted for a message
   the round does not reject, [m_valid = true]):
     PanicVerify   -- cbor decoding / VerifyMessage / StoreMessage / StoreBroadcastMessage panics on it,
     PanicFinalize -- it is verified and stored, and Finalize of its round (which reads all parties' inputs) panics *)
Inductive panic_at := NoPanic | PanicVerify | PanicFinalize.

Record msg := mkMsg {
  m_ssid  : N;            (* interned session tag *)
  m_proto : N;            (* interned protocol id *)
  m_from  : party;
  m_to    : option party; (* None = "" (everyone) *)
  m_round : nat;
  m_data  : bool;         (* Data != nil *)
  m_bcast : bool;
  m_bv    : N;            (* interned BroadcastVerification, 0 = nil *)
  m_fp    : N;            (* fingerprint of the whole message (interned Message.Hash()) *)
  m_valid : bool;         (* oracle: decoding + the round's checks accept this message *)
  m_panic : panic_at      (* oracle: the round code panics on this (accepted) message, and where *)
}.

Definition panics_verify (m : msg) : bool := match m_panic m with PanicVerify => true | _ => false end.
Definition panics_finalize (m : msg) : bool := match m_panic m with PanicFinalize => true | _ => false end.

Inductive errkind := EAbortNotice | EVerify | EBroadcastHash | EFinalize | EUser | EProtoAbort
                   | EPanic.   (* "panic while processing message: ..." (recoverToAbort), nobody named *)

Inductive runtime := Running | Panicked (why : nat) | BlockedOnSend.
(* why: 1 = close of closed channel, 2 = send on closed channel,
        3 = panic raised by the round code (decode / Verify / Store / Finalize) while a message is processed *)

Record outmsg := mkOut { o_to : option party; o_round : nat; o_bcast : bool; o_bv : N }.

Record hstate := mkH {
  h_self : party; h_n : nat; h_ssid : N; h_proto : N; h_shape : shape;
  h_cur : nat;                              (* currentRound.Number() (0 once the output/abort round is current) *)
  h_reached : list nat;                     (* keys of h.rounds *)
  h_qb : list (nat * party * msg);          (* h.broadcast: filled slots *)
  h_qp : list (nat * party * msg);          (* h.messages:  filled slots *)
  h_hashes : list (nat * N);                (* h.broadcastHashes *)
  h_err : option (list party * errkind);
  h_res : bool;                             (* h.result != nil *)
  h_out : list outmsg;                      (* everything ever put on h.out, oldest first (abort notices: round 0) *)
  h_pending : nat;                          (* messages currently buffered in h.out *)
  h_closes : nat;                           (* number of close(h.out) executed *)
  h_rt : runtime
}.

Definition others (s : hstate) : list party := filter (fun j => negb (j =? h_self s)) (seq 0 (h_n s)).
Definition all_parties (s : hstate) : list party := seq 0 (h_n s).

Fixpoint qget (q : list (nat * party * msg)) (r : nat) (j : party) : option msg :=
  match q with
  | [] => None
  | (r', j', m) :: q' => if (r' =? r) && (j' =? j) then Some m else qget q' r j
  end.

Fixpoint hget (h : list (nat * N)) (r : nat) : option N :=
  match h with
  | [] => None
  | (r', d) :: h' => if r' =? r then Some d else hget h' r
  end.

(* queues exist for rounds 2..final; broadcast queue has slots for *other* parties only at creation,
   but own broadcasts are stored too (store() ignores the slot set) *)
Definition has_queue (s : hstate) (r : nat) : bool := (2 <=? r) && (r <=? sh_final (h_shape s)).

Definition is_for (self : party) (m : msg) : bool :=
  negb (m_from m =? self) && match m_to m with None => true | Some t => t =? self end.

(* MultiHandler.CanAccept *)
Definition can_accept (s : hstate) (m : msg) : bool :=
  is_for (h_self s) m
  && (m_proto m =? h_proto s)%N
  && (m_ssid m =? h_ssid s)%N
  && (m_from m <? h_n s)
  && m_data m
  && (m_round m <=? sh_final (h_shape s))
  && negb ((m_round m <? h_cur s) && (0 <? m_round m)).

Definition queue_of (s : hstate) (m : msg) := if m_bcast m then h_qb s else h_qp s.

(* MultiHandler.duplicate *)
Definition duplicate (s : hstate) (m : msg) : bool :=
  if m_round m =? 0 then false
  else if negb (has_queue s (m_round m)) then true
  else match qget (queue_of s m) (m_round m) (m_from m) with Some _ => true | None => false end.

(* MultiHandler.store *)
Definition store (s : hstate) (m : msg) : hstate :=
  if negb (has_queue s (m_round m)) then s
  else match qget (queue_of s m) (m_round m) (m_from m) with
       | Some _ => s
       | None =>
           if m_bcast m
           then mkH (h_self s) (h_n s) (h_ssid s) (h_proto s) (h_shape s) (h_cur s) (h_reached s)
                    ((m_round m, m_from m, m) :: h_qb s) (h_qp s) (h_hashes s) (h_err s) (h_res s)
                    (h_out s) (h_pending s) (h_closes s) (h_rt s)
           else mkH (h_self s) (h_n s) (h_ssid s) (h_proto s) (h_shape s) (h_cur s) (h_reached s)
                    (h_qb s) ((m_round m, m_from m, m) :: h_qp s) (h_hashes s) (h_err s) (h_res s)
                    (h_out s) (h_pending s) (h_closes s) (h_rt s)
       end.

Definition set_rt (s : hstate) (rt : runtime) : hstate :=
  mkH (h_self s) (h_n s) (h_ssid s) (h_proto s) (h_shape s) (h_cur s) (h_reached s) (h_qb s) (h_qp s)
      (h_hashes s) (h_err s) (h_res s) (h_out s) (h_pending s) (h_closes s) rt.

Definition capacity (s : hstate) : nat := 2 * h_n s.

(* close(h.out) *)
Definition close_out (s : hstate) : hstate :=
  match h_rt s with
  | Running =>
      if 0 <? h_closes s then set_rt s (Panicked 1)
      else mkH (h_self s) (h_n s) (h_ssid s) (h_proto s) (h_shape s) (h_cur s) (h_reached s) (h_qb s) (h_qp s)
               (h_hashes s) (h_err s) (h_res s) (h_out s) (h_pending s) 1 (h_rt s)
  | _ => s
  end.

(* MultiHandler.abort(err, culprits...):  err = None is the "abort(nil)" used on success *)
Definition abort (s : hstate) (e : option (list party * errkind)) : hstate :=
  match h_rt s with
  | Running =>
      let s1 :=
        match e with
        | None => s
        | Some ce =>
            (* select { case h.out <- notice: default: }  -- on a closed channel the send case panics *)
            if 0 <? h_closes s then set_rt s (Panicked 2)
            else
              let sent := h_pending s <? capacity s in
              mkH (h_self s) (h_n s) (h_ssid s) (h_proto s) (h_shape s) (h_cur s) (h_reached s) (h_qb s) (h_qp s)
                  (h_hashes s) (Some ce) (h_res s)
                  (if sent then h_out s ++ [mkOut None 0 false 0%N] else h_out s)
                  (if sent then S (h_pending s) else h_pending s) (h_closes s) (h_rt s)
        end in
      close_out s1
  | _ => s
  end.

(* h.err != nil || h.result != nil *)
Definition terminal (s : hstate) : bool :=
  (match h_err s with Some _ => true | None => false end) || h_res s.

(* the round code panics: the panic unwinds the handler's call stack (all functions below are the identity on a
   state that is not Running) up to the deferred recover of Accept, if there is one *)
Definition raise_panic (s : hstate) : hstate := set_rt s (Panicked 3).

(* MultiHandler.recoverToAbort, deferred by Accept (under the lock): any panic raised in the body -- by the round
   code or by a channel operation -- is recovered; if the session has not ended (h.err == nil && h.result == nil)
   it is aborted with the panic as error and NOBODY named, otherwise the panic is just swallowed.
   (abort itself panics when the channel is already closed: that second panic escapes.) *)
Definition recover_abort (s : hstate) : hstate :=
  match h_rt s with
  | Panicked _ =>
      let s0 := set_rt s Running in
      if terminal s0 then s0 else abort s0 (Some ([], EPanic))
  | _ => s
  end.

(* blocking send h.out <- msg (during finalize) *)
Definition emit (s : hstate) (o : outmsg) : hstate :=
  match h_rt s with
  | Running =>
      if 0 <? h_closes s then set_rt s (Panicked 2)
      else if h_pending s <? capacity s then
        mkH (h_self s) (h_n s) (h_ssid s) (h_proto s) (h_shape s) (h_cur s) (h_reached s) (h_qb s) (h_qp s)
            (h_hashes s) (h_err s) (h_res s) (h_out s ++ [o]) (S (h_pending s)) (h_closes s) (h_rt s)
      else set_rt s BlockedOnSend
  | _ => s
  end.

(* outcome of verifying one message *)
Inductive vres := VOk | VBad | VHash
              | VPanic.   (* the round code panicked on the message *)
Definition vres_ok (v : vres) : bool := match v with VOk => true | _ => false end.

Section Oracles.
  (* digest of the broadcast view of round r: fingerprints of the stored broadcasts in party order *)
  Variable view_hash : nat -> list N -> N.
  (* fingerprint / validity that this party's own emitted broadcast for round r will have *)
  Variable own_fp : nat -> N.

  Definition view_of (s : hstate) (r : nat) : option (list N) :=
    fold_right (fun j acc => match qget (h_qb s) r j, acc with
                             | Some m, Some l => Some (m_fp m :: l)
                             | _, _ => None end) (Some []) (all_parties s).

  (* MultiHandler.receivedAll, including its side effect on broadcastHashes *)
  Definition received_all (s : hstate) : bool * hstate :=
    let r := h_cur s in
    let sh := h_shape s in
    let bpart : option hstate :=     (* None = a broadcast is missing *)
      if sh_bcast sh r then
        if negb (has_queue s r) then Some s     (* early "return true" handled by caller *)
        else match view_of s r with
             | None => None
             | Some v =>
                 match hget (h_hashes s) r with
                 | Some _ => Some s
                 | None => Some (mkH (h_self s) (h_n s) (h_ssid s) (h_proto s) (h_shape s) (h_cur s) (h_reached s)
                                     (h_qb s) (h_qp s) ((r, view_hash r v) :: h_hashes s) (h_err s) (h_res s)
                                     (h_out s) (h_pending s) (h_closes s) (h_rt s))
                 end
             end
      else Some s in
    match bpart with
    | None => (false, s)
    | Some s' =>
        if sh_bcast sh r && negb (has_queue s r) then (true, s')
        else match sh_p2p sh r with
             | NoP2P => (true, s')
             | _ => if negb (has_queue s r) then (true, s')
                    else (forallb (fun j => match qget (h_qp s) r j with Some _ => true | None => false end) (others s), s')
             end
    end.

  (* MultiHandler.checkBroadcastHash *)
  Definition check_broadcast_hash (s : hstate) : bool :=
    let r := h_cur s in
    match hget (h_hashes s) (r - 1) with
    | None => true
    | Some prev =>
        forallb (fun e => match e with (r', _, m) => negb (r' =? r) || (m_bv m =? prev)%N end) (h_qp s)
        && forallb (fun e => match e with (r', _, m) => negb (r' =? r) || (m_bv m =? prev)%N end) (h_qb s)
    end.

  (* sameBroadcastView: the view digest attached to m equals our digest of the previous round's broadcasts (if we have one) *)
  Definition same_view (s : hstate) (m : msg) : bool :=
    match hget (h_hashes s) (m_round m - 1) with
    | None => true
    | Some prev => (m_bv m =? prev)%N
    end.

  (* verifyMessage for a p2p message of the current round: ok (or postponed) / rejected (sender named) /
     sent under a different broadcast view (nobody named) / the round code panics on it.
     The view comparison and the nil-content decode error come BEFORE any round code runs. *)
  Definition verify_p2p (s : hstate) (m : msg) : vres :=
    if negb (existsb (Nat.eqb (m_round m)) (h_reached s)) then VOk
    else if sh_bcast (h_shape s) (m_round m) &&
            match qget (h_qb s) (m_round m) (m_from m) with Some _ => false | None => true end
    then VOk                                           (* wait for the sender's broadcast *)
    else if negb (same_view s m) then VHash
    else match sh_p2p (h_shape s) (m_round m) with
         | NoP2P => VBad       (* MessageContent() == nil: cbor.Unmarshal into nil fails *)
         | _ => if m_valid m then (if panics_verify m then VPanic else VOk) else VBad
         end.

  (* verifyBroadcastMessage; chains the queued p2p message of the same sender *)
  Definition verify_bcast (s : hstate) (m : msg) : vres :=
    if negb (existsb (Nat.eqb (m_round m)) (h_reached s)) then VOk
    else if negb (same_view s m) then VHash
    else if negb (sh_bcast (h_shape s) (m_round m)) then VBad   (* "got broadcast message when none was expected" *)
    else if negb (m_valid m) then VBad
    else if panics_verify m then VPanic                         (* decode / StoreBroadcastMessage panics *)
    else match sh_p2p (h_shape s) (m_round m) with
         | NoP2P => VOk
         | _ => match qget (h_qp s) (m_round m) (m_from m) with
                | None => VOk
                | Some p => verify_p2p s p
                end
         end.

  (* what Finalize of round r puts on the out channel (messages for round r+1) *)
  Definition round_outputs (s : hstate) (r : nat) (bv : N) : list outmsg :=
    let sh := h_shape s in
    if sh_final sh <=? r then []
    else (if sh_bcast sh (S r) then [mkOut None (S r) true bv] else [])
         ++ match sh_p2p sh (S r) with
            | NoP2P => []
            | P2PAll => [mkOut None (S r) false bv]
            | P2PEach => map (fun j => mkOut (Some j) (S r) false bv) (others s)
            end.

  Definition own_bcast_msg (s : hstate) (o : outmsg) : msg :=
    mkMsg (h_ssid s) (h_proto s) (h_self s) (o_to o) (o_round o) true true (o_bv o) (own_fp (o_round o)) true NoPanic.

  Fixpoint emit_all (s : hstate) (l : list outmsg) : hstate :=
    match l with
    | [] => s
    | o :: l' => let s1 := if o_bcast o then store s (own_bcast_msg s o) else s in
                 emit_all (emit s1 o) l'
    end.

  (* first queued message of the new round that fails verification (in party order), if any, with the kind of failure *)
  Definition queued_verdict (s : hstate) (r : nat) (j : party) : vres :=
    if sh_bcast (h_shape s) r then
      match qget (h_qb s) r j with Some m => verify_bcast s m | None => VOk end
    else
      match qget (h_qp s) r j with Some m => verify_p2p s m | None => VOk end.

  Definition first_bad (s : hstate) (r : nat) : option (party * vres) :=
    match find (fun j => negb (vres_ok (queued_verdict s r j))) (others s) with
    | Some j => Some (j, queued_verdict s r j)
    | None => None
    end.

  (* h.currentRound.Finalize(out) panics: one of the messages the round verified and stored (of a kind the round
     expects; anything else in the queues was never handed to the round) makes it panic *)
  Definition fin_panics (s : hstate) : bool :=
    let r := h_cur s in
    (sh_bcast (h_shape s) r
     && existsb (fun e => match e with (r', _, m) => (r' =? r) && panics_finalize m end) (h_qb s))
    || ((match sh_p2p (h_shape s) r with NoP2P => false | _ => true end)
        && existsb (fun e => match e with (r', _, m) => (r' =? r) && panics_finalize m end) (h_qp s)).

  (* MultiHandler.finalize.  State at the two panic points: Finalize of the current round panics AFTER receivedAll
     recorded the view digest of the round and BEFORE anything is forwarded or the round advances; a queued message
     of the new round panics AFTER the round's messages were forwarded and h.currentRound advanced. *)
  Fixpoint finalize (fuel : nat) (s : hstate) : hstate :=
    match fuel with
    | O => s
    | S fuel' =>
        match h_rt s with
        | Running =>
            if h_cur s =? 0 then s else      (* Output/Abort round: Finalize returns itself *)
            let '(all, s1) := received_all s in
            if negb all then s1
            else if negb (check_broadcast_hash s1) then abort s1 (Some ([], EBroadcastHash))
            else if fin_panics s1 then raise_panic s1
            else
              let r := h_cur s1 in
              let bv := match hget (h_hashes s1) r with Some d => d | None => 0%N end in
              let s2 := emit_all s1 (round_outputs s1 r bv) in
              match h_rt s2 with
              | Running =>
                  let nr := if sh_final (h_shape s2) <=? r then 0 else S r in
                  if existsb (Nat.eqb nr) (h_reached s2) then s2
                  else
                    let s3 := mkH (h_self s2) (h_n s2) (h_ssid s2) (h_proto s2) (h_shape s2) nr (nr :: h_reached s2)
                                  (h_qb s2) (h_qp s2) (h_hashes s2) (h_err s2) (h_res s2)
                                  (h_out s2) (h_pending s2) (h_closes s2) (h_rt s2) in
                    if nr =? 0 then
                      (* *round.Output: h.result = R.Result; h.abort(nil) *)
                      abort (mkH (h_self s3) (h_n s3) (h_ssid s3) (h_proto s3) (h_shape s3) (h_cur s3) (h_reached s3)
                                 (h_qb s3) (h_qp s3) (h_hashes s3) (h_err s3) true
                                 (h_out s3) (h_pending s3) (h_closes s3) (h_rt s3)) None
                    else
                      match first_bad s3 nr with
                      | Some (_, VHash) => abort s3 (Some ([], EBroadcastHash))
                      | Some (_, VPanic) => raise_panic s3
                      | Some (j, _) => abort s3 (Some ([j], EVerify))
                      | None => finalize fuel' s3
                      end
              | _ => s2
              end
        | _ => s
        end
    end.

  Definition fuel_of (s : hstate) : nat := sh_final (h_shape s) + 3.

  (* the body of MultiHandler.Accept (what runs between the defers and the return / the panic).
     The message is stored BEFORE it is verified: a message the round code panics on stays in its queue slot. *)
  Definition accept_body (s : hstate) (m : msg) : hstate :=
    match h_rt s with
    | Running =>
        if negb (can_accept s m) || (match h_err s with Some _ => true | None => false end)
           || h_res s || duplicate s m then s
        else if m_round m =? 0 then abort s (Some ([m_from m], EAbortNotice))
        else
          let s1 := store s m in
          if negb (h_cur s1 =? m_round m) then s1
          else match (if m_bcast m then verify_bcast s1 m else verify_p2p s1 m) with
               | VOk => finalize (fuel_of s1) s1
               | VBad => abort s1 (Some ([m_from m], EVerify))
               | VHash => abort s1 (Some ([], EBroadcastHash))
               | VPanic => raise_panic s1
               end
    | _ => s
    end.

  (* MultiHandler.Accept: Lock; defer Unlock; defer recoverToAbort; body *)
  Definition accept (s : hstate) (m : msg) : hstate :=
    match h_rt s with
    | Running => recover_abort (accept_body s m)
    | _ => s
    end.

  (* Accept before the recovery was added (fix "handlers recover a panic raised while processing a message"):
     the panic escapes to the caller *)
  Definition accept_v0 (s : hstate) (m : msg) : hstate := accept_body s m.

  (* NewMultiHandler: build the state for round 1 and call finalize (no recover; no peer message exists yet, so in
     this model nothing can panic here) *)
  Definition init_state (self : party) (n : nat) (ssid proto : N) (sh : shape) : hstate :=
    mkH self n ssid proto sh 1 [1] [] [] [] None false [] 0 0 Running.
  Definition new_handler (self : party) (n : nat) (ssid proto : N) (sh : shape) : hstate :=
    let s := init_state self n ssid proto sh in finalize (fuel_of s) s.
End Oracles.

(* MultiHandler.Stop.  [fixed = false]: the guard as found at the pinned commit (acts only when already
   finished); [fixed = true]: acts only while running.  No recover here. *)

Definition stop (fixed : bool) (s : hstate) : hstate :=
  match h_rt s with
  | Running =>
      if fixed then (if terminal s then s else abort s (Some ([h_self s], EUser)))
      else (if terminal s then abort s (Some ([h_self s], EUser)) else s)
  | _ => s
  end.

(* the user drains k messages from Listen() *)
Definition drain (k : nat) (s : hstate) : hstate :=
  mkH (h_self s) (h_n s) (h_ssid s) (h_proto s) (h_shape s) (h_cur s) (h_reached s) (h_qb s) (h_qp s)
      (h_hashes s) (h_err s) (h_res s) (h_out s) (h_pending s - k) (h_closes s)
      (match h_rt s with BlockedOnSend => BlockedOnSend | rt => rt end).

(* Result(): 0 = "not finished", 1 = value, 2 = error *)
Definition result_class (s : hstate) : nat :=
  if h_res s then 1 else match h_err s with Some _ => 2 | None => 0 end.
