(* ops for the Paillier / modular exponentiation / MtA model (C12): decode sx arguments, run the model.
   integers are At; refusal (Go panic) or error is Li []; a value v is Li [v]. *)
From Coq Require Import String.
From Coq Require Import List NArith ZArith Bool.
From MPS Require Import Model.Bytes Model.Sx Model.Framing Model.Paillier.
Import ListNotations.
Local Open Scope Z_scope.

(* "pai.enc": (N m rho) -> (c) | ()      PublicKey from N alone, EncWithNonce *)
Definition op_pai_enc (arg : sx) : option sx :=
  match arg with
  | Li [At N; At m; At rho] => Some (sx_opt At (enc N m rho))
  | _ => None end.

(* "pai.enc_sk": (p q m rho) -> (c) | ()  PublicKey embedded in the SecretKey (CRT route) *)
Definition op_pai_enc_sk (arg : sx) : option sx :=
  match arg with
  | Li [At p; At q; At m; At rho] => Some (sx_opt At (enc_sk p q m rho))
  | _ => None end.

(* "pai.dec": (p q c) -> (m) | () *)
Definition op_pai_dec (arg : sx) : option sx :=
  match arg with
  | Li [At p; At q; At c] => Some (sx_opt At (dec p q c))
  | _ => None end.

(* "pai.add": (N c1 c2) -> c *)
Definition op_pai_add (arg : sx) : option sx :=
  match arg with
  | Li [At N; At c1; At c2] => Some (At (add N c1 c2))
  | _ => None end.

(* "pai.mul": (N k c) -> c *)
Definition op_pai_mul (arg : sx) : option sx :=
  match arg with
  | Li [At N; At k; At c] => Some (At (mul N k c))
  | _ => None end.

(* "pai.mul_sk": (p q k c) -> c *)
Definition op_pai_mul_sk (arg : sx) : option sx :=
  match arg with
  | Li [At p; At q; At k; At c] => Some (At (mul_sk p q k c))
  | _ => None end.

(* "pai.dec_rand": (p q c) -> (m rho) | () *)
Definition op_pai_dec_rand (arg : sx) : option sx :=
  match arg with
  | Li [At p; At q; At c] =>
      Some (match dec_with_randomness p q c with
            | Some (m, r) => Li [At m; At r]
            | None => Li [] end)
  | _ => None end.

(* "pai.validate": (N c) -> bool *)
Definition op_pai_validate (arg : sx) : option sx :=
  match arg with
  | Li [At N; At c] => Some (sx_bool (validate_ct N c))
  | _ => None end.

(* "pai.validate_n": (N) -> bool *)
Definition op_pai_validate_n (arg : sx) : option sx :=
  match arg with
  | Li [At N] => Some (sx_bool (validate_n N))
  | _ => None end.

(* "pai.exp": (n x e) -> x^e mod n   (e >= 0) *)
Definition op_pai_exp (arg : sx) : option sx :=
  match arg with
  | Li [At n; At x; At e] => Some (At (powmod n x e))
  | _ => None end.

(* "pai.expi": (n x e) -> x^e mod n   (signed e) *)
Definition op_pai_expi (arg : sx) : option sx :=
  match arg with
  | Li [At n; At x; At e] => Some (At (expI n x e))
  | _ => None end.

(* "pai.exp_crt": (p q x e) -> x^e mod p*q by Modulus.Exp with factorisation  (e >= 0) *)
Definition op_pai_exp_crt (arg : sx) : option sx :=
  match arg with
  | Li [At p; At q; At x; At e] => Some (At (exp_crt p q x e))
  | _ => None end.

(* "pai.expi_crt": (p q x e) -> Modulus.ExpI with factorisation *)
Definition op_pai_expi_crt (arg : sx) : option sx :=
  match arg with
  | Li [At p; At q; At x; At e] => Some (At (expI_crt p q x e))
  | _ => None end.

(* "pai.modinv": (n x) -> x^-1 mod n *)
Definition op_pai_modinv (arg : sx) : option sx :=
  match arg with
  | Li [At n; At x] => Some (At (modinv n x))
  | _ => None end.

(* "pai.symmod": (m x) -> SetModSymmetric *)
Definition op_pai_symmod (arg : sx) : option sx :=
  match arg with
  | Li [At m; At x] => Some (At (symmod m x))
  | _ => None end.

(* "pai.mta": (N p q a b beta_neg rho_k rho_s) -> (alpha beta) | ()
   N,p,q: the receiver's key; beta_neg: the value drawn by IntervalLPrime; beta = -beta_neg is what ProveAffG/P return;
   alpha is the receiver's Dec(D). *)
Definition op_pai_mta (arg : sx) : option sx :=
  match arg with
  | Li [At N; At p; At q; At a; At b; At bn; At rk; At rs] =>
      Some (match mta N p q a b bn rk rs with
            | Some (_, _, alpha, beta) => Li [At alpha; At beta]
            | None => Li [] end)
  | _ => None end.

(* "pai.mta_full": same arguments -> (K D alpha beta) | () *)
Definition op_pai_mta_full (arg : sx) : option sx :=
  match arg with
  | Li [At N; At p; At q; At a; At b; At bn; At rk; At rs] =>
      Some (match mta N p q a b bn rk rs with
            | Some (K, D, alpha, beta) => Li [At K; At D; At alpha; At beta]
            | None => Li [] end)
  | _ => None end.

(* "pai.mta_sender": (N a K beta_neg rho_s) -> (D beta) | () *)
Definition op_pai_mta_sender (arg : sx) : option sx :=
  match arg with
  | Li [At N; At a; At K; At bn; At rs] =>
      Some (match mta_sender N a K bn rs with
            | Some (D, beta) => Li [At D; At beta]
            | None => Li [] end)
  | _ => None end.

Definition paillier_ops : list (bytes * (sx -> option sx)) :=
  [ (str "pai.enc"%string, op_pai_enc); (str "pai.enc_sk"%string, op_pai_enc_sk);
    (str "pai.dec"%string, op_pai_dec); (str "pai.add"%string, op_pai_add);
    (str "pai.mul"%string, op_pai_mul); (str "pai.mul_sk"%string, op_pai_mul_sk);
    (str "pai.dec_rand"%string, op_pai_dec_rand); (str "pai.validate"%string, op_pai_validate);
    (str "pai.validate_n"%string, op_pai_validate_n);
    (str "pai.exp"%string, op_pai_exp); (str "pai.expi"%string, op_pai_expi);
    (str "pai.exp_crt"%string, op_pai_exp_crt); (str "pai.expi_crt"%string, op_pai_expi_crt);
    (str "pai.modinv"%string, op_pai_modinv); (str "pai.symmod"%string, op_pai_symmod);
    (str "pai.mta"%string, op_pai_mta); (str "pai.mta_full"%string, op_pai_mta_full);
    (str "pai.mta_sender"%string, op_pai_mta_sender) ].
