(* ops for the polynomial / Lagrange / sharing model (C02, C08, C14): decode sx arguments, run the model *)
From Coq Require Import String.
From Coq Require Import List NArith ZArith Bool.
From MPS Require Import Model.Bytes Model.Sx Model.Framing Model.Poly.
Import ListNotations.
Open Scope Z_scope.

Definition as_Zs : sx -> option (list Z) := as_list_of as_Z.

(* exponent encoding: (is_constant (coefs...)) *)
Definition exp_of_sx (s : sx) : option exponent :=
  match s with
  | Li [b; cs] => do b <- as_bool b; do cs <- as_Zs cs; Some (mkExp b cs)
  | _ => None end.
Definition sx_of_exp (e : exponent) : sx := Li [sx_bool (is_constant e); sx_list At (ecoefs e)].

(* a usable modulus: q > 1 (Go: the group order) *)
Definition q_ok (q : Z) : bool := 1 <? q.

(* "poly.eval": (q (coeffs) x) -> (y) | () if Evaluate panics (x = 0 mod q) *)
Definition op_poly_eval (arg : sx) : option sx :=
  match arg with
  | Li [At q; cs; At x] =>
      if q_ok q then do cs <- as_Zs cs; Some (sx_opt At (eval q cs x)) else None
  | _ => None end.

(* "poly.lagrange": (q (xs) xj) -> l_j *)
Definition op_poly_lagrange (arg : sx) : option sx :=
  match arg with
  | Li [At q; xs; At xj] =>
      if q_ok q then do xs <- as_Zs xs; Some (At (lagrange_coef q xs xj)) else None
  | _ => None end.

(* "poly.lagrange_all": (q (xs)) -> (l_0 ... l_k) *)
Definition op_poly_lagrange_all (arg : sx) : option sx :=
  match arg with
  | Li [At q; xs] =>
      if q_ok q then do xs <- as_Zs xs; Some (sx_list At (lagrange_all q xs)) else None
  | _ => None end.

(* "poly.lagrange_ids": (q (ids as bytes) j) -> (l_j) | () if LagrangeFor panics (j not in the domain) *)
Definition op_poly_lagrange_ids (arg : sx) : option sx :=
  match arg with
  | Li [At q; ids; Bs j] =>
      if q_ok q then do ids <- as_list_of as_bytes ids; Some (sx_opt At (lagrange_ids q ids j)) else None
  | _ => None end.

(* "poly.id_scalar": (q id) -> scalar *)
Definition op_poly_id_scalar (arg : sx) : option sx :=
  match arg with
  | Li [At q; Bs id] => if q_ok q then Some (At (id_scalar q id)) else None
  | _ => None end.

(* "poly.interpolate0": (q (xs) (ys)) -> sum_j l_j y_j mod q *)
Definition op_poly_interpolate0 (arg : sx) : option sx :=
  match arg with
  | Li [At q; xs; ys] =>
      if q_ok q then
        do xs <- as_Zs xs; do ys <- as_Zs ys;
        if Nat.eqb (length xs) (length ys) then Some (At (interpolate0 q xs ys)) else None
      else None
  | _ => None end.

(* "poly.exp_of_poly": (q (coeffs)) -> exponent      (discrete-log stand-in group) *)
Definition op_poly_exp_of_poly (arg : sx) : option sx :=
  match arg with
  | Li [At q; cs] => if q_ok q then do cs <- as_Zs cs; Some (sx_of_exp (exp_of_poly q cs)) else None
  | _ => None end.

(* "poly.exp_eval": (q exponent x) -> dlog of F(x) *)
Definition op_poly_exp_eval (arg : sx) : option sx :=
  match arg with
  | Li [At q; e; At x] => if q_ok q then do e <- exp_of_sx e; Some (At (exp_eval q e x)) else None
  | _ => None end.

(* "poly.exp_sum": (q (exponents)) -> (exponent) | () on error *)
Definition op_poly_exp_sum (arg : sx) : option sx :=
  match arg with
  | Li [At q; es] =>
      if q_ok q then do es <- as_list_of exp_of_sx es; Some (sx_opt sx_of_exp (exp_sum q es)) else None
  | _ => None end.

(* "poly.chain_key": (contributions) -> xor of all, starting from 32 zero bytes *)
Definition op_poly_chain_key (arg : sx) : option sx :=
  do cks <- as_list_of as_bytes arg; Some (Bs (chain_key cks)).

Definition poly_ops : list (bytes * (sx -> option sx)) :=
  [ (str "poly.eval"%string, op_poly_eval);
    (str "poly.lagrange"%string, op_poly_lagrange);
    (str "poly.lagrange_all"%string, op_poly_lagrange_all);
    (str "poly.lagrange_ids"%string, op_poly_lagrange_ids);
    (str "poly.id_scalar"%string, op_poly_id_scalar);
    (str "poly.interpolate0"%string, op_poly_interpolate0);
    (str "poly.exp_of_poly"%string, op_poly_exp_of_poly);
    (str "poly.exp_eval"%string, op_poly_exp_eval);
    (str "poly.exp_sum"%string, op_poly_exp_sum);
    (str "poly.chain_key"%string, op_poly_chain_key) ].
