(* ValidatorsProofs.v -- C15: the restore-time validation of stored key material as the source has it now
   (Generated/Validators.v) is the model's validation (Model/Cbor.v): rid_validate, frost_validate, taproot_validate,
   doerner_validate, signature_validate, presig_validate, config_checks (is Ok), exponent_decode (is Ok),
   message_unmarshal (reports no error), and the validating UnmarshalCBOR methods are `validated`.
   For ALL inputs, including nil receivers and nil fields ([nl]): the Go code never dereferences nil on the way and refuses.
   Lemmas; statements are restated in Properties/C15_guards.v. *)
From Coq Require Import String List Bool Arith NArith ZArith Lia.
From MPS Require Import Model.Bytes Model.Secp256k1 Model.Cbor.
From MPS Require Model.Paillier Model.ZK Proofs.PaillierProofs Proofs.CborProofs.
From MPS Require Import Generated.Params Generated.Guards Generated.Validators Proofs.GuardsBase Proofs.ZKGuardsBase Proofs.ValidatorsBase.
Import ListNotations.
Local Open Scope string_scope.
Local Open Scope Z_scope.

Lemma restore_translated :
  vtranslated ["RID_Validate"; "frost_Config_Validate"; "frost_Config_UnmarshalCBOR"; "frost_TaprootConfig_Validate";
               "frost_TaprootConfig_UnmarshalCBOR"; "doerner_validateConfig"; "doerner_ConfigReceiver_Validate";
               "doerner_ConfigReceiver_UnmarshalCBOR"; "doerner_ConfigSender_Validate"; "doerner_ConfigSender_UnmarshalCBOR";
               "cmp_Config_UnmarshalBinary"; "ecdsa_PreSignature_Validate"; "ecdsa_PreSignature_UnmarshalCBOR";
               "ecdsa_Signature_Validate"; "ecdsa_Signature_UnmarshalCBOR"; "polynomial_Exponent_UnmarshalBinary";
               "protocol_Message_UnmarshalBinary"; "taproot_PublicKey_Verify"] = true.
Proof. vm_compute. reflexivity. Qed.

Lemma restore_params_ok : go_param_SecBytes = Z.of_nat sec_bytes /\ go_const_taproot_SignatureLen = 64.
Proof. split; reflexivity. Qed.

(* ---------------------------------------------------------------- RID.Validate *)

Lemma any_nonzero_all_zero b : any_nonzero b = negb (all_zero b).
Proof.
  unfold any_nonzero, all_zero. induction b as [|x b IH]; [reflexivity|].
  cbn [existsb forallb]. rewrite IH, negb_andb. reflexivity.
Qed.

Lemma nat_eqb_Z a b : (Z.of_nat a =? Z.of_nat b) = Nat.eqb a b.
Proof.
  destruct (Nat.eqb a b) eqn:E.
  - apply Nat.eqb_eq in E. subst. apply Z.eqb_refl.
  - apply Nat.eqb_neq in E. apply Z.eqb_neq. lia.
Qed.

Lemma RID_Validate r : geval (alookup (env_rid r)) go_RID_Validate = Some (rid_validate r).
Proof.
  unfold env_rid, go_RID_Validate, rid_validate. change go_param_SecBytes with (Z.of_nat sec_bytes).
  rewrite nat_eqb_Z. destruct r as [b|]; cbn [olen].
  - rewrite any_nonzero_all_zero. gsolve.
  - reflexivity.
Qed.

(* ---------------------------------------------------------------- shares with nil-able entries *)

Lemma collapse_length m : length (collapse m) = length m.
Proof. apply map_length. Qed.

Lemma bad_share_collapse m : bad_share m = negb (shares_ok (collapse m)).
Proof.
  unfold bad_share, shares_ok, collapse. induction m as [|[id [P|]] m IH]; [reflexivity| |];
    cbn [existsb forallb map fst snd]; rewrite IH, negb_andb, ?negb_involutive; reflexivity.
Qed.

(* ---------------------------------------------------------------- frost keygen.Config.Validate *)

Lemma frost_Config_Validate nl id thr x Y ck shares :
  geval (alookup (env_frost_validate nl id thr x Y shares)) go_frost_Config_Validate
  = Some (nn nl frost_names && frost_validate (mkFrost id thr x Y ck (collapse shares))).
Proof.
  unfold env_frost_validate, go_frost_Config_Validate, frost_names, frost_validate.
  cbn [f_share f_public f_threshold f_shares f_id]. rewrite bad_share_collapse, collapse_length.
  rewrite (Z.leb_antisym thr 0), (Z.leb_antisym (Z.of_nat (length shares) - 1) thr).
  set (ok := shares_ok _). set (hs := has_share _ _).
  zsolve.
Qed.

Lemma frost_Config_Validate_trace_ok :
  go_frost_Config_Validate_trace =
  [ "if r == nil || r.PrivateShare == nil || r.PublicKey == nil || r.VerificationShares == nil -> return error";
    "if r.PrivateShare.IsZero() -> return error";
    "if r.PublicKey.IsIdentity() -> return error";
    "do n := len(r.VerificationShares.Points)";
    "if r.Threshold < 0 || r.Threshold > n-1 -> return error";
    "if !ok where _, ok := r.VerificationShares.Points[r.ID] -> return error";
    "loop any id, share in r.VerificationShares.Points: share == nil || share.IsIdentity() -> return error";
    "return nil" ].
Proof. reflexivity. Qed.

(* ---------------------------------------------------------------- frost keygen.TaprootConfig.Validate *)

Lemma frost_TaprootConfig_Validate nl id thr x pk ck shares :
  geval (alookup (env_taproot_validate nl id thr x pk shares)) go_frost_TaprootConfig_Validate
  = Some (negb (nl "r") && taproot_validate (mkTaproot id thr x pk ck (collapse shares))).
Proof.
  unfold env_taproot_validate, go_frost_TaprootConfig_Validate, taproot_validate.
  cbn [t_share t_public t_threshold t_shares t_id]. rewrite bad_share_collapse, collapse_length.
  rewrite (Z.leb_antisym thr 0), (Z.leb_antisym (Z.of_nat (length shares) - 1) thr).
  set (ok := shares_ok _). set (hs := has_share _ _).
  destruct x as [x|], pk as [pk|]; cbn [olen is_none]; zsolve.
Qed.

Lemma frost_TaprootConfig_Validate_trace_ok :
  go_frost_TaprootConfig_Validate_trace =
  [ "if r == nil || r.PrivateShare == nil -> return error";
    "if r.PrivateShare.IsZero() -> return error";
    "if len(r.PublicKey) != 32 -> return error";
    "if err != nil where _, err := (curve.Secp256k1{}).LiftX(r.PublicKey) -> return error";
    "do n := len(r.VerificationShares)";
    "if r.Threshold < 0 || r.Threshold > n-1 -> return error";
    "if !ok where _, ok := r.VerificationShares[r.ID] -> return error";
    "loop any id, share in r.VerificationShares: share == nil || share.IsIdentity() -> return error";
    "return nil" ].
Proof. reflexivity. Qed.

(* ---------------------------------------------------------------- doerner keygen *)

Lemma doerner_validateConfig noSetup x Y ck :
  geval (alookup (env_doerner_validate noSetup x Y ck)) go_doerner_validateConfig
  = Some (match x, Y with Some x, Some Y => doerner_validate (doerner_of noSetup x Y ck) | _, _ => false end).
Proof.
  unfold env_doerner_validate, go_doerner_validateConfig, doerner_validate, doerner_of, chain_ok.
  change go_param_SecBytes with (Z.of_nat sec_bytes). rewrite nat_eqb_Z.
  destruct x as [x|], Y as [Y|], noSetup, ck as [ck|]; cbn [olen d_setup d_share d_public d_chain]; zsolve.
Qed.

Lemma doerner_Config_Validate nl v :
  geval (alookup (env_doerner_cfg nl v)) go_doerner_ConfigReceiver_Validate = Some (negb (nl "c") && v) /\
  geval (alookup (env_doerner_cfg nl v)) go_doerner_ConfigSender_Validate = Some (negb (nl "c") && v).
Proof. unfold env_doerner_cfg, go_doerner_ConfigReceiver_Validate, go_doerner_ConfigSender_Validate. split; zsolve. Qed.

(* ---------------------------------------------------------------- the validating UnmarshalCBOR methods *)

Lemma validated_ok {A} (f : A -> bool) (o : outcome A) :
  is_okb (validated f o) = match o with Ok a => f a | _ => false end.
Proof. destruct o as [a| |]; cbn; [destruct (f a)|..]; reflexivity. Qed.

Lemma unmarshal_cbor_generic {A} (f : A -> bool) (o : outcome A) :
  geval (alookup (env_unmarshal_cbor f o)) go_frost_Config_UnmarshalCBOR = Some (is_okb (validated f o)) /\
  geval (alookup (env_unmarshal_cbor f o)) go_frost_TaprootConfig_UnmarshalCBOR = Some (is_okb (validated f o)) /\
  geval (alookup (env_unmarshal_cbor f o)) go_doerner_ConfigReceiver_UnmarshalCBOR = Some (is_okb (validated f o)) /\
  geval (alookup (env_unmarshal_cbor f o)) go_doerner_ConfigSender_UnmarshalCBOR = Some (is_okb (validated f o)) /\
  geval (alookup (env_unmarshal_cbor f o)) go_ecdsa_Signature_UnmarshalCBOR = Some (is_okb (validated f o)).
Proof.
  rewrite validated_ok. unfold env_unmarshal_cbor.
  repeat split; destruct o as [a| |]; cbn [is_okb]; zsolve.
Qed.

(* the five bodies: the recover handler first, then the default decoding, then Validate *)
Lemma unmarshal_cbor_traces_ok :
  go_frost_Config_UnmarshalCBOR_trace =
  [ "do defer func() { if p := recover(); p != nil { err = fmt.Errorf(""frost config: malformed data: %v"", p) } }()";
    "do type plain Config";
    "if err != nil where err := cbor.Unmarshal(data, (*plain)(r)) -> return error";
    "return r.Validate()" ] /\
  go_frost_TaprootConfig_UnmarshalCBOR_trace =
  [ "do defer func() { if p := recover(); p != nil { err = fmt.Errorf(""frost taproot config: malformed data: %v"", p) } }()";
    "do type plain TaprootConfig";
    "if err != nil where err := cbor.Unmarshal(data, (*plain)(r)) -> return error";
    "return r.Validate()" ] /\
  go_doerner_ConfigReceiver_UnmarshalCBOR_trace =
  [ "do defer func() { if p := recover(); p != nil { err = fmt.Errorf(""doerner config: malformed data: %v"", p) } }()";
    "do type plain ConfigReceiver";
    "if err != nil where err := cbor.Unmarshal(data, (*plain)(c)) -> return error";
    "return c.Validate()" ] /\
  go_doerner_ConfigSender_UnmarshalCBOR_trace =
  [ "do defer func() { if p := recover(); p != nil { err = fmt.Errorf(""doerner config: malformed data: %v"", p) } }()";
    "do type plain ConfigSender";
    "if err != nil where err := cbor.Unmarshal(data, (*plain)(c)) -> return error";
    "return c.Validate()" ] /\
  go_ecdsa_Signature_UnmarshalCBOR_trace =
  [ "do defer func() { if p := recover(); p != nil { err = fmt.Errorf(""signature: malformed data: %v"", p) } }()";
    "do type plain Signature";
    "if err != nil where err := cbor.Unmarshal(data, (*plain)(sig)) -> return error";
    "return sig.Validate()" ] /\
  go_ecdsa_PreSignature_UnmarshalCBOR_trace =
  [ "do defer func() { if p := recover(); p != nil { err = fmt.Errorf(""presignature: malformed data: %v"", p) } }()";
    "do type plain PreSignature";
    "if err != nil where err := cbor.Unmarshal(data, (*plain)(sig)) -> return error";
    "if err != nil where err := sig.Validate() -> return error";
    "if len(sig.RBar.Points) == 0 -> return error";
    "return nil" ].
Proof. repeat split; reflexivity. Qed.

(* the model's restore functions are exactly this shape *)
Lemma restore_functions_validated bs :
  frost_unmarshal bs = match decode bs with Some (t, _) => validated frost_validate (frost_of_tree t) | None => Err 1 end /\
  taproot_unmarshal bs = match decode bs with Some (t, _) => validated taproot_validate (taproot_of_tree t) | None => Err 1 end /\
  (forall n, doerner_unmarshal n bs = match decode bs with Some (t, _) => validated doerner_validate (doerner_of_tree n t) | None => Err 1 end) /\
  signature_unmarshal bs = match decode bs with Some (t, _) => validated signature_validate (signature_of_tree t) | None => Err 1 end /\
  presig_unmarshal bs = match decode bs with Some (t, _) => validated presig_validate (presig_of_tree t) | None => Err 1 end.
Proof. repeat split. Qed.

(* ---------------------------------------------------------------- ecdsa.Signature.Validate *)

Lemma ecdsa_Signature_Validate nl R s :
  geval (alookup (env_signature_validate nl R s)) go_ecdsa_Signature_Validate
  = Some (nn nl sig_names && signature_validate (R, s)).
Proof. unfold env_signature_validate, go_ecdsa_Signature_Validate, sig_names, signature_validate. cbn [fst snd]. zsolve. Qed.

(* ---------------------------------------------------------------- ecdsa.PreSignature.Validate / UnmarshalCBOR *)

Lemma presig_pairs_meaning sm rb :
  existsb (presig_pair_refused sm) rb
  = negb (forallb (fun e => negb (is_identity (snd e))
                            && match find_share (fst e) sm with Some Sj => negb (is_identity Sj) | None => false end) rb).
Proof.
  induction rb as [|e rb IH]; [reflexivity|]. cbn [existsb forallb]. rewrite IH, negb_andb. f_equal.
  unfold presig_pair_refused. destruct (find_share (fst e) sm) as [Sj|]; destruct (is_identity (snd e)); cbn;
    try destruct (is_identity Sj); reflexivity.
Qed.

Lemma ecdsa_PreSignature_Validate nl id R rb sm k chi :
  geval (alookup (env_presig_validate nl id R rb sm k chi)) go_ecdsa_PreSignature_Validate
  = Some (nn nl presig_names && no_nil_entries rb sm && presig_validate_go (presig_of id R rb sm k chi)).
Proof.
  unfold env_presig_validate, go_ecdsa_PreSignature_Validate, presig_names, no_nil_entries, presig_validate_go, presig_of.
  cbn [ps_RBar ps_S ps_R ps_id ps_chi ps_k].
  destruct rb as [a|], sm as [b|]; cbn [option_map is_none].
  - rewrite !collapse_length, presig_pairs_meaning.
    set (fa := forallb _ (collapse a)). set (rv := rid_validate id).
    destruct (nil_entry a), (nil_entry b); cbn [orb]; zsolve.
  - zsolve.
  - zsolve.
  - zsolve.
Qed.

Lemma presig_validate_split p :
  presig_validate p = presig_validate_go p && match ps_RBar p with Some rb => negb (Nat.eqb (length rb) 0) | None => false end.
Proof.
  unfold presig_validate, presig_validate_go, rid_validate.
  destruct (ps_RBar p) as [rb|], (ps_S p) as [sm|]; try reflexivity.
Qed.

Lemma ecdsa_PreSignature_UnmarshalCBOR o :
  geval (alookup (env_presig_unmarshal o)) go_ecdsa_PreSignature_UnmarshalCBOR = Some (is_okb (validated presig_validate o)).
Proof.
  rewrite validated_ok. unfold env_presig_unmarshal, go_ecdsa_PreSignature_UnmarshalCBOR.
  destruct o as [p| |]; cbn [is_okb]; [|zsolve|zsolve].
  rewrite presig_validate_split.
  assert (Hn : ps_RBar p = None -> presig_validate_go p = false) by (intro E; unfold presig_validate_go; rewrite E; reflexivity).
  destruct (ps_RBar p) as [rb|].
  - set (v := presig_validate_go p). set (z := Nat.eqb _ 0). zsolve.
  - rewrite (Hn eq_refl). zsolve.
Qed.

(* ---------------------------------------------------------------- polynomial.Exponent.UnmarshalBinary *)

Lemma polynomial_Exponent_UnmarshalBinary nl bs :
  geval (alookup (env_exponent nl bs)) go_polynomial_Exponent_UnmarshalBinary
  = Some (nn nl exp_names && is_okb (exponent_decode bs)).
Proof.
  unfold env_exponent, go_polynomial_Exponent_UnmarshalBinary, exp_names, exponent_decode.
  destruct (length bs <? 4)%nat; [zsolve|].
  set (lt := (lenN bs <? _)%N). set (body := exponent_decode_body _ _).
  destruct lt; cbn [is_okb]; zsolve.
Qed.

Lemma polynomial_Exponent_UnmarshalBinary_trace_ok :
  go_polynomial_Exponent_UnmarshalBinary_trace =
  [ "if e == nil || e.group == nil -> return error";
    "do group := e.group";
    "if len(data) < 4 -> return error";
    "do size := binary.BigEndian.Uint32(data)";
    "if uint64(size) > uint64(len(data)) -> return error";
    "do e.coefficients = make([]curve.Point, int(size))";
    "do for i := 0; i < len(e.coefficients); i++ { e.coefficients[i] = group.NewPoint() }";
    "do rawExponent := rawExponentData{Coefficients: e.coefficients}";
    "if err != nil where err := cbor.Unmarshal(data[4:], &rawExponent) -> return error";
    "do e.group = group";
    "do e.coefficients = rawExponent.Coefficients";
    "do e.IsConstant = rawExponent.IsConstant";
    "return nil" ].
Proof. reflexivity. Qed.

(* ---------------------------------------------------------------- protocol.Message.UnmarshalBinary *)

Lemma protocol_Message_UnmarshalBinary m0 bs :
  geval (alookup (env_message (message_decode empty_message bs))) go_protocol_Message_UnmarshalBinary
  = Some (negb (snd (message_unmarshal m0 bs))).
Proof.
  unfold env_message, go_protocol_Message_UnmarshalBinary, message_unmarshal.
  destruct (message_decode empty_message bs) as [m|]; [|reflexivity].
  cbn [is_none onz]. destruct (nonempty (m_from m)), (nonempty (m_protocol m)); reflexivity.
Qed.

(* decoded into a fresh struct; the receiver is written only after both checks *)
Lemma protocol_Message_UnmarshalBinary_trace_ok :
  go_protocol_Message_UnmarshalBinary_trace =
  [ "do deserialized := new(marshallableMessage)";
    "if err != nil where err := cbor.Unmarshal(data, deserialized) -> return error";
    "if deserialized.From == """" || deserialized.Protocol == """" -> return error";
    "do m.SSID = deserialized.SSID";
    "do m.From = deserialized.From";
    "do m.To = deserialized.To";
    "do m.Protocol = deserialized.Protocol";
    "do m.RoundNumber = deserialized.RoundNumber";
    "do m.Data = deserialized.Data";
    "do m.Broadcast = deserialized.Broadcast";
    "do m.BroadcastVerification = deserialized.BroadcastVerification";
    "return nil" ].
Proof. reflexivity. Qed.

(* ---------------------------------------------------------------- taproot.PublicKey.Verify: the length guards come first *)

Lemma taproot_Verify_lengths sig_len pk_len rest :
  (sig_len <> 64 \/ pk_len <> 32)%nat ->
  geval (env_taproot_lengths sig_len pk_len rest) go_taproot_PublicKey_Verify = Some false.
Proof.
  intros H. unfold go_taproot_PublicKey_Verify. cbn [geval]. unfold env_taproot_lengths at 1. cbn [String.eqb Ascii.eqb Bool.eqb].
  change go_const_taproot_SignatureLen with (Z.of_nat 64). rewrite nat_eqb_Z.
  destruct (Nat.eqb sig_len 64) eqn:E1; [|reflexivity]. cbn [negb].
  unfold env_taproot_lengths at 1. cbn [String.eqb Ascii.eqb Bool.eqb].
  destruct (Nat.eqb pk_len 32) eqn:E2; [|reflexivity].
  apply Nat.eqb_eq in E1, E2. lia.
Qed.

(* ---------------------------------------------------------------- cmp config.UnmarshalBinary *)

Section CmpUnmarshalProofs.
  Variable pt : Z -> bool.
  Variable ab : Z -> point.

  Lemma cmp_iter_body id NN acc e :
    geval (alookup (env_cmp_iter id NN acc e)) go_cmp_Config_UnmarshalBinary_loop1 = Some (cmp_iter_ok id NN acc e).
  Proof.
    unfold env_cmp_iter, go_cmp_Config_UnmarshalBinary_loop1, cmp_iter_ok.
    destruct e as [p| |]; cbn [is_okb]; [|reflexivity|reflexivity].
    set (h := has_id _ _). set (own := bytes_eqb _ _). set (v1 := validate_pedersen (Some NN) _ _).
    set (v2 := validate_N _). set (v3 := validate_pedersen (pm_N p) _ _).
    set (i1 := is_identity (pm_ecdsa p)). set (i2 := is_identity (pm_elgamal p)).
    destruct (pm_S p), (pm_T p), (pm_N p); cbn [is_none]; zsolve.
  Qed.

  Lemma cmp_loop_run_model id x y NN l : forall acc,
    cmp_loop_run ab id x y NN l acc = out_opt (process_publics ab id x y NN l acc).
  Proof.
    induction l as [|e l IH]; intro acc; [reflexivity|].
    cbn [cmp_loop_run]. rewrite cmp_iter_body.
    destruct e as [p| |]; cbn [cmp_iter_ok process_publics]; [|reflexivity|reflexivity].
    destruct (has_id (pm_id p) acc); cbn [negb andb]; [reflexivity|].
    unfold cmp_entry.
    destruct (pm_S p) as [s|], (pm_T p) as [t|]; cbn [is_none orb negb andb]; try reflexivity.
    destruct (bytes_eqb (pm_id p) id).
    - destruct (validate_pedersen (Some NN) (Some s) (Some t)); cbn [negb]; [apply IH|reflexivity].
    - destruct (pm_N p) as [n|] eqn:EN; cbn [is_none negb andb]; [|reflexivity].
      destruct (validate_N (Some n)); cbn [negb andb]; [|reflexivity].
      destruct (validate_pedersen (Some n) (Some s) (Some t)); cbn [negb andb]; [|reflexivity].
      destruct (is_identity (pm_ecdsa p) || is_identity (pm_elgamal p)); cbn [negb]; [reflexivity|apply IH].
  Qed.

  Lemma cmp_Config_UnmarshalBinary group_nil o :
    geval (alookup (env_cmp_unmarshal pt ab group_nil o)) go_cmp_Config_UnmarshalBinary
    = Some (negb group_nil && cmp_unmarshal_ok pt ab o).
  Proof.
    unfold env_cmp_unmarshal, go_cmp_Config_UnmarshalBinary, cmp_unmarshal_ok.
    destruct o as [[cm|]|]; cbn [is_none onz]; [|destruct group_nil; reflexivity|destruct group_nil; reflexivity].
    unfold config_checks.
    destruct (cm_P cm) as [P|] eqn:EP, (cm_Q cm) as [Q|] eqn:EQ; cbn [is_none];
      [|destruct group_nil; reflexivity|destruct group_nil; reflexivity|destruct group_nil; reflexivity].
    rewrite cmp_loop_run_model.
    set (r1 := rid_validate (cm_rid cm)). set (r2 := rid_validate (cm_chain cm)).
    set (z1 := cm_ecdsa cm =? 0). set (z2 := cm_elgamal cm =? 0).
    set (p1 := validate_prime pt (Some P)). set (p2 := validate_prime pt (Some Q)). set (eq := P =? Q).
    set (vn := validate_N (Some (P * Q))).
    set (pp := process_publics ab _ _ _ _ _ _).
    destruct pp as [ps| |]; cbn [out_opt is_some].
    - set (vt := valid_threshold _ _). set (hi := has_id _ _). zsolve.
    - zsolve.
    - zsolve.
  Qed.

  (* config_unmarshal is Ok exactly when the decoded tree passes config_checks (a panic while decoding is recovered) *)
  Lemma cmp_unmarshal_ok_model bs :
    is_okb (config_unmarshal pt ab bs) = cmp_unmarshal_ok pt ab (cmp_decoded bs).
  Proof.
    unfold config_unmarshal, cmp_decoded, cmp_unmarshal_ok.
    destruct (decode bs) as [[t rest]|]; [|reflexivity].
    destruct t; try reflexivity;
      (destruct (config_of_tree _) as [cm| |]; cbn [recovered is_okb]; [|reflexivity|reflexivity];
       destruct (config_checks pt ab cm); reflexivity).
  Qed.
End CmpUnmarshalProofs.

(* the checks sit between the computations exactly like this (the order of the return statements, the recover handler
   before the decoding, NN = P*Q from NewSecretKeyFromPrimes before the own-modulus check, the two map writes) *)
Lemma cmp_Config_UnmarshalBinary_trace_ok :
  go_cmp_Config_UnmarshalBinary_trace =
  [ "if c.Group == nil -> return error";
    "do defer func() { if r := recover(); r != nil { err = fmt.Errorf(""config: malformed data: %v"", r) } }()";
    "do cm := &configMarshal{ECDSA: c.Group.NewScalar(), ElGamal: c.Group.NewScalar()}";
    "if err != nil where err := cbor.Unmarshal(data, &cm) -> return error";
    "if cm == nil || cm.ECDSA == nil || cm.ElGamal == nil || cm.P == nil || cm.Q == nil -> return error";
    "if err != nil where err := cm.RID.Validate() -> return error";
    "if err != nil where err := cm.ChainKey.Validate() -> return error";
    "if cm.ECDSA.IsZero() || cm.ElGamal.IsZero() -> return error";
    "if err != nil where err := paillier.ValidatePrime(cm.P) -> return error";
    "if err != nil where err := paillier.ValidatePrime(cm.Q) -> return error";
    "if cm.P.Eq(cm.Q) == 1 -> return error";
    "do paillierSecret := paillier.NewSecretKeyFromPrimes(cm.P, cm.Q)";
    "if err != nil where err := paillier.ValidateN(paillierSecret.PublicKey.N()) -> return error";
    "do ps := make(map[party.ID]*Public, len(cm.Public))";
    "loop1 every pm in cm.Public {";
    "do p := &publicMarshal{ECDSA: c.Group.NewPoint(), ElGamal: c.Group.NewPoint()}";
    "if err != nil where err := cbor.Unmarshal(pm, p) -> return error";
    "if ok where _, ok := ps[p.ID] -> return error";
    "if p.ECDSA == nil || p.ElGamal == nil || p.S == nil || p.T == nil -> return error";
    "if p.ID == cm.ID {";
    "if err != nil where err := pedersen.ValidateParameters(paillierSecret.PublicKey.N(), p.S, p.T) -> return error";
    "do ps[p.ID] = &Public{ECDSA: cm.ECDSA.ActOnBase(), ElGamal: cm.ElGamal.ActOnBase(), Paillier: paillierSecret.PublicKey, Pedersen: pedersen.New(paillierSecret.Modulus(), p.S, p.T)}";
    "continue";
    "}";
    "if p.N == nil -> return error";
    "if err != nil where err := paillier.ValidateN(p.N) -> return error";
    "if err != nil where err := pedersen.ValidateParameters(p.N, p.S, p.T) -> return error";
    "if p.ECDSA.IsIdentity() || p.ElGamal.IsIdentity() -> return error";
    "do paillierPublic := paillier.NewPublicKey(p.N)";
    "do ps[p.ID] = &Public{ECDSA: p.ECDSA, ElGamal: p.ElGamal, Paillier: paillierPublic, Pedersen: pedersen.New(paillierPublic.Modulus(), p.S, p.T)}";
    "}";
    "if !ValidThreshold(cm.Threshold, len(ps)) -> return error";
    "if !ok where _, ok := ps[cm.ID] -> return error";
    "do *c = Config{Group: c.Group, ID: cm.ID, Threshold: cm.Threshold, ECDSA: cm.ECDSA, ElGamal: cm.ElGamal, Paillier: paillierSecret, RID: cm.RID, ChainKey: cm.ChainKey, Public: ps}";
    "return nil" ].
Proof. reflexivity. Qed.

(* ---------------------------------------------------------------- the call atoms are the functions proved in C12_guards *)

(* Model/Cbor.v states the Pedersen validation with Z.gcd, Model/ZK.v (whose ped_validate the translated
   pedersen.ValidateParameters is proved equal to, Properties/C12_guards.v) with the extended Euclid of the Paillier model *)
Lemma validate_pedersen_ped_validate n s t : 0 < n ->
  validate_pedersen (Some n) (Some s) (Some t) = ZK.ped_validate n s t.
Proof.
  intro Hn. unfold validate_pedersen, ZK.ped_validate, valid_mod_N, ZK.valid_mod.
  rewrite !PaillierProofs.gcd_mod_spec by exact Hn. reflexivity.
Qed.

(* ---------------------------------------------------------------- what the translated UnmarshalBinary accepts is valid *)

(* composition with Proofs/CborProofs.v (C15_config_unmarshal_sound): if the body of config.UnmarshalBinary as the source has it
   now, evaluated on the decoding of [bs], returns a nil error, then the restored config satisfies the validity rules of the
   property.  The two hypotheses are the ones of C15_config_unmarshal_sound (sound primality test, k.G is a finite point). *)
Lemma cmp_translated_accepts_valid (pt : Z -> bool) (ab : Z -> point) :
  (forall k, 0 < k < secp_q -> valid_point (ab k)) ->
  (forall p, pt p = true -> Znumtheory.prime p) ->
  forall bs,
    geval (alookup (env_cmp_unmarshal pt ab false (cmp_decoded bs))) go_cmp_Config_UnmarshalBinary = Some true ->
    exists c, config_unmarshal pt ab bs = Ok c /\ valid_config c.
Proof.
  intros Hab Hpt bs H. rewrite cmp_Config_UnmarshalBinary in H. cbn [negb andb] in H.
  injection H as H. rewrite <- cmp_unmarshal_ok_model in H.
  destruct (config_unmarshal pt ab bs) as [c| |] eqn:E; try discriminate.
  exists c. split; [reflexivity|]. exact (CborProofs.config_unmarshal_sound pt ab Hab Hpt bs c E).
Qed.
