(* CborProofs.v -- lemmas about Model/Cbor.v (C15): CBOR round trip for every well-formed item,
   Message / Exponent / scalar / point codecs, and the validation logic of cmp config.UnmarshalBinary. *)
From Coq Require Import String.
From Coq Require Import List NArith ZArith Bool Lia Znumtheory.
From MPS Require Import Model.Bytes Model.Secp256k1 Model.Cbor Proofs.BytesProofs Proofs.RefSigProofs.
Import ListNotations.
Open Scope N_scope.

(* ------------------------------------------------------------------------------------------------ *)
(* induction principle for the nested type                                                           *)

Section CborInd.
  Variable P : cbor -> Prop.
  Hypothesis HUint : forall n, P (CUint n).
  Hypothesis HNeg : forall n, P (CNeg n).
  Hypothesis HBytes : forall b, P (CBytes b).
  Hypothesis HText : forall b, P (CText b).
  Hypothesis HArr : forall l, Forall P l -> P (CArr l).
  Hypothesis HMap : forall l, Forall (fun kv => P (fst kv) /\ P (snd kv)) l -> P (CMap l).
  Hypothesis HBool : forall b, P (CBool b).
  Hypothesis HNull : P CNull.

  Fixpoint cbor_ind' (v : cbor) : P v :=
    match v with
    | CUint n => HUint n
    | CNeg n => HNeg n
    | CBytes b => HBytes b
    | CText b => HText b
    | CArr l =>
        HArr l ((fix go (l : list cbor) : Forall P l :=
                   match l with
                   | [] => Forall_nil _
                   | x :: l' => Forall_cons x (cbor_ind' x) (go l')
                   end) l)
    | CMap l =>
        HMap l ((fix go (l : list (cbor * cbor)) : Forall (fun kv => P (fst kv) /\ P (snd kv)) l :=
                   match l with
                   | [] => Forall_nil _
                   | kv :: l' => Forall_cons kv (conj (cbor_ind' (fst kv)) (cbor_ind' (snd kv))) (go l')
                   end) l)
    | CBool b => HBool b
    | CNull => HNull
    end.
End CborInd.

(* ------------------------------------------------------------------------------------------------ *)
(* heads                                                                                             *)

Lemma firstn_app_exact {A} (a b : list A) : firstn (length a) (a ++ b) = a.
Proof. induction a as [|x a IH]; simpl; [reflexivity | now rewrite IH]. Qed.

Lemma skipn_app_exact {A} (a b : list A) : skipn (length a) (a ++ b) = b.
Proof. induction a as [|x a IH]; simpl; [reflexivity | exact IH]. Qed.

Lemma firstn_app_len {A} (a b : list A) k : length a = k -> firstn k (a ++ b) = a.
Proof. intros <-. apply firstn_app_exact. Qed.
Lemma skipn_app_len {A} (a b : list A) k : length a = k -> skipn k (a ++ b) = b.
Proof. intros <-. apply skipn_app_exact. Qed.

Lemma read_arg_be k info n rest :
  arg_width info = Some (S k) -> n < 256 ^ N.of_nat (S k) ->
  read_arg info (be_bytes (S k) n ++ rest) = Some (n, rest).
Proof.
  intros Hw Hn. unfold read_arg. rewrite Hw.
  assert (L : length (be_bytes (S k) n) = S k) by apply be_bytes_length.
  assert (Hlt : (length (be_bytes (S k) n ++ rest) <? S k)%nat = false).
  { apply Nat.ltb_ge. rewrite app_length, L. lia. }
  rewrite Hlt.
  rewrite (firstn_app_len _ _ _ L), (skipn_app_len _ _ _ L).
  rewrite be_val_be_bytes, N.mod_small by assumption. reflexivity.
Qed.

Lemma initial_byte major info :
  info < 32 -> (major * 32 + info) / 32 = major /\ (major * 32 + info) mod 32 = info.
Proof.
  intro H. split.
  - symmetry. apply (N.div_unique _ 32 major info); lia.
  - symmetry. apply (N.mod_unique _ 32 major info); lia.
Qed.

(* reading back a shortest-form head: the additional information depends on n only *)
Definition info_of (n : N) : N :=
  if n <? 24 then n else if n <? 256 then 24 else if n <? 65536 then 25 else if n <? 4294967296 then 26 else 27.

Lemma read_head_head major n rest :
  n < two64 -> read_head (head major n ++ rest) = Some (major, info_of n, n, rest).
Proof.
  intro Hn. unfold head, info_of.
  destruct (N.ltb_spec n 24) as [H1|H1].
  { cbn [app read_head]. destruct (initial_byte major n) as [-> ->]; [lia|].
    unfold read_arg, arg_width. apply N.ltb_lt in H1. rewrite H1. reflexivity. }
  destruct (N.ltb_spec n 256) as [H2|H2].
  { cbn [app read_head]. destruct (initial_byte major 24) as [-> ->]; [lia|].
    rewrite (read_arg_be 0); [reflexivity | reflexivity | exact H2]. }
  destruct (N.ltb_spec n 65536) as [H3|H3].
  { cbn [app read_head]. destruct (initial_byte major 25) as [-> ->]; [lia|].
    rewrite (read_arg_be 1); [reflexivity | reflexivity | exact H3]. }
  destruct (N.ltb_spec n 4294967296) as [H4|H4].
  { cbn [app read_head]. destruct (initial_byte major 26) as [-> ->]; [lia|].
    rewrite (read_arg_be 3); [reflexivity | reflexivity | exact H4]. }
  cbn [app read_head]. destruct (initial_byte major 27) as [-> ->]; [lia|].
  rewrite (read_arg_be 7); [reflexivity | reflexivity | exact Hn].
Qed.

Lemma head_nonempty major n : (1 <= length (head major n))%nat.
Proof. unfold head. repeat (destruct (_ <? _)); cbn [length]; lia. Qed.

Lemma take_app (b rest : bytes) : take (lenN b) (b ++ rest) = Some (b, rest).
Proof.
  unfold take, lenN. rewrite app_length, Nat2N.id.
  assert (H : (N.of_nat (length b) <=? N.of_nat (length b + length rest)) = true) by (apply N.leb_le; lia).
  rewrite H, firstn_app_exact, skipn_app_exact. reflexivity.
Qed.

(* ------------------------------------------------------------------------------------------------ *)
(* round trip                                                                                        *)

Lemma encode_nonempty v : (1 <= length (encode v))%nat.
Proof.
  destruct v; cbn [encode]; try rewrite app_length;
    try (pose proof (head_nonempty 0 n); lia); try (pose proof (head_nonempty 1 n); lia).
  - pose proof (head_nonempty 2 (lenN b)). lia.
  - pose proof (head_nonempty 3 (lenN b)). lia.
  - pose proof (head_nonempty 4 (lenN l)). lia.
  - pose proof (head_nonempty 5 (lenN l)). lia.
  - cbn. lia.
  - cbn. lia.
Qed.

Lemma flat_map_encode_length l : (length l <= length (flat_map encode l))%nat.
Proof.
  induction l as [|x l IH]; cbn [flat_map length]; [lia|].
  rewrite app_length. pose proof (encode_nonempty x). lia.
Qed.

Lemma flat_map_pairs_length (l : list (cbor * cbor)) :
  (length l <= length (flat_map (fun kv => encode (fst kv) ++ encode (snd kv)) l))%nat.
Proof.
  induction l as [|x l IH]; cbn [flat_map length]; [lia|].
  rewrite !app_length. pose proof (encode_nonempty (fst x)). lia.
Qed.

Definition rt (v : cbor) : Prop :=
  wf_cbor v = true ->
  forall fuel rest, (length (encode v) <= fuel)%nat -> decode_fuel fuel (encode v ++ rest) = Some (v, rest).

Lemma decode_seq_rt f l :
  Forall rt l -> forallb wf_cbor l = true -> (length (flat_map encode l) <= f)%nat ->
  forall rest, decode_seq (decode_fuel f) (length l) (flat_map encode l ++ rest) = Some (l, rest).
Proof.
  induction l as [|x l IH]; intros HF Hwf Hlen rest; [reflexivity|].
  inversion HF as [|? ? Hx HF']; subst.
  cbn [forallb] in Hwf. apply andb_true_iff in Hwf as [Hwx Hwl].
  cbn [flat_map] in *. rewrite app_length in Hlen.
  cbn [length decode_seq]. rewrite <- app_assoc.
  rewrite (Hx Hwx f) by lia.
  rewrite (IH HF' Hwl) by lia. reflexivity.
Qed.

Lemma decode_pairs_rt f (l : list (cbor * cbor)) :
  Forall (fun kv => rt (fst kv) /\ rt (snd kv)) l ->
  forallb (fun kv => wf_cbor (fst kv) && wf_cbor (snd kv)) l = true ->
  (length (flat_map (fun kv => encode (fst kv) ++ encode (snd kv)) l) <= f)%nat ->
  forall rest,
    decode_pairs (decode_fuel f) (length l)
      (flat_map (fun kv => encode (fst kv) ++ encode (snd kv)) l ++ rest) = Some (l, rest).
Proof.
  induction l as [|[k v] l IH]; intros HF Hwf Hlen rest; [reflexivity|].
  inversion HF as [|? ? [Hk Hv] HF']; subst. cbn [fst snd] in *.
  cbn [forallb fst snd] in Hwf. apply andb_true_iff in Hwf as [Hw Hwl].
  apply andb_true_iff in Hw as [Hwk Hwv].
  cbn [flat_map fst snd] in *. rewrite !app_length in Hlen.
  cbn [length decode_pairs]. rewrite <- !app_assoc.
  rewrite (Hk Hwk f) by lia.
  rewrite (Hv Hwv f) by lia.
  rewrite (IH HF' Hwl) by lia. reflexivity.
Qed.

Lemma two64_lt n : (n <? two64) = true -> n < two64.
Proof. apply N.ltb_lt. Qed.

Lemma roundtrip_fuel v : rt v.
Proof.
  induction v using cbor_ind'; unfold rt; intros Hwf fuel rest Hfuel.
  - (* uint *)
    cbn [wf_cbor] in Hwf. apply two64_lt in Hwf. cbn [encode] in *.
    destruct fuel as [|f]; [pose proof (head_nonempty 0 n); lia|].
    cbn [decode_fuel]. rewrite read_head_head by assumption. reflexivity.
  - cbn [wf_cbor] in Hwf. apply two64_lt in Hwf. cbn [encode] in *.
    destruct fuel as [|f]; [pose proof (head_nonempty 1 n); lia|].
    cbn [decode_fuel]. rewrite read_head_head by assumption. reflexivity.
  - (* bytes *)
    cbn [wf_cbor] in Hwf. apply two64_lt in Hwf. cbn [encode] in *.
    destruct fuel as [|f]; [rewrite app_length in Hfuel; pose proof (head_nonempty 2 (lenN b)); lia|].
    cbn [decode_fuel]. rewrite <- app_assoc, read_head_head by assumption.
    cbn [N.eqb Pos.eqb]. rewrite take_app. reflexivity.
  - (* text *)
    cbn [wf_cbor] in Hwf. apply two64_lt in Hwf. cbn [encode] in *.
    destruct fuel as [|f]; [rewrite app_length in Hfuel; pose proof (head_nonempty 3 (lenN b)); lia|].
    cbn [decode_fuel]. rewrite <- app_assoc, read_head_head by assumption.
    cbn [N.eqb Pos.eqb]. rewrite take_app. reflexivity.
  - (* array *)
    cbn [wf_cbor] in Hwf. apply andb_true_iff in Hwf as [Hl Hw]. apply two64_lt in Hl. cbn [encode] in *.
    rewrite app_length in Hfuel.
    destruct fuel as [|f]; [pose proof (head_nonempty 4 (lenN l)); lia|].
    cbn [decode_fuel]. rewrite <- app_assoc, read_head_head by assumption.
    cbn [N.eqb Pos.eqb].
    assert (Hle : (lenN l <=? lenN (flat_map encode l ++ rest)) = true).
    { apply N.leb_le. unfold lenN. rewrite app_length. pose proof (flat_map_encode_length l). lia. }
    rewrite Hle. unfold lenN at 1. rewrite Nat2N.id.
    rewrite decode_seq_rt; [reflexivity | assumption | assumption |].
    pose proof (head_nonempty 4 (lenN l)). lia.
  - (* map *)
    cbn [wf_cbor] in Hwf. apply andb_true_iff in Hwf as [Hl Hw]. apply two64_lt in Hl. cbn [encode] in *.
    rewrite app_length in Hfuel.
    destruct fuel as [|f]; [pose proof (head_nonempty 5 (lenN l)); lia|].
    cbn [decode_fuel]. rewrite <- app_assoc, read_head_head by assumption.
    cbn [N.eqb Pos.eqb].
    assert (Hle : (lenN l <=? lenN (flat_map (fun kv => encode (fst kv) ++ encode (snd kv)) l ++ rest)) = true).
    { apply N.leb_le. unfold lenN. rewrite app_length. pose proof (flat_map_pairs_length l). lia. }
    rewrite Hle. unfold lenN at 1. rewrite Nat2N.id.
    rewrite decode_pairs_rt; [reflexivity | assumption | assumption |].
    pose proof (head_nonempty 5 (lenN l)). lia.
  - (* bool *)
    destruct fuel as [|f]; [cbn in Hfuel; lia|]. destruct b; reflexivity.
  - destruct fuel as [|f]; [cbn in Hfuel; lia|]. reflexivity.
Qed.

Theorem cbor_roundtrip v rest :
  wf_cbor v = true -> decode (encode v ++ rest) = Some (v, rest).
Proof.
  intro Hwf. unfold decode. apply roundtrip_fuel; [assumption|]. rewrite app_length. lia.
Qed.

Theorem encode_prefix_free v1 v2 r1 r2 :
  wf_cbor v1 = true -> wf_cbor v2 = true -> encode v1 ++ r1 = encode v2 ++ r2 -> v1 = v2 /\ r1 = r2.
Proof.
  intros H1 H2 E.
  pose proof (cbor_roundtrip v1 r1 H1) as D1. pose proof (cbor_roundtrip v2 r2 H2) as D2.
  rewrite E in D1. rewrite D1 in D2. injection D2 as -> ->. now split.
Qed.

Theorem encode_inj v1 v2 :
  wf_cbor v1 = true -> wf_cbor v2 = true -> encode v1 = encode v2 -> v1 = v2.
Proof.
  intros H1 H2 E. apply (encode_prefix_free v1 v2 [] [] H1 H2). now rewrite E.
Qed.

(* ------------------------------------------------------------------------------------------------ *)
(* protocol.Message                                                                                  *)

Lemma wf_opt_bytes o : wf_opt o = true -> wf_cbor (opt_bytes o) = true.
Proof. destruct o; cbn; auto. Qed.

Lemma wf_text_cbor b : wf_text b = true -> wf_cbor (CText b) = true.
Proof. unfold wf_text. intro H. apply andb_true_iff in H as [H _]. exact H. Qed.

Lemma message_tree_wf m : wf_message m = true -> wf_cbor (message_tree m) = true.
Proof.
  destruct m as [ssid from to proto rnd data bc bv]. unfold wf_message, message_tree.
  cbn [m_ssid m_from m_to m_protocol m_round m_data m_bcast m_bv].
  intro H.
  apply andb_true_iff in H as [H Hbv]. apply andb_true_iff in H as [H Hdata].
  apply andb_true_iff in H as [H Hrnd]. apply andb_true_iff in H as [H Hproto].
  apply andb_true_iff in H as [H Hto]. apply andb_true_iff in H as [Hssid Hfrom].
  cbn [wf_cbor forallb fst snd].
  rewrite !wf_opt_bytes by assumption.
  apply wf_text_cbor in Hfrom, Hto, Hproto. cbn [wf_cbor] in Hfrom, Hto, Hproto. rewrite Hfrom, Hto, Hproto.
  assert (R : (rnd <? two64) = true) by (apply N.ltb_lt; apply N.ltb_lt in Hrnd; unfold two64; lia).
  rewrite R. reflexivity.
Qed.

Lemma fld_bytes_opt o : fld_bytes (opt_bytes o) = Some o.
Proof. destruct o; reflexivity. Qed.

Lemma message_of_tree_tree m0 m :
  wf_message m = true -> message_of_tree m0 (message_tree m) = Some m.
Proof.
  destruct m as [ssid from to proto rnd data bc bv]. unfold wf_message.
  cbn [m_ssid m_from m_to m_protocol m_round m_data m_bcast m_bv]. intro H.
  apply andb_true_iff in H as [H Hbv]. apply andb_true_iff in H as [H Hdata].
  apply andb_true_iff in H as [H Hr]. apply andb_true_iff in H as [H Hproto].
  apply andb_true_iff in H as [H Hto]. apply andb_true_iff in H as [Hssid Hfrom].
  unfold wf_text in Hfrom, Hto, Hproto.
  apply andb_true_iff in Hfrom as [_ Hfrom]. apply andb_true_iff in Hto as [_ Hto].
  apply andb_true_iff in Hproto as [_ Hproto].
  unfold message_tree, message_of_tree.
  cbn [m_ssid m_from m_to m_protocol m_round m_data m_bcast m_bv].
  replace (bytes_eqb k_ssid k_ssid) with true by reflexivity.
  replace (bytes_eqb k_from k_from) with true by reflexivity.
  replace (bytes_eqb k_to k_to) with true by reflexivity.
  replace (bytes_eqb k_protocol k_protocol) with true by reflexivity.
  replace (bytes_eqb k_round k_round) with true by reflexivity.
  replace (bytes_eqb k_data k_data) with true by reflexivity.
  replace (bytes_eqb k_bcast k_bcast) with true by reflexivity.
  replace (bytes_eqb k_bv k_bv) with true by reflexivity.
  cbn [andb]. rewrite !fld_bytes_opt. cbn [fld_text fld_uint16 fld_bool]. rewrite Hfrom, Hto, Hproto, Hr. reflexivity.
Qed.

(* restoring into ANY receiver m0 gives back exactly m (nil / empty slices included); trailing bytes ignored *)
Theorem message_roundtrip m0 m rest :
  wf_message m = true -> message_decode m0 (message_encode m ++ rest) = Some m.
Proof.
  intro Hwf. unfold message_decode, message_encode.
  rewrite cbor_roundtrip by (now apply message_tree_wf).
  now apply message_of_tree_tree.
Qed.

Lemma real_message_wf m : real_message m = true -> wf_message m = true.
Proof. unfold real_message. intro H. apply andb_true_iff in H as [H _]. apply andb_true_iff in H as [H _]. exact H. Qed.

Theorem message_unmarshal_roundtrip m0 m :
  real_message m = true -> message_unmarshal m0 (message_encode m) = (m, false).
Proof.
  intro Hr. pose proof (real_message_wf m Hr) as Hwf. unfold message_unmarshal.
  rewrite <- (app_nil_r (message_encode m)), message_roundtrip by assumption.
  unfold real_message in Hr. apply andb_true_iff in Hr as [Hr H2]. apply andb_true_iff in Hr as [_ H1].
  now rewrite H1, H2.
Qed.

Theorem message_encode_inj m1 m2 :
  wf_message m1 = true -> wf_message m2 = true -> message_encode m1 = message_encode m2 -> m1 = m2.
Proof.
  intros H1 H2 E.
  pose proof (message_roundtrip empty_message m1 [] H1) as D1.
  pose proof (message_roundtrip empty_message m2 [] H2) as D2.
  rewrite E in D1. rewrite D1 in D2. now injection D2.
Qed.

(* a decoding failure is reported (fix 3cad471), and the receiver is left as it was *)
Theorem message_unmarshal_reports_errors m0 bs :
  message_decode empty_message bs = None -> message_unmarshal m0 bs = (m0, true).
Proof. unfold message_unmarshal. now intros ->. Qed.

(* no error <-> the bytes decode (into a fresh message) to something that names its sender and its protocol;
   then the receiver is exactly the decoded message *)
Theorem message_unmarshal_ok_iff m0 bs m :
  message_unmarshal m0 bs = (m, false) <->
  message_decode empty_message bs = Some m /\ nonempty (m_from m) && nonempty (m_protocol m) = true.
Proof.
  unfold message_unmarshal. destruct (message_decode empty_message bs) as [m'|]; split.
  - destruct (nonempty (m_from m') && nonempty (m_protocol m')) eqn:E; intro H; [|discriminate].
    injection H as ->. now split.
  - intros [H E]. injection H as ->. now rewrite E.
  - discriminate.
  - intros [H _]. discriminate.
Qed.

(* never a silently empty object: what is accepted names a sender and a protocol *)
Theorem message_unmarshal_never_empty m0 bs m :
  message_unmarshal m0 bs = (m, false) -> m_from m <> [] /\ m_protocol m <> [].
Proof.
  intro H. apply message_unmarshal_ok_iff in H as [_ E]. apply andb_true_iff in E as [E1 E2].
  split; intro Z; [rewrite Z in E1 | rewrite Z in E2]; discriminate.
Qed.

(* the one-byte inputs null / empty map are refused now *)
Theorem message_null_refused m0 : message_unmarshal m0 [246] = (m0, true) /\ message_unmarshal m0 [160] = (m0, true).
Proof. split; reflexivity. Qed.

(* a Message whose sender id is not valid UTF-8 is still marshalled without complaint and cannot be restored (the
   failure is reported).  No session produces such a message any more: round.NewSession refuses the id. *)
Theorem message_invalid_utf8_not_restorable :
  exists m, message_decode empty_message (message_encode m) = None /\
            message_unmarshal empty_message (message_encode m) = (empty_message, true).
Proof.
  exists (mkMessage None [97; 255] [] [112] 1 None false None). split; vm_compute; reflexivity.
Qed.

(* ---- the code before the patch that refuses empty messages ---- *)
Theorem message_unmarshal_v1_null_silently_empty : message_unmarshal_v1 empty_message [246] = (empty_message, false).
Proof. reflexivity. Qed.

(* ---- the code before the fix (regression examples) ---- *)
Theorem message_unmarshal_v0_never_errors m0 bs : snd (message_unmarshal_v0 m0 bs) = false.
Proof. unfold message_unmarshal_v0. destruct (message_decode m0 bs); reflexivity. Qed.

Theorem message_unmarshal_v0_silent m0 bs :
  message_decode m0 bs = None -> message_unmarshal_v0 m0 bs = (m0, false).
Proof. unfold message_unmarshal_v0. now intros ->. Qed.

Theorem message_unmarshal_v0_reports_errors_refuted :
  exists bs, message_decode empty_message bs = None /\
             message_unmarshal_v0 empty_message bs = (empty_message, false).
Proof. exists [1; 2; 3]. split; reflexivity. Qed.

Theorem message_invalid_utf8_v0_refuted :
  exists m, message_decode empty_message (message_encode m) = None /\
            message_unmarshal_v0 empty_message (message_encode m) = (empty_message, false).
Proof.
  exists (mkMessage None [97; 255] [] [112] 1 None false None). split; vm_compute; reflexivity.
Qed.

(* ------------------------------------------------------------------------------------------------ *)
(* scalars                                                                                           *)

Local Open Scope Z_scope.

Lemma secp_q_lt_2_256 : secp_q < 2 ^ 256. Proof. reflexivity. Qed.

Theorem scalar_decode_iff b s :
  scalar_decode b = Some s <->
  length b = 32%nat /\ wf_bytes b = true /\ s = Z.of_N (be_val b) /\ s < secp_q.
Proof.
  unfold scalar_decode. split.
  - destruct (Nat.eqb_spec (length b) 32) as [L|L]; cbn [andb]; [|discriminate].
    destruct (wf_bytes b); cbn [andb]; [|discriminate].
    destruct (Z.ltb_spec (Z.of_N (be_val b)) secp_q) as [Q|Q]; [|discriminate].
    intro H. injection H as <-. auto.
  - intros (L & W & -> & Q). rewrite L, W. cbn [Nat.eqb andb].
    apply Z.ltb_lt in Q. rewrite Q. reflexivity.
Qed.

Theorem scalar_roundtrip s : 0 <= s < secp_q -> scalar_decode (scalar_encode s) = Some s.
Proof.
  intro Hs. apply scalar_decode_iff. unfold scalar_encode.
  rewrite be_bytes_length, be_bytes_wf, be_val_be_bytes.
  pose proof secp_q_lt_2_256 as Hq.
  rewrite N.mod_small.
  - rewrite Z2N.id by lia. repeat split; lia.
  - apply N2Z.inj_lt. rewrite Z2N.id by lia.
    change (Z.of_N (256 ^ N.of_nat 32)) with (2 ^ 256). lia.
Qed.

(* little-endian value is injective on well-formed strings of equal length *)
Lemma le_val_inj a : forall b,
  length a = length b -> wf_bytes a = true -> wf_bytes b = true -> le_val a = le_val b -> a = b.
Proof.
  induction a as [|x a IH]; intros [|y b] L Wa Wb E; try discriminate; [reflexivity|].
  cbn [wf_bytes forallb] in Wa, Wb. apply andb_true_iff in Wa as [Wx Wa]. apply andb_true_iff in Wb as [Wy Wb].
  unfold wf_byte in Wx, Wy. apply N.ltb_lt in Wx, Wy. cbn [le_val] in E.
  assert (x = y /\ le_val a = le_val b) as [-> E'] by lia.
  f_equal. apply IH; auto.
Qed.

Lemma wf_bytes_rev a : wf_bytes (rev a) = wf_bytes a.
Proof.
  induction a as [|x a IH]; [reflexivity|]. cbn [rev]. rewrite wf_bytes_app, IH. cbn. rewrite andb_true_r.
  apply andb_comm.
Qed.

Lemma le_val_bound a : wf_bytes a = true -> (le_val a < 256 ^ N.of_nat (length a))%N.
Proof.
  induction a as [|x a IH]; intro W; [cbn; lia|].
  cbn [wf_bytes forallb] in W. apply andb_true_iff in W as [Wx W]. unfold wf_byte in Wx. apply N.ltb_lt in Wx.
  specialize (IH W). cbn [le_val length]. rewrite Nat2N.inj_succ, N.pow_succ_r'. lia.
Qed.

Lemma be_bytes_be_val b : wf_bytes b = true -> be_bytes (length b) (be_val b) = b.
Proof.
  intro W. unfold be_bytes, be_val.
  rewrite <- (rev_involutive b) at 3. f_equal.
  apply le_val_inj.
  - now rewrite le_bytes_length, rev_length.
  - apply le_bytes_wf.
  - now rewrite wf_bytes_rev.
  - rewrite le_val_le_bytes. apply N.mod_small.
    rewrite <- (rev_length b). apply le_val_bound. now rewrite wf_bytes_rev.
Qed.

(* the scalar encoding is canonical: what decodes re-encodes to the same bytes *)
Theorem scalar_decode_encode b s : scalar_decode b = Some s -> scalar_encode s = b.
Proof.
  intro H. apply scalar_decode_iff in H as (L & W & -> & _). unfold scalar_encode.
  rewrite N2Z.id, <- L. now apply be_bytes_be_val.
Qed.

(* ------------------------------------------------------------------------------------------------ *)
(* points                                                                                            *)

Local Opaque secp_p.

Lemma fneg_range y : 0 <= fneg y < secp_p.
Proof. unfold fneg. apply Z.mod_pos_bound. exact secp_p_pos. Qed.

Lemma fneg_sq y : fmul (fneg y) (fneg y) = fmul y y.
Proof.
  unfold fmul, fneg. pose proof secp_p_ne_0.
  rewrite Z.mul_mod_idemp_l, Z.mul_mod_idemp_r by assumption. f_equal. ring.
Qed.

(* whatever decodes is a finite point of the curve; in particular the identity is never produced *)
Theorem point_decode_v0_valid b P :
  point_decode_v0 b = Some P -> length b = 33%nat /\ valid_point P.
Proof.
  destruct b as [|pre xb]; cbn [point_decode_v0]; [discriminate|].
  destruct (Nat.eqb_spec (length xb) 32) as [L|L]; cbn [negb]; [|discriminate].
  destruct (lift_x (Z_of_bytes xb)) as [[[x y]|]|] eqn:Hl; try discriminate.
  intro H. injection H as <-.
  apply lift_x_on_curve in Hl as (Hoc & y' & Hy & Hev). injection Hy as -> ->.
  split; [cbn [length]; now rewrite L|]. split; [discriminate|].
  destruct (pre =? 3)%N; [|exact Hoc].
  cbn [on_curve] in *. apply andb_true_iff in Hoc as [Hoc Heq]. apply andb_true_iff in Hoc as [Hx Hy].
  rewrite Hx. cbn [andb].
  assert (Hb : in_field (fneg y') = true) by (apply in_field_bound; apply fneg_range).
  rewrite Hb. cbn [andb]. now rewrite fneg_sq.
Qed.

(* the repaired decoder is the old one restricted to the prefixes 02 and 03 *)
Lemma point_decode_restricts b P : point_decode b = Some P -> point_decode_v0 b = Some P.
Proof.
  destruct b as [|pre xb]; cbn [point_decode point_decode_v0]; [discriminate|].
  destruct (Nat.eqb (length xb) 32); cbn [negb]; [|discriminate].
  destruct ((pre =? 2)%N || (pre =? 3)%N); cbn [negb]; [auto | discriminate].
Qed.

Lemma point_decode_prefix b P :
  point_decode b = Some P -> exists xb, b = 2%N :: xb \/ b = 3%N :: xb.
Proof.
  destruct b as [|pre xb]; cbn [point_decode]; [discriminate|].
  destruct (Nat.eqb (length xb) 32); cbn [negb]; [|discriminate].
  destruct (N.eqb_spec pre 2) as [->|E2]; [intros _; exists xb; now left|].
  destruct (N.eqb_spec pre 3) as [->|E3]; [intros _; exists xb; now right|].
  discriminate.
Qed.

Theorem point_decode_valid b P :
  point_decode b = Some P -> length b = 33%nat /\ valid_point P.
Proof. intro H. apply point_decode_v0_valid. now apply point_decode_restricts. Qed.

Theorem point_decode_never_identity b : point_decode b <> Some None.
Proof. intro H. apply point_decode_valid in H as [_ [H _]]. now apply H. Qed.

(* the bytes MarshalBinary writes for the identity are refused by UnmarshalBinary (x = 0 is not on the curve) *)
Theorem point_identity_not_restorable : point_decode (point_encode None) = None.
Proof. vm_compute. reflexivity. Qed.

Lemma bytes32_of_bytes xb :
  length xb = 32%nat -> wf_bytes xb = true -> bytes32_of_Z (Z_of_bytes xb) = xb.
Proof.
  intros L W. unfold bytes32_of_Z, Z_of_bytes. rewrite N2Z.id, <- L. now apply be_bytes_be_val.
Qed.

(* since fix 96ab1f0 the accepted encoding is canonical: what decodes re-encodes to the same bytes.
   (y <> 0 holds for every point of secp256k1 -- there is no point of order two -- but that is a fact about the
   curve which is not proved here, so it is a hypothesis) *)
Theorem point_decode_canonical b x y :
  wf_bytes b = true -> point_decode b = Some (Some (x, y)) -> y <> 0 -> point_encode (Some (x, y)) = b.
Proof.
  destruct b as [|pre xb]; cbn [point_decode]; [discriminate|]. intros W.
  cbn [wf_bytes forallb] in W. apply andb_true_iff in W as [_ W].
  destruct (Nat.eqb_spec (length xb) 32) as [L|L]; cbn [negb]; [|discriminate].
  destruct ((pre =? 2)%N || (pre =? 3)%N) eqn:Epre; cbn [negb]; [|discriminate].
  destruct (lift_x (Z_of_bytes xb)) as [[[x' y']|]|] eqn:Hl; try discriminate.
  intros H Hy0. injection H as <- <-.
  apply lift_x_on_curve in Hl as (Hoc & y'' & Hy & Hev). injection Hy as -> ->.
  cbn [on_curve] in Hoc. apply andb_true_iff in Hoc as [Hoc _]. apply andb_true_iff in Hoc as [_ Hyr].
  apply in_field_bound in Hyr.
  cbn [point_encode]. rewrite bytes32_of_bytes by assumption. f_equal.
  destruct (N.eqb_spec pre 3) as [->|E3].
  - cbn [N.eqb Pos.eqb] in *.
    assert (Hne : y'' <> 0).
    { intros ->. apply Hy0. unfold fneg. cbn [Z.opp]. apply Z.mod_0_l. exact secp_p_ne_0. }
    assert (Hn : fneg y'' = secp_p - y'').
    { unfold fneg. replace (- y'') with ((secp_p - y'') + (-1) * secp_p) by ring.
      rewrite Z.mod_add by exact secp_p_ne_0. apply Z.mod_small. lia. }
    rewrite Hn. rewrite Z.even_sub, secp_p_odd, Hev. reflexivity.
  - rewrite Hev. rewrite orb_false_r in Epre. apply N.eqb_eq in Epre. now subst.
Qed.

Theorem point_decode_inj b1 b2 x y :
  wf_bytes b1 = true -> wf_bytes b2 = true -> y <> 0 ->
  point_decode b1 = Some (Some (x, y)) -> point_decode b2 = Some (Some (x, y)) -> b1 = b2.
Proof.
  intros W1 W2 Hy H1 H2.
  rewrite <- (point_decode_canonical b1 x y W1 H1 Hy). now apply point_decode_canonical.
Qed.

(* ---- before the fix: the first byte only selected the parity ---- *)
Theorem point_decode_v0_prefix_unchecked pre xb :
  pre <> 3%N -> point_decode_v0 (pre :: xb) = point_decode_v0 (2%N :: xb).
Proof.
  intro H. cbn [point_decode_v0]. apply N.eqb_neq in H. rewrite H. reflexivity.
Qed.

Theorem point_decode_v0_canonical_refuted :
  exists b P, point_decode_v0 b = Some P /\ point_encode P <> b.
Proof.
  exists (0%N :: bytes32_of_Z secp_Gx), secp_G. split.
  - vm_compute. reflexivity.
  - vm_compute. discriminate.
Qed.

(* the non-canonical witness of the old decoder is refused now *)
Theorem point_decode_refuses_v0_witness : point_decode (0%N :: bytes32_of_Z secp_Gx) = None.
Proof. reflexivity. Qed.

(* the strict SEC1 decoder of the reference model is a restriction of the library's decoder *)
Theorem point_decode_extends_strict b P : decompress b = Some P -> point_decode b = Some P.
Proof.
  destruct b as [|pre xb]; cbn [decompress point_decode]; [discriminate|].
  destruct (Nat.eqb (length xb) 32); cbn [negb]; [|discriminate].
  destruct (N.eqb_spec pre 2) as [E2|E2]; cbn [orb negb].
  - subst pre. cbn [N.eqb Pos.eqb]. destruct (lift_x (Z_of_bytes xb)) as [[[x y]|]|]; auto.
  - destruct (N.eqb_spec pre 3) as [E3|E3]; cbn [negb]; [|discriminate].
    destruct (lift_x (Z_of_bytes xb)) as [[[x y]|]|] eqn:Hl; try discriminate.
    destruct (Z.eqb_spec y 0) as [Hy0|Hy0]; [discriminate|].
    intro H. injection H as <-.
    apply lift_x_on_curve in Hl as (Hoc & y' & Hy & _). injection Hy as _ <-.
    cbn [on_curve] in Hoc. apply andb_true_iff in Hoc as [Hoc _]. apply andb_true_iff in Hoc as [_ Hy].
    apply in_field_bound in Hy. do 3 f_equal. unfold fneg.
    replace (- y) with ((secp_p - y) + (-1) * secp_p) by ring.
    rewrite Z.mod_add by exact secp_p_ne_0. apply Z.mod_small. lia.
Qed.

Lemma point_encode_length P : length (point_encode P) = 33%nat.
Proof.
  destruct P as [[x y]|]; cbn [point_encode length].
  - unfold bytes32_of_Z. now rewrite be_bytes_length.
  - reflexivity.
Qed.

Section PointRoundTrip.
  Hypothesis p_prime : prime secp_p.

  Theorem point_roundtrip x y :
    on_curve (Some (x, y)) = true -> point_decode (point_encode (Some (x, y))) = Some (Some (x, y)).
  Proof.
    intro Hoc. pose proof Hoc as Hoc'. cbn [on_curve] in Hoc'.
    apply andb_true_iff in Hoc' as [H _]. apply andb_true_iff in H as [Hx Hy].
    apply in_field_bound in Hx, Hy.
    destruct (lift_x_complete p_prime x y Hoc) as (y' & Hl & Hev & Hc).
    cbn [point_encode point_decode]. unfold bytes32_of_Z at 1. rewrite be_bytes_length. cbn [Nat.eqb negb].
    fold (bytes32_of_Z x). rewrite bytes32_roundtrip by assumption. rewrite Hl.
    destruct (Z.even y) eqn:Ey; cbn [N.eqb Pos.eqb orb negb].
    - destruct Hc as [->| ->]; [reflexivity|].
      rewrite Z.even_sub, secp_p_odd, Ey in Hev. discriminate.
    - destruct Hc as [->| ->]; [congruence|].
      do 3 f_equal. unfold fneg.
      replace (- (secp_p - y)) with (y + (-1) * secp_p) by ring.
      rewrite Z.mod_add by exact secp_p_ne_0. apply Z.mod_small. lia.
  Qed.

  (* every finite curve point has exactly the encoding 02/03 || x, and it decodes *)
  Definition finite_on_curve (P : point) : Prop := exists x y, P = Some (x, y) /\ on_curve P = true.

  Lemma decode_points_rt pts :
    Forall finite_on_curve pts ->
    decode_points (map (fun P => CBytes (point_encode P)) pts) = Some pts.
  Proof.
    induction 1 as [|P pts (x & y & -> & Hoc) _ IH]; [reflexivity|].
    cbn [map decode_points]. rewrite point_roundtrip by assumption. rewrite IH. reflexivity.
  Qed.

  Lemma exponent_tree_wf c pts :
    (lenN pts < two64)%N -> wf_cbor (exponent_tree c (Some pts)) = true.
  Proof.
    intro Hl. unfold exponent_tree. cbn [wf_cbor forallb fst snd].
    replace (lenN k_isconstant <? two64)%N with true by reflexivity.
    replace (lenN k_coefficients <? two64)%N with true by reflexivity.
    cbn [andb].
    assert (E : (lenN (map (fun P => CBytes (point_encode P)) pts) <? two64)%N = true).
    { apply N.ltb_lt. unfold lenN in *. now rewrite map_length. }
    rewrite E. cbn [andb]. rewrite andb_true_r.
    replace (lenN [(CText k_isconstant, CBool c);
                   (CText k_coefficients, CArr (map (fun P => CBytes (point_encode P)) pts))] <? two64)%N
      with true by reflexivity.
    cbn [andb].
    clear. induction pts as [|P pts IH]; [reflexivity|].
    cbn [map forallb wf_cbor]. rewrite IH, andb_true_r. unfold lenN. rewrite point_encode_length. reflexivity.
  Qed.

  Lemma exponent_tree_length c pts : (length pts <= length (encode (exponent_tree c (Some pts))))%nat.
  Proof.
    unfold exponent_tree. cbn [encode flat_map fst snd]. rewrite !app_length.
    pose proof (flat_map_encode_length (map (fun P => CBytes (point_encode P)) pts)) as H.
    rewrite map_length in H. lia.
  Qed.

  (* MarshalBinary -> UnmarshalBinary gives back the polynomial.  The 4-byte count is still not compared with
     the array: anything between the number of coefficients and the input length is accepted *)
  Theorem exponent_roundtrip_gen c pts size :
    Forall finite_on_curve pts -> (lenN pts <= size)%N -> (size < 4294967296)%N ->
    (size <= lenN (be_bytes 4 size ++ encode (exponent_tree c (Some pts))))%N ->
    exponent_decode (be_bytes 4 size ++ encode (exponent_tree c (Some pts))) = Ok (c, pts).
  Proof.
    intros Hpts Hle Hsize Hlen. unfold exponent_decode.
    set (body := encode (exponent_tree c (Some pts))) in *.
    assert (L : length (be_bytes 4 size) = 4%nat) by apply be_bytes_length.
    assert (Hlt : (length (be_bytes 4 size ++ body) <? 4)%nat = false).
    { apply Nat.ltb_ge. rewrite app_length, L. lia. }
    rewrite Hlt.
    rewrite (firstn_app_len (be_bytes 4 size) body 4 L), (skipn_app_len (be_bytes 4 size) body 4 L).
    rewrite be_val_be_bytes. rewrite N.mod_small by exact Hsize.
    assert (Hc : (lenN (be_bytes 4 size ++ body) <? size)%N = false) by (apply N.ltb_ge; exact Hlen).
    rewrite Hc.
    unfold exponent_decode_body, body.
    rewrite <- (app_nil_r (encode _)), cbor_roundtrip
      by (apply exponent_tree_wf; unfold two64; lia).
    unfold exponent_tree.
    replace (bytes_eqb k_isconstant k_isconstant) with true by reflexivity.
    replace (bytes_eqb k_coefficients k_coefficients) with true by reflexivity.
    cbn [andb fld_bool].
    assert (E : (lenN (map (fun P => CBytes (point_encode P)) pts) <=? size)%N = true).
    { apply N.leb_le. unfold lenN in *. now rewrite map_length. }
    rewrite E, decode_points_rt by assumption. reflexivity.
  Qed.

  Theorem exponent_roundtrip c pts :
    Forall finite_on_curve pts -> (lenN pts < 4294967296)%N ->
    exponent_decode (exponent_encode c (Some pts)) = Ok (c, pts).
  Proof.
    intros Hpts Hl. unfold exponent_encode, coeff_count. apply exponent_roundtrip_gen; auto; [lia|].
    unfold lenN. rewrite app_length. pose proof (exponent_tree_length c pts). lia.
  Qed.

  (* before the fix any count >= the number of coefficients (below 2^32) was accepted *)
  Theorem exponent_v0_count_unchecked c pts size :
    Forall finite_on_curve pts -> (lenN pts <= size)%N -> (size < 4294967296)%N ->
    exponent_decode_v0 (be_bytes 4 size ++ encode (exponent_tree c (Some pts))) = Ok (c, pts).
  Proof.
    intros Hpts Hle Hsize. unfold exponent_decode_v0.
    set (body := encode (exponent_tree c (Some pts))) in *.
    assert (L : length (be_bytes 4 size) = 4%nat) by apply be_bytes_length.
    assert (Hlt : (length (be_bytes 4 size ++ body) <? 4)%nat = false).
    { apply Nat.ltb_ge. rewrite app_length, L. lia. }
    rewrite Hlt.
    rewrite (firstn_app_len (be_bytes 4 size) body 4 L), (skipn_app_len (be_bytes 4 size) body 4 L).
    rewrite be_val_be_bytes. rewrite N.mod_small by exact Hsize.
    unfold exponent_decode_body, body.
    rewrite <- (app_nil_r (encode _)), cbor_roundtrip
      by (apply exponent_tree_wf; unfold two64; lia).
    unfold exponent_tree.
    replace (bytes_eqb k_isconstant k_isconstant) with true by reflexivity.
    replace (bytes_eqb k_coefficients k_coefficients) with true by reflexivity.
    cbn [andb fld_bool].
    assert (E : (lenN (map (fun P => CBytes (point_encode P)) pts) <=? size)%N = true).
    { apply N.leb_le. unfold lenN in *. now rewrite map_length. }
    rewrite E, decode_points_rt by assumption. reflexivity.
  Qed.
End PointRoundTrip.

(* a nil coefficient slice is written as null and restored as an empty polynomial *)
Theorem exponent_roundtrip_nil c : exponent_decode (exponent_encode c None) = Ok (c, []).
Proof. destruct c; vm_compute; reflexivity. Qed.

(* since fix 7b3b4da: fewer than four bytes, or a count larger than the input, is an error ... *)
Theorem exponent_decode_short_errors bs : (length bs < 4)%nat -> exponent_decode bs = Err 1.
Proof. intro H. unfold exponent_decode. apply Nat.ltb_lt in H. now rewrite H. Qed.

Theorem exponent_decode_count_checked bs :
  (lenN bs < be_val (firstn 4 bs))%N -> exists c, exponent_decode bs = Err c.
Proof.
  intro H. unfold exponent_decode. destruct (length bs <? 4)%nat; [now exists 1%N|].
  apply N.ltb_lt in H. rewrite H. now exists 1%N.
Qed.

(* ... and UnmarshalBinary never panics, whatever the input *)
Lemma exponent_decode_body_no_panic size cb : exponent_decode_body size cb <> Panic.
Proof.
  unfold exponent_decode_body.
  repeat match goal with
         | |- context [match ?x with _ => _ end] => destruct x
         end; discriminate.
Qed.

Theorem exponent_decode_total bs : exponent_decode bs <> Panic.
Proof.
  unfold exponent_decode. destruct (length bs <? 4)%nat; [discriminate|].
  destruct (lenN bs <? be_val (firstn 4 bs))%N; [discriminate|]. apply exponent_decode_body_no_panic.
Qed.

(* before the fix: binary.BigEndian.Uint32 panicked (index out of range) below four bytes *)
Theorem exponent_decode_v0_short_panics bs : (length bs < 4)%nat -> exponent_decode_v0 bs = Panic.
Proof. intro H. unfold exponent_decode_v0. apply Nat.ltb_lt in H. now rewrite H. Qed.

(* ------------------------------------------------------------------------------------------------ *)
(* cmp config: what UnmarshalBinary checks against what the property calls valid                     *)

Local Opaque secp_q.

(* what the field decoders guarantee about a decoded configMarshal *)
Definition wf_point (P : point) : Prop := P = None \/ valid_point P.
Definition wf_pub_m (p : pub_m) : Prop := wf_point (pm_ecdsa p) /\ wf_point (pm_elgamal p).
Definition wf_entry (o : outcome pub_m) : Prop := match o with Ok p => wf_pub_m p | _ => True end.
Definition wf_config_m (cm : config_m) : Prop :=
  0 <= cm_ecdsa cm < secp_q /\ 0 <= cm_elgamal cm < secp_q /\ Forall wf_entry (cm_public cm).

Lemma NoDup_snoc {A} (l : list A) a : NoDup l -> ~ In a l -> NoDup (l ++ [a]).
Proof.
  induction l as [|x l IH]; intros Hn Hi; cbn [app].
  - constructor; [intros []|constructor].
  - inversion Hn as [|? ? Hx Hl]; subst. constructor.
    + intro H. apply in_app_or in H as [H|[H|[]]]; [now apply Hx | subst; apply Hi; now left].
    + apply IH; [assumption|]. intro H. apply Hi. now right.
Qed.

Lemma has_id_false id ps : has_id id ps = false -> ~ In id (map pc_id ps).
Proof.
  unfold has_id. intros H Hin. apply in_map_iff in Hin as (q & <- & Hq).
  assert (E : existsb (fun q0 => bytes_eqb (pc_id q0) (pc_id q)) ps = true).
  { apply existsb_exists. exists q. split; [assumption|]. now apply bytes_eqb_eq. }
  congruence.
Qed.

Lemma has_id_true id ps : has_id id ps = true -> In id (map pc_id ps).
Proof.
  unfold has_id. intro H. apply existsb_exists in H as (q & Hq & E). apply bytes_eqb_eq in E. subst.
  now apply in_map.
Qed.

Lemma bytes_eqb_neq a b : bytes_eqb a b = false -> a <> b.
Proof. intros H E. apply bytes_eqb_eq in E. congruence. Qed.

Lemma validate_N_spec n : validate_N n = true -> exists n', n = Some n' /\ bitlen n' = bits_paillier /\ Z.odd n' = true.
Proof.
  destruct n as [n|]; cbn [validate_N]; [|discriminate]. intro H. apply andb_true_iff in H as [H1 H2].
  apply Z.eqb_eq in H1. eauto.
Qed.

Lemma bitlen_gt1 n : 1 < bitlen n -> 1 < n.
Proof.
  unfold bitlen. destruct (Z.leb_spec n 0) as [H|H]; [lia|]. intro Hb.
  destruct (Z.eq_dec n 1) as [->|]; [cbn in Hb; lia | lia].
Qed.

Lemma valid_mod_N_spec n x : 1 < n -> valid_mod_N n x = true -> 1 <= x < n /\ Z.gcd x n = 1.
Proof.
  unfold valid_mod_N. intros Hn H. apply andb_true_iff in H as [H H3]. apply andb_true_iff in H as [H1 H2].
  apply Z.leb_le in H1. apply Z.ltb_lt in H2. apply Z.eqb_eq in H3.
  split; [|assumption]. split; [|assumption].
  destruct (Z.eq_dec x 0) as [->|]; [|lia].
  rewrite Z.gcd_0_l in H3. lia.
Qed.

Lemma validate_pedersen_spec n s t n' :
  1 < n' -> validate_pedersen n s t = true -> n = Some n' -> valid_pedersen n' s t.
Proof.
  intros Hn H ->. destruct s as [s|]; [|discriminate]. destruct t as [t|]; [|discriminate].
  cbn [validate_pedersen] in H. apply andb_true_iff in H as [H H3]. apply andb_true_iff in H as [H1 H2].
  apply valid_mod_N_spec in H1 as [? ?]; [|assumption]. apply valid_mod_N_spec in H2 as [? ?]; [|assumption].
  apply negb_true_iff, Z.eqb_neq in H3.
  exists s, t. repeat split; auto; lia.
Qed.

Lemma not_identity_valid P : wf_point P -> is_identity P = false -> valid_point P.
Proof. intros [->|H] Hi; [discriminate | assumption]. Qed.

Section ConfigSound.
  Variable pt : Z -> bool.
  Variable ab : Z -> point.
  (* a fact about the group, not about the code: k.G is a finite curve point for 0 < k < q *)
  Hypothesis ab_valid : forall k, 0 < k < secp_q -> valid_point (ab k).

  Definition entry_ok (id : bytes) (x y NN : Z) (p : pub_c) : Prop :=
    (pc_id p = id /\ pc_ecdsa p = ab x /\ pc_elgamal p = ab y /\ pc_N p = NN /\
     valid_pedersen NN (pc_S p) (pc_T p)) \/
    (pc_id p <> id /\ valid_pub p).

  Lemma process_publics_inv id x y NN : 1 < NN -> forall l acc ps,
    Forall wf_entry l ->
    NoDup (map pc_id acc) -> Forall (entry_ok id x y NN) acc ->
    process_publics ab id x y NN l acc = Ok ps ->
    NoDup (map pc_id ps) /\ Forall (entry_ok id x y NN) ps.
  Proof.
    intro HNN. induction l as [|o l IH]; intros acc ps Hwf Hnd Hok H.
    - cbn in H. injection H as <-. now split.
    - inversion Hwf as [|? ? Ho Hl]; subst.
      destruct o as [p|c|]; cbn [process_publics] in H; try discriminate.
      destruct (has_id (pm_id p) acc) eqn:Hid; [discriminate|].
      apply has_id_false in Hid.
      destruct (pm_S p) as [sv|] eqn:ES; [|discriminate].
      destruct (pm_T p) as [tv|] eqn:ET; [|discriminate].
      destruct (bytes_eqb (pm_id p) id) eqn:Eid.
      + apply bytes_eqb_eq in Eid.
        destruct (validate_pedersen (Some NN) (Some sv) (Some tv)) eqn:EP; cbn [negb] in H; [|discriminate].
        apply IH in H; auto.
        * rewrite map_app. cbn [map pc_id]. now apply NoDup_snoc.
        * apply Forall_app. split; [assumption|]. constructor; [|constructor].
          left. cbn [pc_id pc_ecdsa pc_elgamal pc_N pc_S pc_T]. repeat split; auto.
          eapply validate_pedersen_spec; eauto.
      + apply bytes_eqb_neq in Eid.
        destruct (pm_N p) as [n|] eqn:En; [|discriminate].
        destruct (validate_N (Some n)) eqn:EN; cbn [negb] in H; [|discriminate].
        destruct (validate_pedersen (Some n) (Some sv) (Some tv)) eqn:EP; cbn [negb] in H; [|discriminate].
        destruct (is_identity (pm_ecdsa p) || is_identity (pm_elgamal p)) eqn:EI; [discriminate|].
        apply orb_false_iff in EI as [EI1 EI2].
        apply validate_N_spec in EN as (n' & En' & Hbits & Hodd). injection En' as <-.
        destruct Ho as [Ho1 Ho2].
        apply IH in H; auto.
        * rewrite map_app. cbn [map pc_id]. now apply NoDup_snoc.
        * apply Forall_app. split; [assumption|]. constructor; [|constructor].
          right. cbn [pc_id]. split; [assumption|].
          unfold valid_pub. cbn [pc_ecdsa pc_elgamal pc_N pc_S pc_T].
          pose proof (not_identity_valid _ Ho1 EI1) as V1. pose proof (not_identity_valid _ Ho2 EI2) as V2.
          split; [exact V1|]. split; [exact V2|]. split; [exact Hbits|]. split; [exact Hodd|].
          eapply validate_pedersen_spec; eauto. apply bitlen_gt1. rewrite Hbits. reflexivity.
  Qed.

  Lemma validate_prime_spec p :
    validate_prime pt p = true ->
    exists p', p = Some p' /\ bitlen p' = bits_blum_prime /\ p' mod 4 = 3 /\ pt (p' / 2) = true /\ pt p' = true.
  Proof.
    destruct p as [p|]; cbn [validate_prime]; [|discriminate]. intro H.
    apply andb_true_iff in H as [H H4]. apply andb_true_iff in H as [H H3]. apply andb_true_iff in H as [H1 H2].
    apply Z.eqb_eq in H1, H2. exists p. auto.
  Qed.

  Lemma mod4_3_odd p : p mod 4 = 3 -> Z.odd p = true.
  Proof.
    intro H. rewrite (Z.div_mod p 4) by discriminate. rewrite H.
    replace (4 * (p / 4) + 3) with (3 + 2 * (2 * (p / 4))) by ring.
    now rewrite Z.odd_add_mul_2.
  Qed.

  Lemma valid_threshold_spec t n : valid_threshold t n = true -> 0 <= t <= n - 1.
  Proof.
    unfold valid_threshold. intro H. apply andb_true_iff in H as [H1 H2].
    apply negb_true_iff, orb_false_iff in H1 as [H1 _]. apply negb_true_iff, orb_false_iff in H2 as [_ H2].
    apply Z.ltb_ge in H1, H2. lia.
  Qed.

  Lemma rid_validate_spec r : rid_validate r = true -> valid_rid r /\ nonzero_rid r.
  Proof.
    destruct r as [b|]; cbn [rid_validate]; [|discriminate]. intro H.
    apply andb_true_iff in H as [H1 H2]. apply Nat.eqb_eq in H1. apply negb_true_iff in H2.
    split; exists b; auto.
  Qed.

  (* what the checks of the repaired UnmarshalBinary establish *)
  Lemma config_checks_facts cm c :
    wf_config_m cm -> config_checks pt ab cm = Ok c ->
    0 < c_ecdsa c < secp_q /\ 0 < c_elgamal c < secp_q /\
    bitlen (c_P c) = bits_blum_prime /\ bitlen (c_Q c) = bits_blum_prime /\
    c_P c mod 4 = 3 /\ c_Q c mod 4 = 3 /\
    pt (c_P c / 2) = true /\ pt (c_Q c / 2) = true /\ pt (c_P c) = true /\ pt (c_Q c) = true /\
    c_P c <> c_Q c /\
    bitlen (c_P c * c_Q c) = bits_paillier /\
    0 <= c_threshold c <= Z.of_nat (length (c_public c)) - 1 /\
    NoDup (map pc_id (c_public c)) /\ In (c_id c) (map pc_id (c_public c)) /\
    Forall (entry_ok (c_id c) (c_ecdsa c) (c_elgamal c) (c_P c * c_Q c)) (c_public c) /\
    valid_rid (c_rid c) /\ valid_rid (c_chain c) /\ nonzero_rid (c_rid c) /\ nonzero_rid (c_chain c).
  Proof.
    intros (Hx & Hy & Hpub) H. unfold config_checks in H.
    destruct (cm_P cm) as [P|] eqn:EcP; [|discriminate].
    destruct (cm_Q cm) as [Q|] eqn:EcQ; [|discriminate].
    destruct (rid_validate (cm_rid cm)) eqn:Er; cbn [negb] in H; [|discriminate].
    destruct (rid_validate (cm_chain cm)) eqn:Ec; cbn [negb] in H; [|discriminate].
    destruct ((cm_ecdsa cm =? 0) || (cm_elgamal cm =? 0)) eqn:Ez; [discriminate|].
    apply orb_false_iff in Ez as [Ex Ey]. apply Z.eqb_neq in Ex, Ey.
    destruct (validate_prime pt (Some P)) eqn:EP; cbn [negb] in H; [|discriminate].
    destruct (validate_prime pt (Some Q)) eqn:EQ; cbn [negb] in H; [|discriminate].
    apply validate_prime_spec in EP as (P' & EP & HPb & HP4 & HPt & HPp). injection EP as <-.
    apply validate_prime_spec in EQ as (Q' & EQ & HQb & HQ4 & HQt & HQp). injection EQ as <-.
    destruct (Z.eqb_spec P Q) as [|Hne]; [discriminate|].
    destruct (validate_N (Some (P * Q))) eqn:EN; cbn [negb] in H; [|discriminate].
    apply validate_N_spec in EN as (n' & En' & HNb & HNodd). injection En' as <-.
    destruct (process_publics ab (cm_id cm) (cm_ecdsa cm) (cm_elgamal cm) (P * Q) (cm_public cm) [])
      as [ps|code|] eqn:Eps; try discriminate.
    destruct (valid_threshold (cm_threshold cm) (Z.of_nat (length ps))) eqn:Et; cbn [negb] in H; [|discriminate].
    destruct (has_id (cm_id cm) ps) eqn:Eid; cbn [negb] in H; [|discriminate].
    injection H as <-. cbn.
    apply process_publics_inv in Eps as [Hnd Hok]; auto; [|apply bitlen_gt1; rewrite HNb; reflexivity|constructor].
    apply valid_threshold_spec in Et. apply has_id_true in Eid.
    apply rid_validate_spec in Er as [Er1 Er2]. apply rid_validate_spec in Ec as [Ec1 Ec2].
    repeat (split; [first [assumption | lia]|]). assumption.
  Qed.

  (* the primality test is what it claims to be (Go's ProbablyPrime has no known false positive on such input;
     this is the one assumption about the outside that the theorem needs) *)
  Hypothesis pt_sound : forall p, pt p = true -> prime p.

  (* C15_config_unmarshal_sound on decoded records *)
  Theorem config_checks_sound cm c :
    wf_config_m cm -> config_checks pt ab cm = Ok c -> valid_config c.
  Proof.
    intros Hwf H.
    destruct (config_checks_facts cm c Hwf H)
      as (Hx & Hy & HPb & HQb & HP4 & HQ4 & _ & _ & HPp & HQp & _ & HNb & Ht & Hnd & Hin & Hok & Hr & Hc & _ & _).
    apply pt_sound in HPp, HQp.
    unfold valid_config. do 11 (split; [assumption|]). split; [|split; assumption].
    rewrite Forall_forall in *. intros p Hp. specialize (Hok p Hp).
    destruct Hok as [(Eid & E1 & E2 & EN & Hped) | (_ & Hv)]; [|assumption].
    unfold valid_pub. rewrite E1, E2, EN.
    split; [now apply ab_valid|]. split; [now apply ab_valid|]. split; [assumption|].
    split; [rewrite Z.odd_mul, (mod4_3_odd _ HP4), (mod4_3_odd _ HQ4); reflexivity|].
    assumption.
  Qed.

  (* ---- the code before fix 3216d4d / 8307514: refutations of the same statement, kept as regression examples ---- *)

  Definition id_a : bytes := [97%N].

  Definition witness_cm (P Q : Z) (S T : option Z) (rid chain : option bytes) : config_m :=
    mkConfigM id_a 0 1 1 (Some P) (Some Q) rid chain [Ok (mkPubM id_a None None None S T)].
  Definition witness_c (P Q : Z) (S T : option Z) (rid chain : option bytes) : config_c :=
    mkConfigC id_a 0 1 1 P Q rid chain [mkPubC id_a (ab 1) (ab 1) (P * Q) S T].

  Lemma witness_wf P Q S T rid chain : wf_config_m (witness_cm P Q S T rid chain).
  Proof.
    unfold wf_config_m, witness_cm. cbn.
    assert (1 < secp_q) by reflexivity.
    repeat split; try lia. constructor; [|constructor]. cbn. split; now left.
  Qed.

  Lemma witness_checks_v0 P Q S T rid chain :
    validate_prime_v0 pt (Some P) = true -> validate_prime_v0 pt (Some Q) = true ->
    config_checks_v0 pt ab (witness_cm P Q S T rid chain) = Ok (witness_c P Q S T rid chain).
  Proof.
    intros HP HQ. unfold config_checks_v0, witness_cm.
    cbn [cm_id cm_threshold cm_ecdsa cm_elgamal cm_P cm_Q cm_rid cm_chain cm_public].
    rewrite HP, HQ. cbn [Z.eqb orb negb].
    cbn [process_publics_v0 has_id existsb pm_id app].
    replace (bytes_eqb id_a id_a) with true by reflexivity.
    cbn [length Z.of_nat pm_S pm_T has_id existsb pc_id].
    replace (bytes_eqb id_a id_a) with true by reflexivity.
    reflexivity.
  Qed.

  Definition rid1 : option bytes := Some (1%N :: zeros 31).

  (* (a) the own Pedersen parameters were never validated: nil S and T came back inside a "restored" config *)
  Theorem config_v0_own_pedersen_unchecked_refuted P Q :
    validate_prime_v0 pt (Some P) = true -> validate_prime_v0 pt (Some Q) = true ->
    exists cm c, wf_config_m cm /\ config_checks_v0 pt ab cm = Ok c /\ ~ valid_config c.
  Proof.
    intros HP HQ. exists (witness_cm P Q None None rid1 rid1), (witness_c P Q None None rid1 rid1).
    split; [apply witness_wf|]. split; [now apply witness_checks_v0|].
    intros (_ & _ & _ & _ & _ & _ & _ & _ & _ & _ & _ & Hpub & _).
    inversion Hpub as [|? ? Hv _]; subst. destruct Hv as (_ & _ & _ & _ & (s & t & Hs & _)). discriminate.
  Qed.

  (* (b) RID and ChainKey were never validated: nil (or any length) came back *)
  Theorem config_v0_rid_unchecked_refuted P Q :
    validate_prime_v0 pt (Some P) = true -> validate_prime_v0 pt (Some Q) = true ->
    exists cm c, wf_config_m cm /\ config_checks_v0 pt ab cm = Ok c /\ ~ valid_config c.
  Proof.
    intros HP HQ. exists (witness_cm P Q (Some 2) (Some 3) None None), (witness_c P Q (Some 2) (Some 3) None None).
    split; [apply witness_wf|]. split; [now apply witness_checks_v0|].
    intros (_ & _ & _ & _ & _ & _ & _ & _ & _ & _ & _ & _ & (b & Hb & _) & _). discriminate.
  Qed.

  (* (c) ValidatePrime accepted a composite P as long as (P-1)/2 passed the primality test *)
  Theorem config_v0_composite_prime_refuted P Q :
    validate_prime_v0 pt (Some P) = true -> validate_prime_v0 pt (Some Q) = true ->
    (3 | P) -> 3 < P ->
    exists cm c, wf_config_m cm /\ config_checks_v0 pt ab cm = Ok c /\ ~ valid_config c.
  Proof.
    intros HP HQ H3 Hgt. exists (witness_cm P Q (Some 2) (Some 3) rid1 rid1), (witness_c P Q (Some 2) (Some 3) rid1 rid1).
    split; [apply witness_wf|]. split; [now apply witness_checks_v0|].
    intros (_ & _ & Hprime & _). cbn in Hprime.
    destruct (prime_divisors P Hprime 3 H3) as [E|[E|[E|E]]]; lia.
  Qed.

  (* (d) nothing related the size of P*Q to 2048 bits *)
  Theorem config_v0_own_modulus_size_refuted P Q :
    validate_prime_v0 pt (Some P) = true -> validate_prime_v0 pt (Some Q) = true ->
    bitlen (P * Q) <> bits_paillier ->
    exists cm c, wf_config_m cm /\ config_checks_v0 pt ab cm = Ok c /\ ~ valid_config c.
  Proof.
    intros HP HQ Hb. exists (witness_cm P Q (Some 2) (Some 3) rid1 rid1), (witness_c P Q (Some 2) (Some 3) rid1 rid1).
    split; [apply witness_wf|]. split; [now apply witness_checks_v0|].
    intros (_ & _ & _ & _ & _ & _ & _ & _ & _ & _ & _ & Hpub & _).
    inversion Hpub as [|? ? Hv _]; subst. destruct Hv as (_ & _ & Hbits & _). cbn in Hbits. contradiction.
  Qed.

  (* the repaired checks refuse each of these witnesses *)
  Theorem config_checks_refuse_v0_witnesses P Q :
    config_checks pt ab (witness_cm P Q None None rid1 rid1) = Err 17 \/
    exists c, config_checks pt ab (witness_cm P Q None None rid1 rid1) = Err c /\ (c < 17)%N.
  Proof.
    unfold config_checks, witness_cm.
    cbn [cm_id cm_threshold cm_ecdsa cm_elgamal cm_P cm_Q cm_rid cm_chain cm_public].
    replace (rid_validate rid1) with true by reflexivity. cbn [negb Z.eqb orb].
    destruct (validate_prime pt (Some P)); cbn [negb]; [|right; exists 3%N; split; [reflexivity|lia]].
    destruct (validate_prime pt (Some Q)); cbn [negb]; [|right; exists 4%N; split; [reflexivity|lia]].
    destruct (P =? Q); [right; exists 15%N; split; [reflexivity|lia]|].
    destruct (validate_N (Some (P * Q))); cbn [negb]; [|right; exists 16%N; split; [reflexivity|lia]].
    left. reflexivity.
  Qed.
End ConfigSound.

(* ------------------------------------------------------------------------------------------------ *)
(* from bytes: the field decoders deliver well-formed records, so the theorems above apply to       *)
(* config_unmarshal                                                                                  *)

Ltac peel H :=
  match type of H with
  | context [match ?l with [] => _ | _ :: _ => _ end] =>
      is_var l; destruct l as [|[[] ?] ?]; try discriminate H; cbv beta iota in H
  end.

(* destruct the option-valued scrutinee at the head of H, keeping its equation; the None branch is an error *)
Ltac dH H :=
  match type of H with
  | match ?e with Some _ => _ | None => _ end = _ =>
      let E := fresh "E" in destruct e eqn:E; [|discriminate H]
  end.
Ltac dIf H yes :=
  match type of H with
  | (if ?c then _ else _) = _ =>
      match yes with
      | true => destruct c; [|discriminate H]
      | false => destruct c; [discriminate H|]
      end
  end.

Lemma secp_q_pos : 0 < secp_q. Proof. reflexivity. Qed.

Lemma fld_scalar_range v x : out_opt (fld_scalar v) = Some x -> 0 <= x < secp_q.
Proof.
  destruct v; cbn [fld_scalar out_opt]; try discriminate.
  destruct (scalar_decode b) eqn:E; cbn [out_opt]; [|discriminate].
  intro H. injection H as <-. apply scalar_decode_iff in E as (_ & _ & -> & Hq). lia.
Qed.

Lemma fld_point_wf v P : out_opt (fld_point v) = Some P -> wf_point P.
Proof.
  destruct v; cbn [fld_point out_opt]; try discriminate.
  destruct (point_decode b) eqn:E; cbn [out_opt]; [|discriminate].
  intro H. injection H as <-. right. now apply point_decode_valid in E as [_ E].
Qed.

Lemma pub_of_tree_wf t p : pub_of_tree t = Ok p -> wf_pub_m p.
Proof.
  intro H. unfold pub_of_tree in H. destruct t; try discriminate H.
  - do 6 peel H. destruct l; try discriminate H. cbv beta iota in H.
    match type of H with (if ?c then _ else _) = _ => destruct c; [|discriminate H] end.
    match type of H with (if ?c then _ else _) = _ => destruct c; [discriminate H|] end.
    destruct (fld_text _ _); try discriminate H.
    destruct (out_opt (fld_point c0)) eqn:E1; try discriminate H.
    destruct (out_opt (fld_point c1)) eqn:E2; try discriminate H.
    destruct (out_opt (fld_modulus _)); try discriminate H.
    destruct (fld_nat _); try discriminate H. destruct (fld_nat _); try discriminate H.
    injection H as <-. split; cbn; eapply fld_point_wf; eauto.
  - injection H as <-. split; now left.
Qed.

Lemma config_of_tree_wf t cm : config_of_tree t = Ok cm -> wf_config_m cm.
Proof.
  intro H. unfold config_of_tree in H. destruct t; try discriminate H.
  do 9 peel H. destruct l; try discriminate H. cbv beta iota in H.
  match type of H with (if ?c then _ else _) = _ => destruct c; [|discriminate H] end.
  match type of H with (if ?c then _ else _) = _ => destruct c; [discriminate H|] end.
  destruct (fld_text _ _); try discriminate H.
  destruct (fld_int _ _); try discriminate H.
  destruct (out_opt (fld_scalar c1)) eqn:E1; try discriminate H.
  destruct (out_opt (fld_scalar c2)) eqn:E2; try discriminate H.
  destruct (fld_nat _); try discriminate H. destruct (fld_nat _); try discriminate H.
  destruct (fld_bytes _); try discriminate H. destruct (fld_bytes _); try discriminate H.
  match type of H with match ?o with Some _ => _ | None => _ end = _ => destruct o as [pubs|] eqn:Ep; [|discriminate H] end.
  injection H as <-. unfold wf_config_m. cbn.
  split; [eapply fld_scalar_range; eauto|]. split; [eapply fld_scalar_range; eauto|].
  destruct c7; try discriminate Ep; injection Ep as <-; [|constructor].
  apply Forall_forall. intros e He. apply in_map_iff in He as (t & <- & _).
  destruct (pub_of_tree t) eqn:Et; cbn; auto. eapply pub_of_tree_wf; eauto.
Qed.

Section UnmarshalSound.
  Variable pt : Z -> bool.
  Variable ab : Z -> point.
  Hypothesis ab_valid : forall k, 0 < k < secp_q -> valid_point (ab k).
  Hypothesis pt_sound : forall p, pt p = true -> prime p.

  Lemma recovered_ok {A} (o : outcome A) a : recovered o = Ok a -> o = Ok a.
  Proof. destruct o; cbn; congruence. Qed.

  Lemma config_unmarshal_inv bs c :
    config_unmarshal pt ab bs = Ok c ->
    exists cm, wf_config_m cm /\ config_checks pt ab cm = Ok c.
  Proof.
    unfold config_unmarshal. destruct (decode bs) as [[t r]|]; [|discriminate].
    intro H.
    assert (H' : recovered match config_of_tree t with
                           | Ok cm => config_checks pt ab cm | Err c0 => Err c0 | Panic => Panic end = Ok c)
      by (destruct t; try exact H; discriminate H).
    apply recovered_ok in H'.
    destruct (config_of_tree t) as [cm| |] eqn:Et; try discriminate.
    exists cm. split; [eapply config_of_tree_wf; eauto | assumption].
  Qed.

  (* the property's statement over BYTES for the repaired code: whatever UnmarshalBinary accepts is valid.
     Hypotheses: the primality test is sound, and the group fact. *)
  Theorem config_unmarshal_sound bs c : config_unmarshal pt ab bs = Ok c -> valid_config c.
  Proof.
    intro H. apply config_unmarshal_inv in H as (cm & Hwf & H).
    now apply (config_checks_sound pt ab ab_valid pt_sound cm c).
  Qed.
End UnmarshalSound.

(* UnmarshalBinary never panics (deferred recover; nil checks) -- whatever the bytes, whatever the oracle *)
Theorem config_unmarshal_total pt ab bs : config_unmarshal pt ab bs <> Panic.
Proof.
  unfold config_unmarshal. destruct (decode bs) as [[t r]|]; [|discriminate].
  assert (R : forall o : outcome config_c, recovered o <> Panic) by (intros [| |]; discriminate).
  destruct t; try apply R. discriminate.
Qed.

(* CBOR null (one byte, 0xf6): "missing fields" now *)
Theorem config_unmarshal_null_is_error pt ab : config_unmarshal pt ab [246%N] = Err 12.
Proof. reflexivity. Qed.

(* before the fix cbor.Unmarshal set the *configMarshal to nil and the next line dereferenced it *)
Theorem config_unmarshal_v0_null_panics pt ab : config_unmarshal_v0 pt ab [246%N] = Panic.
Proof. reflexivity. Qed.

(* a public entry whose modulus N is the empty / an all-zero byte string: saferith panics ("Modulus is empty")
   inside cbor.Unmarshal of that entry; the panic reached the caller before the fix and is "malformed data" now *)
Theorem pub_entry_zero_modulus_panics :
  pub_of_tree (CMap [ (CText k_id, CText [98%N]); (CText k_ecdsa, CNull); (CText k_elgamal, CNull);
                      (CText k_N, CBytes []); (CText k_S, CNull); (CText k_T, CNull) ]) = Panic.
Proof. reflexivity. Qed.

Theorem process_publics_v0_panic_propagates ab id x y NN l acc :
  process_publics_v0 ab id x y NN (Panic :: l) acc = Panic.
Proof. reflexivity. Qed.

(* ---- concrete 1024-bit numbers for the refutations (the harness feeds the same numbers to Go) ---- *)

(* two of the cached safe primes (data/safeprimes24.txt, lines 1 and 2) *)
Definition P0 : Z := 0xc719fca520bf470442b817cd81dab2addeeb861e9ea1c28fed3f699ff5c8aed687dc98c21bdb37564ec3339f28484a88757ef10c1bf3ce7269555b6b921c12a7e001ccb481b450028cee868d8df51fd73ad73d5c82e47db8722976fd5526b90ce773f396d702714f302153d83a1e60df04d39ed108f255467f34c5faffcf04c7.
Definition Q0 : Z := 0xcfcf26601f520a6b849d889b0d7292251b072cf807770461e4ebd1519538e4001879bac47ea7da917344d9dd603994b722f02a5bbdfae947216ff0dba4addb79d83e9b4e6380d674ecccea95bae5ad1fd21d0fcdd627a7e616acf2efa5da7b1a43f74eedde8645f401dd96eb833c9148d047a70669ba26a9ed1fac743633b25b.
(* composite, but "safe-prime looking": PC = 2*r + 1 with r prime and r = 1 (mod 3), so 3 | PC *)
Definition PC : Z := 0xe10c83b59fe446bfc3bf8a9e388c2389144c12f3af221589c0c84b33cf8b8702778728c93b5cdac8939b5573b9a5bfef1a718fb4979678684e8b68cf145a1ea8459d2294e85b342727112eeb444a17badd42ab69f0883b814de68553c53dc4b0110a50e89a54d86dad291c7a152ec4ba2afe6c49ccc9e7aa306f26f7c5f30e7f.
(* a safe prime just above 2^1023: its square has 2047 bits *)
Definition PS : Z := 0x9079f0daff9edfa72f2f6aa497b20148128454f246a08e60abd172e228b24c58e43f4824e2bc664d52a1d17cac5aac1760825d089c945bab733e6649f88115a92c3dddc9ccc4f9b9aa809a0d880a5f2db65d45cf08febad6a790123b1c8e90ef3747b67f5ce2641194adbc3f9944e10ea9c4fc8e372ce568a3016c8672c12553.

Lemma validate_prime_v0_of pt p :
  (bitlen p =? bits_blum_prime) = true -> (p mod 4 =? 3) = true -> pt (p / 2) = true ->
  validate_prime_v0 pt (Some p) = true.
Proof. intros H1 H2 H3. cbn [validate_prime_v0]. now rewrite H1, H2, H3. Qed.

Lemma P0_shape : (bitlen P0 =? bits_blum_prime) = true /\ (P0 mod 4 =? 3) = true.
Proof. split; vm_compute; reflexivity. Qed.
Lemma Q0_shape : (bitlen Q0 =? bits_blum_prime) = true /\ (Q0 mod 4 =? 3) = true.
Proof. split; vm_compute; reflexivity. Qed.
Lemma PC_shape : (bitlen PC =? bits_blum_prime) = true /\ (PC mod 4 =? 3) = true /\ (3 | PC) /\ 3 < PC.
Proof.
  split; [vm_compute; reflexivity|]. split; [vm_compute; reflexivity|]. split.
  - exists (PC / 3). vm_compute. reflexivity.
  - vm_compute. reflexivity.
Qed.
Lemma PS_shape : (bitlen PS =? bits_blum_prime) = true /\ (PS mod 4 =? 3) = true /\ bitlen (PS * PS) = 2047.
Proof. split; [vm_compute; reflexivity|]. split; vm_compute; reflexivity. Qed.

(* the refutations of the OLD code with every number concrete: the only thing taken from outside is the verdict
   of the primality test on given integers (Go's ProbablyPrime says true on all of them; the harness checks) *)
Theorem config_unmarshal_sound_v0_refuted (pt : Z -> bool) (ab : Z -> point) :
  pt (P0 / 2) = true -> pt (Q0 / 2) = true ->
  exists cm c, wf_config_m cm /\ config_checks_v0 pt ab cm = Ok c /\ ~ valid_config c.
Proof.
  intros HP HQ. destruct P0_shape as [A1 A2]. destruct Q0_shape as [B1 B2].
  apply (config_v0_own_pedersen_unchecked_refuted pt ab P0 Q0); now apply validate_prime_v0_of.
Qed.

Theorem config_rid_v0_refuted (pt : Z -> bool) (ab : Z -> point) :
  pt (P0 / 2) = true -> pt (Q0 / 2) = true ->
  exists cm c, wf_config_m cm /\ config_checks_v0 pt ab cm = Ok c /\ ~ valid_config c.
Proof.
  intros HP HQ. destruct P0_shape as [A1 A2]. destruct Q0_shape as [B1 B2].
  apply (config_v0_rid_unchecked_refuted pt ab P0 Q0); now apply validate_prime_v0_of.
Qed.

Theorem config_composite_v0_refuted (pt : Z -> bool) (ab : Z -> point) :
  pt (PC / 2) = true -> pt (Q0 / 2) = true ->
  exists cm c, wf_config_m cm /\ config_checks_v0 pt ab cm = Ok c /\ ~ valid_config c.
Proof.
  intros HP HQ. destruct PC_shape as (A1 & A2 & A3 & A4). destruct Q0_shape as [B1 B2].
  apply (config_v0_composite_prime_refuted pt ab PC Q0); auto; now apply validate_prime_v0_of.
Qed.

Theorem config_modulus_size_v0_refuted (pt : Z -> bool) (ab : Z -> point) :
  pt (PS / 2) = true ->
  exists cm c, wf_config_m cm /\ config_checks_v0 pt ab cm = Ok c /\ ~ valid_config c.
Proof.
  intros HP. destruct PS_shape as (A1 & A2 & A3).
  apply (config_v0_own_modulus_size_refuted pt ab PS PS); try (now apply validate_prime_v0_of).
  rewrite A3. discriminate.
Qed.

(* the composite PC is refused by the repaired ValidatePrime as soon as the test is sound *)
Theorem validate_prime_refuses_composite (pt : Z -> bool) :
  (forall p, pt p = true -> prime p) -> validate_prime pt (Some PC) = false.
Proof.
  intro Hs. cbn [validate_prime]. destruct (pt PC) eqn:E; [|now rewrite andb_false_r].
  apply Hs in E. destruct PC_shape as (_ & _ & H3 & Hgt).
  destruct (prime_divisors PC E 3 H3) as [E'|[E'|[E'|E']]]; lia.
Qed.

(* ------------------------------------------------------------------------------------------------ *)
(* FROST keygen.Config: restoring is plain decoding, nothing is validated                            *)

Definition frost_bad_tree : cbor :=
  CMap [ (CText k_id, CText [97%N]); (CText k_threshold, CNeg 0); (CText k_privateshare, CBytes (zeros 32));
         (CText k_publickey, CBytes (point_encode secp_G)); (CText k_chainkey, CNull); (CText k_vshares, CNull) ].

(* before the validating UnmarshalCBOR: nothing was checked *)
Theorem frost_unmarshal_sound_v0_refuted :
  exists bs c, frost_unmarshal_v0 bs = Ok c /\ ~ valid_frost c /\
               f_share c = 0 /\ f_threshold c = -1 /\ f_shares c = [] /\ f_chain c = None.
Proof.
  exists (encode frost_bad_tree). eexists. split; [vm_compute; reflexivity|].
  split; [|repeat split].
  intros (H & _). cbn in H. lia.
Qed.

(* the same bytes are refused now *)
Theorem frost_unmarshal_refuses_v0_witness : frost_unmarshal (encode frost_bad_tree) = Err 2.
Proof. vm_compute. reflexivity. Qed.

(* ---- the validating restore functions: whatever they accept is valid; they never panic ---- *)

Lemma recovered_ok' {A} (o : outcome A) a : recovered o = Ok a -> o = Ok a.
Proof. destruct o; cbn; congruence. Qed.

Lemma validated_ok {A} (valid : A -> bool) o a :
  validated valid o = Ok a -> o = Ok a /\ valid a = true.
Proof.
  unfold validated. destruct (recovered o) as [a'| |] eqn:E; try discriminate.
  destruct (valid a') eqn:V; [|discriminate]. intro H. injection H as <-.
  split; [now apply recovered_ok' | assumption].
Qed.

Lemma validated_total {A} (valid : A -> bool) o : validated valid o <> Panic.
Proof.
  unfold validated. destruct o as [a| |]; cbn; try discriminate. destruct (valid a); discriminate.
Qed.

Lemma has_share_in id l : has_share id l = true -> In id (map fst l).
Proof.
  unfold has_share. intro H. apply existsb_exists in H as (e & He & E). apply bytes_eqb_eq in E. subst.
  now apply in_map.
Qed.

Lemma has_share_not_in id l : has_share id l = false -> ~ In id (map fst l).
Proof.
  unfold has_share. intros H Hin. apply in_map_iff in Hin as (e & <- & He).
  assert (E : existsb (fun e0 => bytes_eqb (fst e0) (fst e)) l = true).
  { apply existsb_exists. exists e. split; [assumption|]. now apply bytes_eqb_eq. }
  congruence.
Qed.

Lemma dedup_last_incl l e : In e (dedup_last l) -> In e l.
Proof.
  induction l as [|x l IH]; cbn [dedup_last]; [auto|].
  destruct (has_share (fst x) l); intro H; [right; auto|].
  destruct H as [->|H]; [now left | right; auto].
Qed.

Lemma dedup_last_nodup l : NoDup (map fst (dedup_last l)).
Proof.
  induction l as [|x l IH]; cbn [dedup_last]; [constructor|].
  destruct (has_share (fst x) l) eqn:E; [assumption|].
  cbn [map]. constructor; [|assumption].
  intro Hin. apply in_map_iff in Hin as (e & Ee & He). apply dedup_last_incl in He.
  apply has_share_not_in in E. apply E. rewrite <- Ee. now apply in_map.
Qed.

Lemma dedup_last_forall (P : bytes * point -> Prop) l : Forall P l -> Forall P (dedup_last l).
Proof.
  intro H. apply Forall_forall. intros e He. apply dedup_last_incl in He.
  rewrite Forall_forall in H. now apply H.
Qed.

Definition wf_shares (l : list (bytes * point)) : Prop :=
  NoDup (map fst l) /\ Forall (fun e => wf_point (snd e)) l.

Lemma shares_of_pairs_wf l : forall sh,
  shares_of_pairs l = Some sh -> Forall (fun e => wf_point (snd e)) sh.
Proof.
  induction l as [|[k v] l IH]; intros sh H; cbn [shares_of_pairs] in H.
  - injection H as <-. constructor.
  - destruct k; try discriminate. destruct v; try discriminate.
    + destruct (utf8_valid b); [|discriminate].
      destruct (point_decode b0) as [P|] eqn:EP; [|discriminate].
      destruct (shares_of_pairs l) as [r|]; [|discriminate]. injection H as <-.
      constructor; [|now apply IH]. cbn. right. now apply point_decode_valid in EP as [_ EP].
    + destruct (utf8_valid b); [|discriminate].
      destruct (shares_of_pairs l) as [r|]; [|discriminate]. injection H as <-.
      constructor; [|now apply IH]. cbn. now left.
Qed.

Lemma dedup_shares_wf l sh : option_map dedup_last (shares_of_pairs l) = Some sh -> wf_shares sh.
Proof.
  destruct (shares_of_pairs l) as [r|] eqn:E; [|discriminate]. cbn. intro H. injection H as <-.
  split; [apply dedup_last_nodup|]. apply dedup_last_forall. now apply shares_of_pairs_wf with (l := l).
Qed.

Lemma wf_shares_nil : wf_shares [].
Proof. split; constructor. Qed.

Lemma pointmap_of_bytes_wf b sh : pointmap_of_bytes b = Some sh -> wf_shares sh.
Proof.
  unfold pointmap_of_bytes. destruct (decode b) as [[t r]|]; [|discriminate].
  destruct t; try discriminate.
  - now apply dedup_shares_wf.
  - intro H. injection H as <-. apply wf_shares_nil.
Qed.

Lemma shares_ok_valid l :
  Forall (fun e => wf_point (snd e)) l -> shares_ok l = true -> Forall (fun e => valid_point (snd e)) l.
Proof.
  unfold shares_ok. intros Hw Hok. rewrite forallb_forall in Hok. rewrite Forall_forall in *.
  intros e He. apply not_identity_valid; [now apply Hw|]. apply negb_true_iff. now apply Hok.
Qed.

Lemma out_scalar_range v x : out_opt (fld_scalar v) = Some x -> 0 <= x < secp_q.
Proof. apply fld_scalar_range. Qed.

(* ---- FROST ---- *)
Lemma frost_of_tree_wf t c :
  frost_of_tree t = Ok c -> 0 <= f_share c < secp_q /\ wf_point (f_public c) /\ wf_shares (f_shares c).
Proof.
  intro H. unfold frost_of_tree in H. destruct t; try discriminate H.
  - do 6 peel H. destruct l; try discriminate H. cbv beta iota in H.
    match type of H with (if ?c then _ else _) = _ => destruct c; [|discriminate H] end.
    match type of H with (if ?c then _ else _) = _ => destruct c; [discriminate H|] end.
    destruct (fld_text _ _); try discriminate H.
    destruct (fld_int _ _); try discriminate H.
    destruct (out_opt (fld_scalar c2)) eqn:E1; try discriminate H.
    destruct (out_opt (fld_point c3)) eqn:E2; try discriminate H.
    destruct (fld_bytes _); try discriminate H.
    match type of H with match ?o with Some _ => _ | None => _ end = _ => destruct o as [sh|] eqn:Es; [|discriminate H] end.
    injection H as <-. cbn.
    split; [eapply fld_scalar_range; eauto|]. split; [eapply fld_point_wf; eauto|].
    destruct c5; try discriminate Es.
    + now apply pointmap_of_bytes_wf in Es.
    + injection Es as <-. apply wf_shares_nil.
  - injection H as <-. cbn. pose proof secp_q_pos. split; [lia|]. split; [now left | apply wf_shares_nil].
Qed.

Theorem frost_unmarshal_sound bs c : frost_unmarshal bs = Ok c -> valid_frost c.
Proof.
  unfold frost_unmarshal. destruct (decode bs) as [[t r]|]; [|discriminate].
  intro H. apply validated_ok in H as [Ht Hv].
  apply frost_of_tree_wf in Ht as (Hx & Hpk & Hnd & Hsh).
  unfold frost_validate in Hv.
  apply andb_true_iff in Hv as [Hv V6]. apply andb_true_iff in Hv as [Hv V5].
  apply andb_true_iff in Hv as [Hv V4]. apply andb_true_iff in Hv as [Hv V3].
  apply andb_true_iff in Hv as [V1 V2].
  apply negb_true_iff, Z.eqb_neq in V1. apply negb_true_iff in V2. apply Z.leb_le in V3, V4.
  unfold valid_frost. split; [lia|]. split; [now apply not_identity_valid|]. split; [lia|].
  split; [assumption|]. split; [now apply has_share_in|]. now apply shares_ok_valid.
Qed.

Theorem frost_unmarshal_total bs : frost_unmarshal bs <> Panic.
Proof. unfold frost_unmarshal. destruct (decode bs) as [[t r]|]; [apply validated_total | discriminate]. Qed.

(* ---- FROST, Taproot ---- *)
Lemma taproot_of_tree_wf t c :
  taproot_of_tree t = Ok c ->
  (forall x, t_share c = Some x -> 0 <= x < secp_q) /\ wf_shares (t_shares c).
Proof.
  intro H. unfold taproot_of_tree in H. destruct t; try discriminate H.
  - do 6 peel H. destruct l; try discriminate H. cbv beta iota in H.
    match type of H with (if ?c then _ else _) = _ => destruct c; [|discriminate H] end.
    destruct (fld_text _ _); try discriminate H.
    destruct (fld_int _ _); try discriminate H.
    destruct (fld_scalar_ptr c2) eqn:E1; try discriminate H.
    destruct (fld_bytes _); try discriminate H. destruct (fld_bytes _); try discriminate H.
    match type of H with match ?o with Some _ => _ | None => _ end = _ => destruct o as [sh|] eqn:Es; [|discriminate H] end.
    injection H as <-. cbn. split.
    + intros x ->. destruct c2; try discriminate E1. cbn [fld_scalar_ptr] in E1.
      revert E1. destruct (scalar_decode _) eqn:Ed; intro E1; [|discriminate E1]. injection E1 as <-.
      apply scalar_decode_iff in Ed as (_ & _ & -> & Hq). lia.
    + destruct c5; try discriminate Es.
      * now apply dedup_shares_wf in Es.
      * injection Es as <-. apply wf_shares_nil.
  - injection H as <-. cbn. split; [discriminate | apply wf_shares_nil].
Qed.

Theorem taproot_unmarshal_sound bs c : taproot_unmarshal bs = Ok c -> valid_taproot c.
Proof.
  unfold taproot_unmarshal. destruct (decode bs) as [[t r]|]; [|discriminate].
  intro H. apply validated_ok in H as [Ht Hv].
  apply taproot_of_tree_wf in Ht as (Hx & Hnd & Hsh).
  unfold taproot_validate in Hv.
  destruct (t_share c) as [x|] eqn:Ex; [|discriminate]. destruct (t_public c) as [pk|] eqn:Epk; [|discriminate].
  apply andb_true_iff in Hv as [Hv V7]. apply andb_true_iff in Hv as [Hv V6].
  apply andb_true_iff in Hv as [Hv V5]. apply andb_true_iff in Hv as [Hv V4].
  apply andb_true_iff in Hv as [Hv V3]. apply andb_true_iff in Hv as [V1 V2].
  apply negb_true_iff, Z.eqb_neq in V1. apply Nat.eqb_eq in V2. apply Z.leb_le in V4, V5.
  specialize (Hx x eq_refl).
  unfold valid_taproot. split; [exists x; split; [exact Ex | lia]|].
  split; [exists pk; auto|]. split; [lia|].
  split; [assumption|]. split; [now apply has_share_in|]. now apply shares_ok_valid.
Qed.

Theorem taproot_unmarshal_total bs : taproot_unmarshal bs <> Panic.
Proof. unfold taproot_unmarshal. destruct (decode bs) as [[t r]|]; [apply validated_total | discriminate]. Qed.

(* ---- Doerner ---- *)
Lemma doerner_of_tree_wf n t cfg :
  doerner_of_tree n t = Ok cfg ->
  0 <= d_share cfg < secp_q /\ wf_point (d_public cfg) /\ (forall st, d_setup cfg = Some st -> length st = n).
Proof.
  intro H. unfold doerner_of_tree in H. destruct t; try discriminate H.
  - do 4 peel H. destruct l; try discriminate H. cbv beta iota in H.
    dIf H true. dIf H false. repeat dH H.
    injection H as <-. cbn.
    split; [eapply fld_scalar_range; eassumption|]. split; [eapply fld_point_wf; eassumption|].
    intros st' ->.
    match goal with Es : match ?v with _ => _ end = Some (Some st') |- _ =>
      destruct v; try discriminate Es;
      match type of Es with (if Nat.eqb (length ?bb) n then _ else _) = _ =>
        destruct (Nat.eqb_spec (length bb) n); [|discriminate Es] end;
      now injection Es as <- end.
  - injection H as <-. cbn. pose proof secp_q_pos. split; [lia|]. split; [now left | discriminate].
Qed.

Theorem doerner_unmarshal_sound n bs c : doerner_unmarshal n bs = Ok c -> valid_doerner n c.
Proof.
  unfold doerner_unmarshal. destruct (decode bs) as [[t r]|]; [|discriminate].
  intro H. apply validated_ok in H as [Ht Hv].
  apply doerner_of_tree_wf in Ht as (Hx & Hpk & Hst).
  unfold doerner_validate in Hv. destruct (d_setup c) as [st|] eqn:Es; [|discriminate].
  apply andb_true_iff in Hv as [Hv V3]. apply andb_true_iff in Hv as [V1 V2].
  apply negb_true_iff, Z.eqb_neq in V1. apply negb_true_iff in V2.
  unfold valid_doerner. split; [exists st; auto|]. split; [lia|]. split; [now apply not_identity_valid|].
  unfold chain_ok in V3. destruct (d_chain c) as [b|]; [|discriminate]. apply Nat.eqb_eq in V3.
  exists b. auto.
Qed.

Theorem doerner_unmarshal_total n bs : doerner_unmarshal n bs <> Panic.
Proof. unfold doerner_unmarshal. destruct (decode bs) as [[t r]|]; [apply validated_total | discriminate]. Qed.

(* ---- Signature ---- *)
Lemma signature_of_tree_wf t sg :
  signature_of_tree t = Ok sg -> wf_point (fst sg) /\ 0 <= snd sg < secp_q.
Proof.
  intro H. unfold signature_of_tree in H. destruct t; try discriminate H.
  - do 2 peel H. destruct l; try discriminate H. cbv beta iota in H.
    dIf H true. dIf H false. repeat dH H.
    injection H as <-. cbn. split; [eapply fld_point_wf; eassumption | eapply fld_scalar_range; eassumption].
  - injection H as <-. cbn. pose proof secp_q_pos. split; [now left | lia].
Qed.

Theorem signature_unmarshal_sound bs sg : signature_unmarshal bs = Ok sg -> valid_signature sg.
Proof.
  unfold signature_unmarshal. destruct (decode bs) as [[t r]|]; [|discriminate].
  intro H. apply validated_ok in H as [Ht Hv]. apply signature_of_tree_wf in Ht as (HR & Hs).
  unfold signature_validate in Hv. apply andb_true_iff in Hv as [V1 V2].
  apply negb_true_iff in V1. apply negb_true_iff, Z.eqb_neq in V2.
  split; [now apply not_identity_valid | lia].
Qed.

Theorem signature_unmarshal_total bs : signature_unmarshal bs <> Panic.
Proof. unfold signature_unmarshal. destruct (decode bs) as [[t r]|]; [apply validated_total | discriminate]. Qed.

(* ---- PreSignature ---- *)
Definition wf_opt_shares (o : option (list (bytes * point))) : Prop :=
  match o with Some l => wf_shares l | None => True end.

Lemma fld_pointmap_wf v o : fld_pointmap v = Some o -> wf_opt_shares o.
Proof.
  destruct v; cbn [fld_pointmap]; try discriminate.
  - destruct (pointmap_of_bytes b) as [sh|] eqn:E; [|discriminate]. cbn. intro H. injection H as <-.
    cbn. now apply pointmap_of_bytes_wf in E.
  - intro H. injection H as <-. exact I.
Qed.

Lemma presig_of_tree_wf t p :
  presig_of_tree t = Ok p ->
  wf_point (ps_R p) /\ wf_opt_shares (ps_RBar p) /\ wf_opt_shares (ps_S p) /\
  0 <= ps_k p < secp_q /\ 0 <= ps_chi p < secp_q.
Proof.
  intro H. unfold presig_of_tree in H. destruct t; try discriminate H.
  - do 6 peel H. destruct l; try discriminate H. cbv beta iota in H.
    dIf H true. dIf H false. repeat dH H.
    injection H as <-. cbn.
    split; [eapply fld_point_wf; eassumption|]. split; [eapply fld_pointmap_wf; eassumption|].
    split; [eapply fld_pointmap_wf; eassumption|]. split; eapply fld_scalar_range; eassumption.
  - injection H as <-. cbn. pose proof secp_q_pos.
    split; [now left|]. split; [apply wf_shares_nil|]. split; [apply wf_shares_nil|]. lia.
Qed.

Lemma find_share_wf id l P :
  Forall (fun e => wf_point (snd e)) l -> find_share id l = Some P -> wf_point P.
Proof.
  unfold find_share. intros Hw H. destruct (find _ l) as [e|] eqn:E; [|discriminate]. injection H as <-.
  apply find_some in E as [He _]. rewrite Forall_forall in Hw. now apply Hw.
Qed.

Theorem presig_unmarshal_sound bs p : presig_unmarshal bs = Ok p -> valid_presig p.
Proof.
  unfold presig_unmarshal. destruct (decode bs) as [[t r]|]; [|discriminate].
  intro H. apply validated_ok in H as [Ht Hv].
  apply presig_of_tree_wf in Ht as (HR & Hrb & Hsm & Hk & Hchi).
  unfold presig_validate in Hv.
  destruct (ps_RBar p) as [rb|] eqn:Erb; [|discriminate]. destruct (ps_S p) as [sm|] eqn:Esm; [|discriminate].
  cbn in Hrb, Hsm. destruct Hrb as [_ Hrb]. destruct Hsm as [_ Hsm].
  apply andb_true_iff in Hv as [Hv V7]. apply andb_true_iff in Hv as [Hv V6].
  apply andb_true_iff in Hv as [Hv V5]. apply andb_true_iff in Hv as [Hv V4].
  apply andb_true_iff in Hv as [Hv V3]. apply andb_true_iff in Hv as [V1 V2].
  apply Nat.eqb_eq in V1. apply negb_true_iff in V3.
  apply negb_true_iff, Z.eqb_neq in V5. apply negb_true_iff, Z.eqb_neq in V6.
  apply negb_true_iff, Nat.eqb_neq in V7.
  exists rb, sm. split; [exact Erb|]. split; [exact Esm|]. split; [assumption|].
  split; [intros ->; now apply V7|].
  split.
  { intros id Rj Hin. rewrite forallb_forall in V2. specialize (V2 (id, Rj) Hin). cbn [fst snd] in V2.
    apply andb_true_iff in V2 as [A B]. apply negb_true_iff in A.
    rewrite Forall_forall in Hrb. split; [apply not_identity_valid; [exact (Hrb (id, Rj) Hin) | assumption]|].
    destruct (find_share id sm) as [Sj|] eqn:Ef; [|discriminate]. apply negb_true_iff in B.
    exists Sj. split; [reflexivity|]. apply not_identity_valid; [eapply find_share_wf; eauto | assumption]. }
  split; [now apply not_identity_valid|].
  destruct (ps_id p) as [b|]; [|discriminate]. apply andb_true_iff in V4 as [L Z]. apply Nat.eqb_eq in L.
  apply negb_true_iff in Z.
  split; [exists b; auto|]. split; [exists b; auto|]. lia.
Qed.

Theorem presig_unmarshal_total bs : presig_unmarshal bs <> Panic.
Proof. unfold presig_unmarshal. destruct (decode bs) as [[t r]|]; [apply validated_total | discriminate]. Qed.

(* CBOR null in a field whose Go type is the interface curve.Scalar / curve.Point: fxamacker panics *)
Theorem null_interface_field_panics :
  fld_scalar CNull = Panic /\ fld_point CNull = Panic /\
  config_of_tree (CMap [ (CText k_id, CNull); (CText k_threshold, CNull); (CText k_ecdsa, CNull);
                         (CText k_elgamal, CBytes (scalar_encode 1)); (CText k_P, CNull); (CText k_Q, CNull);
                         (CText k_rid, CNull); (CText k_chainkey, CNull); (CText k_public, CNull) ]) = Panic /\
  frost_of_tree (CMap [ (CText k_id, CNull); (CText k_threshold, CNull); (CText k_privateshare, CNull);
                        (CText k_publickey, CNull); (CText k_chainkey, CNull); (CText k_vshares, CNull) ]) = Panic.
Proof. repeat split; vm_compute; reflexivity. Qed.
