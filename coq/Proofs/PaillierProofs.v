(* PaillierProofs.v -- lemmas about Model/Paillier.v (C12).  stdlib style; Euler's theorem comes from Proofs/EulerBridge.v. *)
From Coq Require Import ZArith Znumtheory Zpow_facts Lia List Bool.
From MPS Require Import Model.Paillier.
From MPS Require Proofs.EulerBridge.
Local Open Scope Z_scope.

(* ------------------------------------------------------------------ *)
(* A. modular exponentiation                                            *)
(* ------------------------------------------------------------------ *)

Lemma powmod_pos_spec : forall n x e, 0 < n -> powmod_pos n x e = x ^ (Zpos e) mod n.
Proof.
  intros n x e Hn. induction e as [e IH|e IH|]; cbn [powmod_pos].
  - rewrite IH. rewrite Pos2Z.inj_xI.
    rewrite Z.pow_add_r by lia. rewrite Z.pow_twice_r. rewrite Z.pow_1_r.
    rewrite <- Z.mul_mod by lia. rewrite Z.mul_mod_idemp_l by lia. reflexivity.
  - rewrite IH. rewrite Pos2Z.inj_xO. rewrite Z.pow_twice_r.
    rewrite <- Z.mul_mod by lia. reflexivity.
  - rewrite Z.pow_1_r. reflexivity.
Qed.

Lemma powmod_spec : forall n x e, 0 < n -> 0 <= e -> powmod n x e = x ^ e mod n.
Proof.
  intros n x e Hn He. destruct e as [|e|e]; cbn [powmod].
  - rewrite Z.pow_0_r. reflexivity.
  - rewrite powmod_pos_spec by assumption. symmetry. apply Zpower_mod. assumption.
  - lia.
Qed.

Lemma powmod_range : forall n x e, 0 < n -> 0 <= powmod n x e < n.
Proof.
  intros n x e Hn. destruct e as [|e|e]; cbn [powmod].
  - apply Z.mod_pos_bound; assumption.
  - rewrite powmod_pos_spec by assumption. apply Z.mod_pos_bound; assumption.
  - apply Z.mod_pos_bound; assumption.
Qed.

(* ------------------------------------------------------------------ *)
(* B. extended Euclid, modular inverse, gcd                            *)
(* ------------------------------------------------------------------ *)

Lemma egcd_spec : forall fuel a b u v n x,
  0 <= b < a -> a * b < 2 ^ Z.of_nat fuel ->
  (n | a - u * x) -> (n | b - v * x) ->
  fst (egcd fuel a b u v) = Z.gcd a b /\ (n | fst (egcd fuel a b u v) - snd (egcd fuel a b u v) * x).
Proof.
  induction fuel as [|f IH]; intros a b u v n x Hab Hprod Hu Hv.
  - cbn [egcd fst snd]. change (2 ^ Z.of_nat 0) with 1 in Hprod.
    assert (Hb : b = 0) by nia. subst b. rewrite Z.gcd_0_r. split; [lia | assumption].
  - cbn [egcd]. destruct (Z.eqb_spec b 0) as [Hb|Hb].
    + subst b. cbn [fst snd]. rewrite Z.gcd_0_r. split; [lia | assumption].
    + assert (Hbpos : 0 < b) by lia.
      pose proof (Z.div_mod a b Hb) as Hdm.
      pose proof (Z.mod_pos_bound a b Hbpos) as Hr.
      assert (Hq : 1 <= a / b) by (apply Z.div_le_lower_bound; lia).
      assert (Hrem : a - a / b * b = a mod b) by lia.
      rewrite Hrem.
      assert (Hprod' : b * (a mod b) < 2 ^ Z.of_nat f).
      { rewrite Nat2Z.inj_succ, Z.pow_succ_r in Hprod by lia.
        assert (a mod b + b <= a) by nia.
        assert (2 * (b * (a mod b)) < 2 * 2 ^ Z.of_nat f) by nia. lia. }
      assert (Hv' : (n | a mod b - (u - a / b * v) * x)).
      { replace (a mod b - (u - a / b * v) * x) with ((a - u * x) - (a / b) * (b - v * x)) by lia.
        apply Z.divide_sub_r; [assumption | apply Z.divide_mul_r; assumption]. }
      destruct (IH b (a mod b) v (u - a / b * v) n x) as [Hg Hd]; try assumption; try lia.
      split; [| exact Hd].
      rewrite Hg. rewrite Z.gcd_comm. rewrite Z.gcd_mod by assumption. apply Z.gcd_comm.
Qed.

Lemma egcd_fuel_ok : forall n b, 0 < n -> 0 <= b < n -> n * b < 2 ^ Z.of_nat (egcd_fuel n).
Proof.
  intros n b Hn Hb. unfold egcd_fuel.
  pose proof (Z.log2_nonneg n) as Hl.
  rewrite Z2Nat.id by lia.
  destruct (Z.log2_spec n Hn) as [_ Hup].
  replace (2 * Z.log2 n + 2) with (Z.succ (Z.log2 n) + Z.succ (Z.log2 n)) by lia.
  rewrite Z.pow_add_r by lia. nia.
Qed.

Lemma egcd_run : forall n x, 0 < n ->
  gcd_mod n x = Z.gcd x n /\ (n | gcd_mod n x - snd (egcd (egcd_fuel n) n (x mod n) 0 1) * x).
Proof.
  intros n x Hn. unfold gcd_mod.
  pose proof (Z.mod_pos_bound x n Hn) as Hb.
  destruct (egcd_spec (egcd_fuel n) n (x mod n) 0 1 n x) as [Hg Hd].
  - lia.
  - apply egcd_fuel_ok; assumption.
  - exists 1. lia.
  - exists (- (x / n)). rewrite (Z.mod_eq x n) by lia. lia.
  - split; [| exact Hd]. rewrite Hg. rewrite Z.gcd_comm. rewrite Z.gcd_mod by lia. apply Z.gcd_comm.
Qed.

Lemma gcd_mod_spec : forall n x, 0 < n -> gcd_mod n x = Z.gcd x n.
Proof. intros n x Hn. apply (egcd_run n x Hn). Qed.

Lemma modinv_range : forall n x, 0 < n -> 0 <= modinv n x < n.
Proof. intros n x Hn. unfold modinv. apply Z.mod_pos_bound. assumption. Qed.

Lemma modinv_spec : forall n x, 1 < n -> Z.gcd x n = 1 -> (modinv n x * x) mod n = 1.
Proof.
  intros n x Hn Hg. assert (Hn0 : 0 < n) by lia.
  destruct (egcd_run n x Hn0) as [Hgm Hd]. rewrite Hgm, Hg in Hd.
  unfold modinv. set (u := snd (egcd (egcd_fuel n) n (x mod n) 0 1)) in *.
  rewrite Z.mul_mod_idemp_l by lia.
  destruct Hd as [k Hk].
  replace (u * x) with (1 + (- k) * n) by lia.
  rewrite Z.mod_add by lia. apply Z.mod_small. lia.
Qed.

Lemma modinv_full_spec : forall n x, 1 < n -> Z.gcd x n = 1 ->
  0 <= modinv n x < n /\ (modinv n x * x) mod n = 1.
Proof. intros n x Hn Hg. split; [apply modinv_range; lia | apply modinv_spec; assumption]. Qed.

(* inverses modulo n are unique *)
Lemma inv_unique_mod : forall n x a b, 0 < n ->
  (a * x) mod n = 1 mod n -> (b * x) mod n = 1 mod n -> a mod n = b mod n.
Proof.
  intros n x a b Hn Ha Hb.
  assert (H1 : (a * (b * x)) mod n = a mod n).
  { rewrite <- Z.mul_mod_idemp_r by lia. rewrite Hb. rewrite Z.mul_mod_idemp_r by lia. f_equal. lia. }
  assert (H2 : (a * (b * x)) mod n = b mod n).
  { replace (a * (b * x)) with (b * (a * x)) by lia.
    rewrite <- Z.mul_mod_idemp_r by lia. rewrite Ha. rewrite Z.mul_mod_idemp_r by lia. f_equal. lia. }
  congruence.
Qed.

Lemma modinv_unique : forall n x y, 1 < n -> Z.gcd x n = 1 ->
  0 <= y < n -> (y * x) mod n = 1 -> modinv n x = y.
Proof.
  intros n x y Hn Hg Hy Hyx.
  pose proof (modinv_range n x ltac:(lia)) as Hr.
  pose proof (modinv_spec n x Hn Hg) as Hs.
  assert (H : modinv n x mod n = y mod n).
  { apply (inv_unique_mod n x); try lia; rewrite (Z.mod_small 1) by lia; assumption. }
  rewrite !Z.mod_small in H by lia. exact H.
Qed.

(* a residue with an inverse is a unit *)
Lemma unit_of_inverse : forall n a b, 1 < n -> (a * b) mod n = 1 -> Z.gcd a n = 1.
Proof.
  intros n a b Hn H. apply Z.bezout_1_gcd.
  exists b, (- ((a * b) / n)). pose proof (Z.div_mod (a * b) n ltac:(lia)) as Hdm. lia.
Qed.

Lemma gcd_mod_l : forall a n, 0 < n -> Z.gcd (a mod n) n = Z.gcd a n.
Proof. intros a n Hn. rewrite Z.gcd_mod by lia. apply Z.gcd_comm. Qed.

Lemma unit_mul : forall n a b, Z.gcd a n = 1 -> Z.gcd b n = 1 -> Z.gcd (a * b) n = 1.
Proof.
  intros n a b Ha Hb. apply Zgcd_1_rel_prime. apply rel_prime_sym.
  apply rel_prime_mult; apply rel_prime_sym; apply Zgcd_1_rel_prime; assumption.
Qed.

Lemma unit_pow : forall n a k, 0 <= k -> Z.gcd a n = 1 -> Z.gcd (a ^ k) n = 1.
Proof.
  intros n a k Hk Ha. apply Zgcd_1_rel_prime. apply rel_prime_sym.
  apply rel_prime_Zpower_r; [assumption|]. apply rel_prime_sym. apply Zgcd_1_rel_prime. assumption.
Qed.

Lemma modinv_unit : forall n x, 1 < n -> Z.gcd x n = 1 -> Z.gcd (modinv n x) n = 1.
Proof. intros n x Hn Hg. apply (unit_of_inverse n _ x Hn). apply modinv_spec; assumption. Qed.

(* ------------------------------------------------------------------ *)
(* signed exponent                                                      *)
(* ------------------------------------------------------------------ *)

Lemma expI_nonneg : forall n x e, 0 < n -> 0 <= e -> expI n x e = x ^ e mod n.
Proof.
  intros n x e Hn He. unfold expI. destruct (Z.ltb_spec e 0); [lia|].
  rewrite Z.abs_eq by lia. apply powmod_spec; assumption.
Qed.

Lemma expI_neg_def : forall n x e, e < 0 -> expI n x e = modinv n (powmod n x (- e)).
Proof.
  intros n x e He. unfold expI. destruct (Z.ltb_spec e 0); [|lia].
  rewrite Z.abs_neq by lia. reflexivity.
Qed.

Lemma expI_neg : forall n x e, 1 < n -> Z.gcd x n = 1 -> e < 0 ->
  expI n x e = modinv n (powmod n x (- e)) /\
  0 <= expI n x e < n /\ (expI n x e * x ^ (- e)) mod n = 1.
Proof.
  intros n x e Hn Hg He. rewrite expI_neg_def by assumption.
  split; [reflexivity|]. split; [apply modinv_range; lia|].
  rewrite powmod_spec by lia.
  rewrite <- Z.mul_mod_idemp_r by lia.
  apply modinv_spec; [assumption|].
  rewrite gcd_mod_l by lia. apply unit_pow; [lia | assumption].
Qed.

Lemma expI_range : forall n x e, 0 < n -> 0 <= expI n x e < n.
Proof.
  intros n x e Hn. unfold expI. destruct (e <? 0).
  - apply modinv_range; assumption.
  - apply powmod_range; assumption.
Qed.

(* ------------------------------------------------------------------ *)
(* C. CRT exponentiation = plain exponentiation                         *)
(* ------------------------------------------------------------------ *)

Lemma crt_unique : forall p q R X, 0 < p -> 0 < q -> Z.gcd p q = 1 ->
  (p | R - X) -> (q | R - X) -> R mod (p * q) = X mod (p * q).
Proof.
  intros p q R X Hp Hq Hg [k Hk] Hqd.
  assert (Hqk : (q | k)).
  { apply (Z.gauss q p k); [| rewrite Z.gcd_comm; assumption].
    rewrite Z.mul_comm. rewrite <- Hk. assumption. }
  destruct Hqk as [j Hj].
  replace R with (X + j * (p * q)) by nia.
  apply Z.mod_add. nia.
Qed.

Lemma exp_crt_eq : forall p q x e, 1 < p -> 1 < q -> Z.gcd p q = 1 -> 0 <= e ->
  exp_crt p q x e = powmod (p * q) x e.
Proof.
  intros p q x e Hp Hq Hg He. unfold exp_crt. cbv zeta.
  assert (Hn : 0 < p * q) by nia.
  rewrite !powmod_spec by lia.
  set (X := x ^ e). set (pinv := modinv q p).
  assert (Hpinv : (pinv * p) mod q = 1) by (apply modinv_spec; assumption).
  rewrite Z.mul_mod_idemp_l by lia. rewrite <- Z.mul_assoc. rewrite Z.mul_mod_idemp_l by lia.
  rewrite Z.add_mod_idemp_l by lia.
  pose proof (Z.mod_eq X p ltac:(lia)) as Hxp. pose proof (Z.mod_eq X q ltac:(lia)) as Hxq.
  pose proof (Z.div_mod (pinv * p) q ltac:(lia)) as Hdm. rewrite Hpinv in Hdm.
  set (Xp := X mod p) in *. set (Xq := X mod q) in *.
  set (t := pinv * p / q) in *. set (dp := X / p) in *. set (dq := X / q) in *.
  apply crt_unique; try lia.
  - exists ((Xq - Xp) * pinv - dp). lia.
  - exists ((Xq - Xp) * t - dq). rewrite Hdm. lia.
Qed.

Lemma expI_crt_eq : forall p q x e, 1 < p -> 1 < q -> Z.gcd p q = 1 ->
  expI_crt p q x e = expI (p * q) x e.
Proof.
  intros p q x e Hp Hq Hg. unfold expI_crt, expI.
  rewrite exp_crt_eq by (try assumption; lia). reflexivity.
Qed.

(* ------------------------------------------------------------------ *)
(* D. symmetric reduction                                               *)
(* ------------------------------------------------------------------ *)

Lemma symmod_mod : forall n x, 0 < n -> symmod n (x mod n) = symmod n x.
Proof. intros n x Hn. unfold symmod. rewrite Z.mod_mod by lia. reflexivity. Qed.

(* closed form for odd modulus n = 2h+1 *)
Lemma symmod_closed : forall h x, 0 <= h -> symmod (2 * h + 1) x = (x + h) mod (2 * h + 1) - h.
Proof.
  intros h x Hh. unfold symmod. set (n := 2 * h + 1).
  assert (Hn : 0 < n) by (unfold n; lia).
  pose proof (Z.mod_pos_bound x n Hn) as Ha.
  rewrite <- (Z.add_mod_idemp_l x h n) by lia.
  set (a := x mod n) in *.
  destruct (Z.eq_dec a 0) as [Ha0|Ha0].
  - rewrite Ha0. cbn [Z.opp]. rewrite Z.mod_0_l by lia. cbn [Z.leb Z.compare Z.opp Z.add].
    rewrite Z.mod_small by (unfold n; lia). lia.
  - assert (Hneg : (- a) mod n = n - a).
    { symmetry. apply (Z.mod_unique (- a) n (-1)); [left; lia | lia]. }
    rewrite Hneg. destruct (Z.leb_spec (n - a) a) as [Hle|Hgt].
    + assert (Hm : (a + h) mod n = a + h - n).
      { symmetry. apply (Z.mod_unique (a + h) n 1); [left; unfold n in *; lia | lia]. }
      rewrite Hm. unfold n in *. lia.
    + rewrite Z.mod_small by (unfold n in *; lia). lia.
Qed.

Lemma symmod_range : forall h x, 0 <= h -> - h <= symmod (2 * h + 1) x <= h.
Proof.
  intros h x Hh. rewrite symmod_closed by assumption.
  pose proof (Z.mod_pos_bound (x + h) (2 * h + 1) ltac:(lia)). lia.
Qed.

Lemma symmod_cong : forall h x, 0 <= h -> symmod (2 * h + 1) x mod (2 * h + 1) = x mod (2 * h + 1).
Proof.
  intros h x Hh. rewrite symmod_closed by assumption.
  rewrite Zminus_mod_idemp_l. f_equal. lia.
Qed.

Lemma symmod_small : forall h m, 0 <= h -> Z.abs m <= h -> symmod (2 * h + 1) m = m.
Proof.
  intros h m Hh Hm. rewrite symmod_closed by assumption.
  rewrite Z.mod_small by lia. lia.
Qed.

(* ------------------------------------------------------------------ *)
(* E. lifting congruences from n to n^2                                 *)
(* ------------------------------------------------------------------ *)

(* (b + t n)^(j+1) = b^(j+1) + (j+1) t n b^j  (mod n^2) *)
Lemma pow_lift : forall n b t j, 0 <= j ->
  exists w, (b + t * n) ^ (j + 1) = b ^ (j + 1) + (j + 1) * t * n * b ^ j + w * (n * n).
Proof.
  intros n b t j Hj. pattern j. apply natlike_ind; [| | assumption].
  - exists 0. cbn [Z.add]. rewrite !Z.pow_1_r, Z.pow_0_r. ring.
  - intros k Hk [w Hw].
    replace (Z.succ k + 1) with (Z.succ (k + 1)) by lia.
    rewrite (Z.pow_succ_r (b + t * n)) by lia. rewrite Hw.
    rewrite (Z.pow_succ_r b (k + 1)) by lia.
    replace (k + 1) with (Z.succ k) by lia.
    rewrite (Z.pow_succ_r b k) by lia.
    exists (w * b + Z.succ k * t * t * b ^ k + t * w * n). ring.
Qed.

Lemma binomial_1n : forall n k, 0 <= k -> exists w, (1 + n) ^ k = 1 + k * n + w * (n * n).
Proof.
  intros n k Hk. destruct (Z.eq_dec k 0) as [->|Hk0].
  - exists 0. rewrite Z.pow_0_r. ring.
  - destruct (pow_lift n 1 1 (k - 1) ltac:(lia)) as [w Hw].
    replace (k - 1 + 1) with k in Hw by lia. rewrite !Z.pow_1_l in Hw by lia.
    exists w. replace (1 + n) with (1 + 1 * n) by ring. rewrite Hw. ring.
Qed.

(* a = b (mod n)  ->  a^n = b^n (mod n^2) *)
Lemma pow_n_lift : forall n a b, 0 < n -> a mod n = b mod n -> a ^ n mod (n * n) = b ^ n mod (n * n).
Proof.
  intros n a b Hn Hab.
  assert (Hd : (n | a - b)).
  { apply Z.mod_divide; [lia|]. rewrite Zminus_mod, Hab, Z.sub_diag. apply Z.mod_0_l. lia. }
  destruct Hd as [t Ht].
  destruct (pow_lift n b t (n - 1) ltac:(lia)) as [w Hw].
  replace (n - 1 + 1) with n in Hw by lia.
  replace a with (b + t * n) by lia. rewrite Hw.
  replace (b ^ n + n * t * n * b ^ (n - 1) + w * (n * n)) with (b ^ n + (t * b ^ (n - 1) + w) * (n * n)) by ring.
  apply Z.mod_add. nia.
Qed.

(* the function L(u) = (u-1)/n on residues mod n^2 that are 1 mod n *)
Definition Lfun (n u : Z) : Z := (u - 1) / n.

Lemma L_decomp : forall n u, 0 < n -> 0 <= u < n * n -> u mod n = 1 ->
  u = 1 + n * Lfun n u /\ 0 <= Lfun n u < n.
Proof.
  intros n u Hn Hu H1. unfold Lfun.
  pose proof (Z.div_mod u n ltac:(lia)) as Hdm. rewrite H1 in Hdm.
  replace (u - 1) with (u / n * n) by lia. rewrite Z.div_mul by lia.
  split; [lia|]. split.
  - apply Z.div_pos; lia.
  - apply Z.div_lt_upper_bound; lia.
Qed.

Lemma mod_sq_mod : forall n a, 0 < n -> (a mod (n * n)) mod n = a mod n.
Proof.
  intros n a Hn. symmetry. apply Zmod_div_mod; [lia | nia | exists n; reflexivity].
Qed.

Lemma L_mul : forall n u1 u2, 1 < n ->
  0 <= u1 < n * n -> u1 mod n = 1 -> 0 <= u2 < n * n -> u2 mod n = 1 ->
  ((u1 * u2) mod (n * n)) mod n = 1 /\
  Lfun n ((u1 * u2) mod (n * n)) = (Lfun n u1 + Lfun n u2) mod n.
Proof.
  intros n u1 u2 Hn Hu1 H1 Hu2 H2.
  assert (Hv1 : ((u1 * u2) mod (n * n)) mod n = 1).
  { rewrite mod_sq_mod by lia. rewrite Z.mul_mod by lia. rewrite H1, H2. apply Z.mod_small. lia. }
  split; [exact Hv1|].
  assert (Hnn : 0 < n * n) by nia.
  pose proof (Z.mod_pos_bound (u1 * u2) (n * n) Hnn) as Hvb.
  destruct (L_decomp n _ ltac:(lia) Hvb Hv1) as [Ev Lv].
  destruct (L_decomp n u1 ltac:(lia) Hu1 H1) as [E1 L1].
  destruct (L_decomp n u2 ltac:(lia) Hu2 H2) as [E2 L2].
  pose proof (Z.div_mod (u1 * u2) (n * n) ltac:(lia)) as Hdm.
  set (v := (u1 * u2) mod (n * n)) in *. set (k := u1 * u2 / (n * n)) in *.
  set (lv := Lfun n v) in *. set (l1 := Lfun n u1) in *. set (l2 := Lfun n u2) in *.
  assert (Hkey : n * (l1 + l2) = n * (n * (k - l1 * l2) + lv)).
  { rewrite E1, E2 in Hdm. rewrite Ev in Hdm. 
    replace ((1 + n * l1) * (1 + n * l2)) with (1 + n * (l1 + l2) + n * n * (l1 * l2)) in Hdm by ring.
    lia. }
  apply Z.mul_reg_l in Hkey; [|lia].
  apply (Z.mod_unique _ _ (k - l1 * l2)); [left; lia | exact Hkey].
Qed.

Lemma opp_mod_idemp : forall a n, (- (a mod n)) mod n = (- a) mod n.
Proof.
  intros a n. replace (- (a mod n)) with (0 - a mod n) by lia.
  rewrite Zminus_mod_idemp_r. f_equal.
Qed.

Lemma unit_sq : forall a n, Z.gcd a n = 1 -> Z.gcd a (n * n) = 1.
Proof.
  intros a n H. apply Zgcd_1_rel_prime. apply rel_prime_mult; apply Zgcd_1_rel_prime; assumption.
Qed.

Lemma unit_sq_inv : forall a n, Z.gcd a (n * n) = 1 -> Z.gcd a n = 1.
Proof.
  intros a n H.
  assert (Hd : (Z.gcd a n | Z.gcd a (n * n))).
  { apply Z.gcd_greatest; [apply Z.gcd_divide_l|].
    apply Z.divide_mul_r. apply Z.gcd_divide_r. }
  rewrite H in Hd. apply Z.divide_1_r_nonneg in Hd; [assumption | apply Z.gcd_nonneg].
Qed.

(* ValidateCiphertexts: exactly the units of Z_{n^2} in [1, n^2-1]  (any modulus n > 1) *)
Lemma validate_ct_iff : forall n c, 1 < n ->
  (validate_ct n c = true <-> 0 < c < n * n /\ Z.gcd c (n * n) = 1).
Proof.
  intros n c Hn. assert (Hnn : 1 < n * n) by nia.
  unfold validate_ct. rewrite gcd_mod_spec by lia.
  rewrite !andb_true_iff, Z.leb_le, Z.ltb_lt, Z.eqb_eq. split.
  - intros [[H0 H1] Hg]. split; [|assumption]. split; [|assumption].
    destruct (Z.eq_dec c 0) as [->|]; [|lia]. rewrite Z.gcd_0_l in Hg. lia.
  - intros [[H0 H1] Hg]. repeat split; try assumption. lia.
Qed.

Lemma validate_ct_false_iff : forall n c, 1 < n ->
  (validate_ct n c = false <-> ~ (0 < c < n * n /\ Z.gcd c (n * n) = 1)).
Proof.
  intros n c Hn. rewrite <- validate_ct_iff by assumption.
  destruct (validate_ct n c).
  - split; [discriminate | intro H; exfalso; apply H; reflexivity].
  - split; [intros _ H; discriminate | reflexivity].
Qed.

(* ------------------------------------------------------------------ *)
(* F. Paillier with N = p*q                                             *)
(* ------------------------------------------------------------------ *)

(* the "discrete log" D(c) = L(c^phi mod N^2) * phi^-1 mod N computed by Dec before symmetric reduction *)
Definition Dfun (p q c : Z) : Z :=
  (Lfun (p * q) (c ^ phi_of p q mod (p * q * (p * q))) * modinv (p * q) (phi_of p q)) mod (p * q).

Section Paillier.
Variables p q : Z.
Hypothesis Pp : prime p.
Hypothesis Pq : prime q.
Hypothesis Hneq : p <> q.
Hypothesis Hgcd : Z.gcd (p * q) ((p - 1) * (q - 1)) = 1.

Local Notation N := (p * q).
Local Notation N2 := (p * q * (p * q)).
Local Notation phi := (phi_of p q).

Lemma p_ge2 : 2 <= p. Proof. apply prime_ge_2; assumption. Qed.
Lemma q_ge2 : 2 <= q. Proof. apply prime_ge_2; assumption. Qed.
Lemma N_gt1 : 1 < N. Proof. pose proof p_ge2; pose proof q_ge2; nia. Qed.
Lemma N2_gt1 : 1 < N2. Proof. pose proof N_gt1; nia. Qed.

Lemma gcd_pq : Z.gcd p q = 1.
Proof.
  apply Zgcd_1_rel_prime. apply prime_rel_prime; [assumption|].
  intro Hd. apply Hneq. apply prime_div_prime; assumption.
Qed.

Lemma gcd_p2q2 : Z.gcd (p * p) (q * q) = 1.
Proof.
  pose proof gcd_pq as H.
  apply unit_mul; apply unit_sq; assumption.
Qed.

Lemma p2q2 : p * p * (q * q) = N2. Proof. ring. Qed.

Lemma even_prime_2 : forall r, prime r -> (2 | r) -> r = 2.
Proof. intros r Hr Hd. symmetry. apply prime_div_prime; [apply prime_2 | assumption | assumption]. Qed.

Lemma phi_even : (2 | phi).
Proof.
  unfold phi_of.
  destruct (Z.eq_dec (p mod 2) 0) as [Hp0|Hp1].
  - assert (Hp : p = 2) by (apply even_prime_2; [assumption | apply Z.mod_divide; lia]).
    destruct (Z.eq_dec (q mod 2) 0) as [Hq0|Hq1].
    + assert (Hq : q = 2) by (apply even_prime_2; [assumption | apply Z.mod_divide; lia]). lia.
    + apply Z.divide_mul_r. apply Z.mod_divide; [lia|].
      pose proof (Z.mod_pos_bound q 2 ltac:(lia)).
      rewrite Zminus_mod. replace (q mod 2) with 1 by lia. reflexivity.
  - apply Z.divide_mul_l. apply Z.mod_divide; [lia|].
    pose proof (Z.mod_pos_bound p 2 ltac:(lia)).
    rewrite Zminus_mod. replace (p mod 2) with 1 by lia. reflexivity.
Qed.

Lemma N_odd : exists h, 0 < h /\ N = 2 * h + 1.
Proof.
  pose proof N_gt1 as HN.
  assert (Hn2 : ~ (2 | N)).
  { intro Hd. pose proof phi_even as He. unfold phi_of in He.
    pose proof (Z.gcd_greatest _ _ _ Hd He) as H1. rewrite Hgcd in H1.
    apply Z.divide_1_r_nonneg in H1; lia. }
  pose proof (Z.div_mod N 2 ltac:(lia)) as Hdm.
  pose proof (Z.mod_pos_bound N 2 ltac:(lia)) as Hb.
  assert (Hm : N mod 2 = 1).
  { destruct (Z.eq_dec (N mod 2) 0) as [H0|H0]; [|lia].
    exfalso. apply Hn2. apply Z.mod_divide; lia. }
  exists (N / 2). lia.
Qed.

Lemma phi_unit : Z.gcd phi N = 1.
Proof. unfold phi_of. rewrite Z.gcd_comm. exact Hgcd. Qed.

Lemma phi_gt1 : 1 < phi.
Proof.
  destruct N_odd as [h [Hh HN]]. unfold phi_of.
  pose proof p_ge2. pose proof q_ge2.
  assert (p <> 2) by (intro; subst p; lia).
  assert (q <> 2) by (intro; subst q; lia). nia.
Qed.

Lemma phiinv_spec : (modinv N phi * phi) mod N = 1.
Proof. apply modinv_spec; [apply N_gt1 | apply phi_unit]. Qed.

(* Euler for N and N^2, any integer base *)
Lemma euler_N : forall a, Z.gcd a N = 1 -> a ^ phi mod N = 1.
Proof.
  intros a Ha. pose proof N_gt1 as HN. rewrite Zpower_mod by lia. unfold phi_of.
  apply EulerBridge.euler_pq; try assumption.
  - apply Z.mod_pos_bound; lia.
  - rewrite gcd_mod_l by lia. assumption.
Qed.

Lemma euler_N2 : forall a, Z.gcd a N = 1 -> a ^ (N * phi) mod N2 = 1.
Proof.
  intros a Ha. pose proof N2_gt1 as HN. rewrite Zpower_mod by lia. unfold phi_of.
  apply EulerBridge.euler_pq2; try assumption.
  - apply Z.mod_pos_bound; lia.
  - rewrite gcd_mod_l by lia. apply unit_sq. assumption.
Qed.

Lemma unit_modN2 : forall a, Z.gcd a N = 1 -> Z.gcd (a mod N2) N = 1.
Proof.
  intros a Ha. pose proof N_gt1 as HN. rewrite <- gcd_mod_l by lia.
  rewrite mod_sq_mod by lia. rewrite gcd_mod_l by lia. assumption.
Qed.

(* u = c^phi mod N^2 is 1 mod N *)
Lemma U_of_unit : forall c, Z.gcd c N = 1 ->
  0 <= c ^ phi mod N2 < N2 /\ (c ^ phi mod N2) mod N = 1.
Proof.
  intros c Hc. pose proof N_gt1 as HN. pose proof N2_gt1 as HN2. split.
  - apply Z.mod_pos_bound. lia.
  - rewrite mod_sq_mod by lia. apply euler_N. assumption.
Qed.

Lemma Dfun_range : forall c, 0 <= Dfun p q c < N.
Proof. intros c. unfold Dfun. apply Z.mod_pos_bound. pose proof N_gt1. lia. Qed.

Lemma Dfun_mod : forall c, Dfun p q (c mod N2) = Dfun p q c.
Proof.
  intros c. unfold Dfun. pose proof N2_gt1. rewrite <- (Zpower_mod c) by lia. reflexivity.
Qed.

Lemma phi_nonneg : 0 <= phi. Proof. pose proof phi_gt1. lia. Qed.

Lemma Dfun_mul : forall c1 c2, Z.gcd c1 N = 1 -> Z.gcd c2 N = 1 ->
  Dfun p q (c1 * c2) = (Dfun p q c1 + Dfun p q c2) mod N.
Proof.
  intros c1 c2 H1 H2. pose proof N_gt1 as HN. pose proof N2_gt1 as HN2.
  destruct (U_of_unit c1 H1) as [B1 M1]. destruct (U_of_unit c2 H2) as [B2 M2].
  destruct (L_mul N _ _ HN B1 M1 B2 M2) as [_ HL].
  unfold Dfun. rewrite Z.pow_mul_l. rewrite (Z.mul_mod (c1 ^ phi) (c2 ^ phi) N2) by lia. rewrite HL.
  rewrite Z.mul_mod_idemp_l by lia. rewrite Z.mul_add_distr_r.
  rewrite <- Z.add_mod by lia. reflexivity.
Qed.

Lemma Dfun_1 : Dfun p q 1 = 0.
Proof.
  unfold Dfun. pose proof N_gt1. pose proof N2_gt1. pose proof phi_nonneg.
  rewrite Z.pow_1_l by assumption. rewrite (Z.mod_small 1 N2) by lia.
  unfold Lfun. cbn [Z.sub Z.opp Z.add Z.pos_sub]. rewrite Z.div_0_l by lia.
  rewrite Z.mul_0_l. apply Z.mod_0_l. lia.
Qed.

Lemma Dfun_inv : forall c, Z.gcd c N = 1 -> Dfun p q (modinv N2 c) = (- Dfun p q c) mod N.
Proof.
  intros c Hc. pose proof N_gt1 as HN. pose proof N2_gt1 as HN2.
  assert (Hc2 : Z.gcd c N2 = 1) by (apply unit_sq; assumption).
  assert (Hi : Z.gcd (modinv N2 c) N = 1) by (apply unit_sq_inv; apply modinv_unit; assumption).
  pose proof (Dfun_mul _ _ Hi Hc) as Hm.
  rewrite <- Dfun_mod in Hm. rewrite modinv_spec in Hm by assumption. rewrite Dfun_1 in Hm.
  pose proof (Dfun_range (modinv N2 c)) as R1. pose proof (Dfun_range c) as R2.
  set (d1 := Dfun p q (modinv N2 c)) in *. set (d2 := Dfun p q c) in *.
  assert (Hdv : (N | d1 + d2)) by (apply Z.mod_divide; [lia | symmetry; exact Hm]).
  destruct Hdv as [k Hk].
  clearbody d1 d2. apply (Z.mod_unique _ _ (- k)); [left; lia | lia].
Qed.

Lemma Dfun_pow : forall c k, Z.gcd c N = 1 -> 0 <= k -> Dfun p q (c ^ k) = (k * Dfun p q c) mod N.
Proof.
  intros c k Hc Hk. pose proof N_gt1 as HN. pattern k. apply natlike_ind; [| | assumption].
  - rewrite Z.pow_0_r. rewrite Dfun_1. rewrite Z.mul_0_l. symmetry. apply Z.mod_0_l. lia.
  - intros j Hj IH. rewrite Z.pow_succ_r by assumption.
    rewrite Dfun_mul; [| assumption | apply unit_pow; assumption].
    rewrite IH. rewrite Z.add_mod_idemp_r by lia. f_equal. lia.
Qed.

Lemma Dfun_expI : forall c k, Z.gcd c N = 1 -> Dfun p q (expI N2 c k) = (k * Dfun p q c) mod N.
Proof.
  intros c k Hc. pose proof N_gt1 as HN. pose proof N2_gt1 as HN2.
  destruct (Z.lt_ge_cases k 0) as [Hk|Hk].
  - rewrite expI_neg_def by assumption. rewrite powmod_spec by lia.
    rewrite Dfun_inv by (apply unit_modN2; apply unit_pow; [lia | assumption]).
    rewrite Dfun_mod. rewrite Dfun_pow by (try assumption; lia).
    rewrite opp_mod_idemp. f_equal. lia.
  - rewrite expI_nonneg by lia. rewrite Dfun_mod. apply Dfun_pow; assumption.
Qed.

Lemma Lfun_1 : forall n, n <> 0 -> Lfun n 1 = 0.
Proof. intros n Hn. unfold Lfun. rewrite Z.sub_diag. apply Z.div_0_l. assumption. Qed.

Lemma phi_lt_N : phi < N.
Proof. unfold phi_of. pose proof p_ge2. pose proof q_ge2. nia. Qed.

Lemma Dfun_g : Dfun p q (N + 1) = 1.
Proof.
  pose proof N_gt1 as HN. pose proof N2_gt1 as HN2. pose proof phi_nonneg as Hphi. pose proof phi_lt_N as Hlt.
  unfold Dfun. destruct (binomial_1n N phi Hphi) as [w Hw].
  replace (N + 1) with (1 + N) by ring. rewrite Hw.
  rewrite Z.mod_add by lia. rewrite (Z.mod_small (1 + phi * N) N2) by nia.
  unfold Lfun. replace (1 + phi * N - 1) with (phi * N) by ring. rewrite Z.div_mul by lia.
  rewrite Z.mul_comm. apply phiinv_spec.
Qed.

Lemma Dfun_rhoN : forall rho, Z.gcd rho N = 1 -> Dfun p q (powmod N2 rho N) = 0.
Proof.
  intros rho Hr. pose proof N_gt1 as HN. pose proof N2_gt1 as HN2. pose proof phi_nonneg as Hphi.
  rewrite powmod_spec by lia. rewrite Dfun_mod. unfold Dfun.
  rewrite <- Z.pow_mul_r by lia. rewrite euler_N2 by assumption.
  rewrite Lfun_1 by lia. rewrite Z.mul_0_l. apply Z.mod_0_l. lia.
Qed.

Lemma g_unit : Z.gcd (N + 1) N = 1.
Proof.
  pose proof N_gt1 as HN. rewrite <- gcd_mod_l by lia.
  replace (N + 1) with (1 + 1 * N) by ring. rewrite Z.mod_add by lia.
  rewrite Z.mod_small by lia. apply Z.gcd_1_l.
Qed.

Lemma g_mod_N : (N + 1) mod N = 1.
Proof.
  pose proof N_gt1 as HN. replace (N + 1) with (1 + 1 * N) by ring.
  rewrite Z.mod_add by lia. apply Z.mod_small. lia.
Qed.

Lemma expI_unit : forall n x k, 1 < n -> Z.gcd x n = 1 -> Z.gcd (expI n x k) n = 1.
Proof.
  intros n x k Hn Hx. destruct (Z.lt_ge_cases k 0) as [Hk|Hk].
  - rewrite expI_neg_def by assumption. apply modinv_unit; [assumption|].
    rewrite powmod_spec by lia. rewrite gcd_mod_l by lia. apply unit_pow; [lia | assumption].
  - rewrite expI_nonneg by lia. rewrite gcd_mod_l by lia. apply unit_pow; assumption.
Qed.

Lemma expI_inv_pair : forall n x k, 1 < n -> Z.gcd x n = 1 -> (expI n x k * expI n x (- k)) mod n = 1.
Proof.
  intros n x k Hn Hx.
  assert (Hpos : forall j, 0 < j -> (expI n x j * expI n x (- j)) mod n = 1).
  { intros j Hj. rewrite (expI_neg_def n x (- j)) by lia. rewrite Z.opp_involutive.
    rewrite expI_nonneg by lia. rewrite powmod_spec by lia. rewrite Z.mul_comm.
    apply modinv_spec; [assumption|]. rewrite gcd_mod_l by lia. apply unit_pow; [lia | assumption]. }
  destruct (Z.lt_trichotomy k 0) as [Hk|[Hk|Hk]].
  - rewrite Z.mul_comm. replace k with (- (- k)) at 2 by lia. apply Hpos. lia.
  - subst k. cbn [Z.opp]. rewrite expI_nonneg by lia. rewrite Z.pow_0_r.
    rewrite (Z.mod_small 1 n) by lia. apply Z.mod_small. lia.
  - apply Hpos. assumption.
Qed.

(* the value computed by EncWithNonce *)
Definition encv (p q m rho : Z) : Z :=
  (expI (p * q * (p * q)) (p * q + 1) m * powmod (p * q * (p * q)) rho (p * q)) mod (p * q * (p * q)).

Lemma enc_val : forall m rho, Z.abs m <= N / 2 -> enc N m rho = Some (encv p q m rho).
Proof.
  intros m rho Hm. unfold enc, encv. cbv zeta.
  destruct (Z.gtb_spec (Z.abs m) (N / 2)); [lia | reflexivity].
Qed.

Lemma enc_none : forall m rho, Z.abs m > N / 2 -> enc N m rho = None.
Proof.
  intros m rho Hm. unfold enc. cbv zeta.
  destruct (Z.gtb_spec (Z.abs m) (N / 2)); [reflexivity | lia].
Qed.

Lemma half_N : N / 2 = (N - 1) / 2.
Proof.
  destruct N_odd as [h [Hh HN]]. rewrite HN.
  replace (2 * h + 1 - 1) with (h * 2) by lia. rewrite Z.div_mul by lia.
  symmetry. apply (Z.div_unique (2 * h + 1) 2 h 1); lia.
Qed.

Lemma encv_range : forall m rho, 0 <= encv p q m rho < N2.
Proof. intros. unfold encv. apply Z.mod_pos_bound. pose proof N2_gt1. lia. Qed.

Lemma encv_unit : forall m rho, Z.gcd rho N = 1 -> Z.gcd (encv p q m rho) N = 1.
Proof.
  intros m rho Hr. pose proof N_gt1 as HN. pose proof N2_gt1 as HN2.
  unfold encv. apply unit_modN2. apply unit_mul.
  - apply unit_sq_inv. apply expI_unit; [assumption|]. apply unit_sq. apply g_unit.
  - rewrite powmod_spec by lia. apply unit_modN2. apply unit_pow; [lia | assumption].
Qed.

Lemma encv_D : forall m rho, Z.gcd rho N = 1 -> Dfun p q (encv p q m rho) = m mod N.
Proof.
  intros m rho Hr. pose proof N_gt1 as HN. pose proof N2_gt1 as HN2.
  unfold encv. rewrite Dfun_mod. rewrite Dfun_mul.
  - rewrite Dfun_expI by apply g_unit. rewrite Dfun_g. rewrite Dfun_rhoN by assumption.
    rewrite Z.add_0_r. rewrite Z.mod_mod by lia. f_equal. lia.
  - apply unit_sq_inv. apply expI_unit; [assumption|]. apply unit_sq. apply g_unit.
  - rewrite powmod_spec by lia. apply unit_modN2. apply unit_pow; [lia | assumption].
Qed.


(* ---- decryption ---- *)

Lemma p2_gt1 : 1 < p * p. Proof. pose proof p_ge2. nia. Qed.
Lemma q2_gt1 : 1 < q * q. Proof. pose proof q_ge2. nia. Qed.

Lemma exp_crt_N2 : forall x e, 0 <= e -> exp_crt (p * p) (q * q) x e = x ^ e mod N2.
Proof.
  intros x e He. rewrite exp_crt_eq by (try assumption; try apply p2_gt1; try apply q2_gt1; apply gcd_p2q2).
  rewrite p2q2. apply powmod_spec; [pose proof N2_gt1; lia | assumption].
Qed.

Lemma expI_crt_N2 : forall x e, expI_crt (p * p) (q * q) x e = expI N2 x e.
Proof.
  intros x e. rewrite expI_crt_eq by (try apply p2_gt1; try apply q2_gt1; apply gcd_p2q2).
  rewrite p2q2. reflexivity.
Qed.

Lemma exp_crt_N : forall x e, 0 <= e -> exp_crt p q x e = x ^ e mod N.
Proof.
  intros x e He. pose proof p_ge2. pose proof q_ge2.
  rewrite exp_crt_eq by (try assumption; try lia; apply gcd_pq).
  apply powmod_spec; [pose proof N_gt1; lia | assumption].
Qed.

Lemma dec_val : forall c, validate_ct N c = true -> dec p q c = Some (symmod N (Dfun p q c)).
Proof.
  intros c Hv. unfold dec. cbv zeta. rewrite Hv.
  rewrite exp_crt_N2 by apply phi_nonneg. unfold Dfun, Lfun. reflexivity.
Qed.

Lemma dec_none : forall c, validate_ct N c = false -> dec p q c = None.
Proof. intros c Hv. unfold dec. cbv zeta. rewrite Hv. reflexivity. Qed.

Lemma dec_none_iff : forall c, dec p q c = None <-> validate_ct N c = false.
Proof.
  intros c. split.
  - intro H. destruct (validate_ct N c) eqn:E; [|reflexivity].
    rewrite (dec_val c E) in H. discriminate.
  - apply dec_none.
Qed.

Lemma dec_Some_inv : forall c m, dec p q c = Some m ->
  validate_ct N c = true /\ m = symmod N (Dfun p q c).
Proof.
  intros c m H. destruct (validate_ct N c) eqn:Hv.
  - rewrite dec_val in H by assumption. inversion H. split; reflexivity.
  - rewrite dec_none in H by assumption. discriminate.
Qed.

Lemma valid_unit : forall c, validate_ct N c = true -> 0 < c < N2 /\ Z.gcd c N = 1.
Proof.
  intros c Hv. apply validate_ct_iff in Hv; [|apply N_gt1]. destruct Hv as [Hr Hg].
  split; [assumption|]. apply unit_sq_inv. assumption.
Qed.

Lemma valid_of_unit : forall c, 0 <= c < N2 -> Z.gcd c N = 1 -> validate_ct N c = true.
Proof.
  intros c Hr Hg. apply validate_ct_iff; [apply N_gt1|]. pose proof N_gt1 as HN.
  split; [|apply unit_sq; assumption]. split; [|lia].
  destruct (Z.eq_dec c 0) as [->|]; [|lia]. rewrite Z.gcd_0_l in Hg. lia.
Qed.

Lemma symmod_congr : forall x y, x mod N = y mod N -> symmod N x = symmod N y.
Proof.
  intros x y H. pose proof N_gt1. rewrite <- (symmod_mod N x), <- (symmod_mod N y) by lia.
  rewrite H. reflexivity.
Qed.

Lemma symmod_N_small : forall m, Z.abs m <= (N - 1) / 2 -> symmod N m = m.
Proof.
  intros m Hm. rewrite <- half_N in Hm. destruct N_odd as [h [Hh HN]].
  rewrite HN in *. replace ((2 * h + 1) / 2) with h in Hm.
  - apply symmod_small; lia.
  - apply (Z.div_unique (2 * h + 1) 2 h 1); lia.
Qed.

Lemma symmod_N_range : forall x, Z.abs (symmod N x) <= (N - 1) / 2.
Proof.
  intros x. rewrite <- half_N. destruct N_odd as [h [Hh HN]]. rewrite HN.
  replace ((2 * h + 1) / 2) with h by (apply (Z.div_unique (2 * h + 1) 2 h 1); lia).
  pose proof (symmod_range h x ltac:(lia)). lia.
Qed.

Lemma symmod_N_cong : forall x, symmod N x mod N = x mod N.
Proof. intros x. destruct N_odd as [h [Hh HN]]. rewrite HN. apply symmod_cong. lia. Qed.

(* Dec o Enc = id on the whole plaintext range, both endpoints included *)
Lemma dec_encv : forall m rho, Z.gcd rho N = 1 -> Z.abs m <= (N - 1) / 2 ->
  dec p q (encv p q m rho) = Some m.
Proof.
  intros m rho Hr Hm.
  rewrite dec_val by (apply valid_of_unit; [apply encv_range | apply encv_unit; assumption]).
  rewrite encv_D by assumption. pose proof N_gt1.
  rewrite symmod_mod by lia. rewrite symmod_N_small by assumption. reflexivity.
Qed.

Lemma dec_enc : forall m rho, Z.gcd rho N = 1 -> Z.abs m <= (N - 1) / 2 ->
  exists c, enc N m rho = Some c /\ dec p q c = Some m.
Proof.
  intros m rho Hr Hm. exists (encv p q m rho). split.
  - apply enc_val. rewrite half_N. assumption.
  - apply dec_encv; assumption.
Qed.

Lemma enc_refuses : forall m rho,
  (Z.abs m > (N - 1) / 2 -> enc N m rho = None) /\
  (Z.abs m <= (N - 1) / 2 -> enc N m rho = Some (encv p q m rho)).
Proof.
  intros m rho. rewrite <- half_N. split; [apply enc_none | apply enc_val].
Qed.

(* the secret key's embedded public key (CRT route) computes the same ciphertext *)
Lemma enc_sk_eq : forall m rho, enc_sk p q m rho = enc N m rho.
Proof.
  intros m rho. unfold enc_sk, enc. cbv zeta.
  rewrite expI_crt_N2. rewrite exp_crt_N2 by (pose proof N_gt1; lia).
  rewrite powmod_spec by (pose proof N2_gt1; pose proof N_gt1; lia). reflexivity.
Qed.

Lemma mul_sk_eq : forall k c, mul_sk p q k c = mul N k c.
Proof. intros k c. unfold mul_sk, mul. apply expI_crt_N2. Qed.

(* ---- homomorphic operations ---- *)

Lemma add_hom : forall c1 c2 m1 m2, dec p q c1 = Some m1 -> dec p q c2 = Some m2 ->
  dec p q (add N c1 c2) = Some (symmod N (m1 + m2)).
Proof.
  intros c1 c2 m1 m2 H1 H2. pose proof N_gt1 as HN. pose proof N2_gt1 as HN2.
  apply dec_Some_inv in H1. destruct H1 as [V1 E1]. apply dec_Some_inv in H2. destruct H2 as [V2 E2].
  destruct (valid_unit c1 V1) as [R1 U1]. destruct (valid_unit c2 V2) as [R2 U2].
  unfold add. rewrite dec_val.
  - rewrite Dfun_mod. rewrite Dfun_mul by assumption. f_equal.
    rewrite symmod_mod by lia. apply symmod_congr.
    rewrite (Z.add_mod m1 m2) by lia. rewrite E1, E2. rewrite !symmod_N_cong.
    rewrite <- Z.add_mod by lia. reflexivity.
  - apply valid_of_unit; [apply Z.mod_pos_bound; lia|]. apply unit_modN2. apply unit_mul; assumption.
Qed.

Lemma mul_hom : forall k c m, dec p q c = Some m ->
  dec p q (mul N k c) = Some (symmod N (k * m)).
Proof.
  intros k c m H. pose proof N_gt1 as HN. pose proof N2_gt1 as HN2.
  apply dec_Some_inv in H. destruct H as [V E]. destruct (valid_unit c V) as [R U].
  unfold mul. rewrite dec_val.
  - rewrite Dfun_expI by assumption. f_equal. rewrite symmod_mod by lia. apply symmod_congr.
    rewrite <- (Z.mul_mod_idemp_r k m) by lia. rewrite E. rewrite symmod_N_cong.
    rewrite Z.mul_mod_idemp_r by lia. reflexivity.
  - apply valid_of_unit; [apply expI_range; lia|]. apply unit_sq_inv. apply expI_unit; [lia|].
    apply unit_sq. assumption.
Qed.

Lemma add_hom_inrange : forall c1 c2 m1 m2, dec p q c1 = Some m1 -> dec p q c2 = Some m2 ->
  Z.abs (m1 + m2) <= (N - 1) / 2 -> dec p q (add N c1 c2) = Some (m1 + m2).
Proof.
  intros c1 c2 m1 m2 H1 H2 Hr. rewrite (add_hom _ _ _ _ H1 H2). rewrite symmod_N_small by assumption. reflexivity.
Qed.

Lemma mul_hom_inrange : forall k c m, dec p q c = Some m ->
  Z.abs (k * m) <= (N - 1) / 2 -> dec p q (mul N k c) = Some (k * m).
Proof.
  intros k c m H Hr. rewrite (mul_hom _ _ _ H). rewrite symmod_N_small by assumption. reflexivity.
Qed.

(* the wrap-around, in closed form *)
Lemma symmod_N_closed : forall x, symmod N x = (x + (N - 1) / 2) mod N - (N - 1) / 2.
Proof.
  intros x. destruct N_odd as [h [Hh HN]]. rewrite HN.
  replace ((2 * h + 1 - 1) / 2) with h by (replace (2 * h + 1 - 1) with (h * 2) by lia; rewrite Z.div_mul; lia).
  apply symmod_closed. lia.
Qed.

(* ---- DecWithRandomness ---- *)

Lemma expI_g_N : forall k, expI N (N + 1) k = 1.
Proof.
  intros k. pose proof N_gt1 as HN.
  assert (Hpow : forall j, 0 <= j -> (N + 1) ^ j mod N = 1).
  { intros j Hj. rewrite Zpower_mod by lia. rewrite g_mod_N. rewrite Z.pow_1_l by assumption.
    apply Z.mod_small. lia. }
  destruct (Z.lt_ge_cases k 0) as [Hk|Hk].
  - rewrite expI_neg_def by assumption. rewrite powmod_spec by lia. rewrite Hpow by lia.
    apply modinv_unique; try lia.
    + apply Z.gcd_1_l.
    + apply Z.mod_small. lia.
  - rewrite expI_nonneg by lia. apply Hpow. assumption.
Qed.

Lemma expI_g_modN : forall k, expI N2 (N + 1) k mod N = 1.
Proof.
  intros k. pose proof N_gt1 as HN. pose proof N2_gt1 as HN2.
  assert (Hpow : forall j, 0 <= j -> ((N + 1) ^ j mod N2) mod N = 1).
  { intros j Hj. rewrite mod_sq_mod by lia. rewrite Zpower_mod by lia. rewrite g_mod_N.
    rewrite Z.pow_1_l by assumption. apply Z.mod_small. lia. }
  destruct (Z.lt_ge_cases k 0) as [Hk|Hk].
  - rewrite expI_neg_def by assumption. rewrite powmod_spec by lia.
    set (g := (N + 1) ^ (- k) mod N2).
    assert (Hg : Z.gcd g N2 = 1).
    { unfold g. rewrite gcd_mod_l by lia. apply unit_pow; [lia|]. apply unit_sq. apply g_unit. }
    pose proof (modinv_spec N2 g HN2 Hg) as Hs.
    assert (Hs' : (modinv N2 g * g) mod N = 1).
    { rewrite <- mod_sq_mod by lia. rewrite Hs. apply Z.mod_small. lia. }
    rewrite Z.mul_mod in Hs' by lia. unfold g in Hs' at 2. rewrite Hpow in Hs' by lia.
    rewrite Z.mul_1_r in Hs'. rewrite Z.mod_mod in Hs' by lia. exact Hs'.
  - rewrite expI_nonneg by lia. apply Hpow. assumption.
Qed.

Lemma ninv_spec : 0 <= modinv phi N /\ (modinv phi N * N) mod phi = 1.
Proof.
  pose proof phi_gt1 as Hphi. split.
  - apply modinv_range. lia.
  - apply modinv_spec; [assumption|]. unfold phi_of. exact Hgcd.
Qed.

(* explicit value of DecWithRandomness on a valid ciphertext *)
Lemma dec_rand_val : forall c, validate_ct N c = true ->
  dec_with_randomness p q c = Some (symmod N (Dfun p q c), (c mod N) ^ (modinv phi N) mod N).
Proof.
  intros c Hv. pose proof N_gt1 as HN. pose proof p_ge2. pose proof q_ge2.
  unfold dec_with_randomness. rewrite dec_val by assumption. cbv zeta.
  rewrite expI_crt_eq by (try lia; apply gcd_pq). rewrite expI_g_N. rewrite Z.mul_1_l.
  rewrite exp_crt_N by apply ninv_spec. reflexivity.
Qed.

Lemma D0_pow : forall y, Z.gcd y N = 1 -> Dfun p q y = 0 -> y ^ phi mod N2 = 1.
Proof.
  intros y Hy HD. pose proof N_gt1 as HN.
  destruct (U_of_unit y Hy) as [B M].
  destruct (L_decomp N _ ltac:(lia) B M) as [E L].
  unfold Dfun in HD. set (l := Lfun N (y ^ phi mod N2)) in *.
  assert (Hl : l mod N = 0).
  { assert (H1 : ((l * modinv N phi) mod N * phi) mod N = 0) by (rewrite HD; apply Z.mod_0_l; lia).
    rewrite Z.mul_mod_idemp_l in H1 by lia. rewrite <- Z.mul_assoc in H1.
    rewrite <- Z.mul_mod_idemp_r in H1 by lia. rewrite phiinv_spec in H1.
    rewrite Z.mul_1_r in H1. exact H1. }
  rewrite Z.mod_small in Hl by lia. rewrite E, Hl. lia.
Qed.

Lemma pow_1_plus : forall y d k, 0 <= k -> y ^ phi mod N2 = 1 -> 0 <= y < N2 ->
  d = 1 + k * phi -> y ^ d mod N2 = y.
Proof.
  intros y d k Hk Hy Hr Hd. pose proof N2_gt1 as HN2. pose proof phi_nonneg as Hphi. subst d.
  rewrite Z.pow_add_r by nia. rewrite Z.pow_1_r.
  rewrite (Z.mul_comm k phi). rewrite Z.pow_mul_r by lia.
  rewrite <- Z.mul_mod_idemp_r by lia. rewrite (Zpower_mod (y ^ phi)) by lia.
  rewrite Hy. rewrite Z.pow_1_l by assumption. rewrite (Z.mod_small 1) by lia.
  rewrite Z.mul_1_r. apply Z.mod_small. assumption.
Qed.

(* the recovered randomness re-encrypts to the same ciphertext, for EVERY valid ciphertext *)
Lemma dec_rand_reencrypts : forall c, validate_ct N c = true ->
  exists m r, dec_with_randomness p q c = Some (m, r) /\ dec p q c = Some m /\
              0 <= r < N /\ Z.gcd r N = 1 /\ enc N m r = Some c.
Proof.
  intros c Hv. pose proof N_gt1 as HN. pose proof N2_gt1 as HN2.
  destruct (valid_unit c Hv) as [Rc Uc]. destruct ninv_spec as [Hd0 Hd].
  set (m := symmod N (Dfun p q c)). set (d := modinv phi N) in *.
  set (r := (c mod N) ^ d mod N).
  exists m, r. split; [apply dec_rand_val; assumption|].
  split; [apply dec_val; assumption|].
  split; [apply Z.mod_pos_bound; lia|].
  assert (Ur : Z.gcd r N = 1).
  { unfold r. rewrite gcd_mod_l by lia. apply unit_pow; [assumption|]. rewrite gcd_mod_l by lia. assumption. }
  split; [exact Ur|].
  rewrite enc_val by (rewrite half_N; apply symmod_N_range).
  f_equal. unfold encv.
  set (gm := expI N2 (N + 1) m). set (gm' := expI N2 (N + 1) (- m)).
  assert (Ug : Z.gcd (N + 1) N2 = 1) by (apply unit_sq; apply g_unit).
  assert (Hpair : (gm * gm') mod N2 = 1) by (apply expI_inv_pair; assumption).
  assert (Ugm' : Z.gcd gm' N = 1) by (apply unit_sq_inv; apply expI_unit; assumption).
  set (y := (c * gm') mod N2).
  assert (Ry : 0 <= y < N2) by (apply Z.mod_pos_bound; lia).
  assert (Uy : Z.gcd y N = 1) by (apply unit_modN2; apply unit_mul; assumption).
  assert (Dy : Dfun p q y = 0).
  { unfold y. rewrite Dfun_mod. rewrite Dfun_mul by assumption.
    unfold gm'. rewrite Dfun_expI by apply g_unit. rewrite Dfun_g.
    rewrite Z.add_mod_idemp_r by lia.
    rewrite <- (Z.mod_small (Dfun p q c) N) by apply Dfun_range.
    rewrite <- (symmod_N_cong (Dfun p q c)). fold m.
    rewrite Z.add_mod_idemp_l by lia. replace (m + - m * 1) with 0 by ring. apply Z.mod_0_l. lia. }
  pose proof (D0_pow y Uy Dy) as Hyphi.
  assert (HyN : y mod N = c mod N).
  { unfold y. rewrite mod_sq_mod by lia. rewrite Z.mul_mod by lia.
    unfold gm'. rewrite expI_g_modN. rewrite Z.mul_1_r. apply Z.mod_mod. lia. }
  assert (HrN : r mod N = (y ^ d) mod N).
  { unfold r. rewrite Z.mod_mod by lia. rewrite <- HyN. rewrite <- Zpower_mod by lia. reflexivity. }
  assert (HrNN : powmod N2 r N = y).
  { rewrite powmod_spec by lia. rewrite (pow_n_lift N r (y ^ d)) by (try lia; exact HrN).
    rewrite <- Z.pow_mul_r by lia.
    pose proof (Z.div_mod (d * N) phi ltac:(pose proof phi_gt1; lia)) as Hdm. rewrite Hd in Hdm.
    apply (pow_1_plus y (d * N) (d * N / phi)); try assumption.
    - apply Z.div_pos; [nia | pose proof phi_gt1; lia].
    - lia. }
  rewrite HrNN. unfold y. rewrite Z.mul_mod_idemp_r by lia.
  replace (gm * (c * gm')) with (c * (gm * gm')) by ring.
  rewrite <- Z.mul_mod_idemp_r by lia. rewrite Hpair. rewrite Z.mul_1_r. apply Z.mod_small. lia.
Qed.

(* and on an honest ciphertext the very nonce comes back *)
Lemma dec_rand_recovers_nonce : forall m rho, 0 <= rho < N -> Z.gcd rho N = 1 ->
  Z.abs m <= (N - 1) / 2 ->
  dec_with_randomness p q (encv p q m rho) = Some (m, rho).
Proof.
  intros m rho Rr Ur Hm. pose proof N_gt1 as HN. pose proof N2_gt1 as HN2.
  destruct ninv_spec as [Hd0 Hd].
  assert (Hv : validate_ct N (encv p q m rho) = true)
    by (apply valid_of_unit; [apply encv_range | apply encv_unit; assumption]).
  rewrite dec_rand_val by assumption.
  pose proof (dec_encv m rho Ur Hm) as Hde. rewrite dec_val in Hde by assumption.
  inversion Hde as [Hm']. rewrite Hm'. f_equal. f_equal; [exact Hm'|].
  assert (HcN : encv p q m rho mod N = rho ^ N mod N).
  { unfold encv. rewrite mod_sq_mod by lia. rewrite Z.mul_mod by lia. rewrite expI_g_modN.
    rewrite Z.mul_1_l. rewrite Z.mod_mod by lia. rewrite powmod_spec by lia. apply mod_sq_mod. lia. }
  rewrite HcN. rewrite <- Zpower_mod by lia. rewrite <- Z.pow_mul_r by lia.
  pose proof (Z.div_mod (modinv phi N * N) phi ltac:(pose proof phi_gt1; lia)) as Hdm. rewrite Hd in Hdm.
  set (d := modinv phi N) in *. set (k := d * N / phi) in *.
  assert (Hk : 0 <= k) by (apply Z.div_pos; [nia | pose proof phi_gt1; lia]).
  replace (N * d) with (1 + k * phi) by lia.
  pose proof phi_nonneg as Hphi.
  rewrite Z.pow_add_r by nia. rewrite Z.pow_1_r. rewrite (Z.mul_comm k phi). rewrite Z.pow_mul_r by lia.
  rewrite <- Z.mul_mod_idemp_r by lia. rewrite (Zpower_mod (rho ^ phi)) by lia.
  rewrite euler_N by assumption. rewrite Z.pow_1_l by assumption. rewrite (Z.mod_small 1) by lia.
  rewrite Z.mul_1_r. apply Z.mod_small. assumption.
Qed.

(* ---- MtA ---- *)

Lemma mta_exact_gen : forall a b bn rk rs,
  Z.gcd rk N = 1 -> Z.gcd rs N = 1 ->
  Z.abs b <= (N - 1) / 2 -> Z.abs bn <= (N - 1) / 2 -> Z.abs (a * b + bn) <= (N - 1) / 2 ->
  exists K D alpha beta,
    mta N p q a b bn rk rs = Some (K, D, alpha, beta) /\
    beta = - bn /\ alpha = a * b + bn /\ alpha + beta = a * b.
Proof.
  intros a b bn rk rs Uk Us Hb Hbn Hab. pose proof N_gt1 as HN.
  unfold mta, mta_sender. rewrite enc_sk_eq.
  rewrite enc_val by (rewrite half_N; assumption).
  rewrite enc_val by (rewrite half_N; assumption).
  pose proof (dec_encv b rk Uk Hb) as DK. pose proof (dec_encv bn rs Us Hbn) as DE.
  pose proof (mul_hom a _ _ DK) as DM.
  pose proof (add_hom _ _ _ _ DE DM) as DA.
  assert (Hsym : symmod N (bn + symmod N (a * b)) = a * b + bn).
  { rewrite (symmod_congr _ (a * b + bn)).
    - apply symmod_N_small. assumption.
    - rewrite Z.add_mod by lia. rewrite symmod_N_cong. rewrite <- Z.add_mod by lia. f_equal. lia. }
  rewrite Hsym in DA. rewrite DA.
  eexists _, _, _, _. split; [reflexivity|]. split; [reflexivity|]. split; [reflexivity|]. lia.
Qed.

Lemma mta_exact : forall qq B a b bn rk rs,
  Z.gcd rk N = 1 -> Z.gcd rs N = 1 ->
  0 <= a < qq -> 0 <= b < qq -> Z.abs bn <= B -> qq * qq + B <= (N - 1) / 2 ->
  exists K D alpha beta,
    mta N p q a b bn rk rs = Some (K, D, alpha, beta) /\ beta = - bn /\ alpha + beta = a * b.
Proof.
  intros qq B a b bn rk rs Uk Us Ha Hb Hbn Hq.
  destruct (mta_exact_gen a b bn rk rs Uk Us) as [K [D [al [be [H1 [H2 [H3 H4]]]]]]].
  - nia.
  - nia.
  - assert (0 <= a * b <= qq * qq) by nia. lia.
  - exists K, D, al, be. repeat split; assumption.
Qed.

Lemma mta_exact_lprime : forall qq a b bn rk rs,
  Z.gcd rk N = 1 -> Z.gcd rs N = 1 ->
  0 <= a < qq -> 0 <= b < qq -> Z.abs bn <= 2 ^ lprime -> qq * qq + 2 ^ lprime <= (N - 1) / 2 ->
  exists K D alpha beta,
    mta N p q a b bn rk rs = Some (K, D, alpha, beta) /\ beta = - bn /\ alpha + beta = a * b.
Proof. intros qq. exact (mta_exact qq (2 ^ lprime)). Qed.

End Paillier.

(* ---- ValidateN and the range side condition of MtA at the real parameter sizes ---- *)

Lemma validate_n_bounds : forall n, validate_n n = true -> 2 ^ 2047 <= n < 2 ^ 2048 /\ Z.odd n = true.
Proof.
  intros n H. unfold validate_n, bits_paillier in H.
  rewrite !andb_true_iff, Z.ltb_lt, Z.eqb_eq in H. destruct H as [[Hpos Hlog] Hodd].
  split; [|assumption].
  destruct (Z.log2_spec n Hpos) as [Hlo Hhi].
  replace (Z.log2 n) with 2047 in * by lia. exact (conj Hlo Hhi).
Qed.

Lemma mta_range_real : forall n qq, 2 ^ 2047 <= n -> 0 <= qq < 2 ^ 256 ->
  qq * qq + 2 ^ lprime <= (n - 1) / 2.
Proof.
  intros n qq Hn Hq. unfold lprime.
  assert (H1 : qq * qq <= 2 ^ 256 * 2 ^ 256) by (apply Z.mul_le_mono_nonneg; lia).
  rewrite <- Z.pow_add_r in H1 by lia.
  assert (H2 : (2 ^ 2047 - 1) / 2 <= (n - 1) / 2) by (apply Z.div_le_mono; lia).
  assert (H3 : 2 ^ (256 + 256) + 2 ^ 1280 <= (2 ^ 2047 - 1) / 2) by (vm_compute; discriminate).
  lia.
Qed.

(* ---- small primes for the non-vacuity examples ---- *)
Lemma small_prime : forall r, 1 < r -> (forall n, 1 <= n < r -> Z.gcd n r = 1) -> prime r.
Proof.
  intros r Hr H. apply prime_intro; [assumption|]. intros n Hn. apply Zgcd_1_rel_prime. apply H. assumption.
Qed.
Lemma prime_11 : prime 11.
Proof.
  apply small_prime; [lia|]. intros n Hn.
  assert (Hc : n = 1 \/ n = 2 \/ n = 3 \/ n = 4 \/ n = 5 \/ n = 6 \/ n = 7 \/ n = 8 \/ n = 9 \/ n = 10) by lia.
  repeat (destruct Hc as [->|Hc]; [reflexivity|]). subst n. reflexivity.
Qed.
Lemma prime_13 : prime 13.
Proof.
  apply small_prime; [lia|]. intros n Hn.
  assert (Hc : n = 1 \/ n = 2 \/ n = 3 \/ n = 4 \/ n = 5 \/ n = 6 \/ n = 7 \/ n = 8 \/ n = 9 \/ n = 10
               \/ n = 11 \/ n = 12) by lia.
  repeat (destruct Hc as [->|Hc]; [reflexivity|]). subst n. reflexivity.
Qed.
