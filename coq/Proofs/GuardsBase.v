(* GuardsBase.v -- interpreter and environments for the decision logic translated from /repo's source on every run
   (Generated/Guards.v, written by verifgen/gen_guards.go).

   [geval] evaluates a gexp the way Go does: left to right, short-circuit.  An environment maps every atom (canonical
   source text of a comparison / call leaf) to the corresponding boolean of the MODEL state (Model/Handler.v,
   Model/TwoParty.v, Model/Framing.v, Model/Session.v), or to [None] when the atom must not be evaluated in that state
   (dereference of a nil message, comparison with an absent map entry).  An atom the environment does not know also
   evaluates to [None].  Every theorem in Proofs/Guards*Proofs.v has the form
        geval (alookup (env ...)) go_<fn> = Some (<model function> ...)
   so it fails as soon as the source contains an unknown atom, a dropped / added term, && for ||, a different comparison
   operator (the atom text changes), a reordering that changes the result, or evaluates an atom where it is undefined.
   Definitions and tactics only; nothing here depends on the shape of the generated expressions. *)
From Coq Require Import String List Bool Arith NArith ZArith.
From MPS Require Import Model.Bytes Model.Framing Model.Session Model.Handler Model.TwoParty.
From MPS Require Model.Cbor.
From MPS Require Import Generated.Params Generated.Guards.
Import ListNotations.

(* ---------------------------------------------------------------- interpreter *)

Fixpoint geval (env : string -> option bool) (e : gexp) : option bool :=
  match e with
  | GAtom a => env a
  | GTrue => Some true
  | GFalse => Some false
  | GNot a => match geval env a with Some b => Some (negb b) | None => None end
  | GAnd a b => match geval env a with
                | Some true => geval env b
                | Some false => Some false        (* b is not evaluated *)
                | None => None
                end
  | GOr a b => match geval env a with
               | Some false => geval env b
               | Some true => Some true           (* b is not evaluated *)
               | None => None
               end
  end.

(* environments are association lists: atom text -> value *)
Definition aenv := list (string * option bool).
Fixpoint alookup (l : aenv) (a : string) : option bool :=
  match l with
  | [] => None
  | (k, v) :: l' => if String.eqb k a then v else alookup l' a
  end.

Fixpoint gatoms (e : gexp) : list string :=
  match e with
  | GAtom a => [a]
  | GTrue | GFalse => []
  | GNot a => gatoms a
  | GAnd a b | GOr a b => gatoms a ++ gatoms b
  end.

Definition is_some {A} (o : option A) : bool := match o with Some _ => true | None => false end.
Definition is_none {A} (o : option A) : bool := match o with Some _ => false | None => true end.

Local Open Scope string_scope.
Local Open Scope nat_scope.

(* proof method: unfold the generated expression and the environment, compute the atom lookups (closed string comparisons),
   then split on the model booleans that remain, innermost scrutinee first, until both sides are the same constant *)
Ltac gunfold := cbv [geval alookup String.eqb Ascii.eqb Bool.eqb andb orb negb is_some is_none].
Ltac gstep :=
  match goal with
  | |- context [if ?b then _ else _] =>
      lazymatch b with
      | context [if _ then _ else _] => fail
      | context [match _ with Some _ => _ | None => _ end] => fail
      | _ => destruct b
      end
  | |- context [match ?x with Some _ => _ | None => _ end] =>
      lazymatch x with
      | context [if _ then _ else _] => fail
      | context [match _ with Some _ => _ | None => _ end] => fail
      | _ => destruct x
      end
  end; cbv beta iota.
Ltac gsolve := gunfold; repeat first [reflexivity | gstep].

(* ---------------------------------------------------------------- MultiHandler (pkg/protocol/handler.go) *)

(* [om = None] is a nil *Message: only `msg == nil` and the state tests may be evaluated.
   Locals: r = h.currentRound (canAccept), previousHash = h.broadcastHashes[msg.RoundNumber-1] (sameBroadcastView);
   both are obligations on go_..._lets below. *)
Definition env_mh (s : hstate) (om : option msg) : aenv :=
  let on (f : msg -> bool) := match om with Some m => Some (f m) | None => None end in
  [ ("msg == nil", Some (is_none om));
    ("msg.IsFor(r.SelfID())", on (fun m => is_for (h_self s) m));
    ("msg.Protocol != r.ProtocolID()", on (fun m => negb (m_proto m =? h_proto s)%N));
    ("bytes.Equal(msg.SSID, r.SSID())", on (fun m => (m_ssid m =? h_ssid s)%N));
    ("r.PartyIDs().Contains(msg.From)", on (fun m => m_from m <? h_n s));
    ("msg.Data == nil", on (fun m => negb (m_data m)));
    ("msg.RoundNumber > r.FinalRoundNumber()", on (fun m => sh_final (h_shape s) <? m_round m));
    ("msg.RoundNumber < r.Number()", on (fun m => m_round m <? h_cur s));
    ("msg.RoundNumber > 0", on (fun m => 0 <? m_round m));
    (* Accept / Stop *)
    ("h.canAccept(msg)", Some (match om with Some m => can_accept s m | None => false end));
    ("h.err != nil", Some (is_some (h_err s)));
    ("h.result != nil", Some (h_res s));
    ("h.duplicate(msg)", on (fun m => duplicate s m));
    (* duplicate: both queue maps are built by newQueue with the same round keys *)
    ("msg.RoundNumber == 0", on (fun m => m_round m =? 0));
    ("msg.Broadcast", on (fun m => m_bcast m));
    ("h.broadcast[msg.RoundNumber] == nil", on (fun m => negb (has_queue s (m_round m))));
    ("h.broadcast[msg.RoundNumber][msg.From] != nil", on (fun m => is_some (qget (h_qb s) (m_round m) (m_from m))));
    ("h.messages[msg.RoundNumber] == nil", on (fun m => negb (has_queue s (m_round m))));
    ("h.messages[msg.RoundNumber][msg.From] != nil", on (fun m => is_some (qget (h_qp s) (m_round m) (m_from m))));
    (* sameBroadcastView: the comparison is only defined when we hold a digest of the previous round *)
    ("previousHash == nil", on (fun m => is_none (hget (h_hashes s) (m_round m - 1))));
    ("bytes.Equal(previousHash, msg.BroadcastVerification)",
       match om with
       | Some m => match hget (h_hashes s) (m_round m - 1) with Some prev => Some (m_bv m =? prev)%N | None => None end
       | None => None
       end)
  ].


Definition mh_accept_guard_model (s : hstate) (om : option msg) : bool :=
  match om with
  | Some m => negb (can_accept s m) || is_some (h_err s) || h_res s || duplicate s m
  | None => true
  end.

(* expectsNormalMessage(r): the shape's p2p kind of round r *)
Definition expects_p2p (sh : shape) (r : nat) : bool := match sh_p2p sh r with NoP2P => false | _ => true end.

Definition env_round (sh : shape) (r : nat) : aenv := [ ("r.MessageContent() != nil", Some (expects_p2p sh r)) ].

(* ---------------------------------------------------------------- Message.IsFor (pkg/protocol/message.go) *)

(* id = the ID of party [self]; party IDs are never empty (NewSession), so `m.To == id` is false for To = "" *)
Definition env_isfor (self : party) (m : msg) : aenv :=
  [ ("m.From == id", Some (m_from m =? self));
    ("m.To == """"", Some (is_none (m_to m)));
    ("m.To == id", Some (match m_to m with Some t => t =? self | None => false end)) ].

(* ---------------------------------------------------------------- TwoPartyHandler (pkg/protocol/twoparty.go) *)

(* local of canAccept: r = h.round *)
Definition env_tp (s : tstate) (om : option msg) : aenv :=
  let on (f : msg -> bool) := match om with Some m => Some (f m) | None => None end in
  [ ("msg == nil", Some (is_none om));
    ("msg.IsFor(r.SelfID())", on (fun m => is_for (t_self s) m));
    ("msg.Protocol != r.ProtocolID()", on (fun m => negb (m_proto m =? t_proto s)%N));
    ("bytes.Equal(msg.SSID, r.SSID())", on (fun m => (m_ssid m =? t_ssid s)%N));
    ("r.PartyIDs().Contains(msg.From)", on (fun m => m_from m <? t_n s));
    ("msg.Data == nil", on (fun m => negb (m_data m)));
    ("msg.RoundNumber > r.FinalRoundNumber()", on (fun m => ts_final (t_shape s) <? m_round m));
    ("h.canAccept(msg)", Some (match om with Some m => tp_can_accept s m | None => false end));
    ("h.err != nil", Some (is_some (t_err s)));
    ("h.result != nil", Some (t_res s));
    ("h.round.MessageContent() == nil", Some (negb (tp_expects s)));
    ("h.messages[h.round.Number()] != nil", Some (is_some (tp_cur_msg s))) ].

Definition tp_accept_guard_model (s : tstate) (om : option msg) : bool :=
  match om with Some m => negb (tp_can_accept s m) || tp_terminal s | None => true end.

(* ---------------------------------------------------------------- Commitment / Decommitment .Validate (pkg/hash/commit.go) *)

(* "any b in c: b != 0" is read as the loop it was: some byte differs from 0 *)
Definition any_nonzero (c : bytes) : bool := existsb (fun b => negb (b =? 0)%N) c.

(* local: l = len(c) *)
Definition env_commitment (c : bytes) : aenv :=
  [ ("l != DigestLengthBytes", Some (negb (Z.of_nat (length c) =? go_const_hash_DigestLengthBytes)%Z));
    ("any b in c: b != 0", Some (any_nonzero c)) ].

(* local: l = len(d) *)
Definition env_decommitment (d : bytes) : aenv :=
  [ ("l != params.SecBytes", Some (negb (Z.of_nat (length d) =? go_param_SecBytes)%Z));
    ("any b in d: b != 0", Some (any_nonzero d)) ].

(* ---------------------------------------------------------------- IDSlice.Valid (pkg/party/idslice.go) *)

(* "any i in [1, n): partyIDs[i-1] >= partyIDs[i]" with n = len(partyIDs), read as the loop it was *)
Definition any_unsorted (l : list bytes) : bool :=
  existsb (fun i => negb (bytes_ltb (nth (i - 1) l []) (nth i l []))) (seq 1 (length l - 1)).

Definition env_idslice (l : list bytes) : aenv :=
  [ ("any i in [1, n): partyIDs[i-1] >= partyIDs[i]", Some (any_unsorted l)) ].

(* ---------------------------------------------------------------- NewSession (internal/round/helper.go) *)

(* the loop over the IDs, read as it was: an ID is refused if it is empty, not valid UTF-8, or (group given) maps to 0 *)
Definition id_refused (grp : option bytes) (id : bytes) : bool :=
  match id with [] => true | _ => false end
  || negb (Cbor.utf8_valid id)
  || (is_some grp && (be_val id mod group_order =? 0)%N).

(* locals: partyIDs = party.NewIDSlice(info.PartyIDs), n = len(partyIDs) *)
Definition env_session (p : sess_params) : aenv :=
  let ids := sort_ids (sp_ids p) in
  let n := Z.of_nat (length ids) in
  [ ("partyIDs.Valid()", Some (ids_valid ids));
    ("any id in partyIDs: id == """" || !utf8.ValidString(string(id)) || info.Group != nil && id.Scalar(info.Group).IsZero()",
       Some (existsb (id_refused (sp_group p)) ids));
    ("partyIDs.Contains(info.SelfID)", Some (ids_contains ids (sp_self p)));
    ("info.Threshold < 0", Some (sp_thr p <? 0)%Z);
    ("info.Threshold > math.MaxUint32", Some (max_uint32 <? sp_thr p)%Z);
    ("n <= 0", Some (n <=? 0)%Z);
    ("info.Threshold > n-1", Some (n - 1 <? sp_thr p)%Z) ].

(* ---------------------------------------------------------------- every atom is known *)

(* every atom of every translated function is known to the environment it is evaluated in *)
Definition known (l : aenv) (e : gexp) : bool := forallb (fun a => existsb (String.eqb a) (map fst l)) (gatoms e).

Definition dummy_msg : msg := mkMsg 0 0 0 None 0 false false 0 0 false NoPanic.

Definition dummy_h : hstate := mkH 0 0 0 0 (mkShape 0 (fun _ => false) (fun _ => NoP2P)) 0 [] [] [] [] None false [] 0 0 Running.

Definition dummy_t : tstate :=
  mkT 0 0 0 0 (mkTShape 0 (fun _ => false) (fun _ => TFNil)) false (RNum 0) [] None false [] 0 0 Running.

(* a listed function was translated *)
Definition translated (names : list string) : bool :=
  forallb (fun n => negb (existsb (String.eqb n) guards_untranslatable_names) && existsb (String.eqb n) (map fst go_guards)) names.
