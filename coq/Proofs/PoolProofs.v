(* PoolProofs.v -- proofs about the pool model (C18): invariant, safety, progress, variant for the
   repaired handshake V1 (all worker counts, task counts, task functions, schedules, numbers of
   consecutive calls), explicit counter-example schedules for pool.go as it is (V0). *)
From Coq Require Import List NArith ZArith Bool Arith Lia.
From MPS Require Import Model.Pool.
Import ListNotations.
Open Scope nat_scope.

(* ---------- lists ---------- *)
Section Lists.
Context {A : Type}.
Implicit Types (l : list A) (k j : nat).

Lemma upd_length k x l : length (upd k x l) = length l.
Proof. revert k; induction l as [|a l IH]; intros [|k]; cbn; auto. Qed.

Lemma nth_error_upd_eq k x l : k < length l -> nth_error (upd k x l) k = Some x.
Proof. revert k; induction l as [|a l IH]; intros [|k] H; cbn in *; try lia; auto. apply IH; lia. Qed.

Lemma nth_error_upd_ne k j x l : j <> k -> nth_error (upd k x l) j = nth_error l j.
Proof. revert k j; induction l as [|a l IH]; intros [|k] [|j] H; cbn; auto; try lia. Qed.

Lemma In_upd_inv k x y l : In y (upd k x l) -> y = x \/ In y l.
Proof. revert k; induction l as [|a l IH]; intros [|k]; cbn; intuition auto. destruct (IH _ H0); auto. Qed.

Lemma In_upd_keep k x y old l : nth_error l k = Some old -> In y l -> y <> old -> In y (upd k x l).
Proof.
  revert k; induction l as [|a l IH]; intros [|k] N HI NE; cbn in *; try discriminate; auto.
  - injection N as ->. destruct HI; [congruence | auto].
  - destruct HI; eauto.
Qed.

Lemma In_upd_new k x old l : nth_error l k = Some old -> In x (upd k x l).
Proof. revert k; induction l as [|a l IH]; intros [|k] N; cbn in *; try discriminate; eauto. Qed.

Lemma Forall_upd (P : A -> Prop) k x l : Forall P l -> P x -> Forall P (upd k x l).
Proof. intros H Hx; revert k; induction H; intros [|k]; cbn; auto. Qed.

Fixpoint sum (f : A -> nat) l : nat := match l with [] => 0 | a :: t => f a + sum f t end.

Lemma sum_upd f k x old l : nth_error l k = Some old -> sum f (upd k x l) + f old = sum f l + f x.
Proof.
  revert k; induction l as [|a l IH]; intros [|k] N; cbn in *; try discriminate.
  - injection N as ->; lia.
  - specialize (IH _ N); lia.
Qed.

Lemma sum_le f g l : (forall a, f a <= g a) -> sum f l <= sum g l.
Proof. intros H; induction l; cbn; auto. specialize (H a); lia. Qed.

Lemma sum_zero f l : sum f l = 0 -> forall a, In a l -> f a = 0.
Proof. induction l; cbn; intros H b []; subst; try lia. apply IHl; auto; lia. Qed.

Lemma nth_error_ext l1 l2 : length l1 = length l2 ->
  (forall i, i < length l1 -> nth_error l1 i = nth_error l2 i) -> l1 = l2.
Proof.
  revert l2; induction l1 as [|a l1 IH]; intros [|b l2] L H; cbn in *; try discriminate; auto.
  f_equal. { specialize (H 0 ltac:(lia)); cbn in H; congruence. }
  apply IH; [lia|]. intros i Hi; apply (H (S i)); lia.
Qed.
End Lists.

(* ---------- V1: invariant ---------- *)
Section V1.
Variable fp : nat -> nat -> Z.
Variable fs : nat -> nat -> option Z.

Notation step1 := (step V1 fp fs).
Notation enabled1 := (enabled V1 fp fs).
Notation step_opt1 := (step_opt V1 fp fs).

Definition busy (wk : worker) : nat := if is_idle wk then 0 else 1.
Definition prov (s : pstate) (x : Z) : Prop := exists n, fs (epoch s) n = Some x.

(* what a worker may be doing, relative to the current call *)
Definition wf_worker (s : pstate) (wk : worker) : Prop :=
  match snd wk with
  | WIdle => True
  | WPar i => fst wk = epoch s /\ kind_of s = Par /\ i < cmdI s
  | WParDec | WNotify Par => fst wk = epoch s /\ kind_of s = Par
  | WSLoad | WSRun => fst wk = epoch s /\ kind_of s = Srch
  | WSDec x => fst wk = epoch s /\ kind_of s = Srch /\ prov s x
  | WSWrite i x => fst wk = epoch s /\ kind_of s = Srch /\ prov s x
                   /\ (ctr (cur s) <= i < Z.of_nat (count s))%Z
  | WNotify Srch => fst wk = epoch s /\ kind_of s = Srch /\ (ctr (cur s) <= 0)%Z
  | WExit => False
  end.

Record Inv (s : pstate) : Prop := mkInv {
  i_total : total s = match kind_of s with Par => count s | Srch => length (workers s) end;
  i_busy : done s + sum busy (workers s) = cmdI s;        (* every command sent and not yet acknowledged is held by exactly one worker *)
  i_caller : match caller s with
             | CSelect => cmdI s < total s
             | CWait => cmdI s = total s
             | CRecv => cmdI s = total s /\ done s < total s
             | CReturn => cmdI s = total s /\ done s = total s
             end;
  i_wf : Forall (wf_worker s) (workers s);
  i_len : length (results (cur s)) = count s;
  i_ctr : (ctr (cur s) <= Z.of_nat (count s))%Z;
  i_par : kind_of s = Par -> forall i, i < cmdI s ->
          nth_error (results (cur s)) i = Some (Some (fp (epoch s) i)) \/ In (epoch s, WPar i) (workers s);
  i_srch : kind_of s = Srch -> forall i, i < count s -> (ctr (cur s) <= Z.of_nat i)%Z ->
          (exists x, prov s x /\ nth_error (results (cur s)) i = Some (Some x))
          \/ (exists x, In (epoch s, WSWrite (Z.of_nat i) x) (workers s));
  i_done : kind_of s = Srch -> 0 < done s -> (ctr (cur s) <= 0)%Z }.

Lemma wf_mono s s' wk :
  epoch s' = epoch s -> kind_of s' = kind_of s -> count s' = count s -> cmdI s <= cmdI s' ->
  (ctr (cur s') <= ctr (cur s))%Z -> wf_worker s wk -> wf_worker s' wk.
Proof.
  intros He Hk Hc Hi Hz. unfold wf_worker, prov. rewrite He, Hk, Hc.
  destruct (snd wk) as [| | | | | | |[]|]; intuition lia.
Qed.

Lemma get_cell_cur s : get_cell s (epoch s) = cur s.
Proof. unfold get_cell; now rewrite Nat.eqb_refl. Qed.
Lemma set_cell_cur s c : set_cell s (epoch s) c = set_cur s c.
Proof. unfold set_cell; now rewrite Nat.eqb_refl. Qed.

Lemma all_idle_of_sum ws : sum busy ws = 0 -> forall wk, In wk ws -> snd wk = WIdle.
Proof.
  intros H wk HI. pose proof (sum_zero _ _ H _ HI) as Z. unfold busy, is_idle in Z.
  destruct (snd wk); auto; discriminate.
Qed.

Lemma inv_init w : Inv (pool_init w).
Proof.
  assert (S0 : sum busy (repeat (0, WIdle) w) = 0) by (induction w; cbn; auto).
  constructor; cbn; auto; try lia; try discriminate.
  apply Forall_forall; intros wk HI; apply repeat_spec in HI; subst; exact I.
Qed.

Lemma inv_start s kd c : Inv s -> caller s = CReturn -> Inv (start_call s kd c).
Proof.
  intros I C. pose proof (i_caller s I) as IC; rewrite C in IC. pose proof (i_busy s I) as IB.
  assert (Z0 : sum busy (workers s) = 0) by lia.
  constructor; cbn -[Nat.ltb].
  - destruct kd; auto.
  - lia.
  - destruct (0 <? _) eqn:E; [apply Nat.ltb_lt in E | apply Nat.ltb_ge in E]; lia.
  - apply Forall_forall; intros wk HI. unfold wf_worker. now rewrite (all_idle_of_sum _ Z0 _ HI).
  - apply repeat_length.
  - lia.
  - intros; lia.
  - intros; lia.
  - intros; lia.
Qed.

Lemma inv_cmd s : Inv s -> cmdI s <= total s.
Proof. intros I; pose proof (i_caller s I); destruct (caller s); lia. Qed.

Ltac wfall I4 :=
  apply Forall_upd;
  [ eapply Forall_impl; [|exact I4]; intros ? ?; eapply wf_mono; [..|eassumption]; cbn; first [reflexivity | lia] | ].
Ltac keep := eapply In_upd_keep; [eassumption | eassumption | intros X; inversion X; try lia; try congruence].
Ltac local_step E :=
  rewrite get_cell_cur in E; cbn [wlocal] in E; rewrite ?set_cell_cur in E.

Lemma inv_step s g s' : Inv s -> step_opt1 s g = Some s' -> Inv s'.
Proof.
  intros I E. pose proof (inv_cmd s I) as IC. destruct g as [|k]; cbn [step_opt] in E.
  - unfold cstep in E. destruct (caller s) eqn:C; try discriminate. injection E as <-.
    destruct I as [I1 I2 I3 I4 I5 I6 I7 I8 I9]. rewrite C in *. constructor; cbn -[Nat.ltb]; auto.
    destruct (done s <? total s) eqn:D; [apply Nat.ltb_lt in D|apply Nat.ltb_ge in D]; lia.
  - unfold wstep in E. destruct (nth_error (workers s) k) as [[e pc]|] eqn:N; [|discriminate].
    assert (W : wf_worker s (e, pc)) by (eapply Forall_forall; [apply I | eapply nth_error_In; eauto]).
    pose proof (fun x => sum_upd busy k x _ _ N) as SU.
    destruct I as [I1 I2 I3 I4 I5 I6 I7 I8 I9].
    destruct pc; cbn in W.
    + (* command rendezvous *)
      destruct (caller s) eqn:C; try discriminate. injection E as <-.
      specialize (SU (epoch s, match kind_of s with Par => WPar (cmdI s) | Srch => WSLoad end)).
      constructor; cbn -[Nat.ltb]; auto.
      * rewrite upd_length; auto.
      * revert SU; destruct (kind_of s); cbn; lia.
      * destruct (S (cmdI s) <? total s) eqn:D; [apply Nat.ltb_lt in D|apply Nat.ltb_ge in D]; lia.
      * wfall I4. unfold wf_worker; cbn. destruct (kind_of s); auto.
      * intros K i Hi. destruct (Nat.eq_dec i (cmdI s)) as [->|NE].
        { right; rewrite K; eapply In_upd_new; eauto. }
        destruct (I7 K i ltac:(lia)) as [L|R]; [left; auto | right; keep].
      * intros K i Hi Hc. destruct (I8 K i Hi Hc) as [L|[x R]]; [left; auto | right; exists x; keep].
    + (* results[i] = f(i) *)
      destruct W as (-> & K & Hi). local_step E. injection E as <-.
      specialize (SU (retag (epoch s) WParDec)). rewrite K in *.
      constructor; cbn; rewrite ?upd_length, ?K; auto; try congruence.
      * cbn in SU; lia.
      * wfall I4. unfold wf_worker; cbn; auto.
      * intros _ j Hj. destruct (Nat.eq_dec j i) as [->|NE].
        { left; apply nth_error_upd_eq; lia. }
        destruct (I7 eq_refl j Hj) as [L|R]; [left; rewrite nth_error_upd_ne; auto | right; keep].
    + (* atomic.AddInt64(ctr,-1), Parallelize *)
      destruct W as (-> & K). local_step E. injection E as <-.
      specialize (SU (retag (epoch s) (WNotify Par))). rewrite K in *.
      constructor; cbn; rewrite ?upd_length, ?K; auto; try congruence; try lia.
      * cbn in SU; lia.
      * wfall I4. unfold wf_worker; cbn; auto.
      * intros _ j Hj. destruct (I7 eq_refl j Hj) as [L|R]; [left; auto | right; keep].
    + (* atomic.LoadInt64(ctr) > 0 *)
      destruct W as (-> & K). local_step E. injection E as <-.
      specialize (SU (retag (epoch s) (if (0 <? ctr (cur s))%Z then WSRun else WNotify Srch))). rewrite K in *.
      constructor; cbn; rewrite ?upd_length, ?K; auto; try congruence; try lia.
      * revert SU; destruct (0 <? ctr (cur s))%Z; cbn; lia.
      * wfall I4. unfold wf_worker. destruct (0 <? ctr (cur s))%Z eqn:P; cbn; auto.
        apply Z.ltb_ge in P; auto.
      * intros _ i Hi Hc. destruct (I8 eq_refl i Hi Hc) as [L|[x R]]; [left; auto | right; exists x; keep].
    + (* res := f(0) *)
      destruct W as (-> & K). local_step E. injection E as <-.
      specialize (SU (retag (epoch s) (match fs (epoch s) (ncalls (cur s)) with None => WSLoad | Some x => WSDec x end))).
      rewrite K in *.
      constructor; cbn; rewrite ?upd_length, ?K; auto; try congruence; try lia.
      * revert SU; destruct (fs _ _); cbn; lia.
      * wfall I4. unfold wf_worker. destruct (fs (epoch s) (ncalls (cur s))) eqn:F; cbn; auto.
        repeat split; auto. eexists; eauto.
      * intros _ i Hi Hc. destruct (I8 eq_refl i Hi Hc) as [L|[x R]]; [left; auto | right; exists x; keep].
    + (* i := atomic.AddInt64(ctr,-1), Search *)
      destruct W as (-> & K & P). local_step E. injection E as <-.
      specialize (SU (retag (epoch s) (WSWrite (ctr (cur s) - 1) x))). rewrite K in *.
      constructor; cbn; rewrite ?upd_length, ?K; auto; try congruence; try lia.
      * cbn in SU; lia.
      * wfall I4. unfold wf_worker; cbn. repeat split; auto; lia.
      * intros _ i Hi Hc. destruct (Z.eq_dec (Z.of_nat i) (ctr (cur s) - 1)) as [EQ|NE].
        { right; exists x; rewrite EQ; eapply In_upd_new; eauto. }
        destruct (I8 eq_refl i Hi ltac:(lia)) as [L|[y R]]; [left; auto | right; exists y; keep].
      * intros _ D; specialize (I9 eq_refl D); lia.
    + (* if i >= 0 { results[i] = res } *)
      destruct W as (-> & K & P & Hi). local_step E. injection E as <-.
      specialize (SU (retag (epoch s) WSLoad)). rewrite K in *.
      assert (RES : results (if (0 <=? i)%Z then mkCell (ctr (cur s)) (upd (Z.to_nat i) (Some x) (results (cur s))) (ncalls (cur s)) else cur s)
                    = if (0 <=? i)%Z then upd (Z.to_nat i) (Some x) (results (cur s)) else results (cur s))
        by (destruct (0 <=? i)%Z; auto).
      assert (CTR : ctr (if (0 <=? i)%Z then mkCell (ctr (cur s)) (upd (Z.to_nat i) (Some x) (results (cur s))) (ncalls (cur s)) else cur s) = ctr (cur s))
        by (destruct (0 <=? i)%Z; auto).
      constructor; cbn -[Z.leb]; rewrite ?RES, ?CTR, ?upd_length, ?K; auto; try congruence; try lia.
      * cbn in SU; lia.
      * wfall I4. unfold wf_worker; cbn; auto.
      * destruct (0 <=? i)%Z; rewrite ?upd_length; auto.
      * intros _ j Hj Hc. destruct (Z.eq_dec (Z.of_nat j) i) as [EQ|NE].
        { left; exists x; split; auto. destruct (0 <=? i)%Z eqn:L; [|apply Z.leb_gt in L; lia].
          rewrite <- EQ, Nat2Z.id. apply nth_error_upd_eq; lia. }
        destruct (I8 eq_refl j Hj Hc) as [(y & Py & L)|(y & R)]; [left; exists y; split; auto | right; exists y; keep].
        destruct (0 <=? i)%Z eqn:L'; auto. apply Z.leb_le in L'. rewrite nth_error_upd_ne; auto. lia.
    + (* notification rendezvous *)
      assert (EP : e = epoch s) by (destruct kd; tauto). subst e. rewrite Nat.eqb_refl in E.
      specialize (SU (0, WIdle)).
      assert (AN : retag (epoch s) (after_notify V1 kd) = (0, WIdle)) by (destruct kd; auto). rewrite AN in E.
      assert (I9' : kind_of s = Srch -> (ctr (cur s) <= 0)%Z) by (destruct kd; intros; [destruct W; congruence | tauto]).
      destruct (caller s) eqn:C; try discriminate; injection E as <-;
        (constructor; cbn; rewrite ?upd_length; auto; try lia;
         [ cbn in SU; lia
         | wfall I4; exact I
         | intros K i Hi; destruct (I7 K i Hi) as [L|R]; [left; auto | right; keep]
         | intros K i Hi Hc; destruct (I8 K i Hi Hc) as [L|[x R]]; [left; auto | right; exists x; keep] ]).
    + destruct W.
Qed.

(* ---------- V1: reachable states (any number of consecutive calls), safety, progress ---------- *)
Inductive reachable (w : nat) : pstate -> Prop :=
| R_init : reachable w (pool_init w)
| R_step s g : reachable w s -> enabled1 s g = true -> reachable w (step1 s g)
| R_call s kd c : reachable w s -> caller s = CReturn -> reachable w (start_call s kd c).

Lemma enabled_step s g : enabled1 s g = true -> step_opt1 s g = Some (step1 s g).
Proof. unfold enabled, step. destruct (step_opt1 s g); auto; discriminate. Qed.
Lemma disabled_step s g : enabled1 s g = false -> step1 s g = s.
Proof. unfold enabled, step. destruct (step_opt1 s g); auto; discriminate. Qed.

Lemma reachable_inv w s : reachable w s -> Inv s /\ length (workers s) = w.
Proof.
  induction 1 as [|s g R [I L] E|s kd c R [I L] C].
  - split; [apply inv_init | apply repeat_length].
  - apply enabled_step in E. pose proof (inv_step _ _ _ I E) as I'. split; auto.
    pose proof (i_total _ I) as T. pose proof (i_total _ I') as T'.
    clear I I'. destruct g as [|k]; cbn [step_opt] in E.
    + unfold cstep in E. destruct (caller s); try discriminate. injection E as <-. auto.
    + unfold wstep in E. destruct (nth_error (workers s) k) as [[e pc]|]; [|discriminate].
      destruct pc; try discriminate;
      repeat match type of E with
             | context [match ?x with _ => _ end] => destruct x; try discriminate
             end; injection E as <-; cbn; rewrite upd_length; auto.
  - split; [apply inv_start; auto | auto].
Qed.

Lemma returned_idle s : Inv s -> caller s = CReturn -> forall wk, In wk (workers s) -> snd wk = WIdle.
Proof.
  intros I C. pose proof (i_caller s I) as IC; rewrite C in IC. pose proof (i_busy s I).
  apply all_idle_of_sum; lia.
Qed.

Lemma nth_error_map_seq {A} (f : nat -> A) c i : i < c -> nth_error (map f (seq 0 c)) i = Some (f i).
Proof.
  intros H. apply map_nth_error. rewrite (nth_error_nth' _ 0) by (rewrite seq_length; auto).
  now rewrite seq_nth.
Qed.

Theorem pool_idle_after w s : reachable w s -> caller s = CReturn ->
  all_idle s = true /\ existsb (blocked_forever s) (workers s) = false /\ forall g, enabled1 s g = false.
Proof.
  intros R C. destruct (reachable_inv _ _ R) as [I _]. pose proof (returned_idle s I C) as ID.
  split; [|split].
  - apply forallb_forall; intros wk HI. unfold is_idle; now rewrite (ID _ HI).
  - apply not_true_is_false; intros X. apply existsb_exists in X as (wk & HI & X).
    unfold blocked_forever in X. rewrite (ID _ HI) in X. discriminate.
  - intros [|k]; unfold enabled; cbn; unfold cstep, wstep; [now rewrite C|].
    destruct (nth_error (workers s) k) as [[e pc]|] eqn:N; auto.
    apply nth_error_In in N. apply ID in N; cbn in N; subst pc. now rewrite C.
Qed.

Theorem pool_safety_par w s : reachable w s -> caller s = CReturn -> kind_of s = Par ->
  results (cur s) = map (fun i => Some (fp (epoch s) i)) (seq 0 (count s)).
Proof.
  intros R C K. destruct (reachable_inv _ _ R) as [I _]. pose proof (returned_idle s I C) as ID.
  pose proof (i_caller s I) as IC; rewrite C in IC. pose proof (i_total s I) as T; rewrite K in T.
  apply nth_error_ext. { now rewrite map_length, seq_length, (i_len s I). }
  intros i Hi. rewrite (i_len s I) in Hi. rewrite nth_error_map_seq by auto.
  destruct (i_par s I K i ltac:(lia)) as [L|X]; auto. apply ID in X; discriminate.
Qed.

Theorem pool_safety_srch w s : 1 <= w -> reachable w s -> caller s = CReturn -> kind_of s = Srch ->
  length (results (cur s)) = count s /\
  Forall (fun r => exists x n, r = Some x /\ fs (epoch s) n = Some x) (results (cur s)).
Proof.
  intros W R C K. destruct (reachable_inv _ _ R) as [I L]. pose proof (returned_idle s I C) as ID.
  pose proof (i_caller s I) as IC; rewrite C in IC. pose proof (i_total s I) as T; rewrite K in T.
  split; [apply I|]. apply Forall_forall; intros r HI.
  apply In_nth_error in HI as [i Hi]. assert (Hl : i < count s).
  { rewrite <- (i_len s I). apply nth_error_Some; congruence. }
  pose proof (i_done s I K ltac:(lia)) as Z0.
  destruct (i_srch s I K i Hl ltac:(lia)) as [(x & [n P] & Lx)|(x & X)].
  - exists x, n. split; congruence.
  - apply ID in X; discriminate.
Qed.

Lemma sum_pos_ex {A} (f : A -> nat) l : 0 < sum f l -> exists k a, nth_error l k = Some a /\ 0 < f a.
Proof.
  induction l as [|a l IH]; cbn; [lia|]. intros H. destruct (f a) eqn:F.
  - destruct (IH H) as (k & b & N & P). exists (S k), b; auto.
  - exists 0, a; cbn; split; auto; lia.
Qed.

Theorem pool_progress w s : 1 <= w -> reachable w s -> caller s <> CReturn ->
  exists g, g <= w /\ enabled1 s g = true.
Proof.
  intros W R C. destruct (reachable_inv _ _ R) as [I L].
  pose proof (i_caller s I) as IC. pose proof (i_busy s I) as IB.
  destruct (Nat.eq_dec (sum busy (workers s)) 0) as [Z0|NZ].
  - (* every worker idle *)
    destruct (caller s) eqn:CS; try congruence; try lia.
    + destruct (workers s) as [|[e pc] ws] eqn:WS; [cbn in L; lia|]. exists 1; split; [lia|].
      assert (snd (e, pc) = WIdle) by (apply (all_idle_of_sum _ Z0); now left). cbn in H; subst pc.
      unfold enabled; cbn; unfold wstep; rewrite WS, CS; auto.
    + exists 0; split; [lia|]. unfold enabled; cbn; unfold cstep; now rewrite CS.
  - destruct (sum_pos_ex busy (workers s) ltac:(lia)) as (k & [e pc] & N & P).
    assert (Wf : wf_worker s (e, pc)) by (eapply Forall_forall; [apply I | eapply nth_error_In; eauto]).
    assert (Hk : k < w) by (rewrite <- L; apply nth_error_Some; congruence).
    destruct pc; cbn in Wf, P; try lia; try tauto;
      try (exists (S k); split; [lia|]; unfold enabled; cbn; unfold wstep; rewrite N; reflexivity).
    assert (EP : e = epoch s) by (destruct kd; tauto). subst e.
    destruct (caller s) eqn:CS; try congruence.
    + exists (S k); split; [lia|]. unfold enabled; cbn; unfold wstep; now rewrite N, Nat.eqb_refl, CS.
    + exists 0; split; [lia|]. unfold enabled; cbn; unfold cstep; now rewrite CS.
    + exists (S k); split; [lia|]. unfold enabled; cbn; unfold wstep; now rewrite N, Nat.eqb_refl, CS.
Qed.

(* ---------- V1: variant.  The Search task function must eventually succeed:
   from its (B e)-th invocation on, f of call e never answers nil. ---------- *)
Variable B : nat -> nat.
Hypothesis fs_eventually : forall e n, B e <= n -> fs e n <> None.

Definition wm (pos : bool) (pc : wpc) : nat :=
  match pc with
  | WIdle | WExit => 0 | WNotify _ => 1 | WParDec => 2 | WPar _ => 3
  | WSLoad => if pos then 6 else 2 | WSRun => 5 | WSDec _ => 4
  | WSWrite _ _ => if pos then 7 else 3
  end.
Definition wsum (pos : bool) (ws : list worker) : nat := sum (fun wk => wm pos (snd wk)) ws.
Definition cm (c : cpc) : nat := match c with CSelect | CWait => 1 | _ => 0 end.
Definition measure (s : pstate) : nat :=
  2 * (B (epoch s) - ncalls (cur s)) + 4 * Z.to_nat (ctr (cur s))
  + wsum (0 <? ctr (cur s))%Z (workers s)
  + 7 * (total s - cmdI s) + 2 * (total s - done s) + cm (caller s).

Lemma wsum_upd b k x old ws : nth_error ws k = Some old ->
  wsum b (upd k x ws) + wm b (snd old) = wsum b ws + wm b (snd x).
Proof. intros N. unfold wsum. exact (sum_upd (fun wk => wm b (snd wk)) k x old ws N). Qed.
Lemma wsum_mono b' b ws : (b' = true -> b = true) -> wsum b' ws <= wsum b ws.
Proof.
  intros H. apply sum_le. intros [e pc]; cbn.
  destruct b', b; auto; try (specialize (H eq_refl); discriminate); destruct pc; cbn; lia.
Qed.
Lemma sum_ge {A} (f : A -> nat) k a l : nth_error l k = Some a -> f a <= sum f l.
Proof. revert k; induction l as [|b l IH]; intros [|k] N; cbn in *; try discriminate.
  - injection N as ->; lia.
  - specialize (IH _ N); lia.
Qed.
Arguments wsum : simpl never.
Arguments Z.to_nat : simpl never.
Arguments Nat.mul : simpl never.
Arguments Nat.sub : simpl never.

Lemma measure_step s g s' : Inv s -> step_opt1 s g = Some s' -> measure s' < measure s.
Proof.
  intros I E. pose proof (inv_cmd s I) as IC. destruct g as [|k]; cbn [step_opt] in E.
  - unfold cstep in E. destruct (caller s) eqn:C; try discriminate. injection E as <-.
    unfold measure; cbn -[Nat.ltb]. rewrite C. destruct (done s <? total s); cbn; lia.
  - unfold wstep in E. destruct (nth_error (workers s) k) as [[e pc]|] eqn:N; [|discriminate].
    assert (W : wf_worker s (e, pc)) by (eapply Forall_forall; [apply I | eapply nth_error_In; eauto]).
    pose proof (fun b x => wsum_upd b k x _ _ N) as SU.
    pose proof (sum_ge busy _ _ _ N) as BG.
    destruct I as [I1 I2 I3 I4 I5 I6 I7 I8 I9].
    destruct pc; cbn in W, BG.
    + destruct (caller s) eqn:C; try discriminate. injection E as <-.
      unfold measure; cbn -[Nat.ltb]. rewrite C.
      specialize (SU (0 <? ctr (cur s))%Z (epoch s, match kind_of s with Par => WPar (cmdI s) | Srch => WSLoad end)).
      assert (cm (if S (cmdI s) <? total s then CSelect else CWait) = 1) by (destruct (_ <? _); auto).
      revert SU. destruct (kind_of s), (0 <? ctr (cur s))%Z; cbn -[Nat.ltb]; rewrite H; lia.
    + destruct W as (-> & K & Hi). local_step E. injection E as <-.
      unfold measure; cbn. specialize (SU (0 <? ctr (cur s))%Z (retag (epoch s) WParDec)). cbn in SU. lia.
    + destruct W as (-> & K). local_step E. injection E as <-.
      unfold measure; cbn.
      specialize (SU (0 <? ctr (cur s) - 1)%Z (retag (epoch s) (WNotify Par))). cbn in SU.
      pose proof (wsum_mono (0 <? ctr (cur s) - 1)%Z (0 <? ctr (cur s))%Z (workers s)) as M.
      assert (Z.to_nat (ctr (cur s) - 1) <= Z.to_nat (ctr (cur s))) by lia.
      lapply M; [lia|]. intros P; apply Z.ltb_lt in P; apply Z.ltb_lt; lia.
    + destruct W as (-> & K). local_step E. injection E as <-.
      unfold measure; cbn.
      specialize (SU (0 <? ctr (cur s))%Z (retag (epoch s) (if (0 <? ctr (cur s))%Z then WSRun else WNotify Srch))).
      revert SU; destruct (0 <? ctr (cur s))%Z; cbn; lia.
    + destruct W as (-> & K). local_step E. injection E as <-.
      unfold measure; cbn.
      specialize (SU (0 <? ctr (cur s))%Z (retag (epoch s) (match fs (epoch s) (ncalls (cur s)) with None => WSLoad | Some x => WSDec x end))).
      pose proof (fs_eventually (epoch s) (ncalls (cur s))) as FE.
      revert SU. destruct (fs (epoch s) (ncalls (cur s))); cbn.
      * lia.
      * assert (ncalls (cur s) < B (epoch s)) by (destruct (le_lt_dec (B (epoch s)) (ncalls (cur s))); auto; now apply FE in l).
        destruct (0 <? ctr (cur s))%Z; lia.
    + destruct W as (-> & K & P). local_step E. injection E as <-.
      unfold measure; cbn.
      specialize (SU (0 <? ctr (cur s) - 1)%Z (retag (epoch s) (WSWrite (ctr (cur s) - 1) x))). cbn in SU.
      pose proof (wsum_mono (0 <? ctr (cur s) - 1)%Z (0 <? ctr (cur s))%Z (workers s)) as M.
      lapply M; [|intros Q; apply Z.ltb_lt in Q; apply Z.ltb_lt; lia]. clear M; intros M.
      destruct (0 <? ctr (cur s))%Z eqn:P0.
      * apply Z.ltb_lt in P0. assert (Z.to_nat (ctr (cur s) - 1) + 1 = Z.to_nat (ctr (cur s))) by lia.
        destruct (0 <? ctr (cur s) - 1)%Z; lia.
      * apply Z.ltb_ge in P0. assert (P1 : (0 <? ctr (cur s) - 1)%Z = false) by (apply Z.ltb_ge; lia).
        rewrite P1 in *. assert (Z.to_nat (ctr (cur s) - 1) = Z.to_nat (ctr (cur s))) by lia. lia.
    + destruct W as (-> & K & P & Hi). local_step E. injection E as <-.
      assert (CTR : ctr (if (0 <=? i)%Z then mkCell (ctr (cur s)) (upd (Z.to_nat i) (Some x) (results (cur s))) (ncalls (cur s)) else cur s) = ctr (cur s))
        by (destruct (0 <=? i)%Z; auto).
      assert (NC : ncalls (if (0 <=? i)%Z then mkCell (ctr (cur s)) (upd (Z.to_nat i) (Some x) (results (cur s))) (ncalls (cur s)) else cur s) = ncalls (cur s))
        by (destruct (0 <=? i)%Z; auto).
      unfold measure; cbn -[Z.leb]. rewrite CTR, NC.
      specialize (SU (0 <? ctr (cur s))%Z (retag (epoch s) WSLoad)). cbn in SU.
      destruct (0 <? ctr (cur s))%Z; lia.
    + assert (EP : e = epoch s) by (destruct kd; tauto). subst e. rewrite Nat.eqb_refl in E.
      assert (AN : retag (epoch s) (after_notify V1 kd) = (0, WIdle)) by (destruct kd; auto). rewrite AN in E.
      specialize (SU (0 <? ctr (cur s))%Z (0, WIdle)). cbn in SU.
      destruct (caller s) eqn:C; try discriminate; injection E as <-; unfold measure; cbn; rewrite C; cbn; lia.
    + destruct W.
Qed.

Notation run1 := (run V1 fp fs).

Lemma run_app s l1 l2 : run1 s (l1 ++ l2) = run1 (run1 s l1) l2.
Proof. apply fold_left_app. Qed.

Lemma step_reachable w s g : reachable w s -> reachable w (step1 s g).
Proof. intros R. destruct (enabled1 s g) eqn:E; [now apply R_step | now rewrite disabled_step]. Qed.
Lemma run_reachable w s l : reachable w s -> reachable w (run1 s l).
Proof. revert s; induction l as [|g l IH]; intros s R; cbn; auto. apply IH, step_reachable, R. Qed.

Theorem pool_variant w s g : reachable w s -> enabled1 s g = true -> measure (step1 s g) < measure s.
Proof. intros R E. apply (measure_step s g); [apply (reachable_inv w), R | now apply enabled_step]. Qed.

(* number of schedule entries that actually execute a step *)
Fixpoint effective (s : pstate) (l : list nat) : nat :=
  match l with [] => 0 | g :: r => (if enabled1 s g then 1 else 0) + effective (step1 s g) r end.

Theorem pool_exec_bound w s l : reachable w s -> effective s l + measure (run1 s l) <= measure s.
Proof.
  revert s; induction l as [|g l IH]; intros s R; [cbn; lia|].
  cbn [effective]. change (run1 s (g :: l)) with (run1 (step1 s g) l).
  specialize (IH _ (step_reachable w s g R)). destruct (enabled1 s g) eqn:E.
  - pose proof (pool_variant w s g R E). lia.
  - rewrite disabled_step in * by auto. lia.
Qed.

Lemma run_decreases w s l g : reachable w s -> In g l -> enabled1 s g = true -> measure (run1 s l) < measure s.
Proof.
  revert s; induction l as [|a l IH]; intros s R HI E; [destruct HI|].
  change (run1 s (a :: l)) with (run1 (step1 s a) l). destruct (enabled1 s a) eqn:Ea.
  - pose proof (pool_variant w s a R Ea). pose proof (pool_exec_bound w _ l (step_reachable w s a R)). lia.
  - rewrite disabled_step by auto. destruct HI as [->|HI]; [congruence | eauto].
Qed.

Lemma run_quiescent s l : (forall g, enabled1 s g = false) -> run1 s l = s.
Proof.
  intros Q; induction l as [|g l IH]; auto.
  change (run1 s (g :: l)) with (run1 (step1 s g) l). now rewrite disabled_step.
Qed.

(* w+1 goroutines taken in turn, n rounds *)
Definition rr (w n : nat) : list nat := concat (repeat (seq 0 (S w)) n).

Theorem pool_round_robin_returns w s n : 1 <= w -> reachable w s -> measure s <= n ->
  caller (run1 s (rr w n)) = CReturn.
Proof.
  intros W. revert s; induction n as [|n IH]; intros s R M.
  - cbn. destruct (caller s) eqn:C; auto;
      (destruct (pool_progress w s W R ltac:(congruence)) as (g & _ & E);
       pose proof (pool_variant w s g R E); lia).
  - unfold rr; cbn [repeat concat]. rewrite run_app. fold (rr w n).
    assert (D : caller s = CReturn \/ caller s <> CReturn) by (destruct (caller s); auto; right; discriminate).
    destruct D as [C|C].
    + destruct (pool_idle_after w s R C) as (_ & _ & Q). rewrite (run_quiescent s _ Q), (run_quiescent s _ Q); exact C.
    + destruct (pool_progress w s W R C) as (g & G & E). apply IH; [apply run_reachable, R|].
      pose proof (run_decreases w s (seq 0 (S w)) g R ltac:(apply in_seq; lia) E). lia.
Qed.

(* ---------- V1: consecutive calls ---------- *)
Lemma step_static s g s' : step_opt1 s g = Some s' ->
  epoch s' = epoch s /\ kind_of s' = kind_of s /\ count s' = count s.
Proof.
  intros E. destruct g as [|k]; cbn [step_opt] in E.
  - unfold cstep in E. destruct (caller s); try discriminate. injection E as <-. auto.
  - unfold wstep, set_cell in E. destruct (nth_error (workers s) k) as [[e pc]|]; [|discriminate].
    destruct pc; try discriminate;
    repeat match type of E with
           | context [match ?x with _ => _ end] => destruct x; try discriminate
           end; injection E as <-; cbn; auto.
Qed.

Lemma run_static s l : epoch (run1 s l) = epoch s /\ kind_of (run1 s l) = kind_of s /\ count (run1 s l) = count s.
Proof.
  revert s; induction l as [|g l IH]; intros s; auto.
  change (run1 s (g :: l)) with (run1 (step1 s g) l).
  destruct (IH (step1 s g)) as (A & B0 & C). unfold step in *. destruct (step_opt1 s g) eqn:E; auto.
  destruct (step_static _ _ _ E) as (A' & B' & C'). repeat split; congruence.
Qed.

Theorem pool_reusable w calls : reachable w (run_calls V1 fp fs (pool_init w) calls).
Proof.
  unfold run_calls. generalize (R_init w). generalize (pool_init w).
  induction calls as [|[[kd c] sched] calls IH]; intros s R; cbn; auto.
  apply IH, run_reachable. unfold next_call. destruct (caller s) eqn:C; auto. now apply R_call.
Qed.

Theorem pool_call_returns w s kd c n : 1 <= w -> reachable w s -> caller s = CReturn ->
  measure (start_call s kd c) <= n ->
  let s' := run1 (start_call s kd c) (rr w n) in
  reachable w s' /\ caller s' = CReturn /\ epoch s' = S (epoch s) /\ kind_of s' = kd /\ count s' = c.
Proof.
  intros W R C M s'. pose proof (R_call w s kd c R C) as R'. subst s'.
  destruct (run_static (start_call s kd c) (rr w n)) as (A & B0 & C0).
  split; [now apply run_reachable|]. split; [now apply pool_round_robin_returns|]. auto.
Qed.

Theorem pool_teardown_clean w s : reachable w s -> caller s = CReturn ->
  Forall (fun wk => snd wk = WExit) (workers (teardown s)).
Proof.
  intros R C. destruct (reachable_inv _ _ R) as [I _]. pose proof (returned_idle s I C) as ID.
  cbn. apply Forall_forall. intros wk HI. apply in_map_iff in HI as (wk0 & <- & HI0).
  unfold is_idle. now rewrite (ID _ HI0).
Qed.

Theorem pool_nil_same_par w s : reachable w s -> caller s = CReturn -> kind_of s = Par ->
  results (cur s) = parallelize_alone (fp (epoch s)) (count s).
Proof. exact (pool_safety_par w s). Qed.

(* the explicit "reusable" form: after ANY history of calls that left the caller returned, the next call, under ANY
   schedule, if it has returned, returned the right result and left every worker idle *)
Theorem pool_next_call_par w calls c sched :
  let s0 := run_calls V1 fp fs (pool_init w) calls in
  let s := run1 (start_call s0 Par c) sched in
  caller s0 = CReturn -> caller s = CReturn ->
  results (cur s) = map (fun i => Some (fp (S (epoch s0)) i)) (seq 0 c) /\ all_idle s = true.
Proof.
  intros s0 s C0 C. pose proof (pool_reusable w calls) as R0. fold s0 in R0.
  assert (R : reachable w s) by (apply run_reachable, R_call; auto).
  destruct (run_static (start_call s0 Par c) sched) as (A & B0 & C1). fold s in A, B0, C1. cbn in A, B0, C1.
  split; [|apply (pool_idle_after w s R C)].
  rewrite (pool_safety_par w s R C B0). now rewrite A, C1.
Qed.

Theorem pool_next_call_srch w calls c sched : 1 <= w ->
  let s0 := run_calls V1 fp fs (pool_init w) calls in
  let s := run1 (start_call s0 Srch c) sched in
  caller s0 = CReturn -> caller s = CReturn ->
  length (results (cur s)) = c /\
  Forall (fun r => exists x n, r = Some x /\ fs (S (epoch s0)) n = Some x) (results (cur s)) /\
  all_idle s = true.
Proof.
  intros W s0 s C0 C. pose proof (pool_reusable w calls) as R0. fold s0 in R0.
  assert (R : reachable w s) by (apply run_reachable, R_call; auto).
  destruct (run_static (start_call s0 Srch c) sched) as (A & B0 & C1). fold s in A, B0, C1. cbn in A, B0, C1.
  destruct (pool_safety_srch w s W R C B0) as (L & F). rewrite A, C1 in *.
  repeat split; auto. apply (pool_idle_after w s R C).
Qed.

End V1.

(* nil pool, Search: same specification (count non-nil answers of f), sequentially *)
Lemma search_alone_spec (f : nat -> option Z) Bn : (forall n, Bn <= n -> f n <> None) ->
  forall fuel c n, (Bn - n) + c <= fuel ->
  exists r, search_alone fuel f n c = Some r /\ length r = c /\
            Forall (fun y => exists x m, y = Some x /\ f m = Some x) r.
Proof.
  intros HB. induction fuel as [|fuel IH]; intros [|c] n H; cbn; try (exists []; repeat split; auto; fail); try lia.
  destruct (f n) as [x|] eqn:F.
  - destruct (IH c (S n) ltac:(lia)) as (r & -> & L & P). exists (Some x :: r); cbn; repeat split; auto.
    constructor; eauto.
  - assert (n < Bn) by (destruct (le_lt_dec Bn n); auto; now apply HB in l).
    apply IH; lia.
Qed.

(* ---------- V0 = pool.go as it is: counter-examples, by computation ---------- *)
Lemma v0_quiescent_run fp fs s l : (forall g, enabled V0 fp fs s g = false) -> run V0 fp fs s l = s.
Proof.
  intros Q; induction l as [|g l IH]; auto.
  change (run V0 fp fs s (g :: l)) with (run V0 fp fs (step V0 fp fs s g) l).
  unfold step. specialize (Q g). unfold enabled in Q. destruct (step_opt V0 fp fs s g); [discriminate|auto].
Qed.

(* Parallelize, 1 worker, 1 task.  Schedule: command received; results[0] = f(0); ctr-- ; caller loads ctr = 0
   and returns; the worker is left at `ctrChanged <- struct{}{}` for ever.  The result is correct, the worker is lost;
   the next call on this pool blocks in its select for ever. *)
Theorem v0_worker_leak fp fs :
  let s := run V0 fp fs (start_call (pool_init 1) Par 1) [1; 1; 1; 0] in
  caller s = CReturn /\ results (cur s) = [Some (fp 1 0)] /\
  workers s = [(1, WNotify Par)] /\ existsb (blocked_forever s) (workers s) = true /\
  (forall l, run V0 fp fs s l = s) /\
  let s2 := start_call s Par 1 in
  caller s2 = CSelect /\ (forall l, run V0 fp fs s2 l = s2) /\
  workers (teardown s) = [(1, WNotify Par)].
Proof.
  cbn. repeat split; intros l; apply v0_quiescent_run; intros [|[|[|g]]]; reflexivity.
Qed.

(* Search, 1 worker, count 1, f succeeds at once.  Schedule: command; load ctr = 1; res := f(); i := ctr-- = 0;
   caller loads ctr = 0 and returns [nil]; results[0] is written only afterwards. *)
Theorem v0_search_nil fp fs x : fs 1 0 = Some x ->
  let s := run V0 fp fs (start_call (pool_init 1) Srch 1) [1; 1; 1; 1; 0] in
  caller s = CReturn /\ results (cur s) = [None] /\ workers s = [(1, WSWrite 0 x)].
Proof. intros F. cbn. unfold step; cbn. rewrite F. cbn. auto. Qed.

(* the refutations in the shape "exists witness" (for every task function / for every f that succeeds at once) *)
Theorem v0_worker_leak_refuted fp fs : exists w c sched,
  let s := run V0 fp fs (start_call (pool_init w) Par c) sched in
  caller s = CReturn /\ existsb (blocked_forever s) (workers s) = true /\
  (forall l, all_idle (run V0 fp fs s l) = false) /\
  (forall l, caller (run V0 fp fs (start_call s Par c) l) <> CReturn).
Proof.
  exists 1, 1, [1; 1; 1; 0]. destruct (v0_worker_leak fp fs) as (C & _ & W & Bf & Q & C2 & Q2 & _).
  cbv zeta. repeat split; auto.
  - intros l. rewrite Q. unfold all_idle. now rewrite W.
  - intros l. rewrite Q2, C2. discriminate.
Qed.

Theorem v0_search_nil_refuted fp : exists fs w c sched,
  (forall e n, fs e n <> None) /\
  let s := run V0 fp fs (start_call (pool_init w) Srch c) sched in
  caller s = CReturn /\ In None (results (cur s)).
Proof.
  exists (fun _ _ => Some 7%Z), 1, 1, [1; 1; 1; 1; 0]. split; [discriminate|].
  destruct (v0_search_nil fp (fun _ _ => Some 7%Z) 7%Z eq_refl) as (C & R & _).
  cbv zeta. rewrite R. split; [exact C | now left].
Qed.

(* ---------- exhaustive exploration of small instances (cross-check of model and theorems; not used in any proof) ---------- *)
From MPS Require Import Model.DispatchPool.
Lemma explore_checks :
  (* V1: no deadlock, no lost worker, no bad return; (states, terminal, deadlocked, leaked, bad) *)
  explore_pool V1 Par 2 2 2 0 1000 = (mkC 108 1 0 0 0, true) /\
  explore_pool V1 Par 3 2 1 0 1000 = (mkC 121 1 0 0 0, true) /\
  explore_pool V1 Par 2 3 1 0 1000 = (mkC 93 1 0 0 0, true) /\
  explore_pool V1 Srch 2 2 2 1 (100 * 200) = (mkC 3318 36 0 0 0, true) /\
  (* V0: lost workers after one call, deadlock in the second; Search returns nil slots *)
  explore_pool V0 Par 1 1 2 0 1000 = (mkC 21 3 1 2 0, true) /\
  explore_pool V0 Par 2 2 2 0 1000 = (mkC 143 9 1 10 0, true) /\
  explore_pool V0 Srch 1 1 1 0 1000 = (mkC 17 2 0 1 1, true) /\
  explore_pool V0 Srch 2 2 2 1 (100 * 200) = (mkC 2730 58 6 66 216, true).
Proof. vm_compute. repeat split. Qed.
