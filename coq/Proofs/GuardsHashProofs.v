(* GuardsHashProofs.v -- C19 part: Commitment.Validate / Decommitment.Validate, as translated from /repo's source on every
   run (Generated/Guards.v), are the model's commitment_valid / decommitment_valid.  See Proofs/GuardsBase.v. *)
From Coq Require Import String List Bool Arith NArith ZArith Lia.
From MPS Require Import Model.Bytes Model.Framing Model.Session Model.Handler Model.TwoParty.
From MPS Require Model.Cbor.
From MPS Require Import Generated.Params Generated.Guards Proofs.GuardsBase.
Import ListNotations.
Local Open Scope string_scope.
Local Open Scope nat_scope.
Local Open Scope list_scope.

Lemma any_nonzero_all_zero : forall c, any_nonzero c = negb (all_zero c).
Proof.
  induction c as [|b c IH]; [reflexivity|].
  unfold any_nonzero, all_zero in *. cbn [existsb forallb]. rewrite IH. destruct (b =? 0)%N; reflexivity.
Qed.

Lemma len_eqb_Z : forall (c : bytes) (k : nat), (Z.of_nat (length c) =? Z.of_nat k)%Z = (length c =? k).
Proof.
  intros c k. destruct (Nat.eqb_spec (length c) k) as [E|E].
  - rewrite E. apply Z.eqb_refl.
  - apply Z.eqb_neq. lia.
Qed.

Lemma commitment_Validate : forall c,
  geval (alookup (env_commitment c)) go_Commitment_Validate = Some (commitment_valid c).
Proof.
  intro c. unfold commitment_valid, env_commitment, go_Commitment_Validate. rewrite <- any_nonzero_all_zero.
  change go_const_hash_DigestLengthBytes with (Z.of_nat 64). rewrite len_eqb_Z. gsolve.
Qed.

Lemma decommitment_Validate : forall d,
  geval (alookup (env_decommitment d)) go_Decommitment_Validate = Some (decommitment_valid d).
Proof.
  intro d. unfold decommitment_valid, env_decommitment, go_Decommitment_Validate. rewrite <- any_nonzero_all_zero.
  change go_param_SecBytes with (Z.of_nat 32). rewrite len_eqb_Z. gsolve.
Qed.

Lemma guards_hash_translated : translated ["Commitment_Validate"; "Decommitment_Validate"] = true.
Proof. vm_compute. reflexivity. Qed.

Lemma guards_hash_lets_ok : go_Commitment_Validate_lets = [("l", "len(c)")] /\ go_Decommitment_Validate_lets = [("l", "len(d)")].
Proof. repeat split. Qed.

(* the constants the atoms compare with, as read from the source *)
Lemma guards_hash_consts : go_const_hash_DigestLengthBytes = 64%Z /\ go_param_SecBytes = 32%Z.
Proof. split; reflexivity. Qed.
