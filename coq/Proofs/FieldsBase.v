(* FieldsBase.v -- look-up machinery shared by the field-list correspondences (Proofs/ChallengesProofs.v, SessionFieldsProofs.v,
   NonceFieldsProofs.v): a table maps the source text of a written expression ("<hash> <- [condition] <expression>", as
   transcribed into Generated/Challenges.v) to the model values it stands for; [collect] looks every written expression up, in
   order, and concatenates.  Definitions only. *)
From Coq Require Import String List Bool NArith ZArith.
From MPS Require Import Model.Bytes Model.Framing.
Import ListNotations.
Local Open Scope string_scope.
Local Open Scope list_scope.

(* ---------------------------------------------------------------- lookup machinery *)

Fixpoint wlookup {A : Type} (t : list (string * A)) (k : string) : option A :=
  match t with
  | [] => None
  | (k', v) :: t' => if String.eqb k' k then Some v else wlookup t' k
  end.

(* every written expression looked up in order; None as soon as one is not in the table *)
Fixpoint collect {A : Type} (t : list (string * list A)) (ws : list string) : option (list A) :=
  match ws with
  | [] => Some []
  | w :: r => match wlookup t w, collect t r with
              | Some a, Some b => Some (a ++ b)
              | _, _ => None
              end
  end.

Fixpoint distinctb (l : list string) : bool :=
  match l with
  | [] => true
  | x :: r => negb (existsb (String.eqb x) r) && distinctb r
  end.

Definition prefix_b (p s : string) : bool := String.eqb p (substring 0 (String.length p) s).
Definition mem (s : string) (l : list string) : bool := existsb (String.eqb s) l.

Ltac tbl_solve := cbv [collect wlookup String.eqb Ascii.eqb Bool.eqb app]; reflexivity.
