(* RefVectors.v -- published test vectors reproduced by the Gallina reference code, by computation
   inside Coq.  (Full 256-bit scalar multiplications take ~25 s each with inductive Z under vm_compute;
   they are tested through the extracted code instead: BIP-340 vectors 0-18, BIP-32 vector 1, RFC 4231,
   differential runs against Go's standard library and decred/secp256k1.) *)
From Coq Require Import String.
From Coq Require Import List NArith ZArith Bool.
From MPS Require Import Model.Bytes Model.Sx Model.Sha Model.Secp256k1 Model.RefSig.
Import ListNotations.

(* the computation is run once, by the kernel's VM conversion at Qed *)
Ltac by_vm := match goal with |- ?a = ?b => vm_cast_no_check (@eq_refl _ b) end.

(* ---- FIPS 180-4 / NIST example vectors ---- *)
Example sha256_abc :
  sha256 (bytes_of_string "abc")
  = hexs "ba7816bf8f01cfea414140de5dae2223b00361a396177a9cb410ff61f20015ad".
Proof. by_vm. Qed.

Example sha256_empty :
  sha256 [] = hexs "e3b0c44298fc1c149afbf4c8996fb92427ae41e4649b934ca495991b7852b855".
Proof. by_vm. Qed.

(* 56 bytes: the padding spills into a second block *)
Example sha256_two_blocks :
  sha256 (bytes_of_string "abcdbcdecdefdefgefghfghighijhijkijkljklmklmnlmnomnopnopq")
  = hexs "248d6a61d20638b8e5c026930c3e6039a33ce45964ff2167f6ecedd419db06c1".
Proof. by_vm. Qed.

Example sha512_abc :
  sha512 (bytes_of_string "abc")
  = hexs ("ddaf35a193617abacc417349ae20413112e6fa4e89a97ea20a9eeee64b55d39a"
          ++ "2192992a274fc1a836ba3c23a3feebbd454d4423643ce80e2a9ac94fa54ca49f").
Proof. by_vm. Qed.

Example sha512_empty :
  sha512 []
  = hexs ("cf83e1357eefb8bdf1542850d66d8007d620e4050b5715dc83f4a921d36ce9ce"
          ++ "47d0d13c5d85f2b0ff8318d2877eec2f63b931bd47417a81a538327af927da3e").
Proof. by_vm. Qed.

(* 112 bytes: two blocks *)
Example sha512_two_blocks :
  sha512 (bytes_of_string
    "abcdefghbcdefghicdefghijdefghijkefghijklfghijklmghijklmnhijklmnoijklmnopjklmnopqklmnopqrlmnopqrsmnopqrstnopqrstu")
  = hexs ("8e959b75dae313da8cf4f72814fc143f8f7779c6eb9f7fa17299aeadb6889018"
          ++ "501d289e4900f7e4331b99dec4b5433ac7d329eeb6dd26545e96e55b874be909").
Proof. by_vm. Qed.

(* ---- RFC 4231 ---- *)
Definition rfc4231_key1 : bytes := hexs "0b0b0b0b0b0b0b0b0b0b0b0b0b0b0b0b0b0b0b0b".
Definition rfc4231_data1 : bytes := bytes_of_string "Hi There".
Definition rfc4231_key2 : bytes := bytes_of_string "Jefe".
Definition rfc4231_data2 : bytes := bytes_of_string "what do ya want for nothing?".

Example hmac_sha512_rfc4231_1 :
  hmac_sha512 rfc4231_key1 rfc4231_data1
  = hexs ("87aa7cdea5ef619d4ff0b4241a1d6cb02379f4e2ce4ec2787ad0b30545e17cde"
          ++ "daa833b7d6b8a702038b274eaea3f4e4be9d914eeb61f1702e696c203a126854").
Proof. by_vm. Qed.

Example hmac_sha512_rfc4231_2 :
  hmac_sha512 rfc4231_key2 rfc4231_data2
  = hexs ("164b7a7bfcf819e2e395fbe73b56e0a387bd64222e831fd610270cd7ea250554"
          ++ "9758bf75c05a994a6d034f65f8f0e6fdcaeab1a34d4a6b4b636e070a38bce737").
Proof. by_vm. Qed.

Example hmac_sha256_rfc4231_1 :
  hmac_sha256 rfc4231_key1 rfc4231_data1
  = hexs "b0344c61d8db38535ca8afceaf0bf12b881dc200c9833da726e9376c2e32cff7".
Proof. by_vm. Qed.

Example hmac_sha256_rfc4231_2 :
  hmac_sha256 rfc4231_key2 rfc4231_data2
  = hexs "5bdcc146bf60754e6a042426089575c75a003f089d2739839dec58b964ec3843".
Proof. by_vm. Qed.

(* test case 6: 131-byte key, longer than the block of SHA-256 and of SHA-512: the key is hashed first *)
Example hmac_sha512_rfc4231_6 :
  hmac_sha512 (repeat 170%N 131) (bytes_of_string "Test Using Larger Than Block-Size Key - Hash Key First")
  = hexs ("80b24263c7c1a3ebb71493c1dd7be8b49b46d1f41b4aeec1121b013783f8f352"
          ++ "6b56d037e05f2598bd0fd2215d6a1e5295e64f73f63f0aec8b915a985d786598").
Proof. by_vm. Qed.

(* ---- secp256k1 ---- *)
Open Scope Z_scope.

Example G_on_curve : on_curve secp_G = true.
Proof. by_vm. Qed.

Example infinity_on_curve : on_curve infinity = true.
Proof. reflexivity. Qed.

Example off_curve_rejected : on_curve (Some (secp_Gx, secp_Gy + 1)) = false.
Proof. by_vm. Qed.

Definition G2 : point :=
  Some (0xC6047F9441ED7D6D3045406E95C07CD85C778E4B8CEF3CA7ABAC09B95C709EE5,
        0x1AE168FEA63DC339A3C58419466CEAEEF7F632653266D0E1236431A950CFE52A).
Definition G3 : point :=
  Some (0xF9308A019258C31049344F85F89D5229B531C845836F99B08601F113BCE036F9,
        0x388F7B0F632DE8140FE337E62A37F3566500A99934C2231B6CB9FD7584B8E672).

Example two_G_affine : pt_add secp_G secp_G = G2.
Proof. by_vm. Qed.
Example three_G_affine : pt_add G2 secp_G = G3.
Proof. by_vm. Qed.
Example two_G_jacobian : pt_mul 2 secp_G = G2.
Proof. by_vm. Qed.
Example three_G_jacobian : pt_mul 3 secp_G = G3.
Proof. by_vm. Qed.
Example three_G_base_mul : base_mul 3 = G3.
Proof. by_vm. Qed.
Example minus_G : pt_mul (-1) secp_G = pt_neg secp_G.
Proof. by_vm. Qed.
Example G_minus_G : pt_add secp_G (pt_neg secp_G) = infinity.
Proof. by_vm. Qed.
(* Jacobian double-and-add against the affine-only double-and-add on a 10-bit scalar *)
Example jacobian_vs_affine : pt_mul 1003 secp_G = pt_mul_affine 1003 secp_G.
Proof. by_vm. Qed.
Example G2_G3_on_curve : on_curve G2 && on_curve G3 = true.
Proof. by_vm. Qed.

Example compress_G :
  compress secp_G = Some (hexs "0279be667ef9dcbbac55a06295ce870b07029bfcdb2dce28d959f2815b16f81798").
Proof. by_vm. Qed.
Example decompress_compress_G :
  match compress secp_G with Some b => decompress b | None => None end = Some secp_G.
Proof. by_vm. Qed.
Example decompress_compress_neg_G :
  match compress (pt_neg secp_G) with Some b => decompress b | None => None end = Some (pt_neg secp_G).
Proof. by_vm. Qed.
(* strictness: a prefix other than 02/03 is refused (pkg/math/curve reads anything other than 03 as "even") *)
Example decompress_bad_prefix :
  decompress (hexs "0479be667ef9dcbbac55a06295ce870b07029bfcdb2dce28d959f2815b16f81798") = None.
Proof. by_vm. Qed.
Example decompress_x_not_below_p :
  decompress (hexs "02fffffffffffffffffffffffffffffffffffffffffffffffffffffffefffffc2f") = None.
Proof. by_vm. Qed.
Example compress_infinity : compress infinity = None.
Proof. reflexivity. Qed.
Example lift_x_G : lift_x secp_Gx = Some secp_G.
Proof. by_vm. Qed.

(* modular inverse (extended Euclid) against Fermat's little theorem on the two moduli *)
Example modinv_p : (secp_Gx * modinv secp_Gx secp_p) mod secp_p = 1
                   /\ modinv secp_Gx secp_p = powmod secp_Gx (secp_p - 2) secp_p.
Proof. split; by_vm. Qed.
Example modinv_q : (secp_Gx * modinv secp_Gx secp_q) mod secp_q = 1.
Proof. by_vm. Qed.

(* ---- BIP-340 / hash to scalar ---- *)
(* public key of test vector 0 (secret key 3) *)
Example bip340_pubkey_vector0 :
  bip340_pubkey (be_bytes 32 3)
  = Some (hexs "f9308a019258c31049344f85f89d5229b531c845836f99b08601f113bce036f9").
Proof. by_vm. Qed.
Example bip340_pubkey_zero : bip340_pubkey (be_bytes 32 0) = None.
Proof. by_vm. Qed.
Example bip340_pubkey_order : bip340_pubkey (be_bytes 32 (Z.to_N secp_q)) = None.
Proof. by_vm. Qed.
(* wrong lengths are refused before any arithmetic *)
Example bip340_verify_lengths :
  bip340_verify (repeat 1%N 31) [] (repeat 1%N 64) = false
  /\ bip340_verify (repeat 1%N 32) [] (repeat 1%N 63) = false
  /\ bip340_verify (repeat 1%N 32) [] (repeat 1%N 65) = false.
Proof. repeat split; by_vm. Qed.

Example from_hash_short : from_hash (hexs "010203") = 0x010203.
Proof. by_vm. Qed.
Example from_hash_long_truncates :
  from_hash (repeat 255%N 32 ++ hexs "0102") = (2 ^ 256 - 1) mod secp_q.
Proof. by_vm. Qed.
Example from_hash_empty : from_hash [] = 0.
Proof. by_vm. Qed.
