(* StartGuardsBase.v -- environments for the start-time guards translated from /repo's source on every run
   (Generated/Validators.v, written by verifgen/gen_validate.go): config.ValidThreshold, Config.CanSign, Config.ValidateBasic, and
   every public start function of protocols/cmp, protocols/frost, protocols/doerner together with the session constructors
   they delegate to (keygen.Start, sign.StartSign, presign.StartPresign / StartPresignOnline, frost keygen.StartKeygenCommon,
   sign.StartSignCommon, doerner keygen.StartKeygen, sign.StartSignReceiver / StartSignSender).

   An environment maps every atom to the corresponding boolean of Model/StartGuards.v / Model/Session.v, or to [None] when
   the atom must not be evaluated (a nil config would be dereferenced, `helper` after a failed NewSession, ...).
   A DELEGATION atom -- the text of the call `keygen.Start(info, pl, config)` -- is read as the evaluation of the TRANSLATED
   callee under the callee's environment for the arguments named in the call, so the theorem about an entry point composes
   the source of both functions.  What a function hands to NewSession is read off its round.Info literal (go_<f>_lits;
   [session_info] below) and stated as an obligation next to each theorem.
   `err != nil` after round.NewSession is read as "the parameter checks of NewSession refuse" (new_session_ok, proved equal
   to the translated NewSession prefix in Properties/C20_guards.v); the hash writes after them fail only for writer errors.
   Definitions only. *)
From Coq Require Import String List Bool Arith NArith ZArith.
From MPS Require Import Model.Bytes Model.Session Model.StartGuards.
From MPS Require Import Generated.Params Generated.Guards Generated.Validators Proofs.GuardsBase.
Import ListNotations.
Local Open Scope string_scope.
Local Open Scope Z_scope.

Definition strans (names : list string) : bool :=
  forallb (fun n => negb (existsb (String.eqb n) validators_untranslatable_names) && existsb (String.eqb n) (map fst go_validators)) names.

(* value only when [c] holds (the pointer that the atom dereferences is not nil) *)
Definition when (c : bool) (v : bool) : option bool := if c then Some v else None.

(* ---------------------------------------------------------------- composite literals *)

Definition lits := list (string * list (string * string)).
Fixpoint assoc (k : string) (l : list (string * string)) : option string :=
  match l with [] => None | (a, b) :: l' => if String.eqb a k then Some b else assoc k l' end.
Fixpoint lit_of (ty : string) (l : lits) : option (list (string * string)) :=
  match l with [] => None | (a, b) :: l' => if String.eqb a ty then Some b else lit_of ty l' end.
Definition lit_field (l : lits) (ty field : string) : option string :=
  match lit_of ty l with Some fs => assoc field fs | None => None end.
(* (SelfID, PartyIDs, Threshold, Group) of the round.Info literal *)
Definition session_info (l : lits) : option string * option string * option string * option string :=
  (lit_field l "round.Info" "SelfID", lit_field l "round.Info" "PartyIDs", lit_field l "round.Info" "Threshold", lit_field l "round.Info" "Group").
Definition count_lits (ty : string) (l : lits) : nat := length (filter (fun e => String.eqb (fst e) ty) l).

(* ---------------------------------------------------------------- traces *)

(* the trace begins with these entries *)
Fixpoint list_eqb (a b : list string) : bool :=
  match a, b with
  | [], [] => true
  | x :: a', y :: b' => String.eqb x y && list_eqb a' b'
  | _, _ => false
  end.
Definition starts_with (expected trace : list string) : bool := list_eqb expected (firstn (length expected) trace).

(* ---------------------------------------------------------------- config.ValidThreshold, Config.CanSign *)

Definition env_valid_threshold (t : Z) (n : nat) : aenv :=
  [ ("t < 0", Some (t <? 0)); ("t > math.MaxUint32", Some (max_uint32 <? t));
    ("n <= 0", Some (Z.of_nat n <=? 0)); ("t > n-1", Some (Z.of_nat n - 1 <? t)) ].

(* Contains is a binary search: meaningful on a valid (strictly sorted) slice only *)
Definition env_can_sign (t : Z) (self : bytes) (holders signers : list bytes) : aenv :=
  [ ("ValidThreshold(c.Threshold, len(signers))", Some (valid_threshold t (length signers)));
    ("signers.Valid()", Some (ids_valid signers));
    ("signers.Contains(c.ID)", when (ids_valid signers) (ids_contains signers self));
    ("any j in signers: (!ok where _, ok := c.Public[j])", Some (existsb (fun j => negb (ids_contains holders j)) signers)) ].

(* ---------------------------------------------------------------- Config.ValidateBasic *)

Definition pub_incomplete (e : bytes * pub_view) : bool :=
  let p := snd e in
  negb (pv_entry p) || negb (pv_ecdsa p) || negb (pv_elgamal p) || negb (pv_paillier p) || negb (pv_pedersen p).

Definition env_cmp_basic (v : cmp_view) : aenv :=
  let p := cv_present v in
  [ ("c == nil", Some (negb p));
    ("c.Group == nil", when p (negb (is_present (cv_group v))));
    ("c.ECDSA == nil", when p (negb (cv_ecdsa v))); ("c.ElGamal == nil", when p (negb (cv_elgamal v)));
    ("c.Paillier == nil", when p (negb (cv_paillier v)));
    ("ValidThreshold(c.Threshold, len(c.Public))", when p (valid_threshold (cv_thr v) (length (cv_public v))));
    ("ok where _, ok := c.Public[c.ID]", when p (has_key (cv_id v) (cv_public v)));
    ("any id, public in c.Public: public == nil || public.ECDSA == nil || public.ElGamal == nil || public.Paillier == nil || public.Pedersen == nil",
       when p (existsb pub_incomplete (cv_public v))) ].

(* ---------------------------------------------------------------- cmp: keygen.Start, cmp.Keygen, cmp.Refresh *)

(* keygen.Start(info, pl, c): [c] = None is a nil config; (grp, ids, self, t) = the fields of info *)
Definition env_cmp_keygen_Start (c : option cmp_view) (grp : option bytes) (ids : list bytes) (self : bytes) (t : Z) : aenv :=
  [ ("c == nil", Some (is_none c)); ("c != nil", Some (is_some c));
    ("err != nil where err = c.ValidateBasic()", match c with Some v => Some (negb (cmp_validate_basic v)) | None => None end);
    ("err != nil", Some (negb (sess_ok grp ids self t))) ].

Definition env_cmp_Keygen (grp : option bytes) (ids : list bytes) (self : bytes) (t : Z) : aenv :=
  [ ("keygen.Start(info, pl, nil)", geval (alookup (env_cmp_keygen_Start None grp ids self t)) go_cmp_keygen_Start) ].

(* a *Config argument as an optional view *)
Definition cmp_arg (v : cmp_view) : option cmp_view := if cv_present v then Some v else None.

(* info = {SelfID: config.ID, PartyIDs: config.PartyIDs(), Threshold: config.Threshold, Group: config.Group}: config is
   dereferenced when the literal is built *)
Definition env_cmp_Refresh (v : cmp_view) : aenv :=
  [ ("err != nil where err := config.ValidateBasic()", Some (negb (cmp_validate_basic v)));
    ("keygen.Start(info, pl, config)",
       if cv_present v
       then geval (alookup (env_cmp_keygen_Start (cmp_arg v) (cv_group v) (cmp_holders v) (cv_id v) (cv_thr v))) go_cmp_keygen_Start
       else None) ].

(* ---------------------------------------------------------------- cmp: sign.StartSign, presign.StartPresign, StartPresignOnline *)

(* info = {SelfID: config.ID, PartyIDs: signers, Threshold: config.Threshold, Group: config.Group}; helper exists once
   NewSession has succeeded; helper.PartyIDs() is the sorted signer list *)
Definition env_cmp_StartSign (v : cmp_view) (signers : list bytes) (msg_len : nat) : aenv :=
  let p := cv_present v in
  let so := sess_ok (cv_group v) signers (cv_id v) (cv_thr v) in
  let cs := can_sign (cv_thr v) (cv_id v) (cmp_holders v) (sort_ids signers) in
  [ ("c == nil", Some (negb p));
    ("err != nil where err := config.ValidateBasic()", Some (negb (cmp_validate_basic v)));
    ("err != nil where err := c.ValidateBasic()", Some (negb (cmp_validate_basic v)));
    ("len(message) == 0", Some (Nat.eqb msg_len 0));
    ("err != nil", when p (negb so));
    ("config.CanSign(helper.PartyIDs())", when (p && so) cs);
    ("c.CanSign(helper.PartyIDs())", when (p && so) cs) ].

Definition env_cmp_Sign (v : cmp_view) (signers : list bytes) (msg_len : nat) : aenv :=
  [ ("sign.StartSign(config, signers, messageHash, pl)", geval (alookup (env_cmp_StartSign v signers msg_len)) go_cmp_sign_StartSign) ].
(* the message argument of StartPresign is nil: it only selects the protocol id *)
Definition env_cmp_Presign (v : cmp_view) (signers : list bytes) : aenv :=
  [ ("presign.StartPresign(config, signers, nil, pl)", geval (alookup (env_cmp_StartSign v signers 0)) go_cmp_presign_StartPresign) ].

(* signers := preSignature.SignerIDs() (sorted); info.PartyIDs = signers *)
Definition env_cmp_StartPresignOnline (v : cmp_view) (pre_present pre_valid : bool) (pre_signers : list bytes) (msg_len : nat) : aenv :=
  let p := cv_present v in
  let sg := sort_ids pre_signers in
  [ ("c == nil", Some (negb p)); ("preSignature == nil", Some (negb pre_present));
    ("err != nil where err := c.ValidateBasic()", Some (negb (cmp_validate_basic v)));
    ("len(message) == 0", Some (Nat.eqb msg_len 0));
    ("err != nil where err := preSignature.Validate()", Some (negb (pre_present && pre_valid)));
    ("c.CanSign(signers)", when (p && pre_present && pre_valid) (can_sign (cv_thr v) (cv_id v) (cmp_holders v) sg));
    ("err != nil", when (p && pre_present) (negb (sess_ok (cv_group v) sg (cv_id v) (cv_thr v)))) ].

Definition env_cmp_PresignOnline (v : cmp_view) (pre_present pre_valid : bool) (pre_signers : list bytes) (msg_len : nat) : aenv :=
  [ ("presign.StartPresignOnline(config, preSignature, messageHash, pl)",
       geval (alookup (env_cmp_StartPresignOnline v pre_present pre_valid pre_signers msg_len)) go_cmp_presign_StartPresignOnline) ].

(* ---------------------------------------------------------------- frost *)

(* sameParties(participants, holders, isHolder) *)
Definition env_sameParties (ids : list bytes) (holders : nat) (is_holder : bytes -> bool) : aenv :=
  [ ("len(participants) != holders", Some (negb (Nat.eqb (length ids) holders)));
    ("any id in participants: !isHolder(id)", Some (existsb (fun id => negb (is_holder id)) ids)) ].

(* keygen.StartKeygenCommon(taproot, group, participants, threshold, selfID, ...): info from these parameters *)
Definition env_frost_StartKeygenCommon (grp : option bytes) (ids : list bytes) (self : bytes) (t : Z) : aenv :=
  [ ("err != nil", Some (negb (sess_ok grp ids self t))) ].

Definition env_frost_Keygen (grp : option bytes) (ids : list bytes) (self : bytes) (t : Z) : aenv :=
  let inner := geval (alookup (env_frost_StartKeygenCommon grp ids self t)) go_frost_keygen_StartKeygenCommon in
  [ ("keygen.StartKeygenCommon(false, group, participants, threshold, selfID, nil, nil, nil)", inner) ].
Definition env_frost_KeygenTaproot (ids : list bytes) (self : bytes) (t : Z) : aenv :=
  let inner := geval (alookup (env_frost_StartKeygenCommon (Some secp256k1_name) ids self t)) go_frost_keygen_StartKeygenCommon in
  [ ("keygen.StartKeygenCommon(true, curve.Secp256k1{}, participants, threshold, selfID, nil, nil, nil)", inner) ].

(* sign.StartSignCommon(taproot, result, signers, messageHash): info = {SelfID: result.ID, PartyIDs: signers,
   Threshold: result.Threshold, Group: result.PublicKey.Curve()} *)
Definition env_frost_StartSignCommon (grp : bytes) (v : frost_view) (signers : list bytes) (msg_len : nat) : aenv :=
  let p := fv_present v in
  [ ("result == nil", Some (negb p));
    ("result.PrivateShare == nil", when p (negb (fv_share v)));
    ("result.PublicKey == nil", when p (negb (fv_public v)));
    ("result.VerificationShares == nil", when p (negb (is_present (fv_shares v))));
    ("len(messageHash) == 0", Some (Nat.eqb msg_len 0));
    ("any id in signers: (!ok || share == nil where share, ok := result.VerificationShares.Points[id])",
       when (p && is_present (fv_shares v)) (existsb (fun id => negb (frost_holder v id)) signers));
    ("err != nil", when (p && fv_public v) (negb (sess_ok (Some grp) signers (fv_id v) (fv_thr v)))) ].

Definition env_frost_Sign (grp : bytes) (v : frost_view) (signers : list bytes) (msg_len : nat) : aenv :=
  [ ("sign.StartSignCommon(false, config, signers, messageHash)",
       geval (alookup (env_frost_StartSignCommon grp v signers msg_len)) go_frost_sign_StartSignCommon) ].

(* frost.Refresh: the closure handed to sameParties is `ok && share != nil` on config.VerificationShares.Points = frost_holder *)
Definition env_frost_Refresh (grp : bytes) (v : frost_view) (ids : list bytes) : aenv :=
  let p := fv_present v in
  let full := frost_complete v in
  [ ("config == nil", Some (negb p));
    ("config.PrivateShare == nil", when p (negb (fv_share v)));
    ("config.PublicKey == nil", when p (negb (fv_public v)));
    ("config.VerificationShares == nil", when p (negb (is_present (fv_shares v))));
    ("sameParties(participants, len(config.VerificationShares.Points), func(id party.ID) bool { share, ok := config.VerificationShares.Points[id] return ok && share != nil })",
       if full then geval (alookup (env_sameParties ids (length (frost_entries v)) (frost_holder v))) go_frost_sameParties else None);
    ("keygen.StartKeygenCommon(false, config.Curve(), participants, config.Threshold, config.ID, config.PrivateShare, config.PublicKey, config.VerificationShares.Points)",
       if full then geval (alookup (env_frost_StartKeygenCommon (Some grp) ids (fv_id v) (fv_thr v))) go_frost_keygen_StartKeygenCommon else None) ].

(* frost.RefreshTaproot / SignTaproot: VerificationShares is a plain map (nil = no entries, may be read) *)
Definition env_frost_RefreshTaproot (v : taproot_view) (ids : list bytes) : aenv :=
  let p := tv_present v in
  let g := taproot_generic v in
  [ ("config == nil", Some (negb p));
    ("config.PrivateShare == nil", when p (negb (tv_share v)));
    ("len(config.PublicKey) != 32", when p (negb (Nat.eqb (tv_pk_len v) 32)));
    ("config.VerificationShares == nil", when p (negb (is_present (tv_shares v))));
    ("sameParties(participants, len(config.VerificationShares), func(id party.ID) bool { share, ok := config.VerificationShares[id] return ok && share != nil })",
       if p then geval (alookup (env_sameParties ids (length (taproot_entries v)) (frost_holder g))) go_frost_sameParties else None);
    ("err != nil", when p (negb (tv_liftable v)));
    ("keygen.StartKeygenCommon(true, curve.Secp256k1{}, participants, config.Threshold, config.ID, config.PrivateShare, publicKey, verificationShares)",
       if p then geval (alookup (env_frost_StartKeygenCommon (Some secp256k1_name) ids (tv_id v) (tv_thr v))) go_frost_keygen_StartKeygenCommon else None) ].

(* normalResult = &keygen.Config{ID: config.ID, Threshold: config.Threshold, PrivateShare: config.PrivateShare, PublicKey: publicKey,
   VerificationShares: party.NewPointMap(genericVerificationShares)} = taproot_generic (go_frost_SignTaproot_lits is the obligation) *)
Definition env_frost_SignTaproot (v : taproot_view) (signers : list bytes) (msg_len : nat) : aenv :=
  let p := tv_present v in
  [ ("config == nil", Some (negb p));
    ("config.PrivateShare == nil", when p (negb (tv_share v)));
    ("len(config.PublicKey) != 32", when p (negb (Nat.eqb (tv_pk_len v) 32)));
    ("config.VerificationShares == nil", when p (negb (is_present (tv_shares v))));
    ("err != nil", when p (negb (tv_liftable v)));
    ("any k, v in config.VerificationShares: v == nil [genericVerificationShares[k] = v]",
       when p (existsb (fun e => negb (snd e)) (taproot_entries v)));
    ("sign.StartSignCommon(true, normalResult, signers, messageHash)",
       if p then geval (alookup (env_frost_StartSignCommon secp256k1_name (taproot_generic v) signers msg_len)) go_frost_sign_StartSignCommon
       else None) ].

(* ---------------------------------------------------------------- doerner *)

(* keygen.StartKeygen(group, receiver, selfID, otherID, ...) / sign.StartSign*(config, selfID, otherID, ...):
   info = {SelfID: selfID, PartyIDs: party.NewIDSlice([]party.ID{selfID, otherID}), Threshold: 1, Group: group | config.Group()} *)
Definition env_doerner_session (receiver : bool) (grp : option bytes) (self other : bytes) : aenv :=
  [ ("err != nil", Some (negb (doerner_pair_ok grp self other))); ("receiver", Some receiver) ].

Definition env_doerner_Keygen (receiver : bool) (grp : option bytes) (self other : bytes) : aenv :=
  [ ("keygen.StartKeygen(group, receiver, selfID, otherID, nil, nil, pl)",
       geval (alookup (env_doerner_session receiver grp self other)) go_doerner_keygen_StartKeygen) ].

Definition env_doerner_guards (v : doerner_view) : aenv :=
  let p := dv_present v in
  [ ("config == nil", Some (negb p));
    ("config.Setup == nil", when p (negb (dv_setup v)));
    ("config.SecretShare == nil", when p (negb (dv_share v)));
    ("config.Public == nil", when p (negb (dv_public v)));
    ("config.SecretShare.IsZero()", when (p && dv_share v) (dv_share_zero v));
    ("config.Public.IsIdentity()", when (p && dv_public v) (dv_public_identity v)) ].

(* config.Group() dereferences config.Public *)
Definition env_doerner_Refresh (grp : bytes) (v : doerner_view) (self other : bytes) : aenv :=
  let ok := dv_present v && dv_public v in
  (env_doerner_guards v ++
  [ ("keygen.StartKeygen(config.Group(), true, selfID, otherID, config.SecretShare, config.Public, pl)",
       if ok then geval (alookup (env_doerner_session true (Some grp) self other)) go_doerner_keygen_StartKeygen else None);
    ("keygen.StartKeygen(config.Group(), false, selfID, otherID, config.SecretShare, config.Public, pl)",
       if ok then geval (alookup (env_doerner_session false (Some grp) self other)) go_doerner_keygen_StartKeygen else None) ])%list.

Definition env_doerner_Sign (grp : bytes) (v : doerner_view) (self other : bytes) (msg_len : nat) : aenv :=
  let ok := dv_present v && dv_public v in
  (env_doerner_guards v ++
  [ ("len(hash) == 0", Some (Nat.eqb msg_len 0));
    ("sign.StartSignReceiver(config, selfID, otherID, hash, pl)",
       if ok then geval (alookup (env_doerner_session true (Some grp) self other)) go_doerner_sign_StartSignReceiver else None);
    ("sign.StartSignSender(config, selfID, otherID, hash, pl)",
       if ok then geval (alookup (env_doerner_session false (Some grp) self other)) go_doerner_sign_StartSignSender else None) ])%list.

(* ---------------------------------------------------------------- example.StartXOR *)

(* info = {SelfID: selfID, PartyIDs: partyIDs}: Threshold 0, Group nil *)
Definition env_xor (ids : list bytes) (self : bytes) : aenv := [ ("err != nil", Some (negb (sess_ok None ids self 0))) ].
