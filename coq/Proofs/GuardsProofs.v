(* GuardsProofs.v -- C07 part: the accept / duplicate / addressing / advance logic of both handlers, as translated from
   /repo's source on every run (Generated/Guards.v), equals the model functions.  See Proofs/GuardsBase.v. *)
From Coq Require Import String List Bool Arith NArith ZArith Lia.
From MPS Require Import Model.Bytes Model.Framing Model.Session Model.Handler Model.TwoParty.
From MPS Require Model.Cbor.
From MPS Require Import Generated.Params Generated.Guards Proofs.GuardsBase.
Import ListNotations.
Local Open Scope string_scope.
Local Open Scope nat_scope.
Local Open Scope list_scope.

Lemma mh_canAccept : forall s om,
  geval (alookup (env_mh s om)) go_MultiHandler_canAccept
  = Some (match om with Some m => can_accept s m | None => false end).
Proof.
  intros s [m|]; [|vm_compute; reflexivity].
  unfold can_accept, env_mh, go_MultiHandler_canAccept. rewrite (Nat.leb_antisym (sh_final (h_shape s)) (m_round m)).
  gsolve.
Qed.

Lemma mh_accept_guard : forall s om,
  geval (alookup (env_mh s om)) go_MultiHandler_Accept_guard = Some (mh_accept_guard_model s om).
Proof.
  intros s [m|]; unfold mh_accept_guard_model, env_mh, go_MultiHandler_Accept_guard; gsolve.
Qed.

(* the guard is exactly the test under which the body of the model's accept returns the state unchanged; the body
   runs under the deferred recover (third entry of the translated preamble, C17_guards_preambles) *)
Lemma mh_accept_guard_is_models : forall vh ofp s m,
  accept vh ofp s m =
  match h_rt s with
  | Running =>
      recover_abort
        (if mh_accept_guard_model s (Some m) then s
         else if m_round m =? 0 then abort s (Some ([m_from m], EAbortNotice))
         else let s1 := store s m in
              if negb (h_cur s1 =? m_round m) then s1
              else match (if m_bcast m then verify_bcast s1 m else verify_p2p s1 m) with
                   | VOk => finalize vh ofp (fuel_of s1) s1
                   | VBad => abort s1 (Some ([m_from m], EVerify))
                   | VHash => abort s1 (Some ([], EBroadcastHash))
                   | VPanic => raise_panic s1
                   end)
  | _ => s
  end.
Proof.
  intros. unfold accept, accept_body, mh_accept_guard_model, is_some. destruct (h_rt s), (h_err s); reflexivity.
Qed.

Lemma mh_accept_early_return : forall vh ofp s m,
  geval (alookup (env_mh s (Some m))) go_MultiHandler_Accept_guard = Some true -> accept vh ofp s m = s.
Proof.
  intros vh ofp s m H.
  assert (G : mh_accept_guard_model s (Some m) = true) by (rewrite mh_accept_guard in H; congruence).
  rewrite mh_accept_guard_is_models, G. destruct (h_rt s) eqn:Hr; try reflexivity.
  unfold recover_abort. rewrite Hr. reflexivity.
Qed.

Lemma mh_duplicate : forall s m,
  geval (alookup (env_mh s (Some m))) go_MultiHandler_duplicate = Some (duplicate s m).
Proof.
  intros s m. unfold env_mh, go_MultiHandler_duplicate, duplicate, queue_of. gsolve.
Qed.

Lemma mh_sameBroadcastView : forall s m,
  geval (alookup (env_mh s (Some m))) go_MultiHandler_sameBroadcastView = Some (same_view s m).
Proof.
  intros s m. unfold same_view, env_mh, go_MultiHandler_sameBroadcastView. gsolve.
Qed.

Lemma mh_expectsNormalMessage : forall sh r,
  geval (alookup (env_round sh r)) go_expectsNormalMessage = Some (expects_p2p sh r).
Proof. intros. reflexivity. Qed.

(* received_all reads the p2p queue exactly when expectsNormalMessage holds (and the round has a queue) *)
Lemma received_all_uses_expects : forall vh s,
  sh_bcast (h_shape s) (h_cur s) = false -> expects_p2p (h_shape s) (h_cur s) = false ->
  fst (received_all vh s) = true.
Proof.
  intros vh s Hb He. unfold received_all, expects_p2p in *. rewrite Hb. cbn.
  destruct (sh_p2p (h_shape s) (h_cur s)); try discriminate; reflexivity.
Qed.

Lemma msg_IsFor : forall self m, geval (alookup (env_isfor self m)) go_Message_IsFor = Some (is_for self m).
Proof.
  intros self m. unfold is_for, env_isfor, go_Message_IsFor. gsolve.
Qed.

Lemma tp_canAccept : forall s om,
  geval (alookup (env_tp s om)) go_TwoPartyHandler_canAccept
  = Some (match om with Some m => tp_can_accept s m | None => false end).
Proof.
  intros s [m|]; [|vm_compute; reflexivity].
  unfold tp_can_accept, env_tp, go_TwoPartyHandler_canAccept. rewrite (Nat.leb_antisym (ts_final (t_shape s)) (m_round m)).
  gsolve.
Qed.

Lemma tp_terminal_is : forall s, tp_terminal s = is_some (t_err s) || t_res s.
Proof. reflexivity. Qed.

Lemma tp_accept_guard : forall s om,
  geval (alookup (env_tp s om)) go_TwoPartyHandler_Accept_guard = Some (tp_accept_guard_model s om).
Proof.
  intros s om. unfold tp_accept_guard_model. rewrite tp_terminal_is. unfold env_tp, go_TwoPartyHandler_Accept_guard.
  destruct om; gsolve.
Qed.

Lemma tp_recover_running : forall s, t_rt s = Running -> tp_recover s = s.
Proof. intros s R. unfold tp_recover. rewrite R. reflexivity. Qed.

Lemma tp_accept_early_return : forall s m,
  geval (alookup (env_tp s (Some m))) go_TwoPartyHandler_Accept_guard = Some true -> tp_accept s m = s.
Proof.
  intros s m H.
  assert (G : negb (tp_can_accept s m) || tp_terminal s = true) by (rewrite tp_accept_guard in H; unfold tp_accept_guard_model in H; congruence).
  unfold tp_accept. destruct (t_rt s) eqn:R; try reflexivity. rewrite G. apply tp_recover_running, R.
Qed.

Lemma tp_canAdvance : forall s om,
  geval (alookup (env_tp s om)) go_TwoPartyHandler_canAdvance = Some (tp_can_advance s).
Proof.
  intros s om. unfold tp_can_advance, env_tp, go_TwoPartyHandler_canAdvance. destruct om; gsolve.
Qed.

(* ---------------------------------------------------------------- obligations on the generated file itself *)

Lemma guards_all_translated : guards_untranslatable = [].
Proof. reflexivity. Qed.

Lemma guards_names_consistent : length guards_untranslatable = length guards_untranslatable_names.
Proof. reflexivity. Qed.

(* the list of translated functions is the expected one (a function dropped from the generator's list is noticed) *)
Lemma guards_table_ok :
  map fst go_guards =
  ["MultiHandler_canAccept"; "MultiHandler_Accept_guard"; "MultiHandler_Stop_guard"; "MultiHandler_duplicate";
   "MultiHandler_sameBroadcastView"; "expectsNormalMessage"; "TwoPartyHandler_canAccept"; "TwoPartyHandler_Accept_guard";
   "TwoPartyHandler_Stop_guard"; "TwoPartyHandler_canAdvance"; "Message_IsFor"; "Commitment_Validate";
   "Decommitment_Validate"; "IDSlice_Valid"; "NewSession_checks"].
Proof. reflexivity. Qed.

Lemma guards_handlers_translated :
  translated ["MultiHandler_canAccept"; "MultiHandler_Accept_guard"; "MultiHandler_duplicate"; "MultiHandler_sameBroadcastView";
              "expectsNormalMessage"; "TwoPartyHandler_canAccept"; "TwoPartyHandler_Accept_guard"; "TwoPartyHandler_canAdvance";
              "Message_IsFor"] = true.
Proof. vm_compute. reflexivity. Qed.

(* the locals that occur in atoms are bound to what the environments read them as *)
Lemma guards_handler_lets_ok :
  go_MultiHandler_canAccept_lets = [("r", "h.currentRound")] /\
  go_MultiHandler_sameBroadcastView_lets = [("previousHash", "h.broadcastHashes[msg.RoundNumber-1]")] /\
  go_TwoPartyHandler_canAccept_lets = [("r", "h.round")] /\
  go_MultiHandler_Accept_guard_lets = [] /\ go_MultiHandler_duplicate_lets = [] /\
  go_expectsNormalMessage_lets = [] /\ go_TwoPartyHandler_Accept_guard_lets = [] /\
  go_TwoPartyHandler_canAdvance_lets = [] /\ go_Message_IsFor_lets = [].
Proof. repeat split. Qed.

(* every atom of every translated handler function is known to the environment it is evaluated in *)
Lemma guards_handler_atoms_known :
  known (env_mh dummy_h (Some dummy_msg)) go_MultiHandler_canAccept &&
  known (env_mh dummy_h (Some dummy_msg)) go_MultiHandler_Accept_guard &&
  known (env_mh dummy_h (Some dummy_msg)) go_MultiHandler_duplicate &&
  known (env_mh dummy_h (Some dummy_msg)) go_MultiHandler_sameBroadcastView &&
  known (env_round (h_shape dummy_h) 0) go_expectsNormalMessage &&
  known (env_tp dummy_t (Some dummy_msg)) go_TwoPartyHandler_canAccept &&
  known (env_tp dummy_t (Some dummy_msg)) go_TwoPartyHandler_Accept_guard &&
  known (env_tp dummy_t (Some dummy_msg)) go_TwoPartyHandler_canAdvance &&
  known (env_isfor 0 dummy_msg) go_Message_IsFor = true.
Proof. vm_compute. reflexivity. Qed.
