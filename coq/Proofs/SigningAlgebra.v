(* SigningAlgebra -- proofs about the signing equations of Model/SigEq.v over an arbitrary scalar field and
   point module.  No axioms; the field / module laws are the record [alg_laws], a hypothesis of every theorem. *)
From Coq Require Import List NArith ZArith Bool Lia Field Ring Permutation Eqdep_dec.
From MPS Require Import Model.SigEq.
Import ListNotations.

(* ------------------------------------------------------------------------------------------------ *)
(* The laws                                                                                          *)
Record alg_laws (A : alg) : Prop := mkLaws {
  al_field : field_theory (sc0 A) (sc1 A) (scadd A) (scmul A) (scsub A) (scopp A) (scdiv A) (scinv A) eq;
  al_sceqb : forall a b, sceqb A a b = true <-> a = b;
  al_pteqb : forall P Q, pteqb A P Q = true <-> P = Q;
  al_add_assoc : forall P Q R, ptadd A P (ptadd A Q R) = ptadd A (ptadd A P Q) R;
  al_add_comm : forall P Q, ptadd A P Q = ptadd A Q P;
  al_add_0_l : forall P, ptadd A (pt0 A) P = P;
  al_add_opp : forall P, ptadd A P (ptopp A P) = pt0 A;
  al_act_add_l : forall a b P, act A (scadd A a b) P = ptadd A (act A a P) (act A b P);
  al_act_add_r : forall a P Q, act A a (ptadd A P Q) = ptadd A (act A a P) (act A a Q);
  al_act_mul : forall a b P, act A (scmul A a b) P = act A a (act A b P);
  al_act_1 : forall P, act A (sc1 A) P = P
}.

(* the generator has trivial annihilator (true for a group of prime order q acted on by Z/q) *)
Definition base_free (A : alg) : Prop := forall a, act A a (base A) = pt0 A -> a = sc0 A.
Definition act_free (A : alg) (P : Pt A) : Prop := forall a, act A a P = pt0 A -> a = sc0 A.

(* facts about x-only encodings used by the Taproot variant (properties of secp256k1, premises here) *)
Record tap_laws (A : alg) (T : tapx A) : Prop := mkTapLaws {
  tl_even_opp : forall P, P <> pt0 A -> has_even_y T (ptopp A P) = negb (has_even_y T P);
  tl_xbytes_opp : forall P, xbytes T (ptopp A P) = xbytes T P;
  tl_lift : forall P, P <> pt0 A ->
            lift_x T (xbytes T P) = Some (if has_even_y T P then P else ptopp A P);
  tl_xeqb : forall a b, xeqb T a b = true <-> a = b
}.

Section Alg.
  Variable A : alg.
  Hypothesis L : alg_laws A.

  Local Notation "0" := (sc0 A).
  Local Notation "1" := (sc1 A).
  Local Infix "+" := (scadd A).
  Local Infix "*" := (scmul A).
  Local Infix "-" := (scsub A).
  Local Notation "- x" := (scopp A x).
  Local Infix "/" := (scdiv A).
  Local Infix "+'" := (ptadd A) (at level 50, left associativity).
  Local Infix "•" := (act A) (at level 39, right associativity).
  Local Notation g := (base A).
  Local Notation F := (Sc A).
  Local Notation G := (Pt A).
  Local Notation O := (pt0 A).
  Local Notation inv := (scinv A).
  Local Notation opp := (ptopp A).

  Add Field Afield : (al_field A L).

  (* ---------------------------------------------------------------------------------------------- *)
  (* module facts *)
  Lemma padd_assoc P Q R : P +' (Q +' R) = P +' Q +' R. Proof. apply (al_add_assoc A L). Qed.
  Lemma padd_comm P Q : P +' Q = Q +' P. Proof. apply (al_add_comm A L). Qed.
  Lemma padd_0_l P : O +' P = P. Proof. apply (al_add_0_l A L). Qed.
  Lemma padd_0_r P : P +' O = P. Proof. rewrite padd_comm. apply padd_0_l. Qed.
  Lemma padd_opp_r P : P +' opp P = O. Proof. apply (al_add_opp A L). Qed.
  Lemma padd_opp_l P : opp P +' P = O. Proof. rewrite padd_comm. apply padd_opp_r. Qed.
  Lemma padd_cancel_l P Q R : P +' Q = P +' R -> Q = R.
  Proof.
    intro H. assert (E : opp P +' (P +' Q) = opp P +' (P +' R)) by (now rewrite H).
    rewrite !padd_assoc, padd_opp_l, !padd_0_l in E. exact E.
  Qed.
  Lemma act_plus a b P : a • P +' b • P = (a + b) • P. Proof. symmetry. apply (al_act_add_l A L). Qed.
  Lemma act_dist a P Q : a • (P +' Q) = a • P +' a • Q. Proof. apply (al_act_add_r A L). Qed.
  Lemma act_act a b P : a • (b • P) = (a * b) • P. Proof. symmetry. apply (al_act_mul A L). Qed.
  Lemma act_1 P : 1 • P = P. Proof. apply (al_act_1 A L). Qed.
  Lemma act_0_l P : 0 • P = O.
  Proof.
    apply (padd_cancel_l (0 • P)). rewrite act_plus, padd_0_r. f_equal. ring.
  Qed.
  Lemma act_0_r a : a • O = O.
  Proof.
    apply (padd_cancel_l (a • O)). rewrite <- act_dist, !padd_0_r. reflexivity.
  Qed.
  Lemma opp_act a P : opp (a • P) = (- a) • P.
  Proof.
    apply (padd_cancel_l (a • P)). rewrite padd_opp_r, act_plus.
    replace (a + - a) with 0 by ring. symmetry. apply act_0_l.
  Qed.
  Lemma opp_unique P Q : P +' Q = O -> Q = opp P.
  Proof. intro H. apply (padd_cancel_l P). now rewrite padd_opp_r. Qed.
  Lemma opp_opp P : opp (opp P) = P.
  Proof. symmetry. apply opp_unique. apply padd_opp_l. Qed.
  Lemma opp_0 : opp O = O.
  Proof. symmetry. apply opp_unique. apply padd_0_l. Qed.
  Lemma opp_eq_0 P : opp P = O -> P = O.
  Proof. intro H. rewrite <- (opp_opp P), H. apply opp_0. Qed.
  Lemma opp_add P Q : opp (P +' Q) = opp P +' opp Q.
  Proof.
    symmetry. apply opp_unique.
    rewrite padd_assoc, <- (padd_assoc P Q (opp P)), (padd_comm Q (opp P)), padd_assoc, padd_opp_r, padd_0_l.
    apply padd_opp_r.
  Qed.
  Lemma act_opp_r a P : a • opp P = opp (a • P).
  Proof. apply opp_unique. rewrite <- act_dist, padd_opp_r. apply act_0_r. Qed.
  Lemma base_1 : g = 1 • g. Proof. symmetry. apply act_1. Qed.
  Lemma act_eq a b P : a = b -> a • P = b • P. Proof. now intros ->. Qed.

  Lemma sceqb_refl a : sceqb A a a = true. Proof. now apply (al_sceqb A L). Qed.
  Lemma pteqb_refl P : pteqb A P P = true. Proof. now apply (al_pteqb A L). Qed.
  Lemma sceqb_false a b : a <> b -> sceqb A a b = false.
  Proof. intro H. destruct (sceqb A a b) eqn:E; [|reflexivity]. apply (al_sceqb A L) in E. contradiction. Qed.
  Lemma pteqb_false P Q : P <> Q -> pteqb A P Q = false.
  Proof. intro H. destruct (pteqb A P Q) eqn:E; [|reflexivity]. apply (al_pteqb A L) in E. contradiction. Qed.
  Lemma sceqb_neq a b : sceqb A a b = false -> a <> b.
  Proof. intros E ->. rewrite sceqb_refl in E. discriminate. Qed.
  Lemma pteqb_neq P Q : pteqb A P Q = false -> P <> Q.
  Proof. intros E ->. rewrite pteqb_refl in E. discriminate. Qed.

  Lemma act_free_cancel P a b : act_free A P -> a • P = b • P -> a = b.
  Proof.
    intros Hf H. assert (E : (a - b) • P = O).
    { replace (a - b) with (a + - b) by ring. rewrite <- act_plus, <- opp_act, H. apply padd_opp_r. }
    apply Hf in E. replace a with ((a - b) + b) by ring. rewrite E. ring.
  Qed.
  Lemma act_free_scale c : base_free A -> c <> 0 -> act_free A (c • g).
  Proof.
    intros Hb Hc a H. rewrite act_act in H. apply Hb in H.
    replace a with ((a * c) / c) by (field; exact Hc). rewrite H. field. exact Hc.
  Qed.

  Lemma gplus_l a : g +' a • g = (1 + a) • g.
  Proof. rewrite <- act_plus, act_1. reflexivity. Qed.

  (* normalise an equation between points that are all multiples of one point *)
  Ltac gnorm :=
    unfold ptsub;
    repeat (rewrite act_act || rewrite opp_act || rewrite act_plus || rewrite act_opp_r || rewrite act_dist
            || rewrite gplus_l).

  (* ---------------------------------------------------------------------------------------------- *)
  (* sums *)
  Fixpoint rsumF (f : party -> F) (l : list party) : F :=
    match l with [] => 0 | j :: l' => f j + rsumF f l' end.
  Fixpoint rsumG (f : party -> G) (l : list party) : G :=
    match l with [] => O | j :: l' => f j +' rsumG f l' end.

  Lemma accF_eq f l : forall init, accF init f l = init + rsumF f l.
  Proof.
    unfold accF. induction l as [|j l IH]; intro init; cbn [fold_left rsumF]; [ring|].
    rewrite IH. ring.
  Qed.
  Lemma accG_eq f l : forall init, accG init f l = init +' rsumG f l.
  Proof.
    unfold accG. induction l as [|j l IH]; intro init; cbn [fold_left rsumG]; [now rewrite padd_0_r|].
    rewrite IH. now rewrite padd_assoc.
  Qed.
  Lemma sumF_eq f l : sumF f l = rsumF f l.
  Proof. unfold sumF. rewrite accF_eq. ring. Qed.
  Lemma sumG_eq f l : sumG f l = rsumG f l.
  Proof. unfold sumG. rewrite accG_eq. apply padd_0_l. Qed.
  Lemma mta_loop_eq init al be l : mta_loop init al be l = init + rsumF (fun j => al j + be j) l.
  Proof.
    unfold mta_loop. revert init. induction l as [|j l IH]; intro init; cbn [fold_left rsumF]; [ring|].
    rewrite IH. ring.
  Qed.

  Lemma rsumF_ext f h l : (forall j, In j l -> f j = h j) -> rsumF f l = rsumF h l.
  Proof.
    induction l as [|j l IH]; intro H; cbn [rsumF]; [reflexivity|].
    rewrite (H j (or_introl eq_refl)), IH; [reflexivity|]. intros; apply H; now right.
  Qed.
  Lemma rsumG_ext f h l : (forall j, In j l -> f j = h j) -> rsumG f l = rsumG h l.
  Proof.
    induction l as [|j l IH]; intro H; cbn [rsumG]; [reflexivity|].
    rewrite (H j (or_introl eq_refl)), IH; [reflexivity|]. intros; apply H; now right.
  Qed.
  Lemma rsumF_add f h l : rsumF (fun j => f j + h j) l = rsumF f l + rsumF h l.
  Proof. induction l as [|j l IH]; cbn [rsumF]; [ring|]. rewrite IH. ring. Qed.
  Lemma rsumF_mul_l c f l : rsumF (fun j => c * f j) l = c * rsumF f l.
  Proof. induction l as [|j l IH]; cbn [rsumF]; [ring|]. rewrite IH. ring. Qed.
  Lemma rsumF_mul_r c f l : rsumF (fun j => f j * c) l = rsumF f l * c.
  Proof. induction l as [|j l IH]; cbn [rsumF]; [ring|]. rewrite IH. ring. Qed.
  Lemma rsumF_zero l : rsumF (fun _ => 0) l = 0.
  Proof. induction l as [|j l IH]; cbn [rsumF]; [reflexivity|]. rewrite IH. ring. Qed.
  Lemma rsumF_opp f l : rsumF (fun j => - f j) l = - rsumF f l.
  Proof. induction l as [|j l IH]; cbn [rsumF]; [ring|]. rewrite IH. ring. Qed.
  Lemma rsumF_perm f l l' : Permutation l l' -> rsumF f l = rsumF f l'.
  Proof.
    induction 1 as [| x l l' _ IH | x y l | l l' l'' _ IH1 _ IH2]; cbn [rsumF].
    - reflexivity.
    - now rewrite IH.
    - ring.
    - now rewrite IH1.
  Qed.
  Lemma rsumG_perm f l l' : Permutation l l' -> rsumG f l = rsumG f l'.
  Proof.
    induction 1 as [| x l l' _ IH | x y l | l l' l'' _ IH1 _ IH2]; cbn [rsumG].
    - reflexivity.
    - now rewrite IH.
    - rewrite !padd_assoc. f_equal. apply padd_comm.
    - now rewrite IH1.
  Qed.
  Lemma rsumF_filter p f l : rsumF f (filter p l) = rsumF (fun j => if p j then f j else 0) l.
  Proof.
    induction l as [|j l IH]; cbn [filter rsumF]; [reflexivity|].
    destruct (p j); cbn [rsumF]; rewrite IH; ring.
  Qed.
  Lemma rsumF_swap (f : party -> party -> F) l1 l2 :
    rsumF (fun i => rsumF (fun j => f i j) l2) l1 = rsumF (fun j => rsumF (fun i => f i j) l1) l2.
  Proof.
    induction l1 as [|i l1 IH]; cbn [rsumF].
    - now rewrite rsumF_zero.
    - rewrite IH, <- rsumF_add. reflexivity.
  Qed.
  Lemma rsumF_others_swap (f : party -> party -> F) S :
    rsumF (fun i => rsumF (fun j => f i j) (others S i)) S
    = rsumF (fun i => rsumF (fun j => f j i) (others S i)) S.
  Proof.
    unfold others.
    rewrite (rsumF_ext _ (fun i => rsumF (fun j => if negb (N.eqb j i) then f i j else 0) S))
      by (intros; apply rsumF_filter).
    rewrite rsumF_swap.
    apply rsumF_ext. intros i _. rewrite rsumF_filter.
    apply rsumF_ext. intros j _. now rewrite N.eqb_sym.
  Qed.
  Lemma in_others S i j : In j (others S i) <-> In j S /\ j <> i.
  Proof.
    unfold others. rewrite filter_In, negb_true_iff, N.eqb_neq. tauto.
  Qed.
  Lemma others_notin S i : ~ In i S -> others S i = S.
  Proof.
    unfold others. induction S as [|a S IH]; intro H; cbn [filter]; [reflexivity|].
    destruct (N.eqb_spec a i) as [->|Hne]; cbn [negb].
    - exfalso. apply H. now left.
    - f_equal. apply IH. intro; apply H; now right.
  Qed.
  Lemma rsumF_split f S i : NoDup S -> In i S -> rsumF f S = f i + rsumF f (others S i).
  Proof.
    induction 1 as [|a S Hna Hnd IH]; intro Hin; [destruct Hin|].
    unfold others. cbn [filter rsumF]. fold (others S i).
    destruct (N.eqb_spec a i) as [->|Hne]; cbn [negb].
    - now rewrite others_notin.
    - destruct Hin as [->|Hin]; [contradiction|]. cbn [rsumF]. rewrite IH by assumption. ring.
  Qed.

  Lemma rsumG_act_l f P l : rsumG (fun j => f j • P) l = rsumF f l • P.
  Proof.
    induction l as [|j l IH]; cbn [rsumG rsumF]; [now rewrite act_0_l|].
    rewrite IH. apply act_plus.
  Qed.
  Lemma rsumG_act_r c f l : rsumG (fun j => c • f j) l = c • rsumG f l.
  Proof.
    induction l as [|j l IH]; cbn [rsumG]; [now rewrite act_0_r|].
    rewrite IH. now rewrite act_dist.
  Qed.
  Lemma rsumG_add f h l : rsumG (fun j => f j +' h j) l = rsumG f l +' rsumG h l.
  Proof.
    induction l as [|j l IH]; cbn [rsumG]; [now rewrite padd_0_l|].
    rewrite IH. rewrite !padd_assoc. f_equal.
    rewrite <- !padd_assoc. f_equal. apply padd_comm.
  Qed.
  Lemma rsumG_opp f l : rsumG (fun j => opp (f j)) l = opp (rsumG f l).
  Proof.
    induction l as [|j l IH]; cbn [rsumG]; [now rewrite opp_0|].
    now rewrite IH, opp_add.
  Qed.

  (* permutation invariance of the loops of the model (Go ranges over maps in arbitrary order) *)
  Lemma sumF_perm (f : party -> F) l l' : Permutation l l' -> sumF f l = sumF f l'.
  Proof. intro H. rewrite !sumF_eq. now apply rsumF_perm. Qed.
  Lemma sumG_perm (f : party -> G) l l' : Permutation l l' -> sumG f l = sumG f l'.
  Proof. intro H. rewrite !sumG_eq. now apply rsumG_perm. Qed.

  (* ---------------------------------------------------------------------------------------------- *)
  (* the MtA bookkeeping: additive shares of (sum a)(sum b) *)
  Lemma mta_sum (S : list party) (a b : party -> F) (al be : party -> party -> F) :
    NoDup S ->
    (forall i j, In i S -> In j S -> i <> j -> mta_rel al be a b i j) ->
    rsumF (fun i => a i * b i + rsumF (fun j => al i j + be i j) (others S i)) S = rsumF a S * rsumF b S.
  Proof.
    intros Hnd Hrel.
    rewrite rsumF_add.
    rewrite (rsumF_ext (fun i => rsumF (fun j => al i j + be i j) (others S i))
                       (fun i => rsumF (fun j => al i j) (others S i) + rsumF (fun j => be i j) (others S i)))
      by (intros; apply rsumF_add).
    rewrite rsumF_add, (rsumF_others_swap be), <- rsumF_add, <- rsumF_add.
    rewrite (rsumF_ext _ (fun i => rsumF a S * b i)).
    - rewrite rsumF_mul_l. reflexivity.
    - intros i Hi. rewrite (rsumF_split a S i Hnd Hi).
      rewrite <- rsumF_add.
      rewrite (rsumF_ext _ (fun j => a j * b i) (others S i)).
      + rewrite rsumF_mul_r. ring.
      + intros j Hj. apply in_others in Hj as [Hj Hne].
        apply (Hrel i j Hi Hj). congruence.
  Qed.

  (* ---------------------------------------------------------------------------------------------- *)
  (* ECDSA verification from the two facts that matter *)
  Lemma ecdsa_verify_intro x m kap s :
    s <> 0 -> xsc A (kap • g) <> 0 ->
    s * kap = m + xsc A (kap • g) * x ->
    ecdsa_verify (x • g) m (kap • g) s = true
    /\ inv s • (m • g +' xsc A (kap • g) • (x • g)) = kap • g.
  Proof.
    intros Hs Hr Heq.
    assert (E : inv s • (m • g +' xsc A (kap • g) • (x • g)) = kap • g).
    { gnorm. apply act_eq. rewrite <- Heq. field. exact Hs. }
    split; [|exact E].
    unfold ecdsa_verify. rewrite (sceqb_false _ _ Hr), (sceqb_false _ _ Hs). cbn [orb].
    rewrite E. apply pteqb_refl.
  Qed.

  (* ---------------------------------------------------------------------------------------------- *)
  (* CMP sign and CMP presign/online: all-honest runs                                                *)
  Section CMP.
    Variable r : cmp_run A.
    Local Notation S := (cS r).
    Hypothesis Hnd : NoDup S.
    Hypothesis Hdelta : forall i j, In i S -> In j S -> i <> j ->
                                    mta_rel (c_ad r) (c_bd r) (c_gam r) (c_k r) i j.
    Hypothesis Hchi : forall i j, In i S -> In j S -> i <> j ->
                                  mta_rel (c_ac r) (c_bc r) (cmp_secret r) (c_k r) i j.
    Local Notation kk := (rsumF (c_k r) S).
    Local Notation gam := (rsumF (c_gam r) S).
    Local Notation xx := (rsumF (cmp_secret r) S).

    Lemma cmp_delta_sum : rsumF (cmp_delta_share r) S = gam * kk.
    Proof.
      unfold cmp_delta_share.
      rewrite (rsumF_ext _ (fun i => c_gam r i * c_k r i
                                     + rsumF (fun j => c_ad r i j + c_bd r i j) (others S i)))
        by (intros; apply mta_loop_eq).
      apply mta_sum; assumption.
    Qed.
    Lemma cmp_chi_sum : rsumF (cmp_chi_share r) S = xx * kk.
    Proof.
      unfold cmp_chi_share.
      rewrite (rsumF_ext _ (fun i => cmp_secret r i * c_k r i
                                     + rsumF (fun j => c_ac r i j + c_bc r i j) (others S i)))
        by (intros; apply mta_loop_eq).
      apply mta_sum; assumption.
    Qed.
    Lemma cmp_PublicKey_eq : cmp_PublicKey r = xx • g.
    Proof.
      unfold cmp_PublicKey. rewrite sumG_eq.
      rewrite (rsumG_ext _ (fun j => cmp_secret r j • g)).
      - apply rsumG_act_l.
      - intros j _. unfold cmp_ECDSA, cmp_pubshare, cmp_secret. apply act_act.
    Qed.
    Lemma cmp_Gamma_eq : cmp_Gamma r = gam • g.
    Proof. unfold cmp_Gamma, cmp_BigGammaShare. rewrite sumG_eq. apply rsumG_act_l. Qed.
    Lemma cmp_Gamma_r : rsumG (cmp_BigGammaShare r) S = gam • g.
    Proof. unfold cmp_BigGammaShare. apply rsumG_act_l. Qed.
    Lemma cmp_BigDelta_sum : rsumG (cmp_BigDeltaShare r) S = (gam * kk) • g.
    Proof.
      unfold cmp_BigDeltaShare. rewrite rsumG_act_l, cmp_Gamma_eq, act_act. apply act_eq. ring.
    Qed.

    Section View.
      Variable S' : list party.
      Hypothesis Hperm : Permutation S S'.
      Hypothesis Hk : kk <> 0.
      Hypothesis Hg : gam <> 0.
      Local Notation Rpt := (inv kk • g).
      Local Notation rr := (xsc A (inv kk • g)).
      Local Notation ss := (kk * (c_m r + xsc A (inv kk • g) * xx)).
      Hypothesis Hr : rr <> 0.
      Hypothesis Hs : ss <> 0.

      Lemma cmp_R_eq : inv (gam * kk) • (gam • g) = Rpt.
      Proof. rewrite act_act. apply act_eq. field. split; assumption. Qed.

      (* round 4: the Delta check passes and R = k^-1 G *)
      Lemma cmp_round4_ok :
        cmp_round4 S' (sumG (cmp_BigGammaShare r) S') (cmp_delta_share r) (cmp_BigDeltaShare r)
        = Some (Rpt, rr).
      Proof.
        unfold cmp_round4.
        rewrite <- (sumF_perm _ _ _ Hperm), <- !(sumG_perm _ _ _ Hperm).
        rewrite sumF_eq, !sumG_eq, cmp_delta_sum, cmp_BigDelta_sum, pteqb_refl.
        rewrite cmp_Gamma_r, cmp_R_eq. reflexivity.
      Qed.

      Lemma cmp_sigma_sum rr0 :
        rsumF (fun j => cmp_sigma_share rr0 (c_m r) (c_k r j) (cmp_chi_share r j)) S
        = kk * (c_m r + rr0 * xx).
      Proof.
        unfold cmp_sigma_share. rewrite rsumF_add, !rsumF_mul_l, cmp_chi_sum. ring.
      Qed.

      Lemma cmp_final_verify :
        ecdsa_verify (cmp_PublicKey r) (c_m r) Rpt ss = true
        /\ inv ss • (c_m r • g +' rr • cmp_PublicKey r) = Rpt.
      Proof.
        rewrite cmp_PublicKey_eq. apply ecdsa_verify_intro; [exact Hs | exact Hr |].
        field. exact Hk.
      Qed.

      Theorem cmp_sign_correct :
        cmp_sign_view r S' = Some (Rpt, ss)
        /\ ecdsa_verify (cmp_PublicKey r) (c_m r) Rpt ss = true
        /\ inv ss • (c_m r • g +' rr • cmp_PublicKey r) = Rpt
        /\ cmp_PublicKey r = xx • g.
      Proof.
        destruct cmp_final_verify as [Hv He].
        split; [|split; [exact Hv | split; [exact He | exact cmp_PublicKey_eq]]].
        unfold cmp_sign_view. rewrite cmp_round4_ok. unfold cmp_round5.
        rewrite <- (sumF_perm _ _ _ Hperm), sumF_eq, cmp_sigma_sum, Hv. reflexivity.
      Qed.

      (* ---------------- presign + online ---------------- *)
      Lemma ps_round6_ok :
        ps_round6 S' (sumG (cmp_BigGammaShare r) S') (cmp_delta_share r) (cmp_BigDeltaShare r)
        = Some (Rpt, inv (gam * kk)).
      Proof.
        unfold ps_round6.
        rewrite <- (sumF_perm _ _ _ Hperm), <- !(sumG_perm _ _ _ Hperm).
        rewrite sumF_eq, !sumG_eq, cmp_delta_sum, cmp_BigDelta_sum, pteqb_refl.
        rewrite cmp_Gamma_r, cmp_R_eq. reflexivity.
      Qed.
      Lemma ps_round7_ok : ps_round7 S' (cmp_PublicKey r) (fun l => cmp_chi_share r l • Rpt) = true.
      Proof.
        unfold ps_round7. rewrite <- (sumG_perm _ _ _ Hperm), sumG_eq, rsumG_act_l, cmp_chi_sum, cmp_PublicKey_eq.
        apply (al_pteqb A L). rewrite act_act. apply act_eq. field. exact Hk.
      Qed.
      Lemma ps_RBar_eq j : inv (gam * kk) • cmp_BigDeltaShare r j = c_k r j • Rpt.
      Proof.
        unfold cmp_BigDeltaShare. rewrite cmp_Gamma_eq, !act_act. apply act_eq. field. split; assumption.
      Qed.
      Lemma ps_share_sum :
        rsumF (fun j => signature_share (ps_presig r Rpt (inv (gam * kk)) j) (c_m r)) S = ss.
      Proof.
        unfold signature_share, ps_presig. cbn [pR pK pChi].
        rewrite rsumF_add, !rsumF_mul_l, cmp_chi_sum. ring.
      Qed.

      Theorem presign_online_correct X i :
        X = cmp_PublicKey r ->
        ps_view r S' X i = PsSig Rpt ss
        /\ ecdsa_verify X (c_m r) Rpt ss = true
        /\ verify_signature_shares S' (ps_presig r Rpt (inv (gam * kk)) i)
             (fun j => signature_share (ps_presig r Rpt (inv (gam * kk)) j) (c_m r)) (c_m r) = [].
      Proof.
        intros ->. destruct cmp_final_verify as [Hv _].
        split; [|split; [exact Hv|]].
        - unfold ps_view. rewrite ps_round6_ok, ps_round7_ok. cbn [negb].
          unfold ps_sign2, ps_signature. cbn [pR ps_presig].
          rewrite <- (sumF_perm _ _ _ Hperm), sumF_eq, ps_share_sum, Hv. reflexivity.
        - unfold verify_signature_shares. generalize S' as l0.
          induction l0 as [|j l IH]; cbn [filter]; [reflexivity|].
          replace (share_ok (ps_presig r Rpt (inv (gam * kk)) i) (c_m r) j
                            (signature_share (ps_presig r Rpt (inv (gam * kk)) j) (c_m r))) with true.
          + cbn [negb]. exact IH.
          + symmetry. unfold share_ok, signature_share, ps_presig. cbn [pR pRBar pS pK pChi].
            apply (al_pteqb A L). rewrite ps_RBar_eq. gnorm. apply act_eq. ring.
      Qed.
    End View.
  End CMP.

  (* ---------------------------------------------------------------------------------------------- *)
  (* C04 (protocol level): VerifySignatureShares, abort1, abort2                                     *)
  Lemma filter_nil_inv {X} (p : X -> bool) l x : filter p l = [] -> In x l -> p x = false.
  Proof.
    intros Hn Hin. destruct (p x) eqn:E; [|reflexivity].
    assert (Hf : In x (filter p l)) by (apply filter_In; split; assumption).
    rewrite Hn in Hf. destruct Hf.
  Qed.

  Lemma share_ok_honest (p : presignature A) m j kj chij :
    pRBar p j = kj • pR p -> pS p j = chij • pR p ->
    share_ok p m j (m * kj + xsc A (pR p) * chij) = true.
  Proof.
    intros HR HS. unfold share_ok. rewrite HR, HS. apply (al_pteqb A L). gnorm. reflexivity.
  Qed.
  Lemma share_ok_iff (p : presignature A) m j kj chij share :
    act_free A (pR p) -> pRBar p j = kj • pR p -> pS p j = chij • pR p ->
    (share_ok p m j share = true <-> share = m * kj + xsc A (pR p) * chij).
  Proof.
    intros Hf HR HS. split.
    - intro H. unfold share_ok in H. rewrite HR, HS in H. apply (al_pteqb A L) in H.
      apply (act_free_cancel (pR p)); [exact Hf|]. rewrite H. gnorm. reflexivity.
    - intros ->. now apply share_ok_honest.
  Qed.

  (* blame is sound: whoever is named sent a share different from the honest one *)
  Theorem sigma_share_check_sound S' (p : presignature A) shares m (kf chif : party -> F) j :
    pRBar p j = kf j • pR p -> pS p j = chif j • pR p ->
    In j (verify_signature_shares S' p shares m) ->
    In j S' /\ shares j <> m * kf j + xsc A (pR p) * chif j.
  Proof.
    intros HR HS Hin. unfold verify_signature_shares in Hin. apply filter_In in Hin as [Hj Hb].
    split; [exact Hj|]. intro E. rewrite E, (share_ok_honest p m j _ _ HR HS) in Hb. discriminate.
  Qed.
  (* and complete: every wrong share is named (needs: R generates a free module, e.g. R = k^-1 G, G of prime order) *)
  Theorem sigma_share_check_complete S' (p : presignature A) shares m (kf chif : party -> F) j :
    act_free A (pR p) ->
    pRBar p j = kf j • pR p -> pS p j = chif j • pR p ->
    In j S' -> shares j <> m * kf j + xsc A (pR p) * chif j ->
    In j (verify_signature_shares S' p shares m).
  Proof.
    intros Hf HR HS Hj Hne. unfold verify_signature_shares. apply filter_In. split; [exact Hj|].
    apply negb_true_iff. destruct (share_ok p m j (shares j)) eqn:E; [|reflexivity].
    apply (share_ok_iff p m j _ _ _ Hf HR HS) in E. contradiction.
  Qed.

  (* abort1 *)
  Lemma abort1_recompute_eq S kf gf (al : party -> party -> F) j :
    abort1_recompute S kf gf al j
    = kf j * gf j + rsumF (fun l => al j l + kf l * gf j + - al l j) (others S j).
  Proof.
    unfold abort1_recompute. generalize (kf j * gf j) as init.
    induction (others S j) as [|l ls IH]; intro init; cbn [fold_left rsumF]; [ring|].
    rewrite IH. ring.
  Qed.
  Lemma abort1_recompute_honest S kf gf (al be : party -> party -> F) j :
    (forall l, In l S -> l <> j -> mta_rel al be gf kf l j) ->
    abort1_recompute S kf gf al j = mta_loop (gf j * kf j) (al j) (be j) (others S j).
  Proof.
    intro Hrel. rewrite abort1_recompute_eq, mta_loop_eq.
    rewrite (rsumF_ext _ (fun l => al j l + be j l) (others S j)); [ring|].
    intros l Hl. apply in_others in Hl as [Hl Hne]. specialize (Hrel l Hl Hne). unfold mta_rel in Hrel.
    assert (E : be j l = gf j * kf l - al l j) by (rewrite <- Hrel; ring).
    rewrite E. ring.
  Qed.
  Theorem abort1_sound S self kf gf (al be : party -> party -> F) dsh j :
    (forall l, In l S -> l <> j -> mta_rel al be gf kf l j) ->
    dsh j = mta_loop (gf j * kf j) (al j) (be j) (others S j) ->
    ~ In j (abort1_culprits S self kf gf al dsh).
  Proof.
    intros Hrel Hd Hin. unfold abort1_culprits in Hin. apply filter_In in Hin as [_ Hb].
    rewrite (abort1_recompute_honest S kf gf al be j Hrel), <- Hd, sceqb_refl in Hb. discriminate.
  Qed.
  Theorem abort1_complete S self kf gf (al : party -> party -> F) dsh j :
    In j (abort1_culprits S self kf gf al dsh)
    <-> In j S /\ j <> self /\ dsh j <> abort1_recompute S kf gf al j.
  Proof.
    unfold abort1_culprits. rewrite filter_In, in_others, negb_true_iff. split.
    - intros [[H1 H2] H3]. repeat split; try assumption. apply sceqb_neq in H3. congruence.
    - intros [H1 [H2 H3]]. split; [split; assumption|]. apply sceqb_false. congruence.
  Qed.
  Lemma abort1_recompute_sum S kf gf (al : party -> party -> F) :
    NoDup S -> rsumF (abort1_recompute S kf gf al) S = rsumF gf S * rsumF kf S.
  Proof.
    intro Hnd.
    rewrite <- (mta_sum S gf kf al (fun j l => kf l * gf j + - al l j) Hnd).
    - apply rsumF_ext. intros j _. rewrite abort1_recompute_eq.
      rewrite (rsumF_ext (fun l => al j l + kf l * gf j + - al l j)
                         (fun l => al j l + (kf l * gf j + - al l j))) by (intros; ring).
      ring.
    - intros i j _ _ _. unfold mta_rel. ring.
  Qed.
  (* if the revealed data are inconsistent with the announced delta shares, somebody is named *)
  Theorem abort1_identifies S self kf gf (al : party -> party -> F) dsh :
    NoDup S -> In self S ->
    dsh self = abort1_recompute S kf gf al self ->
    sumF dsh S <> sumF gf S * sumF kf S ->
    abort1_culprits S self kf gf al dsh <> [].
  Proof.
    intros Hnd Hself Hown Hne Hnil. apply Hne.
    rewrite !sumF_eq, <- (abort1_recompute_sum S kf gf al Hnd).
    apply rsumF_ext. intros j Hj.
    destruct (N.eq_dec j self) as [->|Hjs]; [exact Hown|].
    assert (Hin : In j (others S self)) by (apply in_others; split; assumption).
    pose proof (filter_nil_inv _ _ j Hnil Hin) as Hb. cbv beta in Hb.
    apply negb_false_iff in Hb. apply (al_sceqb A L) in Hb. congruence.
  Qed.

  (* abort2 *)
  Lemma abort2_recompute_eq S kf (al : party -> party -> F) YHat Xs (w : party -> F) j :
    Xs j = w j • g ->
    abort2_recompute S kf al YHat Xs j = YHat j +' abort1_recompute S kf w al j • g.
  Proof.
    intro HX. unfold abort2_recompute. rewrite abort1_recompute_eq, HX, padd_0_l, act_act.
    generalize (YHat j) as P0. generalize (kf j * w j) as c0.
    induction (others S j) as [|l ls IH]; intros c0 P0; cbn [fold_left rsumF].
    - f_equal. apply act_eq. ring.
    - unfold ptsub. rewrite opp_act, act_act.
      rewrite <- !(padd_assoc P0), !act_plus.
      rewrite IH. f_equal. apply act_eq. ring.
  Qed.
  Theorem abort2_sound S self kf (al be : party -> party -> F) YHat Xs ChiM (w : party -> F) (Y : G) bh j :
    (forall l, In l S -> l <> j -> mta_rel al be w kf l j) ->
    Xs j = w j • g ->
    YHat j = bh • Y ->
    ChiM j = snd (elg_enc Y (mta_loop (w j * kf j) (al j) (be j) (others S j)) bh) ->
    ~ In j (abort2_culprits S self kf al YHat Xs ChiM).
  Proof.
    intros Hrel HX HY HM Hin. unfold abort2_culprits in Hin. apply filter_In in Hin as [_ Hb].
    rewrite (abort2_recompute_eq S kf al YHat Xs w j HX), HM, HY in Hb. cbn [elg_enc snd] in Hb.
    rewrite (abort1_recompute_honest S kf w al be j Hrel), padd_comm, pteqb_refl in Hb. discriminate.
  Qed.
  Theorem abort2_complete S self kf (al : party -> party -> F) YHat Xs ChiM j :
    In j (abort2_culprits S self kf al YHat Xs ChiM)
    <-> In j S /\ j <> self /\ ChiM j <> abort2_recompute S kf al YHat Xs j.
  Proof.
    unfold abort2_culprits. rewrite filter_In, in_others, negb_true_iff. split.
    - intros [[H1 H2] H3]. repeat split; try assumption. apply pteqb_neq in H3. congruence.
    - intros [H1 [H2 H3]]. split; [split; assumption|]. apply pteqb_false. congruence.
  Qed.
  (* a committed chi share (M = chi' G + YHat, which zklog/zkelog tie to the ElGamal key) that differs from
     the recomputation is named *)
  Theorem abort2_binding S self kf (al : party -> party -> F) YHat Xs ChiM (w : party -> F) chi' j :
    base_free A ->
    Xs j = w j • g ->
    ChiM j = chi' • g +' YHat j ->
    In j S -> j <> self ->
    chi' <> abort1_recompute S kf w al j ->
    In j (abort2_culprits S self kf al YHat Xs ChiM).
  Proof.
    intros Hb HX HM Hj Hjs Hne. apply abort2_complete. repeat split; try assumption.
    rewrite (abort2_recompute_eq S kf al YHat Xs w j HX), HM, padd_comm. intro E.
    apply padd_cancel_l in E. apply Hne.
    apply (act_free_cancel g); [exact Hb | exact E].
  Qed.

  (* which ciphertext the Nth-root openings are checked against (suspected defect D14) *)
  Section Openings.
    Variable C : Type.
    Variable opens : party -> C -> F -> bool.
    Variable S : list party.
    Variable ct : party -> party -> C.           (* ct from to: D sent by [from] to [to], under [to]'s Paillier key *)
    Variable alpha : party -> party -> F.        (* alpha to from: what [to] decrypts from ct from to *)
    (* the owner's true opening verifies (C12: DecWithRandomness / EncWithNonce) *)
    Hypothesis Hown : forall from to, In from S -> In to S -> from <> to ->
                                      opens to (ct from to) (alpha to from) = true.
    (* an opening presented under p's key does not verify against a ciphertext formed under another key
       (it would need c = (1+N_p)^v * rho^N_p mod N_p^2 for a c that is a random element mod N_to^2) *)
    Hypothesis Hsep : forall p from to v, In p S -> In from S -> In to S -> p <> to ->
                                          opens p (ct from to) v = false.

    (* an honest [from] opens, for every other id, the ciphertext it received from id: plaintext alpha from id *)
    Theorem abort_open_swapped_accepts from :
      In from S -> abort_open_check_swapped C opens S ct from (alpha from) = true.
    Proof.
      intro Hf. unfold abort_open_check_swapped. apply forallb_forall. intros id Hid.
      apply in_others in Hid as [Hid Hne]. apply Hown; assumption.
    Qed.
    (* the check as written looks up ct[from][id] and so rejects whatever plaintexts are presented *)
    Theorem abort_open_as_written_rejects from plain :
      In from S -> others S from <> [] ->
      abort_open_check_as_written C opens S ct from plain = false.
    Proof.
      intros Hf Hne. unfold abort_open_check_as_written.
      destruct (others S from) as [|id ids] eqn:E; [contradiction|].
      assert (Hid : In id (others S from)) by (rewrite E; now left).
      apply in_others in Hid as [Hid Hd]. cbn [forallb].
      rewrite (Hsep from from id (plain id) Hf Hf Hid) by congruence. reflexivity.
    Qed.
  End Openings.

  (* ---------------------------------------------------------------------------------------------- *)
  (* FROST                                                                                           *)
  Theorem frost_share_check_sound S c (lam : party -> F) (Ysh Rsh : party -> G) (z : party -> F) Y R :
    (forall l, In l S -> frost_share_ok c (lam l) (Ysh l) (Rsh l) (z l) = true) ->
    R = sumG Rsh S ->
    Y = sumG (fun l => lam l • Ysh l) S ->
    frost_verify c Y R (sumF z S) = true /\ sumF z S • g = R +' c • Y.
  Proof.
    intros Hok -> ->.
    assert (E : sumF z S • g = sumG Rsh S +' c • sumG (fun l => lam l • Ysh l) S).
    { rewrite sumF_eq, !sumG_eq, <- rsumG_act_l.
      rewrite (rsumG_ext _ (fun l => c • (lam l • Ysh l) +' Rsh l)).
      - rewrite rsumG_add, rsumG_act_r. apply padd_comm.
      - intros l Hl. specialize (Hok l Hl). unfold frost_share_ok in Hok.
        now apply (al_pteqb A L) in Hok. }
    split; [|exact E]. unfold frost_verify. apply (al_pteqb A L). rewrite E. apply padd_comm.
  Qed.

  Lemma forallb_true_intro {X} (p : X -> bool) l : (forall x, p x = true) -> forallb p l = true.
  Proof. intro H. apply forallb_forall. intros; apply H. Qed.

  Section FROST.
    Variable r : frost_run A.
    Local Notation S := (fS r).
    Local Notation sk := (rsumF (fun l => f_lam r l * f_s r l) S).
    Local Notation nonce := (rsumF (fun l => f_d r l + f_rho r l * f_e r l) S).
    Local Notation Rsh0 := (frost_Rshare (f_rho r) (frost_D r) (frost_E r)).

    Lemma frost_Rshare_eq l : Rsh0 l = (f_d r l + f_rho r l * f_e r l) • g.
    Proof. unfold frost_Rshare, frost_D, frost_E. gnorm. apply act_eq. ring. Qed.
    Lemma frost_R_eq S' : Permutation S S' -> sumG Rsh0 S' = nonce • g.
    Proof.
      intro Hp. rewrite <- (sumG_perm _ _ _ Hp), sumG_eq.
      rewrite (rsumG_ext _ (fun l => (f_d r l + f_rho r l * f_e r l) • g)) by (intros; apply frost_Rshare_eq).
      apply rsumG_act_l.
    Qed.
    Lemma frost_share_honest c l :
      frost_share_ok c (f_lam r l) (frost_Yshare r l) (Rsh0 l)
                     (frost_z (f_lam r l) (f_s r l) c (f_d r l) (f_e r l) (f_rho r l)) = true.
    Proof.
      unfold frost_share_ok, frost_z, frost_Yshare. rewrite frost_Rshare_eq.
      apply (al_pteqb A L). gnorm. apply act_eq. ring.
    Qed.
    Lemma frost_z_sum c :
      rsumF (fun l => frost_z (f_lam r l) (f_s r l) c (f_d r l) (f_e r l) (f_rho r l)) S = sk * c + nonce.
    Proof.
      unfold frost_z.
      rewrite (rsumF_ext _ (fun l => (f_lam r l * f_s r l) * c + (f_d r l + f_rho r l * f_e r l)))
        by (intros; ring).
      rewrite rsumF_add, rsumF_mul_r. reflexivity.
    Qed.

    Theorem frost_sign_correct (Hc : G -> G -> F) Y S' :
      Permutation S S' ->
      Y = sk • g ->
      let R := nonce • g in
      let c := Hc R Y in
      let z := sk * c + nonce in
      frost_view Hc r Y S' = Some (R, z)
      /\ frost_verify c Y R z = true
      /\ z • g = R +' c • Y
      /\ (forall l, frost_share_ok c (f_lam r l) (frost_Yshare r l) (Rsh0 l)
                      (frost_z (f_lam r l) (f_s r l) c (f_d r l) (f_e r l) (f_rho r l)) = true).
    Proof.
      intros Hp HY R c z.
      assert (E : z • g = R +' c • Y).
      { subst z R. rewrite HY. gnorm. apply act_eq. ring. }
      assert (V : frost_verify c Y R z = true).
      { unfold frost_verify. apply (al_pteqb A L). rewrite E. apply padd_comm. }
      split; [|split; [exact V | split; [exact E | intro l; apply frost_share_honest]]].
      unfold frost_view. rewrite (frost_R_eq S' Hp). fold R. fold c.
      rewrite forallb_true_intro by (intro l; apply frost_share_honest).
      rewrite <- (sumF_perm _ _ _ Hp), sumF_eq, frost_z_sum. fold z. rewrite V. reflexivity.
    Qed.
  End FROST.

  (* ---------------------------------------------------------------------------------------------- *)
  (* FROST / Taproot                                                                                 *)
  Lemma neg_if_pt_act b a P : neg_if_pt b (a • P) = neg_if_sc b a • P.
  Proof. destruct b; cbn [neg_if_pt neg_if_sc]; [apply opp_act | reflexivity]. Qed.
  Lemma rsumF_neg_if b f l : rsumF (fun j => neg_if_sc b (f j)) l = neg_if_sc b (rsumF f l).
  Proof. destruct b; cbn [neg_if_sc]; [apply rsumF_opp | reflexivity]. Qed.

  Section Taproot.
    Variable T : tapx A.
    Hypothesis TL : tap_laws A T.

    Lemma neg_if_ne_0 b P : P <> O -> neg_if_pt b P <> O.
    Proof. destruct b; cbn [neg_if_pt]; [|trivial]. intros H E. apply H. now apply opp_eq_0. Qed.
    Lemma even_normalise P : P <> O -> has_even_y T (neg_if_pt (negb (has_even_y T P)) P) = true.
    Proof.
      intro H. destruct (has_even_y T P) eqn:E; cbn [negb neg_if_pt]; [exact E|].
      rewrite (tl_even_opp A T TL P H), E. reflexivity.
    Qed.
    Lemma xbytes_neg_if b P : xbytes T (neg_if_pt b P) = xbytes T P.
    Proof. destruct b; cbn [neg_if_pt]; [apply (tl_xbytes_opp A T TL) | reflexivity]. Qed.
    Lemma lift_xbytes P : P <> O -> lift_x T (xbytes T P) = Some (neg_if_pt (negb (has_even_y T P)) P).
    Proof.
      intro H. rewrite (tl_lift A T TL P H). destruct (has_even_y T P); reflexivity.
    Qed.

    (* r holds the RAW sharing (before the keygen adjustment); Yraw is the raw group key *)
    Variable r : frost_run A.
    Local Notation S := (fS r).
    Local Notation sk := (rsumF (fun l => f_lam r l * f_s r l) S).
    Local Notation nonce := (rsumF (fun l => f_d r l + f_rho r l * f_e r l) S).
    Variable Yraw : G.
    Hypothesis HY : Yraw = sk • g.
    Hypothesis HY0 : Yraw <> O.
    Hypothesis HR0 : nonce • g <> O.
    (* what keygen stored *)
    Local Notation fy := (tap_key_flip T Yraw).
    Local Notation tap_stored_run := (tap_stored_run T r Yraw).
    Local Notation tap_stored_vshares := (tap_stored_vshares T r Yraw).
    Local Notation R0 := (nonce • g).
    Local Notation fr := (negb (has_even_y T R0)).

    Theorem frost_taproot_correct (Hc : Xb T -> Xb T -> F) S' :
      Permutation S S' ->
      let pk := tap_pubkey T Yraw in
      let c := Hc (xbytes T R0) pk in
      let z := neg_if_sc fy sk * c + neg_if_sc fr nonce in
      frost_taproot_view T Hc tap_stored_run pk tap_stored_vshares S' = Some (xbytes T R0, z)
      /\ taproot_verify T Hc pk (xbytes T R0) z = true.
    Proof.
      intros Hp pk c z.
      set (Yev := neg_if_pt fy Yraw).
      assert (Hlift : lift_x T pk = Some Yev) by (apply lift_xbytes; exact HY0).
      assert (Hxy : xbytes T Yev = pk) by (apply xbytes_neg_if).
      assert (HYev : Yev = neg_if_sc fy sk • g) by (unfold Yev; rewrite HY; apply neg_if_pt_act).
      (* final verification *)
      assert (V : taproot_verify T Hc pk (xbytes T R0) z = true).
      { unfold taproot_verify. rewrite Hlift. fold c.
        assert (Ech : ptsub (z • g) (c • Yev) = neg_if_pt fr R0).
        { rewrite HYev, neg_if_pt_act. unfold z. gnorm. apply act_eq. ring. }
        rewrite Ech.
        rewrite (pteqb_false _ _ (neg_if_ne_0 fr R0 HR0)).
        rewrite (even_normalise R0 HR0). cbn [negb].
        apply (tl_xeqb A T TL). apply xbytes_neg_if. }
      split; [|exact V].
      unfold frost_taproot_view. rewrite Hlift.
      cbn [tap_stored_run fS f_lam f_s f_d f_e f_rho].
      assert (HRs : sumG (frost_Rshare (f_rho r) (frost_D tap_stored_run) (frost_E tap_stored_run)) S' = R0).
      { apply (frost_R_eq r S' Hp). }
      rewrite HRs, Hxy. fold c.
      assert (Hz : rsumF (fun l => frost_z (f_lam r l) (tap_adjust_share T Yraw (f_s r l)) c
                                           (neg_if_sc fr (f_d r l)) (neg_if_sc fr (f_e r l)) (f_rho r l)) S = z).
      { unfold z, frost_z, tap_adjust_share.
        rewrite (rsumF_ext _ (fun l => neg_if_sc fy (f_lam r l * f_s r l) * c
                                       + neg_if_sc fr (f_d r l + f_rho r l * f_e r l))).
        * rewrite rsumF_add, rsumF_mul_r, !rsumF_neg_if. reflexivity.
        * intros l _. destruct fy, fr; cbn [neg_if_sc]; ring. }
      rewrite forallb_true_intro.
      - rewrite <- (sumF_perm _ _ _ Hp), sumF_eq, Hz, V. reflexivity.
      - intro l. unfold frost_share_ok, tap_stored_vshares, tap_adjust_vshare, tap_adjust_share, frost_z, frost_Yshare.
        change (frost_Rshare (f_rho r) (frost_D tap_stored_run) (frost_E tap_stored_run) l)
          with (frost_Rshare (f_rho r) (frost_D r) (frost_E r) l).
        rewrite frost_Rshare_eq. apply (al_pteqb A L).
        destruct fy, fr; cbn [neg_if_sc neg_if_pt]; gnorm; apply act_eq; ring.
    Qed.
  End Taproot.

  (* ---------------------------------------------------------------------------------------------- *)
  (* Doerner                                                                                         *)
  Section Doerner.
    Variables HR HG1 HG2 : G -> F.
    Variable r : doerner_run A.
    Local Notation kA := (doerner_kA HR r).
    Local Notation kB := (d_kB r).
    Local Notation xx := (d_skA r + d_skB r).
    Hypothesis HkA : kA <> 0.
    Hypothesis HkB : kB <> 0.
    (* the three OT multiplications (C13): the two output shares add up to the product of the inputs *)
    Hypothesis Hm0 : d_tA1 r + d_tB1 r = doerner_alpha0 HR r * doerner_beta0 r.
    Hypothesis Hm1 : d_tA21 r + d_tB21 r = doerner_alpha1 HR r * doerner_beta1 r.
    Hypothesis Hm2 : d_tA22 r + d_tB22 r = doerner_alpha2 HR r * doerner_beta2 r.

    Lemma doerner_R_agree : doerner_R_R HR r = doerner_R_S HR r /\ doerner_R_R HR r = (kA * kB) • g.
    Proof.
      unfold doerner_R_R, doerner_R_S, doerner_RPrime, doerner_D.
      split; unfold doerner_kA, doerner_RPrime, doerner_D; gnorm; apply act_eq; ring.
    Qed.
    Lemma doerner_Public_eq : doerner_Public r = xx • g.
    Proof. unfold doerner_Public. apply act_plus. Qed.

    Lemma doerner_tB1_eq : d_tB1 r = (inv kA + d_phi r) * inv kB - d_tA1 r.
    Proof. unfold doerner_alpha0, doerner_beta0, doerner_kBInv in Hm0. rewrite <- Hm0. ring. Qed.
    Lemma doerner_tB21_eq : d_tB21 r = d_skA r * inv kA * inv kB - d_tA21 r.
    Proof. unfold doerner_alpha1, doerner_beta1, doerner_kBInv in Hm1. rewrite <- Hm1. ring. Qed.
    Lemma doerner_tB22_eq : d_tB22 r = inv kA * (d_skB r * inv kB) - d_tA22 r.
    Proof. unfold doerner_alpha2, doerner_beta2, doerner_kBInv in Hm2. rewrite <- Hm2. ring. Qed.

    Lemma doerner_Gamma1_agree : doerner_Gamma1_R HR r = doerner_Gamma1_S HR r.
    Proof.
      unfold doerner_Gamma1_R, doerner_Gamma1_S.
      destruct doerner_R_agree as [E1 E2]. rewrite <- E1, E2.
      rewrite doerner_tB1_eq. gnorm. apply act_eq. field. split; assumption.
    Qed.
    Lemma doerner_phi_agree : doerner_phi_R HR HG1 r = d_phi r.
    Proof. unfold doerner_phi_R, doerner_muPhi. rewrite doerner_Gamma1_agree. ring. Qed.
    Lemma doerner_theta_eq : d_tA1 r + doerner_theta HR HG1 r = inv (kA * kB).
    Proof.
      unfold doerner_theta. rewrite doerner_phi_agree, doerner_tB1_eq. unfold doerner_kBInv.
      field. split; assumption.
    Qed.
    Lemma doerner_t2_eq : doerner_tA2 r + doerner_tB2 r = xx * inv (kA * kB).
    Proof.
      unfold doerner_tA2, doerner_tB2. rewrite doerner_tB21_eq, doerner_tB22_eq.
      field. split; assumption.
    Qed.
    Lemma doerner_Gamma2_agree : doerner_Gamma2_R HR HG1 r = doerner_Gamma2_S r.
    Proof.
      unfold doerner_Gamma2_R, doerner_Gamma2_S. rewrite doerner_Public_eq.
      assert (E1 : doerner_theta HR HG1 r = inv (kA * kB) - d_tA1 r) by (rewrite <- doerner_theta_eq; ring).
      assert (E2 : doerner_tB2 r = xx * inv (kA * kB) - doerner_tA2 r) by (rewrite <- doerner_t2_eq; ring).
      rewrite E1, E2. gnorm. apply act_eq. ring.
    Qed.

    Theorem doerner_sign_correct :
      let R := (kA * kB) • g in
      let rr := xsc A R in
      let s := (d_m r + rr * xx) / (kA * kB) in
      rr <> 0 -> s <> 0 ->
      doerner_view HR HG1 HG2 r = Some (R, s)
      /\ ecdsa_verify (doerner_Public r) (d_m r) R s = true
      /\ inv s • (d_m r • g +' rr • doerner_Public r) = R
      /\ doerner_R_S HR r = R
      /\ doerner_Gamma1_R HR r = doerner_Gamma1_S HR r
      /\ doerner_Gamma2_R HR HG1 r = doerner_Gamma2_S r.
    Proof.
      intros R rr s Hr Hs.
      destruct doerner_R_agree as [E1 E2].
      assert (Hkk : kA * kB <> 0).
      { intro E. apply HkA. replace kA with ((kA * kB) / kB) by (field; exact HkB). rewrite E. field. exact HkB. }
      assert (Es : doerner_sigAB HR HG1 HG2 r = s).
      { unfold doerner_sigAB, doerner_muSig, doerner_sigB, doerner_sigA.
        rewrite doerner_Gamma2_agree, E1. rewrite <- E1, E2. fold R. fold rr.
        assert (E3 : doerner_theta HR HG1 r = inv (kA * kB) - d_tA1 r) by (rewrite <- doerner_theta_eq; ring).
        assert (E4 : doerner_tB2 r = xx * inv (kA * kB) - doerner_tA2 r) by (rewrite <- doerner_t2_eq; ring).
        rewrite E3, E4. unfold s. field. split; assumption. }
      assert (V : ecdsa_verify (doerner_Public r) (d_m r) R s = true
                  /\ inv s • (d_m r • g +' rr • doerner_Public r) = R).
      { rewrite doerner_Public_eq. apply ecdsa_verify_intro; [exact Hs | exact Hr |].
        unfold s. fold R. fold rr. field. split; assumption. }
      destruct V as [V1 V2].
      split; [|split; [exact V1 | split; [exact V2 | split; [now rewrite <- E1 | split;
              [apply doerner_Gamma1_agree | apply doerner_Gamma2_agree]]]]].
      unfold doerner_view. rewrite Es, E2. fold R. rewrite V1. reflexivity.
    Qed.
  End Doerner.

End Alg.

(* ================================================================================================ *)
(* Final statements, phrased with the closed forms of Model/SigEq.v (quoted by Properties/C01_alg.v) *)
Section Final.
  Variable A : alg.
  Hypothesis L : alg_laws A.
  Add Field Afield_final : (al_field A L).

  Theorem cmp_sign_correct_final (r : cmp_run A) (S' : list party) :
    NoDup (cS r) -> Permutation (cS r) S' -> cmp_mta_ok r ->
    cmp_k r <> sc0 A -> cmp_gamma r <> sc0 A -> cmp_r r <> sc0 A -> cmp_s r <> sc0 A ->
    (* every signer, whatever its iteration order S', passes the Delta check and outputs the same (R, s) *)
    cmp_sign_view r S' = Some (cmp_R r, cmp_s r)
    (* ... which the library's verifier accepts under the public key the signers computed *)
    /\ ecdsa_verify (cmp_PublicKey r) (c_m r) (cmp_R r) (cmp_s r) = true
    /\ act A (scinv A (cmp_s r))
           (ptadd A (act A (c_m r) (base A)) (act A (cmp_r r) (cmp_PublicKey r))) = cmp_R r
    (* ... and that key is x G for x = sum lambda_i x_i *)
    /\ cmp_PublicKey r = act A (cmp_x r) (base A).
  Proof.
    intros Hnd Hp Hm. unfold cmp_s, cmp_r, cmp_R, cmp_k, cmp_gamma, cmp_x. rewrite !(sumF_eq A L).
    intros Hk Hg Hr Hs.
    apply (cmp_sign_correct A L r Hnd); try assumption; intros i j Hi Hj Hne; apply (Hm i j Hi Hj Hne).
  Qed.

  Theorem cmp_round4_check_passes (r : cmp_run A) (S' : list party) :
    NoDup (cS r) -> Permutation (cS r) S' -> cmp_mta_ok r ->
    cmp_k r <> sc0 A -> cmp_gamma r <> sc0 A ->
    cmp_round4 S' (sumG (cmp_BigGammaShare r) S') (cmp_delta_share r) (cmp_BigDeltaShare r)
    = Some (cmp_R r, cmp_r r).
  Proof.
    intros Hnd Hp Hm. unfold cmp_r, cmp_R, cmp_k, cmp_gamma. rewrite !(sumF_eq A L). intros Hk Hg.
    apply (cmp_round4_ok A L r Hnd); try assumption; intros i j Hi Hj Hne; apply (Hm i j Hi Hj Hne).
  Qed.

  Theorem presign_online_correct_final (r : cmp_run A) (S' : list party) (X : Pt A) (i : party) :
    NoDup (cS r) -> Permutation (cS r) S' -> cmp_mta_ok r ->
    cmp_k r <> sc0 A -> cmp_gamma r <> sc0 A -> cmp_r r <> sc0 A -> cmp_s r <> sc0 A ->
    X = cmp_PublicKey r ->
    let DeltaInv := scinv A (scmul A (cmp_gamma r) (cmp_k r)) in
    (* presign6: the Delta check passes, R = k^-1 G *)
    ps_round6 S' (sumG (cmp_BigGammaShare r) S') (cmp_delta_share r) (cmp_BigDeltaShare r)
      = Some (cmp_R r, DeltaInv)
    (* presign7: sum_j S_j = PublicKey *)
    /\ ps_round7 S' (cmp_PublicKey r) (fun l => act A (cmp_chi_share r l) (cmp_R r)) = true
    (* the presignature tables: RBar_j = k_j R, S_j = chi_j R *)
    /\ (forall j, pRBar (ps_presig r (cmp_R r) DeltaInv i) j = act A (c_k r j) (cmp_R r))
    /\ (forall j, pS (ps_presig r (cmp_R r) DeltaInv i) j = act A (cmp_chi_share r j) (cmp_R r))
    (* sign1/sign2: the combined signature verifies; VerifySignatureShares names nobody *)
    /\ ps_view r S' X i = PsSig (cmp_R r) (cmp_s r)
    /\ ecdsa_verify X (c_m r) (cmp_R r) (cmp_s r) = true
    /\ verify_signature_shares S' (ps_presig r (cmp_R r) DeltaInv i)
         (fun j => signature_share (ps_presig r (cmp_R r) DeltaInv j) (c_m r)) (c_m r) = []
    (* the statements given to zkelog in presign5/presign6 and to zklog in the abort branch of presign7 are true *)
    /\ (forall j, elog_rel (ps_ElGamalK r j) (ps_ElGamalPub r j) (cmp_Gamma r) (cmp_BigDeltaShare r j)
                           (c_k r j) (c_bk r j))
    /\ (forall j, elog_rel (ps_ElGamalChi r j) (ps_ElGamalPub r j) (cmp_R r)
                           (act A (cmp_chi_share r j) (cmp_R r)) (cmp_chi_share r j) (c_bchi r j))
    /\ (forall j, log_rel (fst (ps_ElGamalChi r j)) (ps_ElGamalPub r j)
                          (act A (c_bchi r j) (ps_ElGamalPub r j)) (c_ea r j) (c_bchi r j)).
  Proof.
    intros Hnd Hp Hm. unfold cmp_s, cmp_r, cmp_R, cmp_k, cmp_gamma, cmp_x. rewrite !(sumF_eq A L).
    intros Hk Hg Hr Hs HX. cbv zeta.
    assert (Hd : forall i j, In i (cS r) -> In j (cS r) -> i <> j ->
                             mta_rel (c_ad r) (c_bd r) (c_gam r) (c_k r) i j)
      by (intros a b Ha Hb Hne; apply (Hm a b Ha Hb Hne)).
    assert (Hc : forall i j, In i (cS r) -> In j (cS r) -> i <> j ->
                             mta_rel (c_ac r) (c_bc r) (cmp_secret r) (c_k r) i j)
      by (intros a b Ha Hb Hne; apply (Hm a b Ha Hb Hne)).
    destruct (presign_online_correct A L r Hnd Hd Hc S' Hp Hk Hg Hr Hs X i HX) as [H1 [H2 H3]].
    split; [apply (ps_round6_ok A L r Hnd Hd S' Hp Hk Hg)|].
    split; [apply (ps_round7_ok A L r Hnd Hc S' Hp Hk)|].
    split; [intro j; cbn [ps_presig pRBar]; apply (ps_RBar_eq A L r Hk Hg)|].
    split; [intro j; reflexivity|].
    split; [exact H1|]. split; [exact H2|]. split; [exact H3|].
    split; [|split].
    - intro j. unfold elog_rel, ps_ElGamalK, elg_enc, cmp_BigDeltaShare. cbn [fst snd]. repeat split.
    - intro j. unfold elog_rel, ps_ElGamalChi, elg_enc. cbn [fst snd]. repeat split.
    - intro j. unfold log_rel, ps_ElGamalChi, ps_ElGamalPub, elg_enc. cbn [fst snd]. repeat split.
      rewrite !(act_act A L). apply (act_eq A). ring.
  Qed.

  Theorem frost_sign_correct_final (Hc : Pt A -> Pt A -> Sc A) (r : frost_run A) (Y : Pt A) (S' : list party) :
    Permutation (fS r) S' ->
    Y = act A (frost_sk r) (base A) ->
    let R := act A (frost_nonce r) (base A) in
    let c := Hc R Y in
    let z := scadd A (scmul A (frost_sk r) c) (frost_nonce r) in
    frost_view Hc r Y S' = Some (R, z)
    /\ frost_verify c Y R z = true
    /\ act A z (base A) = ptadd A R (act A c Y)
    /\ (forall l, frost_share_ok c (f_lam r l) (frost_Yshare r l)
                    (frost_Rshare (f_rho r) (frost_D r) (frost_E r) l)
                    (frost_z (f_lam r l) (f_s r l) c (f_d r l) (f_e r l) (f_rho r l)) = true).
  Proof.
    unfold frost_sk, frost_nonce. rewrite !(sumF_eq A L). intros Hp HY.
    exact (frost_sign_correct A L r Hc Y S' Hp HY).
  Qed.

  Theorem frost_taproot_correct_final (T : tapx A) (TL : tap_laws A T)
          (Hc : Xb T -> Xb T -> Sc A) (r : frost_run A) (Yraw : Pt A) (S' : list party) :
    Permutation (fS r) S' ->
    Yraw = act A (frost_sk r) (base A) ->
    Yraw <> pt0 A ->
    act A (frost_nonce r) (base A) <> pt0 A ->
    let R := act A (frost_nonce r) (base A) in
    let pk := tap_pubkey T Yraw in
    let c := Hc (xbytes T R) pk in
    let z := scadd A (scmul A (neg_if_sc (tap_key_flip T Yraw) (frost_sk r)) c)
                     (neg_if_sc (negb (has_even_y T R)) (frost_nonce r)) in
    frost_taproot_view T Hc (tap_stored_run T r Yraw) pk (tap_stored_vshares T r Yraw) S' = Some (xbytes T R, z)
    /\ taproot_verify T Hc pk (xbytes T R) z = true.
  Proof.
    unfold frost_sk, frost_nonce. rewrite !(sumF_eq A L). intros Hp HY HY0 HR0.
    exact (frost_taproot_correct A L T TL r Yraw HY HY0 HR0 Hc S' Hp).
  Qed.

  Theorem doerner_sign_correct_final (HR HG1 HG2 : Pt A -> Sc A) (r : doerner_run A) :
    doerner_ot_ok HR r ->
    doerner_kA HR r <> sc0 A -> d_kB r <> sc0 A ->
    xsc A (doerner_R HR r) <> sc0 A -> doerner_s HR r <> sc0 A ->
    doerner_view HR HG1 HG2 r = Some (doerner_R HR r, doerner_s HR r)
    /\ ecdsa_verify (doerner_Public r) (d_m r) (doerner_R HR r) (doerner_s HR r) = true
    /\ act A (scinv A (doerner_s HR r))
           (ptadd A (act A (d_m r) (base A)) (act A (xsc A (doerner_R HR r)) (doerner_Public r)))
       = doerner_R HR r
    (* both parties derive the same R and the same pads Gamma1, Gamma2 *)
    /\ doerner_R_S HR r = doerner_R HR r
    /\ doerner_R_R HR r = doerner_R HR r
    /\ doerner_Gamma1_R HR r = doerner_Gamma1_S HR r
    /\ doerner_Gamma2_R HR HG1 r = doerner_Gamma2_S r.
  Proof.
    intros [Hm0 [Hm1 Hm2]] HkA HkB Hr Hs.
    destruct (doerner_sign_correct A L HR HG1 HG2 r HkA HkB Hm0 Hm1 Hm2 Hr Hs) as [H1 [H2 [H3 [H4 [H5 H6]]]]].
    repeat split; try assumption.
    apply (doerner_R_agree A L HR r).
  Qed.
End Final.

(* ================================================================================================ *)
(* The instance Z/101 satisfies the laws (so none of the theorems above is vacuous).                *)
Lemma in101_range z : in101 z = true <-> (0 <= z < 101)%Z.
Proof. unfold in101. rewrite andb_true_iff, Z.leb_le, Z.ltb_lt. tauto. Qed.
Lemma zv_range a : (0 <= zv a < 101)%Z.
Proof. destruct a as [x p]. apply in101_range. exact p. Qed.
Lemma zv_z101 z : zv (z101 z) = (z mod 101)%Z.
Proof.
  unfold z101. destruct (Sumbool.sumbool_of_bool (in101 (z mod 101))) as [e|e]; [reflexivity|].
  exfalso. assert (H : in101 (z mod 101) = true) by (apply in101_range; apply Z.mod_pos_bound; lia).
  congruence.
Qed.
Lemma z101_ext a b : zv a = zv b -> a = b.
Proof.
  destruct a as [x p], b as [y q]. cbn [zv proj1_sig]. intros ->. f_equal. apply UIP_dec, bool_dec.
Qed.
Lemma z101_zv a : z101 (zv a) = a.
Proof. apply z101_ext. rewrite zv_z101. apply Z.mod_small, zv_range. Qed.
Lemma z101_all (Q : Z101 -> bool) :
  forallb (fun n => Q (z101 (Z.of_nat n))) (seq 0 101) = true -> forall a, Q a = true.
Proof.
  intros H a. rewrite forallb_forall in H. rewrite <- (z101_zv a).
  specialize (H (Z.to_nat (zv a))). rewrite Z2Nat.id in H by apply zv_range.
  apply H. apply in_seq. pose proof (zv_range a). lia.
Qed.
Lemma z101_eqb_eq a b : z101_eqb a b = true <-> a = b.
Proof.
  unfold z101_eqb. rewrite Z.eqb_eq. split; [apply z101_ext | now intros ->].
Qed.

Lemma Z101_ring : ring_theory (z101 0) (z101 1) z101_add z101_mul z101_sub z101_opp eq.
Proof.
  constructor; intros; apply z101_ext; unfold z101_add, z101_mul, z101_sub, z101_opp; rewrite ?zv_z101.
  - change (0 mod 101)%Z with 0%Z. rewrite Z.add_0_l. apply Z.mod_small, zv_range.
  - now rewrite Z.add_comm.
  - rewrite Zplus_mod_idemp_r, Zplus_mod_idemp_l. f_equal; lia.
  - change (1 mod 101)%Z with 1%Z. rewrite Z.mul_1_l. apply Z.mod_small, zv_range.
  - now rewrite Z.mul_comm.
  - rewrite Zmult_mod_idemp_r, Zmult_mod_idemp_l. f_equal; ring.
  - rewrite Zmult_mod_idemp_l, <- Zplus_mod. f_equal; ring.
  - rewrite Zplus_mod_idemp_r. f_equal; lia.
  - rewrite Zplus_mod_idemp_r. f_equal; lia.
Qed.
Lemma Z101_inv_l p : p <> z101 0 -> z101_mul (z101_inv p) p = z101 1.
Proof.
  intro Hp.
  pose proof (z101_all (fun a => z101_eqb a (z101 0) || z101_eqb (z101_mul (z101_inv a) a) (z101 1))) as H.
  specialize (H ltac:(vm_compute; reflexivity) p). apply orb_true_iff in H as [H|H]; apply z101_eqb_eq in H.
  - contradiction.
  - exact H.
Qed.
Lemma Z101_field : field_theory (z101 0) (z101 1) z101_add z101_mul z101_sub z101_opp z101_div z101_inv eq.
Proof.
  constructor.
  - exact Z101_ring.
  - intro H. apply (f_equal zv) in H. vm_compute in H. discriminate.
  - reflexivity.
  - exact Z101_inv_l.
Qed.
Add Field Z101f : Z101_field.

Lemma A101_laws : alg_laws A101.
Proof.
  constructor; cbn [A101 Sc sc0 sc1 scadd scmul scsub scopp scdiv scinv sceqb Pt pt0 ptadd ptopp act base pteqb].
  - exact Z101_field.
  - exact z101_eqb_eq.
  - exact z101_eqb_eq.
  - intros; ring.
  - intros; ring.
  - intros; ring.
  - intros; ring.
  - intros; ring.
  - intros; ring.
  - intros; ring.
  - intros; ring.
Qed.
Lemma A101_base_free : base_free A101.
Proof.
  unfold base_free. cbn [A101 Sc Pt act base pt0 sc0]. intros a H. rewrite <- H. ring.
Qed.
Lemma T101_laws : tap_laws A101 T101.
Proof.
  constructor; cbn [A101 T101 Pt pt0 ptopp xbytes lift_x has_even_y xeqb Xb].
  - intros P HP.
    pose proof (z101_all (fun a => z101_eqb a (z101 0)
                                   || Bool.eqb (t101_even (z101_opp a)) (negb (t101_even a)))) as H.
    specialize (H ltac:(vm_compute; reflexivity) P). apply orb_true_iff in H as [H|H].
    + apply z101_eqb_eq in H. contradiction.
    + now apply Bool.eqb_prop in H.
  - intro P.
    pose proof (z101_all (fun a => Z.eqb (t101_xbytes (z101_opp a)) (t101_xbytes a))) as H.
    specialize (H ltac:(vm_compute; reflexivity) P). now apply Z.eqb_eq in H.
  - intros P HP.
    pose proof (z101_all (fun a => z101_eqb a (z101 0)
                 || match t101_lift (t101_xbytes a) with
                    | Some X => z101_eqb X (if t101_even a then a else z101_opp a)
                    | None => false end)) as H.
    specialize (H ltac:(vm_compute; reflexivity) P). apply orb_true_iff in H as [H|H].
    + apply z101_eqb_eq in H. contradiction.
    + destruct (t101_lift (t101_xbytes P)) as [X|]; [|discriminate].
      apply z101_eqb_eq in H. now subst.
  - intros a b. apply Z.eqb_eq.
Qed.

(* toy ciphertexts for the opening-index statements: a ciphertext records its key owner and its plaintext *)
Definition C101 : Type := (party * Z101)%type.
Definition opens101 (p : party) (c : C101) (v : Z101) : bool := N.eqb p (fst c) && z101_eqb (snd c) v.

(* ------------------------------------------------------------------------------------------------ *)
(* The hypotheses of the theorems hold for the concrete runs of Model/SigEq.v (used by the Examples) *)
Ltac z101_neq := let H := fresh in intro H; apply (f_equal zv) in H; vm_compute in H; discriminate H.

Lemma ex_S_nodup : NoDup ex_S.
Proof. unfold ex_S. repeat (constructor; [cbn; intuition discriminate|]). constructor. Qed.
Lemma ex_perm_312 : Permutation ex_S [3; 1; 2]%N.
Proof. apply Permutation_sym. apply (Permutation_cons_append [1; 2]%N 3%N). Qed.
Lemma ex_perm_231 : Permutation ex_S [2; 3; 1]%N.
Proof. apply (Permutation_cons_append [2; 3]%N 1%N). Qed.
Lemma ex_perm_321 : Permutation ex_S [3; 2; 1]%N.
Proof. apply (Permutation_rev ex_S). Qed.
Lemma ex_perm_213 : Permutation ex_S [2; 1; 3]%N.
Proof. apply perm_swap. Qed.

Lemma ex_mta_delta i j : @mta_rel A101 ex_ad ex_bd ex_gam ex_k i j.
Proof.
  change (z101_add (ex_ad i j) (ex_bd j i) = z101_mul (ex_gam j) (ex_k i)). unfold ex_ad. ring.
Qed.
Lemma ex_mta_chi i j : @mta_rel A101 ex_ac ex_bc (cmp_secret ex_cmp) ex_k i j.
Proof.
  change (z101_add (ex_ac i j) (ex_bc j i) = z101_mul (z101_mul (ex_lam j) (ex_xs j)) (ex_k i)).
  unfold ex_ac. ring.
Qed.
Lemma ex_cmp_mta_ok : cmp_mta_ok ex_cmp.
Proof. intros i j _ _ _. split; [apply ex_mta_delta | apply ex_mta_chi]. Qed.
Lemma ex_cmp_k_ne : cmp_k ex_cmp <> sc0 A101. Proof. z101_neq. Qed.
Lemma ex_cmp_gamma_ne : cmp_gamma ex_cmp <> sc0 A101. Proof. z101_neq. Qed.
Lemma ex_cmp_r_ne : cmp_r ex_cmp <> sc0 A101. Proof. z101_neq. Qed.
Lemma ex_cmp_s_ne : cmp_s ex_cmp <> sc0 A101. Proof. z101_neq. Qed.
Lemma ex_cmp_R_free : act_free A101 (cmp_R ex_cmp).
Proof.
  apply (act_free_scale A101 A101_laws (scinv A101 (cmp_k ex_cmp)) A101_base_free). z101_neq.
Qed.

Lemma ex_frost_Y : z101 9 = act A101 (frost_sk ex_frost) (base A101).
Proof. vm_compute. reflexivity. Qed.
Lemma ex_frost_odd_Y : z101 60 = act A101 (frost_sk ex_frost_odd) (base A101).
Proof. vm_compute. reflexivity. Qed.
Lemma ex_frost_odd_Y_ne : z101 60 <> pt0 A101. Proof. z101_neq. Qed.
Lemma ex_frost_odd_R_ne : act A101 (frost_nonce ex_frost_odd) (base A101) <> pt0 A101. Proof. z101_neq. Qed.

Lemma ex_doerner_ot_ok : @doerner_ot_ok A101 ex_HR ex_doerner.
Proof. repeat split; vm_compute; reflexivity. Qed.
Lemma ex_doerner_kA_ne : @doerner_kA A101 ex_HR ex_doerner <> sc0 A101. Proof. z101_neq. Qed.
Lemma ex_doerner_kB_ne : d_kB ex_doerner <> sc0 A101. Proof. z101_neq. Qed.
Lemma ex_doerner_r_ne : xsc A101 (@doerner_R A101 ex_HR ex_doerner) <> sc0 A101. Proof. z101_neq. Qed.
Lemma ex_doerner_s_ne : @doerner_s A101 ex_HR ex_doerner <> sc0 A101. Proof. z101_neq. Qed.

(* opening-index toy model *)
Lemma ex_opens_own from to : opens101 to (ex_ct from to) (ex_ad to from) = true.
Proof.
  unfold opens101, ex_ct. cbn [fst snd]. rewrite N.eqb_refl. cbn [andb]. now apply z101_eqb_eq.
Qed.
Lemma ex_opens_sep p from to v : p <> to -> opens101 p (ex_ct from to) v = false.
Proof.
  intro H. unfold opens101, ex_ct. cbn [fst snd]. apply N.eqb_neq in H. rewrite H. reflexivity.
Qed.
