(* ZKGuardsProofs.v -- IsValid and Verify of the 15 proof systems of pkg/zk, as the source has them now
   (Generated/ZKGuards.v), against the model's verifiers (Model/ZK.v):
     zkX_IsValid :  geval (env_X_valid nl ...) go_zkX_Proof_IsValid = Some (nn nl X_names && X_valid ...)
                    for EVERY assignment nl of nil-ness to the pointers involved: IsValid never dereferences a nil pointer, refuses
                    as soon as one is nil, and otherwise is the model's validity predicate (the IsValid prefix of X_verify);
     zkX_Verify  :  geval (env_X_verify ...) go_zkX_Proof_Verify = X_verify ...
                    as [option bool]: same verdict, and the Go verifier reaches a panicking EncWithNonce exactly when the
                    model returns None; every range check (IsInIntervalLEps, IsInIntervalLPrimeEps, IsInPlaintextRange,
                    IsInIntervalLEpsPlus1RootN, IsBoundedInt) sits where the model has it.
   Lemmas; statements are restated in Properties/C10_gen.v. *)
From Coq Require Import String List Bool NArith ZArith Lia.
From MPS Require Import Model.Bytes Model.Framing Model.Paillier Model.ZK.
From MPS Require Import Generated.Params Generated.Guards Generated.ZKGuards Proofs.GuardsBase Proofs.ZKGuardsBase.
Import ListNotations.
Local Open Scope string_scope.
Local Open Scope Z_scope.

(* every IsValid / Verify method below pkg/zk was translated, and there is no other *)
Lemma zk_translated :
  map fst go_zkguards =
  [ "zkaffg_Proof_IsValid"; "zkaffg_Proof_Verify"; "zkaffp_Proof_IsValid"; "zkaffp_Proof_Verify"; "zkdec_Proof_IsValid"; "zkdec_Proof_Verify";
    "zkelog_Proof_IsValid"; "zkelog_Proof_Verify"; "zkenc_Proof_IsValid"; "zkenc_Proof_Verify"; "zkencelg_Proof_IsValid"; "zkencelg_Proof_Verify";
    "zkfac_Proof_Verify"; "zklog_Proof_IsValid"; "zklog_Proof_Verify"; "zklogstar_Proof_IsValid"; "zklogstar_Proof_Verify";
    "zkmod_Proof_IsValid"; "zkmod_Proof_Verify"; "zkmod_Response_Verify"; "zkmul_Proof_IsValid"; "zkmul_Proof_Verify";
    "zkmulstar_Proof_IsValid"; "zkmulstar_Proof_Verify"; "zknth_Proof_IsValid"; "zknth_Proof_Verify"; "zkprm_Proof_IsValid"; "zkprm_Proof_Verify";
    "zksch_Commitment_IsValid"; "zksch_Proof_IsValid"; "zksch_Proof_Verify"; "zksch_Response_IsValid"; "zksch_Response_Verify";
    "arith_IsBoundedInt"; "arith_IsInIntervalLEps"; "arith_IsInIntervalLEpsPlus1RootN"; "arith_IsInIntervalLPrimeEps";
    "arith_IsInPlaintextRange"; "arith_IsValidBigModN"; "arith_IsValidNatModN";
    "paillier_ValidateCiphertexts"; "paillier_ValidateN"; "paillier_ValidatePrime"; "pedersen_ValidateParameters"; "pedersen_Verify" ]
  /\ zkguards_untranslatable = [].
Proof. split; reflexivity. Qed.

(* ---------------------------------------------------------------- integers only *)

Lemma zknth_IsValid nl n A z :
  geval (alookup (env_nth_valid nl n A z)) go_zknth_Proof_IsValid = Some (nn nl nth_names && nth_valid n A z).
Proof. unfold env_nth_valid, go_zknth_Proof_IsValid, nth_names, nth_valid, pc, pp; cbn [app]; zsolve. Qed.
Lemma zknth_Verify n R A z e :
  geval (alookup (env_nth_verify n R A z e)) go_zknth_Proof_Verify = nth_verify n R A z e.
Proof. unfold env_nth_verify, go_zknth_Proof_Verify, nth_verify, nth_valid, guard, accept; zsolve. Qed.

Lemma zkenc_IsValid nl nh n0 S A C z2 :
  geval (alookup (env_enc_valid nl nh n0 S A C z2)) go_zkenc_Proof_IsValid = Some (nn nl enc_names && enc_valid nh n0 S A C z2).
Proof. unfold env_enc_valid, go_zkenc_Proof_IsValid, enc_names, enc_valid, pc, pp; cbn [app]; zsolve. Qed.
Lemma zkenc_Verify nh s t n0 K S A C z1 z2 z3 e :
  geval (alookup (env_enc_verify nh s t n0 K S A C z1 z2 z3 e)) go_zkenc_Proof_Verify = enc_verify nh s t n0 K S A C z1 z2 z3 e.
Proof. unfold env_enc_verify, go_zkenc_Proof_Verify, enc_verify, enc_valid, enc_eq, guard, accept; zsolve. Qed.

Lemma zkmul_IsValid nl n A B u v :
  geval (alookup (env_mul_valid nl n A B u v)) go_zkmul_Proof_IsValid = Some (nn nl mul_names && mul_valid n A B u v).
Proof. unfold env_mul_valid, go_zkmul_Proof_IsValid, mul_names, mul_valid, pc, pp; cbn [app]; zsolve. Qed.
Lemma zkmul_Verify n X Y C A B z u v e :
  geval (alookup (env_mul_verify n X Y C A B z u v e)) go_zkmul_Proof_Verify = mul_verify n X Y C A B z u v e.
Proof. unfold env_mul_verify, go_zkmul_Proof_Verify, mul_verify, mul_valid, enc_eq, guard, accept; zsolve. Qed.

Lemma zkaffp_IsValid nl nh n1 n0 A Bx By E S F T w wx wy :
  geval (alookup (env_affp_valid nl nh n1 n0 A Bx By E S F T w wx wy)) go_zkaffp_Proof_IsValid
  = Some (nn nl affp_names && affp_valid nh n1 n0 A Bx By E S F T w wx wy).
Proof. unfold env_affp_valid, go_zkaffp_Proof_IsValid, affp_names, affp_valid, pc, pp; cbn [app]; zsolve. Qed.
Lemma zkaffp_Verify nh s t n1 n0 Kv Dv Fp Xp A Bx By E S F T z1 z2 z3 z4 w wx wy e :
  geval (alookup (env_affp_verify nh s t n1 n0 Kv Dv Fp Xp A Bx By E S F T z1 z2 z3 z4 w wx wy e)) go_zkaffp_Proof_Verify
  = affp_verify nh s t n1 n0 Kv Dv Fp Xp A Bx By E S F T z1 z2 z3 z4 w wx wy e.
Proof. unfold env_affp_verify, go_zkaffp_Proof_Verify, affp_verify, affp_valid, enc_eq, guard, accept; zsolve. Qed.

Lemma zkfac_Verify n0 nh s t P Q A B T sigma z1 z2 w1 w2 v e :
  geval (alookup (env_fac_verify n0 nh s t P Q A B T sigma z1 z2 w1 w2 v e)) go_zkfac_Proof_Verify
  = fac_verify n0 nh s t P Q A B T sigma z1 z2 w1 w2 v e.
Proof. unfold env_fac_verify, go_zkfac_Proof_Verify, fac_verify, guard, accept; zsolve. Qed.

(* ---- mod *)
Lemma forallb_as_existsb {A} (f : A -> bool) l : forallb f l = negb (existsb (fun x => negb (f x)) l).
Proof. induction l as [|a l IH]; [reflexivity|]. cbn. rewrite negb_orb, negb_involutive, IH. reflexivity. Qed.

Lemma zkmod_IsValid nl n w rs :
  geval (alookup (env_mod_valid nl n w rs)) go_zkmod_Proof_IsValid = Some (nn nl mod_names && mod_valid n w rs).
Proof.
  unfold env_mod_valid, go_zkmod_Proof_IsValid, mod_names, mod_valid.
  rewrite (forallb_as_existsb (mod_resp_valid n) rs).
  set (ex := existsb _ rs).
  cbv [geval alookup String.eqb Ascii.eqb Bool.eqb andb orb negb dep nn existsb forallb named_all fst snd].
  repeat first [reflexivity | gstep].
Qed.

(* the verdict loop over the results of Parallelize is the model's recursive conjunction *)
Lemma mod_rounds_existsb n w ys rs : length ys = length rs ->
  existsb (fun yr => negb (mod_response n w (fst yr) (snd yr))) (combine ys rs) = negb (mod_rounds n w ys rs).
Proof.
  revert rs. induction ys as [|y ys IH]; intros [|r rs] Hl; try discriminate; [reflexivity|].
  cbn [combine existsb mod_rounds fst snd]. rewrite IH by (cbn in Hl; lia). rewrite negb_andb. reflexivity.
Qed.

Lemma zkmod_Verify n w rs ys : length ys = length rs ->
  geval (alookup (env_mod_verify n w rs ys)) go_zkmod_Proof_Verify = mod_verify n w rs ys.
Proof.
  intros Hl. unfold env_mod_verify. rewrite (mod_rounds_existsb n w ys rs Hl).
  unfold go_zkmod_Proof_Verify, mod_verify, mod_valid, guard, accept.
  cbv [geval alookup String.eqb Ascii.eqb Bool.eqb andb orb negb].
  repeat first [reflexivity | gstep].
Qed.

Lemma zkmod_Response_Verify n w y r :
  geval (alookup (env_mod_response n w y r)) go_zkmod_Response_Verify = Some (mod_response n w y r).
Proof. destruct r as [[[a b] x] z]. unfold env_mod_response, go_zkmod_Response_Verify, mod_response; zsolve. Qed.

(* ---- prm *)
Lemma zkprm_IsValid nl n As Zs :
  geval (alookup (env_prm_valid nl n As Zs)) go_zkprm_Proof_IsValid = Some (nn nl prm_names && prm_valid n As Zs).
Proof.
  unfold env_prm_valid, go_zkprm_Proof_IsValid, prm_names. set (v := prm_valid n As Zs).
  cbv [geval alookup String.eqb Ascii.eqb Bool.eqb andb orb negb dep nn existsb]. repeat first [reflexivity | gstep].
Qed.

Lemma prm_rounds_existsb n s t As Zs es : length As = length Zs -> length Zs = length es ->
  existsb (fun aze => negb (prm_round n s t aze)) (combine (combine As Zs) es) = negb (prm_rounds n s t As Zs es).
Proof.
  revert Zs es. induction As as [|a As IH]; intros [|z Zs] [|e es] H1 H2; try discriminate; [reflexivity|].
  cbn [combine existsb prm_rounds prm_round]. rewrite IH by (cbn in H1, H2; lia).
  destruct (valid_big n a), (valid_big n z), (negb (a =? 1)), (powmod n t z =? (if e then (a * s) mod n else a)); reflexivity.
Qed.

Lemma zkprm_Verify n s t As Zs es : length As = length Zs -> length Zs = length es ->
  geval (alookup (env_prm_verify n s t As Zs es)) go_zkprm_Proof_Verify = prm_verify n s t As Zs es.
Proof.
  intros H1 H2. unfold env_prm_verify. rewrite (prm_rounds_existsb n s t As Zs es H1 H2).
  unfold go_zkprm_Proof_Verify, prm_verify, prm_valid, guard, accept.
  cbv [geval alookup String.eqb Ascii.eqb Bool.eqb andb orb negb].
  repeat first [reflexivity | gstep].
Qed.

(* ---------------------------------------------------------------- over the curve *)
Section Curve.
  Context {G : Type}.
  Variable gadd : G -> G -> G.
  Variable smul : Z -> G -> G.
  Variable geqb : G -> G -> bool.
  Variable gis_id : G -> bool.
  Variable gbase : G.
  Variable q : Z.

  (* ---- sch *)
  Lemma zksch_Commitment_IsValid nl C :
    geval (alookup (env_sch_commitment gis_id nl C)) go_zksch_Commitment_IsValid = Some (nn nl ["c"; "c.C"] && negb (gis_id C)).
  Proof. unfold env_sch_commitment, go_zksch_Commitment_IsValid; zsolve. Qed.
  Lemma zksch_Response_IsValid nl z :
    geval (alookup (env_sch_response q nl z)) go_zksch_Response_IsValid = Some (nn nl ["z"; "z.Z"] && negb (sc_zero q z)).
  Proof. unfold env_sch_response, go_zksch_Response_IsValid; zsolve. Qed.
  Lemma zksch_Proof_IsValid nl C z :
    geval (alookup (env_sch_proof gis_id q nl C z)) go_zksch_Proof_IsValid
    = Some (nn nl ["p"; "p.Z.Z"; "p.C.C"] && negb (sc_zero q z) && negb (gis_id C)).
  Proof. unfold env_sch_proof, go_zksch_Proof_IsValid, pp; zsolve. Qed.
  Lemma zksch_Response_Verify gen X C z e :
    geval (alookup (env_sch_response_verify gadd smul geqb gis_id q gen X C z e)) go_zksch_Response_Verify
    = Some (sch_response_verify gadd smul geqb gis_id q gen X C z e).
  Proof. unfold env_sch_response_verify, go_zksch_Response_Verify, sch_response_verify; zsolve. Qed.
  Lemma zksch_Verify gen X C z e :
    geval (alookup (env_sch_verify gadd smul geqb gis_id q gen X C z e)) go_zksch_Proof_Verify
    = sch_verify gadd smul geqb gis_id q gen X C z e.
  Proof. unfold env_sch_verify, go_zksch_Proof_Verify, sch_verify, sch_response_verify, guard, accept; zsolve. Qed.

  (* ---- log *)
  Lemma zklog_IsValid nl A B C z1 z2 :
    geval (alookup (env_log_valid gis_id q nl A B C z1 z2)) go_zklog_Proof_IsValid
    = Some (nn nl log_names && log_valid gis_id q A B C z1 z2).
  Proof. unfold env_log_valid, go_zklog_Proof_IsValid, log_names, log_valid, pc, pp; cbn [app]; zsolve. Qed.
  Lemma zklog_Verify H X Y A B C z1 z2 e :
    geval (alookup (env_log_verify gadd smul geqb gis_id gbase q H X Y A B C z1 z2 e)) go_zklog_Proof_Verify
    = log_verify gadd smul geqb gis_id gbase q H X Y A B C z1 z2 e.
  Proof. unfold env_log_verify, go_zklog_Proof_Verify, log_verify, log_valid, guard, accept; zsolve. Qed.

  (* ---- elog *)
  Lemma zkelog_IsValid nl A Np B z u :
    geval (alookup (env_elog_valid gis_id q nl A Np B z u)) go_zkelog_Proof_IsValid
    = Some (nn nl elog_names && elog_valid gis_id q A Np B z u).
  Proof. unfold env_elog_valid, go_zkelog_Proof_IsValid, elog_names, elog_valid, pc, pp; cbn [app]; zsolve. Qed.
  Lemma zkelog_Verify L M X H Y A Np B z u e :
    geval (alookup (env_elog_verify gadd smul geqb gis_id gbase q L M X H Y A Np B z u e)) go_zkelog_Proof_Verify
    = elog_verify gadd smul geqb gis_id gbase q L M X H Y A Np B z u e.
  Proof. unfold env_elog_verify, go_zkelog_Proof_Verify, elog_verify, elog_valid, guard, accept; zsolve. Qed.

  (* ---- logstar *)
  Lemma zklogstar_IsValid nl nh n0 S A Y D z2 :
    geval (alookup (env_logstar_valid gis_id nl nh n0 S A Y D z2)) go_zklogstar_Proof_IsValid
    = Some (nn nl logstar_names && logstar_valid gis_id nh n0 S A Y D z2).
  Proof. unfold env_logstar_valid, go_zklogstar_Proof_IsValid, logstar_names, logstar_valid, pc, pp; cbn [app]; zsolve. Qed.
  Lemma zklogstar_Verify nh s t n0 C X Gb S A Y D z1 z2 z3 e :
    geval (alookup (env_logstar_verify gadd smul geqb gis_id q nh s t n0 C X Gb S A Y D z1 z2 z3 e)) go_zklogstar_Proof_Verify
    = logstar_verify gadd smul geqb gis_id q nh s t n0 C X Gb S A Y D z1 z2 z3 e.
  Proof. unfold env_logstar_verify, go_zklogstar_Proof_Verify, logstar_verify, logstar_valid, enc_eq, guard, accept; zsolve. Qed.

  (* ---- dec *)
  Lemma zkdec_IsValid nl nh n0 S T A Gamma w :
    geval (alookup (env_dec_valid q nl nh n0 S T A Gamma w)) go_zkdec_Proof_IsValid
    = Some (nn nl dec_names && dec_valid q nh n0 S T A Gamma w).
  Proof. unfold env_dec_valid, go_zkdec_Proof_IsValid, dec_names, dec_valid, pc, pp; cbn [app]; zsolve. Qed.
  Lemma zkdec_Verify nh s t n0 C X S T A Gamma z1 z2 w e :
    geval (alookup (env_dec_verify q nh s t n0 C X S T A Gamma z1 z2 w e)) go_zkdec_Proof_Verify
    = dec_verify q nh s t n0 C X S T A Gamma z1 z2 w e.
  Proof. unfold env_dec_verify, go_zkdec_Proof_Verify, dec_verify, dec_valid, enc_eq, guard, accept; zsolve. Qed.

  (* ---- affg *)
  Lemma zkaffg_IsValid nl nh n1 n0 A Bx By E S F T w wy :
    geval (alookup (env_affg_valid gis_id nl nh n1 n0 A Bx By E S F T w wy)) go_zkaffg_Proof_IsValid
    = Some (nn nl affg_names && affg_valid gis_id nh n1 n0 A Bx By E S F T w wy).
  Proof. unfold env_affg_valid, go_zkaffg_Proof_IsValid, affg_names, affg_valid, pc, pp; cbn [app]; zsolve. Qed.
  Lemma zkaffg_Verify nh s t n1 n0 Kv Dv Fp Xp A Bx By E S F T z1 z2 z3 z4 w wy e :
    geval (alookup (env_affg_verify gadd smul geqb gis_id gbase q nh s t n1 n0 Kv Dv Fp Xp A Bx By E S F T z1 z2 z3 z4 w wy e)) go_zkaffg_Proof_Verify
    = affg_verify gadd smul geqb gis_id gbase q nh s t n1 n0 Kv Dv Fp Xp A Bx By E S F T z1 z2 z3 z4 w wy e.
  Proof. unfold env_affg_verify, go_zkaffg_Proof_Verify, affg_verify, affg_valid, enc_eq, guard, accept; zsolve. Qed.

  (* ---- mulstar *)
  Lemma zkmulstar_IsValid nl nh n0 A Bx E S w :
    geval (alookup (env_mulstar_valid gis_id nl nh n0 A Bx E S w)) go_zkmulstar_Proof_IsValid
    = Some (nn nl mulstar_names && mulstar_valid gis_id nh n0 A Bx E S w).
  Proof. unfold env_mulstar_valid, go_zkmulstar_Proof_IsValid, mulstar_names, mulstar_valid, pc, pp; cbn [app]; zsolve. Qed.
  Lemma zkmulstar_Verify nh s t n0 C D X A Bx E S z1 z2 w e :
    geval (alookup (env_mulstar_verify gadd smul geqb gis_id gbase q nh s t n0 C D X A Bx E S z1 z2 w e)) go_zkmulstar_Proof_Verify
    = mulstar_verify gadd smul geqb gis_id gbase q nh s t n0 C D X A Bx E S z1 z2 w e.
  Proof. unfold env_mulstar_verify, go_zkmulstar_Proof_Verify, mulstar_verify, mulstar_valid, guard, accept; zsolve. Qed.

  (* ---- encelg *)
  Lemma zkencelg_IsValid nl nh n0 S D Y Zp T w z2 :
    geval (alookup (env_encelg_valid gis_id q nl nh n0 S D Y Zp T w z2)) go_zkencelg_Proof_IsValid
    = Some (nn nl encelg_names && encelg_valid gis_id q nh n0 S D Y Zp T w z2).
  Proof. unfold env_encelg_valid, go_zkencelg_Proof_IsValid, encelg_names, encelg_valid, pc, pp; cbn [app]; zsolve. Qed.
  Lemma zkencelg_Verify nh s t n0 C A B X S D Y Zp T z1 w z2 z3 e :
    geval (alookup (env_encelg_verify gadd smul geqb gis_id gbase q nh s t n0 C A B X S D Y Zp T z1 w z2 z3 e)) go_zkencelg_Proof_Verify
    = encelg_verify gadd smul geqb gis_id gbase q nh s t n0 C A B X S D Y Zp T z1 w z2 z3 e.
  Proof. unfold env_encelg_verify, go_zkencelg_Proof_Verify, encelg_verify, encelg_valid, enc_eq, guard, accept; zsolve. Qed.
End Curve.
