(* NonceFieldsProofs.v -- the inputs of the FROST signing nonce, binding factors and challenge as transcribed from /repo's source on
   every run (Generated/Challenges.v), against Model/Nonce.v (frost_nonce_input).  Lemmas; statements are restated in
   Properties/C11_fields.v. *)
From Coq Require Import String List Bool NArith ZArith.
From MPS Require Import Model.Bytes Model.Framing Model.Nonce.
From MPS Require Import Generated.Challenges Proofs.FieldsBase.
Import ListNotations.
Local Open Scope string_scope.
Local Open Scope list_scope.

(* ---------------------------------------------------------------- FROST signing: nonce derivation and round 2 hashes *)

(* round1.Finalize: KDF input and keyed-hash stream, as the model assembles them (Model/Nonce.v frost_nonce_input) *)
Definition tbl_frost_nonce (share : N) (digest msg rnd : bytes) : list (string * list bytes) :=
  [ ("blake3.DeriveKey <- deriveHashKeyContext", []);        (* the context string: frost_kdf_context *)
    ("blake3.DeriveKey <- s_iBytes[:]", []);                  (* key material: the first component *)
    ("blake3.DeriveKey <- hashKey", []);                      (* output buffer *)
    ("blake3.NewKeyed <- hashKey", []);
    ("nonceHasher <- r.Hash().Sum()", [digest]);
    ("nonceHasher <- r.M", [msg]);
    ("nonceHasher <- a", [rnd]) ].

Lemma go_frost_round1_nonce_fields share digest msg rnd :
  match collect (tbl_frost_nonce share digest msg rnd) go_frost_sign_round1_writes with
  | Some parts => frost_nonce_input share digest msg rnd = (scalar_bytes share, concat parts)
  | None => False
  end.
Proof.
  cbv [collect wlookup String.eqb Ascii.eqb Bool.eqb go_frost_sign_round1_writes tbl_frost_nonce].
  cbn [app concat]. unfold frost_nonce_input, frost_stream. rewrite app_nil_r. reflexivity.
Qed.

Lemma go_frost_round1_hash_trace_ok :
  go_frost_sign_round1_hash_trace =
  [ "s_iBytes, err := r.s_i.MarshalBinary()";
    "hashKey := make([]byte, 32)";
    "blake3.DeriveKey(deriveHashKeyContext, s_iBytes[:], hashKey)";
    "nonceHasher, _ := blake3.NewKeyed(hashKey)";
    "_, _ = nonceHasher.Write(r.Hash().Sum())";
    "_, _ = nonceHasher.Write(r.M)";
    "a := make([]byte, 32)";
    "_, _ = rand.Read(a)";
    "_, _ = nonceHasher.Write(a)";
    "nonceDigest := nonceHasher.Digest()";
    "d_i := sample.ScalarUnit(nonceDigest, r.Group())";
    "e_i := sample.ScalarUnit(nonceDigest, r.Group())" ].
Proof. reflexivity. Qed.

(* round2.Finalize: binding factors and challenge *)
Lemma go_frost_round2_writes_ok :
  go_frost_sign_round2_writes =
  [ "rhoPreHash <- r.M";
    "rhoPreHash <- [for _, l := range r.PartyIDs()] r.D[l]";
    "rhoPreHash <- [for _, l := range r.PartyIDs()] r.E[l]";
    "rhoHash <- [for _, l := range r.PartyIDs()] l";
    "taproot.TaggedHash <- [if r.taproot] ""BIP0340/challenge""";
    "taproot.TaggedHash <- [if r.taproot] RBytes";
    "taproot.TaggedHash <- [if r.taproot] PBytes";
    "taproot.TaggedHash <- [if r.taproot] r.M";
    "cHash <- [if !(r.taproot)] R";
    "cHash <- [if !(r.taproot)] r.Y";
    "cHash <- [if !(r.taproot)] r.M" ].
Proof. reflexivity. Qed.

Lemma go_frost_round2_hash_trace_ok :
  go_frost_sign_round2_hash_trace =
  [ "rhoPreHash := hash.New()";
    "_ = rhoPreHash.WriteAny(r.M)";
    "[for _, l := range r.PartyIDs()] _ = rhoPreHash.WriteAny(r.D[l], r.E[l])";
    "[for _, l := range r.PartyIDs()] rhoHash := rhoPreHash.Clone()";
    "[for _, l := range r.PartyIDs()] _ = rhoHash.WriteAny(l)";
    "[for _, l := range r.PartyIDs()] rho[l] = sample.Scalar(rhoHash.Digest(), r.Group())";
    "[if r.taproot] RBytes := RSecp.XBytes()";
    "[if r.taproot] PBytes := r.Y.(*curve.Secp256k1Point).XBytes()";
    "[if r.taproot] cHash := taproot.TaggedHash(""BIP0340/challenge"", RBytes, PBytes, r.M)";
    "[if r.taproot] c = r.Group().NewScalar().SetNat(new(saferith.Nat).SetBytes(cHash))";
    "[if !(r.taproot)] cHash := hash.New()";
    "[if !(r.taproot)] _ = cHash.WriteAny(R, r.Y, r.M)";
    "[if !(r.taproot)] c = sample.Scalar(cHash.Digest(), r.Group())" ].
Proof. reflexivity. Qed.

(* the message is part of every one of the three derivations (nonce, binding factor, challenge on both paths) *)
Lemma go_frost_message_is_hashed :
  mem "nonceHasher <- r.M" go_frost_sign_round1_writes = true /\
  mem "rhoPreHash <- r.M" go_frost_sign_round2_writes = true /\
  mem "taproot.TaggedHash <- [if r.taproot] r.M" go_frost_sign_round2_writes = true /\
  mem "cHash <- [if !(r.taproot)] r.M" go_frost_sign_round2_writes = true.
Proof. repeat split; reflexivity. Qed.

