(* ArithGuardsProofs.v -- the range / validity predicates of pkg/math/arith/int.go, pkg/paillier and pkg/pedersen as the source
   has them now (Generated/ZKGuards.v) are the model's predicates (Model/ZK.v in_leps, in_lprimeeps, in_leps1rootn, zk_bounded,
   in_plaintext, valid_mod, valid_big, ped_validate, ped_verify; Model/Paillier.v validate_ct, validate_n; Model/Cbor.v
   validate_N, validate_prime), for ALL inputs including nil.  Lemmas; statements are restated in Properties/C12_guards.v. *)
From Coq Require Import String List Bool NArith ZArith Lia.
From MPS Require Import Model.Bytes Model.Framing Model.Paillier Model.ZK.
From MPS Require Model.Cbor.
From MPS Require Import Generated.Params Generated.Guards Generated.ZKGuards Proofs.GuardsBase Proofs.ZKGuardsBase.
Import ListNotations.
Local Open Scope string_scope.
Local Open Scope Z_scope.

Lemma arith_translated :
  ztranslated ["arith_IsBoundedInt"; "arith_IsInIntervalLEps"; "arith_IsInIntervalLEpsPlus1RootN"; "arith_IsInIntervalLPrimeEps";
               "arith_IsInPlaintextRange"; "arith_IsValidBigModN"; "arith_IsValidNatModN";
               "paillier_ValidateCiphertexts"; "paillier_ValidateN"; "paillier_ValidatePrime";
               "pedersen_ValidateParameters"; "pedersen_Verify"] = true.
Proof. vm_compute. reflexivity. Qed.

(* the constants in the atoms are the model's *)
Lemma arith_params_ok :
  go_param_LPlusEpsilon = zk_LEps /\ go_param_LPrimePlusEpsilon = zk_LPrimeEps /\ go_param_BitsIntModN = zk_BitsN /\
  go_param_BitsPaillier = Cbor.bits_paillier /\ go_param_BitsBlumPrime = Cbor.bits_blum_prime /\ Cbor.bits_paillier = bits_paillier.
Proof. repeat split; reflexivity. Qed.

(* ---------------------------------------------------------------- interval predicates *)

Lemma arith_IsInIntervalLEps n :
  geval (alookup (env_interval n)) go_arith_IsInIntervalLEps = Some (some_and n in_leps).
Proof. destruct n; reflexivity. Qed.
Lemma arith_IsInIntervalLPrimeEps n :
  geval (alookup (env_interval n)) go_arith_IsInIntervalLPrimeEps = Some (some_and n in_lprimeeps).
Proof. destruct n; reflexivity. Qed.
Lemma arith_IsInIntervalLEpsPlus1RootN n :
  geval (alookup (env_interval n)) go_arith_IsInIntervalLEpsPlus1RootN = Some (some_and n in_leps1rootn).
Proof. destruct n; reflexivity. Qed.
Lemma arith_IsBoundedInt n :
  geval (alookup (env_interval n)) go_arith_IsBoundedInt = Some (some_and n zk_bounded).
Proof. destruct n; reflexivity. Qed.

(* IsInPlaintextRange: the length pre-test never changes the verdict: more bits than N means |n| > N > N/2 *)
Lemma truelen_gt_bitlen N z : 0 < N -> Cbor.bitlen N <? truelen z = true -> N / 2 <? Z.abs z = true.
Proof.
  intros HN H. apply Z.ltb_lt in H. apply Z.ltb_lt.
  unfold Cbor.bitlen in H. destruct (N <=? 0) eqn:E; [apply Z.leb_le in E; lia|].
  unfold truelen in H. destruct z as [|p|p].
  - pose proof (Z.log2_nonneg N). lia.
  - assert (Z.log2 N < Z.log2 (Z.abs (Z.pos p))) as Hl by lia.
    apply Z.log2_lt_cancel in Hl. assert (N / 2 <= N) by (apply Z.div_le_upper_bound; lia). lia.
  - assert (Z.log2 N < Z.log2 (Z.abs (Z.neg p))) as Hl by lia.
    apply Z.log2_lt_cancel in Hl. assert (N / 2 <= N) by (apply Z.div_le_upper_bound; lia). lia.
Qed.

Lemma arith_IsInPlaintextRange N n :
  match N with Some N => 0 < N | None => True end ->
  geval (alookup (env_plaintext N n)) go_arith_IsInPlaintextRange
  = Some (match N, n with Some N, Some z => in_plaintext N z | _, _ => false end).
Proof.
  intros HN. destruct N as [N|], n as [z|]; try reflexivity.
  cbv [geval alookup String.eqb Ascii.eqb Bool.eqb go_arith_IsInPlaintextRange env_plaintext is_none orb negb onz].
  unfold in_plaintext. destruct (Cbor.bitlen N <? truelen z) eqn:E.
  - symmetry. f_equal. apply Z.leb_gt. apply Z.ltb_lt. apply (truelen_gt_bitlen N z HN E).
  - f_equal. rewrite Z.leb_antisym. reflexivity.
Qed.

Lemma arith_IsInPlaintextRange_trace_ok :
  go_arith_IsInPlaintextRange_trace =
  [ "if N == nil || n == nil -> return false";
    "if !hasBoundedAnnouncedLen(n) || n.TrueLen() > N.BitLen() -> return false";
    "do nHalf := new(saferith.Nat).SetNat(N.Nat())";
    "do nHalf.Rsh(nHalf, 1, -1)";
    "do gt, _, _ := n.Abs().Cmp(nHalf)";
    "return gt != 1" ].
Proof. reflexivity. Qed.

(* ---------------------------------------------------------------- the three element loops *)

Lemma negb_existsb {A} (f : A -> bool) l : negb (existsb f l) = forallb (fun x => negb (f x)) l.
Proof. induction l as [|a l IH]; [reflexivity|]. cbn. rewrite negb_orb, IH. reflexivity. Qed.

Lemma forallb_ext_in {A} (f g : A -> bool) l : (forall x, In x l -> f x = g x) -> forallb f l = forallb g l.
Proof.
  induction l as [|a l IH]; intros H; [reflexivity|]. cbn. rewrite (H a (or_introl eq_refl)), IH; [reflexivity|].
  intros x Hx. apply H. right. exact Hx.
Qed.

Lemma arith_IsValidNatModN N ints : nats_nonneg ints = true ->
  geval (alookup (env_natmodn N ints)) go_arith_IsValidNatModN = Some (forallb (fun i => some_and i (valid_mod N)) ints).
Proof.
  intros Hnn. cbv [geval alookup String.eqb Ascii.eqb Bool.eqb go_arith_IsValidNatModN env_natmodn].
  f_equal. rewrite negb_existsb. apply forallb_ext_in. intros [x|] Hin; [|reflexivity].
  unfold nats_nonneg in Hnn. rewrite forallb_forall in Hnn. specialize (Hnn _ Hin). cbn in Hnn.
  cbn. unfold valid_mod. rewrite Hnn. rewrite negb_orb, !negb_involutive. reflexivity.
Qed.

Lemma arith_IsValidBigModN N ints :
  geval (alookup (env_bigmodn N ints)) go_arith_IsValidBigModN = Some (forallb (fun i => some_and i (valid_big N)) ints).
Proof.
  cbv [geval alookup String.eqb Ascii.eqb Bool.eqb go_arith_IsValidBigModN env_bigmodn].
  f_equal. rewrite negb_existsb. apply forallb_ext_in. intros [x|] _; [|reflexivity].
  cbn. unfold valid_big. rewrite !negb_orb, !negb_involutive. reflexivity.
Qed.

Lemma paillier_ValidateCiphertexts N cts : nats_nonneg cts = true ->
  geval (alookup (env_validate_cts N cts)) go_paillier_ValidateCiphertexts = Some (forallb (fun c => some_and c (validate_ct N)) cts).
Proof.
  intros Hnn. cbv [geval alookup String.eqb Ascii.eqb Bool.eqb go_paillier_ValidateCiphertexts env_validate_cts].
  f_equal. rewrite negb_existsb. apply forallb_ext_in. intros [x|] Hin; [|reflexivity].
  unfold nats_nonneg in Hnn. rewrite forallb_forall in Hnn. specialize (Hnn _ Hin). cbn in Hnn.
  cbn. unfold validate_ct. rewrite Hnn. rewrite negb_orb, !negb_involutive. reflexivity.
Qed.

(* the loop readings are the loops: element by element, first refusal wins *)
Lemma loops_meaning N :
  (forall x, nat_refused N (Some x) = negb ((x <? N) && (gcd_mod N x =? 1))) /\
  (forall x, big_refused N (Some x) = negb (valid_big N x)) /\
  (forall c, 0 <= c -> ct_refused N (Some c) = negb (validate_ct N c)) /\
  nat_refused N None = true /\ big_refused N None = true /\ ct_refused N None = true.
Proof.
  repeat split; intros; cbn.
  - rewrite negb_andb. reflexivity.
  - unfold valid_big. rewrite !negb_andb. reflexivity.
  - unfold validate_ct. replace (0 <=? c) with true by (symmetry; apply Z.leb_le; assumption). cbn. rewrite negb_andb. reflexivity.
Qed.

(* ---------------------------------------------------------------- ValidateN / ValidatePrime *)

Lemma paillier_ValidateN n :
  geval (alookup (env_validate_n n)) go_paillier_ValidateN = Some (Cbor.validate_N n).
Proof.
  destruct n as [n|]; [|reflexivity].
  cbv [geval alookup String.eqb Ascii.eqb Bool.eqb go_paillier_ValidateN env_validate_n is_none onz negb Cbor.validate_N].
  change go_param_BitsPaillier with Cbor.bits_paillier.
  destruct (Cbor.bitlen n =? Cbor.bits_paillier); [|reflexivity]. destruct (Z.odd n); reflexivity.
Qed.

(* Cbor.validate_N is Paillier.validate_n on a present modulus *)
Lemma validate_N_validate_n n : Cbor.validate_N (Some n) = validate_n n.
Proof.
  unfold Cbor.validate_N, validate_n, Cbor.bitlen. change Cbor.bits_paillier with bits_paillier.
  destruct (n <=? 0) eqn:E.
  - apply Z.leb_le in E. replace (0 <? n) with false by (symmetry; apply Z.ltb_ge; lia). reflexivity.
  - apply Z.leb_gt in E. replace (0 <? n) with true by (symmetry; apply Z.ltb_lt; lia). reflexivity.
Qed.

Lemma paillier_ValidateN_trace_ok :
  go_paillier_ValidateN_trace =
  [ "if n == nil -> return error";
    "do nBig := n.Big()";
    "if bits != params.BitsPaillier where bits := nBig.BitLen() -> return error";
    "if nBig.Bit(0) != 1 -> return error";
    "return nil" ].
Proof. reflexivity. Qed.

Lemma paillier_ValidatePrime prime_test p :
  geval (alookup (env_validate_prime prime_test p)) go_paillier_ValidatePrime = Some (Cbor.validate_prime prime_test p).
Proof.
  destruct p as [p|]; [|reflexivity].
  cbv [geval alookup String.eqb Ascii.eqb Bool.eqb go_paillier_ValidatePrime env_validate_prime is_none onz negb Cbor.validate_prime].
  change go_param_BitsBlumPrime with Cbor.bits_blum_prime.
  destruct (Cbor.bitlen p =? Cbor.bits_blum_prime); [|reflexivity].
  destruct (p mod 4 =? 3); [|reflexivity]. destruct (prime_test (p / 2)); [|reflexivity]. destruct (prime_test p); reflexivity.
Qed.

Lemma paillier_ValidatePrime_trace_ok :
  go_paillier_ValidatePrime_trace =
  [ "if p == nil -> return error";
    "do const bitsWant = params.BitsBlumPrime";
    "if bits != bitsWant where bits := p.TrueLen() -> return error";
    "if p.Byte(0)&0b11 != 3 -> return error";
    "do pMinus1Div2 := new(saferith.Nat).Rsh(p, 1, -1)";
    "if !pMinus1Div2.Big().ProbablyPrime(1) -> return error";
    "if !p.Big().ProbablyPrime(1) -> return error";
    "return nil" ].
Proof. reflexivity. Qed.

(* ---------------------------------------------------------------- pedersen *)

Lemma pedersen_ValidateParameters n s t :
  geval (alookup (env_ped_validate n s t)) go_pedersen_ValidateParameters
  = Some (match n, s, t with Some n, Some s, Some t => ped_validate n s t | _, _, _ => false end).
Proof.
  destruct n as [n|], s as [s|], t as [t|]; try reflexivity.
  cbv [geval alookup String.eqb Ascii.eqb Bool.eqb go_pedersen_ValidateParameters env_ped_validate is_none onz some_and orb negb ped_validate].
  destruct (valid_mod n s); [|reflexivity]. destruct (valid_mod n t); [|reflexivity]. destruct (s =? t); reflexivity.
Qed.

Lemma pedersen_Verify n s t a b e S T :
  geval (alookup (env_ped_verify n s t a b e S T)) go_pedersen_Verify
  = Some (match a, b, e, S, T with
          | Some a, Some b, Some e, Some cS, Some cT => ped_verify n s t a b e cS cT
          | _, _, _, _, _ => false
          end).
Proof.
  destruct a as [a|], b as [b|], S as [cS|], T as [cT|], e as [e|]; try reflexivity.
  cbv [geval alookup String.eqb Ascii.eqb Bool.eqb go_pedersen_Verify env_ped_verify is_none some_and orb negb ped_verify].
  destruct (zk_bounded a); [|reflexivity]. destruct (zk_bounded b); [|reflexivity].
  destruct (valid_mod n cS); [|reflexivity]. destruct (valid_mod n cT); reflexivity.
Qed.

Lemma pedersen_Verify_trace_ok :
  go_pedersen_Verify_trace =
  [ "if a == nil || b == nil || S == nil || T == nil || e == nil -> return false";
    "if !arith.IsBoundedInt(a) || !arith.IsBoundedInt(b) -> return false";
    "do nMod := p.n.Modulus";
    "if !arith.IsValidNatModN(nMod, S, T) -> return false";
    "do sa := p.n.ExpI(p.s, a)";
    "do tb := p.n.ExpI(p.t, b)";
    "do lhs := sa.ModMul(sa, tb, nMod)";
    "do te := p.n.ExpI(T, e)";
    "do rhs := te.ModMul(te, S, nMod)";
    "return lhs.Eq(rhs) == 1" ].
Proof. reflexivity. Qed.
