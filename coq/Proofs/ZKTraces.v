(* ZKTraces.v -- the READING of the computing statements of the zk verifiers that the environments of Proofs/ZKGuardsBase.v
   rely on: for every IsValid / Verify method of pkg/zk whose body contains computing statements, the skeleton of its body
   (checks and computations in order) as it was when the environments were written.  The meaning given to atoms such as
   `lhs.Equal(rhs)#2` is the meaning of the statements recorded here (e.g. lhs := prover.EncWithNonce(p.Z1, p.Wx);
   rhs := public.Xp.Clone().Mul(prover, e).Add(prover, p.Bx)); [zk_traces_ok] fails as soon as any of them, or its position
   relative to a check, changes in /repo, which asks for the environment to be re-read.  (Functions that consist of checks only
   need no pin: their atoms are self-contained and the theorems of Proofs/ZKGuardsProofs.v are semantic.)
   Definitions (the expected skeletons) and one lemma. *)
From Coq Require Import String List Bool.
From MPS Require Import Generated.ZKGuards.
Import ListNotations.
Local Open Scope string_scope.

Definition expected_zkaffg_Proof_Verify_trace : list string := [
  "if !p.IsValid(public) -> return false";
  "do verifier := public.Verifier";
  "do prover := public.Prover";
  "if !arith.IsInIntervalLEps(p.Z1) -> return false";
  "if !arith.IsInIntervalLPrimeEps(p.Z2) -> return false";
  "do e, err := challenge(hash, p.group, public, p.Commitment)";
  "if err != nil -> return false";
  "if !public.Aux.Verify(p.Z1, p.Z3, e, p.E, p.S) -> return false";
  "if !public.Aux.Verify(p.Z2, p.Z4, e, p.F, p.T) -> return false";
  "{";
  "do tmp := public.Kv.Clone().Mul(verifier, p.Z1)";
  "do lhs := verifier.EncWithNonce(p.Z2, p.W).Add(verifier, tmp)";
  "do rhs := public.Dv.Clone().Mul(verifier, e).Add(verifier, p.A)";
  "if !lhs.Equal(rhs) -> return false";
  "}";
  "{";
  "do lhs := p.group.NewScalar().SetNat(p.Z1.Mod(p.group.Order())).ActOnBase()";
  "do rhs := p.group.NewScalar().SetNat(e.Mod(p.group.Order())).Act(public.Xp)";
  "do rhs = rhs.Add(p.Bx)";
  "if !lhs.Equal(rhs) -> return false";
  "}";
  "{";
  "do lhs := prover.EncWithNonce(p.Z2, p.Wy)";
  "do rhs := public.Fp.Clone().Mul(prover, e).Add(prover, p.By)";
  "if !lhs.Equal(rhs) -> return false";
  "}";
  "return true"
].

Definition expected_zkaffp_Proof_Verify_trace : list string := [
  "if !p.IsValid(public) -> return false";
  "do verifier := public.Verifier";
  "do prover := public.Prover";
  "if !arith.IsInIntervalLEps(p.Z1) -> return false";
  "if !arith.IsInIntervalLPrimeEps(p.Z2) -> return false";
  "do e, err := challenge(hash, group, public, p.Commitment)";
  "if err != nil -> return false";
  "{";
  "do tmp := public.Kv.Clone().Mul(verifier, p.Z1)";
  "do lhs := verifier.EncWithNonce(p.Z2, p.W).Add(verifier, tmp)";
  "do rhs := public.Dv.Clone().Mul(verifier, e).Add(verifier, p.A)";
  "if !lhs.Equal(rhs) -> return false";
  "}";
  "{";
  "do lhs := prover.EncWithNonce(p.Z1, p.Wx)";
  "do rhs := public.Xp.Clone().Mul(prover, e).Add(prover, p.Bx)";
  "if !lhs.Equal(rhs) -> return false";
  "}";
  "{";
  "do lhs := prover.EncWithNonce(p.Z2, p.Wy)";
  "do rhs := public.Fp.Clone().Mul(prover, e).Add(prover, p.By)";
  "if !lhs.Equal(rhs) -> return false";
  "}";
  "if !public.Aux.Verify(p.Z1, p.Z3, e, p.E, p.S) -> return false";
  "if !public.Aux.Verify(p.Z2, p.Z4, e, p.F, p.T) -> return false";
  "return true"
].

Definition expected_zkdec_Proof_Verify_trace : list string := [
  "if !p.IsValid(public) -> return false";
  "if !arith.IsInPlaintextRange(public.Prover.N(), p.Z1) -> return false";
  "do e, err := challenge(hash, p.group, public, p.Commitment)";
  "if err != nil -> return false";
  "if !public.Aux.Verify(p.Z1, p.Z2, e, p.T, p.S) -> return false";
  "{";
  "do lhs := public.Prover.EncWithNonce(p.Z1, p.W)";
  "do rhs := public.C.Clone().Mul(public.Prover, e).Add(public.Prover, p.A)";
  "if !lhs.Equal(rhs) -> return false";
  "}";
  "{";
  "do lhs := p.group.NewScalar().SetNat(p.Z1.Mod(p.group.Order()))";
  "do rhs := p.group.NewScalar().SetNat(e.Mod(p.group.Order())).Mul(public.X).Add(p.Gamma)";
  "if !lhs.Equal(rhs) -> return false";
  "}";
  "return true"
].

Definition expected_zkelog_Proof_Verify_trace : list string := [
  "if !p.IsValid(public) -> return false";
  "do e, err := challenge(hash, p.group, public, p.Commitment)";
  "if err != nil -> return false";
  "{";
  "do lhs := p.Z.ActOnBase()";
  "do rhs := e.Act(public.E.L).Add(p.A)";
  "if !lhs.Equal(rhs) -> return false";
  "}";
  "{";
  "do lhs := p.U.ActOnBase().Add(p.Z.Act(public.ElGamalPublic))";
  "do rhs := e.Act(public.E.M).Add(p.N)";
  "if !lhs.Equal(rhs) -> return false";
  "}";
  "{";
  "do lhs := p.U.Act(public.Base)";
  "do rhs := e.Act(public.Y).Add(p.B)";
  "if !lhs.Equal(rhs) -> return false";
  "}";
  "return true"
].

Definition expected_zkenc_Proof_Verify_trace : list string := [
  "if !p.IsValid(public) -> return false";
  "do prover := public.Prover";
  "if !arith.IsInIntervalLEps(p.Z1) -> return false";
  "do e, err := challenge(hash, group, public, p.Commitment)";
  "if err != nil -> return false";
  "if !public.Aux.Verify(p.Z1, p.Z3, e, p.C, p.S) -> return false";
  "{";
  "do lhs := prover.EncWithNonce(p.Z1, p.Z2)";
  "do rhs := public.K.Clone().Mul(prover, e).Add(prover, p.A)";
  "if !lhs.Equal(rhs) -> return false";
  "}";
  "return true"
].

Definition expected_zkencelg_Proof_Verify_trace : list string := [
  "if !p.IsValid(public) -> return false";
  "do prover := public.Prover";
  "if !arith.IsInIntervalLEps(p.Z1) -> return false";
  "do e, err := challenge(hash, p.group, public, p.Commitment)";
  "if err != nil -> return false";
  "do group := p.group";
  "do q := group.Order()";
  "do eScalar := group.NewScalar().SetNat(e.Mod(q))";
  "{";
  "do lhs := prover.EncWithNonce(p.Z1, p.Z2)";
  "do rhs := public.C.Clone().Mul(prover, e).Add(prover, p.D)";
  "if !lhs.Equal(rhs) -> return false";
  "}";
  "{";
  "do z1 := group.NewScalar().SetNat(p.Z1.Mod(q))";
  "do lhs := z1.ActOnBase().Add(p.W.Act(public.A))";
  "do rhs := eScalar.Act(public.X).Add(p.Y)";
  "if !lhs.Equal(rhs) -> return false";
  "}";
  "{";
  "do lhs := p.W.ActOnBase()";
  "do rhs := eScalar.Act(public.B).Add(p.Z)";
  "if !lhs.Equal(rhs) -> return false";
  "}";
  "if !public.Aux.Verify(p.Z1, p.Z3, e, p.T, p.S) -> return false";
  "return true"
].

Definition expected_zkfac_Proof_Verify_trace : list string := [
  "if p == nil || public.N == nil || public.Aux == nil -> return false";
  "if !arith.IsValidNatModN(public.Aux.N(), p.Comm.P, p.Comm.Q, p.Comm.A, p.Comm.B, p.Comm.T) -> return false";
  "loop any z in []*saferith.Int{p.Sigma, p.Z1, p.Z2, p.W1, p.W2, p.V}: !arith.IsBoundedInt(z) -> return false";
  "do e, err := challenge(hash, public, p.Comm)";
  "if err != nil -> return false";
  "do N0 := public.N";
  "do NhatArith := public.Aux.NArith()";
  "do Nhat := NhatArith.Modulus";
  "if !public.Aux.Verify(p.Z1, p.W1, e, p.Comm.A, p.Comm.P) -> return false";
  "if !public.Aux.Verify(p.Z2, p.W2, e, p.Comm.B, p.Comm.Q) -> return false";
  "do R := new(saferith.Nat).SetNat(public.Aux.S())";
  "do R = NhatArith.Exp(R, N0.Nat())";
  "do R.ModMul(R, NhatArith.ExpI(public.Aux.T(), p.Sigma), Nhat)";
  "do lhs := NhatArith.ExpI(p.Comm.Q, p.Z1)";
  "do lhs.ModMul(lhs, NhatArith.ExpI(public.Aux.T(), p.V), Nhat)";
  "do rhs := NhatArith.ExpI(R, e)";
  "do rhs.ModMul(rhs, p.Comm.T, Nhat)";
  "if lhs.Eq(rhs) != 1 -> return false";
  "return arith.IsInIntervalLEpsPlus1RootN(p.Z1) && arith.IsInIntervalLEpsPlus1RootN(p.Z2)"
].

Definition expected_zklog_Proof_Verify_trace : list string := [
  "if !p.IsValid() -> return false";
  "do e, err := challenge(hash, p.group, public, p.Commitment)";
  "if err != nil -> return false";
  "{";
  "do lhs := p.Z1.ActOnBase()";
  "do rhs := e.Act(public.X).Add(p.A)";
  "if !lhs.Equal(rhs) -> return false";
  "}";
  "{";
  "do lhs := p.Z1.Act(public.H)";
  "do rhs := e.Act(public.Y).Add(p.B)";
  "if !lhs.Equal(rhs) -> return false";
  "}";
  "{";
  "do lhs := p.Z2.ActOnBase()";
  "do rhs := e.Act(public.H).Add(p.C)";
  "if !lhs.Equal(rhs) -> return false";
  "}";
  "return true"
].

Definition expected_zklogstar_Proof_Verify_trace : list string := [
  "if !p.IsValid(public) -> return false";
  "do if public.G == nil { public.G = p.group.NewBasePoint() }";
  "if !arith.IsInIntervalLEps(p.Z1) -> return false";
  "do prover := public.Prover";
  "do e, err := challenge(hash, p.group, public, p.Commitment)";
  "if err != nil -> return false";
  "if !public.Aux.Verify(p.Z1, p.Z3, e, p.D, p.S) -> return false";
  "{";
  "do lhs := prover.EncWithNonce(p.Z1, p.Z2)";
  "do rhs := public.C.Clone().Mul(prover, e).Add(prover, p.A)";
  "if !lhs.Equal(rhs) -> return false";
  "}";
  "{";
  "do lhs := p.group.NewScalar().SetNat(p.Z1.Mod(p.group.Order())).Act(public.G)";
  "do rhs := p.group.NewScalar().SetNat(e.Mod(p.group.Order())).Act(public.X)";
  "do rhs = rhs.Add(p.Y)";
  "if !lhs.Equal(rhs) -> return false";
  "}";
  "return true"
].

Definition expected_zkmod_Proof_IsValid_trace : list string := [
  "if p == nil -> return false";
  "if public.N == nil -> return false";
  "do N := public.N.Big()";
  "if !arith.IsValidBigModN(N, p.W) -> return false";
  "if big.Jacobi(p.W, N) != -1 -> return false";
  "loop any r in p.Responses: !arith.IsValidBigModN(N, r.X, r.Z) -> return false";
  "return true"
].

Definition expected_zkmod_Proof_Verify_trace : list string := [
  "if p == nil || public.N == nil -> return false";
  "do n := public.N.Big()";
  "do nMod := public.N";
  "if n.Bit(0) == 0 || n.ProbablyPrime(20) -> return false";
  "if !p.IsValid(public) -> return false";
  "do ys, err := challenge(hash, nMod, p.W)";
  "if err != nil -> return false";
  "do verifications := pl.Parallelize(params.StatParam, func(i int) interface{} { return p.Responses[i].Verify(n, p.W, ys[i].Big()) })";
  "loop any i in [0, len(verifications)): !verifications[i].(bool) -> return false";
  "return true"
].

Definition expected_zkmod_Response_Verify_trace : list string := [
  "do var lhs, rhs big.Int";
  "do lhs.Exp(r.Z, n, n)";
  "if lhs.Cmp(y) != 0 -> return false";
  "do lhs.Mul(r.X, r.X)";
  "do lhs.Mul(&lhs, &lhs)";
  "do lhs.Mod(&lhs, n)";
  "do rhs.Set(y)";
  "do if r.A { rhs.Neg(&rhs) }";
  "do if r.B { rhs.Mul(&rhs, w) }";
  "do rhs.Mod(&rhs, n)";
  "return lhs.Cmp(&rhs) == 0"
].

Definition expected_zkmul_Proof_Verify_trace : list string := [
  "if !p.IsValid(public) -> return false";
  "do prover := public.Prover";
  "if !arith.IsInPlaintextRange(prover.N(), p.Z) -> return false";
  "do e, err := challenge(hash, group, public, p.Commitment)";
  "if err != nil -> return false";
  "{";
  "do lhs := public.Y.Clone().Mul(prover, p.Z)";
  "do lhs.Randomize(prover, p.U)";
  "do rhs := public.C.Clone().Mul(prover, e).Add(prover, p.A)";
  "if !lhs.Equal(rhs) -> return false";
  "}";
  "{";
  "do lhs := prover.EncWithNonce(p.Z, p.V)";
  "do rhs := public.X.Clone().Mul(prover, e).Add(prover, p.B)";
  "if !lhs.Equal(rhs) -> return false";
  "}";
  "return true"
].

Definition expected_zkmulstar_Proof_Verify_trace : list string := [
  "if !p.IsValid(public) -> return false";
  "do verifier := public.Verifier";
  "if !arith.IsInIntervalLEps(p.Z1) -> return false";
  "do e, err := challenge(group, hash, public, p.Commitment)";
  "if err != nil -> return false";
  "if !public.Aux.Verify(p.Z1, p.Z2, e, p.E, p.S) -> return false";
  "{";
  "do lhs := public.C.Clone().Mul(verifier, p.Z1)";
  "do lhs.Randomize(verifier, p.W)";
  "do rhs := public.D.Clone().Mul(verifier, e).Add(verifier, p.A)";
  "if !lhs.Equal(rhs) -> return false";
  "}";
  "{";
  "do lhs := p.group.NewScalar().SetNat(p.Z1.Mod(p.group.Order())).ActOnBase()";
  "do rhs := p.group.NewScalar().SetNat(e.Mod(p.group.Order())).Act(public.X)";
  "do rhs = rhs.Add(p.Bx)";
  "if !lhs.Equal(rhs) -> return false";
  "}";
  "return true"
].

Definition expected_zknth_Proof_Verify_trace : list string := [
  "if !p.IsValid(public) -> return false";
  "do e, err := challenge(hash, public, p.Commitment)";
  "if err != nil -> return false";
  "do NSquared := public.N.ModulusSquared()";
  "do lhs := NSquared.Exp(p.Z, public.N.N().Nat())";
  "do rhs := NSquared.ExpI(public.R, e)";
  "do rhs.ModMul(rhs, p.A, NSquared.Modulus)";
  "if lhs.Eq(rhs) != 1 -> return false";
  "return true"
].

Definition expected_zkprm_Proof_Verify_trace : list string := [
  "if p == nil || public.Aux == nil -> return false";
  "if err != nil where err := pedersen.ValidateParameters(public.Aux.N(), public.Aux.S(), public.Aux.T()) -> return false";
  "if !p.IsValid(public) -> return false";
  "do n, s, t := public.Aux.N().Big(), public.Aux.S().Big(), public.Aux.T().Big()";
  "do es, err := challenge(hash, public, p.As)";
  "if err != nil -> return false";
  "do one := big.NewInt(1)";
  "do verifications := pl.Parallelize(params.StatParam, func(i int) interface{} { var lhs, rhs big.Int z := p.Zs[i] a := p.As[i] if !arith.IsValidBigModN(n, a, z) { return false } if a.Cmp(one) == 0 { return false } lhs.Exp(t, z, n) if es[i] { rhs.Mul(a, s) rhs.Mod(&rhs, n) } else { rhs.Set(a) } if lhs.Cmp(&rhs) != 0 { return false } return true })";
  "loop any i in [0, len(verifications)): [ok, _ := verifications[i].(bool)] !ok -> return false";
  "return true"
].

Definition expected_zksch_Response_Verify_trace : list string := [
  "do if gen == nil { gen = public.Curve().NewBasePoint() }";
  "if z == nil || !z.IsValid() || public.IsIdentity() -> return false";
  "do e, err := challenge(hash, z.group, commitment, public, gen)";
  "if err != nil -> return false";
  "do lhs := z.Z.Act(gen)";
  "do rhs := e.Act(public)";
  "do rhs = rhs.Add(commitment.C)";
  "return lhs.Equal(rhs)"
].

Definition zk_trace_pairs : list (string * list string * list string) := [
  ("zkaffg_Proof_Verify", go_zkaffg_Proof_Verify_trace, expected_zkaffg_Proof_Verify_trace);
  ("zkaffp_Proof_Verify", go_zkaffp_Proof_Verify_trace, expected_zkaffp_Proof_Verify_trace);
  ("zkdec_Proof_Verify", go_zkdec_Proof_Verify_trace, expected_zkdec_Proof_Verify_trace);
  ("zkelog_Proof_Verify", go_zkelog_Proof_Verify_trace, expected_zkelog_Proof_Verify_trace);
  ("zkenc_Proof_Verify", go_zkenc_Proof_Verify_trace, expected_zkenc_Proof_Verify_trace);
  ("zkencelg_Proof_Verify", go_zkencelg_Proof_Verify_trace, expected_zkencelg_Proof_Verify_trace);
  ("zkfac_Proof_Verify", go_zkfac_Proof_Verify_trace, expected_zkfac_Proof_Verify_trace);
  ("zklog_Proof_Verify", go_zklog_Proof_Verify_trace, expected_zklog_Proof_Verify_trace);
  ("zklogstar_Proof_Verify", go_zklogstar_Proof_Verify_trace, expected_zklogstar_Proof_Verify_trace);
  ("zkmod_Proof_IsValid", go_zkmod_Proof_IsValid_trace, expected_zkmod_Proof_IsValid_trace);
  ("zkmod_Proof_Verify", go_zkmod_Proof_Verify_trace, expected_zkmod_Proof_Verify_trace);
  ("zkmod_Response_Verify", go_zkmod_Response_Verify_trace, expected_zkmod_Response_Verify_trace);
  ("zkmul_Proof_Verify", go_zkmul_Proof_Verify_trace, expected_zkmul_Proof_Verify_trace);
  ("zkmulstar_Proof_Verify", go_zkmulstar_Proof_Verify_trace, expected_zkmulstar_Proof_Verify_trace);
  ("zknth_Proof_Verify", go_zknth_Proof_Verify_trace, expected_zknth_Proof_Verify_trace);
  ("zkprm_Proof_Verify", go_zkprm_Proof_Verify_trace, expected_zkprm_Proof_Verify_trace);
  ("zksch_Response_Verify", go_zksch_Response_Verify_trace, expected_zksch_Response_Verify_trace)
].

Lemma zk_traces_ok : Forall (fun p => snd (fst p) = snd p) zk_trace_pairs.
Proof. repeat constructor. Qed.

(* every translated function with a computing statement ("do ...") is pinned, and only those *)
Definition has_step (tr : list string) : bool := existsb (fun l => String.eqb (substring 0 3 l) "do ") tr.
Definition is_zk (n : string) : bool := String.eqb (substring 0 2 n) "zk".
Lemma zk_trace_pairs_complete :
  map fst (filter (fun p => is_zk (fst p) && has_step (snd p)) go_zkguard_traces) = map (fun p => fst (fst p)) zk_trace_pairs.
Proof. vm_compute. reflexivity. Qed.
