(* StartGuardsProofs.v -- C20: the start-time guards as the source has them now (Generated/Validators.v) are the predicates of
   Model/StartGuards.v (and can_sign / valid_threshold of Model/Session.v), for ALL arguments including nil configs; and
   what the predicates mean (the property-level characterisations).  Lemmas; restated in Properties/C20_start_guards.v. *)
From Coq Require Import String List Bool Arith NArith ZArith Lia.
From MPS Require Import Model.Bytes Model.Framing Model.Session Model.StartGuards Proofs.BytesProofs Proofs.SessionProofs.
From MPS Require Model.Cbor.
From MPS Require Import Generated.Params Generated.Guards Generated.Validators Proofs.GuardsBase Proofs.StartGuardsBase.
Import ListNotations.
Local Open Scope string_scope.
Local Open Scope Z_scope.

Ltac sunfold := cbv [geval alookup String.eqb Ascii.eqb Bool.eqb andb orb negb is_some is_none is_present when app].
Ltac ssolve := sunfold; repeat first [reflexivity | gstep].

Lemma start_translated :
  strans ["cmp_ValidThreshold"; "cmp_Config_CanSign"; "cmp_Config_ValidateBasic"; "cmp_Keygen"; "cmp_Refresh"; "cmp_Sign"; "cmp_Presign";
          "cmp_PresignOnline"; "cmp_keygen_Start"; "cmp_sign_StartSign"; "cmp_presign_StartPresign"; "cmp_presign_StartPresignOnline";
          "frost_sameParties"; "frost_Keygen"; "frost_KeygenTaproot"; "frost_Refresh"; "frost_RefreshTaproot"; "frost_Sign";
          "frost_SignTaproot"; "frost_keygen_StartKeygenCommon"; "frost_sign_StartSignCommon"; "doerner_Keygen";
          "doerner_RefreshReceiver"; "doerner_RefreshSender"; "doerner_SignReceiver"; "doerner_SignSender";
          "doerner_keygen_StartKeygen"; "doerner_sign_StartSignReceiver"; "doerner_sign_StartSignSender"; "example_StartXOR"] = true
  /\ validators_untranslatable = [].
Proof. split; vm_compute; reflexivity. Qed.

(* every function below protocols/ that returns a protocol.StartFunc is one of the translated ones: a new entry point changes
   the list and fails here until it gets an environment and a theorem *)
Lemma start_functions_complete :
  go_start_functions =
  [ "protocols/cmp/keygen: Start"; "protocols/cmp/presign: StartPresign"; "protocols/cmp/presign: StartPresignOnline";
    "protocols/cmp/sign: StartSign"; "protocols/cmp: Keygen"; "protocols/cmp: Presign"; "protocols/cmp: PresignOnline";
    "protocols/cmp: Refresh"; "protocols/cmp: Sign"; "protocols/doerner/keygen: StartKeygen";
    "protocols/doerner/sign: StartSignReceiver"; "protocols/doerner/sign: StartSignSender"; "protocols/doerner: Keygen";
    "protocols/doerner: RefreshReceiver"; "protocols/doerner: RefreshSender"; "protocols/doerner: SignReceiver";
    "protocols/doerner: SignSender"; "protocols/doerner: startError"; "protocols/example: StartXOR";
    "protocols/frost/keygen: StartKeygenCommon"; "protocols/frost/sign: StartSignCommon"; "protocols/frost: Keygen";
    "protocols/frost: KeygenTaproot"; "protocols/frost: Refresh"; "protocols/frost: RefreshTaproot"; "protocols/frost: Sign";
    "protocols/frost: SignTaproot"; "protocols/frost: startError" ].
Proof. reflexivity. Qed.

(* startError(err) is the StartFunc that refuses with err *)
Lemma startError_ok :
  go_frost_startError_body = "{ return func([]byte) (round.Session, error) { return nil, err } }" /\
  go_doerner_startError_body = "{ return func([]byte) (round.Session, error) { return nil, err } }".
Proof. split; reflexivity. Qed.

(* ---------------------------------------------------------------- ValidThreshold, CanSign, ValidateBasic *)

Lemma cmp_ValidThreshold t n :
  geval (alookup (env_valid_threshold t n)) go_cmp_ValidThreshold = Some (valid_threshold t n).
Proof.
  unfold env_valid_threshold, go_cmp_ValidThreshold, valid_threshold.
  rewrite (Z.leb_antisym t 0), (Z.leb_antisym max_uint32 t), (Z.ltb_antisym (Z.of_nat n) 0), (Z.leb_antisym (Z.of_nat n - 1) t).
  ssolve.
Qed.

(* the two models of the function agree (Model/Cbor.v has its own copy for the restore path) *)
Lemma valid_threshold_models t n : Cbor.valid_threshold t (Z.of_nat n) = valid_threshold t n.
Proof.
  unfold Cbor.valid_threshold, valid_threshold. change Cbor.max_uint32 with max_uint32.
  rewrite (Z.leb_antisym t 0), (Z.leb_antisym max_uint32 t), (Z.ltb_antisym (Z.of_nat n) 0), (Z.leb_antisym (Z.of_nat n - 1) t).
  destruct (t <? 0), (max_uint32 <? t), (Z.of_nat n <=? 0), (Z.of_nat n - 1 <? t); reflexivity.
Qed.

Lemma existsb_negb_forallb {A} (f : A -> bool) l : existsb (fun x => negb (f x)) l = negb (forallb f l).
Proof. induction l as [|a l IH]; [reflexivity|]. cbn. rewrite IH, negb_andb. reflexivity. Qed.

Lemma cmp_Config_CanSign t self holders signers :
  geval (alookup (env_can_sign t self holders signers)) go_cmp_Config_CanSign = Some (can_sign t self holders signers).
Proof.
  unfold env_can_sign, go_cmp_Config_CanSign, can_sign. rewrite existsb_negb_forallb.
  set (vt := valid_threshold _ _). set (fa := forallb _ _). ssolve.
Qed.

Lemma pub_incomplete_complete l : existsb pub_incomplete l = negb (forallb (fun e => pub_complete (snd e)) l).
Proof.
  induction l as [|e l IH]; [reflexivity|]. cbn [existsb forallb]. rewrite IH, negb_andb. f_equal.
  unfold pub_incomplete, pub_complete. destruct (snd e) as [a b c d f]. cbn. destruct a, b, c, d, f; reflexivity.
Qed.

Lemma cmp_Config_ValidateBasic v :
  geval (alookup (env_cmp_basic v)) go_cmp_Config_ValidateBasic = Some (cmp_validate_basic v).
Proof.
  unfold env_cmp_basic, go_cmp_Config_ValidateBasic, cmp_validate_basic. rewrite pub_incomplete_complete.
  set (vt := valid_threshold _ _). set (fa := forallb _ _). set (hk := has_key _ _). ssolve.
Qed.

(* ---------------------------------------------------------------- cmp start functions *)

Lemma cmp_keygen_Start c grp ids self t :
  geval (alookup (env_cmp_keygen_Start c grp ids self t)) go_cmp_keygen_Start
  = Some (match c with Some v => cmp_validate_basic v | None => true end && sess_ok grp ids self t).
Proof.
  unfold env_cmp_keygen_Start, go_cmp_keygen_Start. set (so := sess_ok _ _ _ _).
  destruct c as [v|]; [set (vb := cmp_validate_basic v)|]; ssolve.
Qed.

Lemma cmp_Keygen grp ids self t :
  geval (alookup (env_cmp_Keygen grp ids self t)) go_cmp_Keygen = Some (cmp_keygen_start grp ids self t).
Proof. unfold env_cmp_Keygen, go_cmp_Keygen. rewrite cmp_keygen_Start. reflexivity. Qed.

Lemma validate_basic_present v : cmp_validate_basic v = true -> cv_present v = true.
Proof. unfold cmp_validate_basic. destruct (cv_present v); [reflexivity|discriminate]. Qed.

Lemma cmp_Refresh v :
  geval (alookup (env_cmp_Refresh v)) go_cmp_Refresh = Some (cmp_refresh_start v).
Proof.
  unfold env_cmp_Refresh, go_cmp_Refresh, cmp_refresh_start, cmp_arg. rewrite cmp_keygen_Start.
  pose proof (validate_basic_present v) as Hp.
  destruct (cv_present v); set (vb := cmp_validate_basic v) in *; set (so := sess_ok _ _ _ _).
  - ssolve.
  - destruct vb; [specialize (Hp eq_refl); discriminate|]. reflexivity.
Qed.

Lemma cmp_sign_StartSign v signers m :
  geval (alookup (env_cmp_StartSign v signers m)) go_cmp_sign_StartSign = Some (cmp_sign_start v signers m).
Proof.
  unfold env_cmp_StartSign, go_cmp_sign_StartSign, cmp_sign_start, msg_ok.
  pose proof (validate_basic_present v) as Hp.
  set (vb := cmp_validate_basic v) in *. set (so := sess_ok _ _ _ _). set (cs := can_sign _ _ _ _).
  destruct vb; [rewrite (Hp eq_refl)|]; ssolve.
Qed.

Lemma cmp_Sign v signers m :
  geval (alookup (env_cmp_Sign v signers m)) go_cmp_Sign = Some (cmp_sign_start v signers m).
Proof. unfold env_cmp_Sign, go_cmp_Sign. rewrite cmp_sign_StartSign. reflexivity. Qed.

Lemma cmp_presign_StartPresign v signers m :
  geval (alookup (env_cmp_StartSign v signers m)) go_cmp_presign_StartPresign = Some (cmp_presign_start v signers).
Proof.
  unfold env_cmp_StartSign, go_cmp_presign_StartPresign, cmp_presign_start.
  pose proof (validate_basic_present v) as Hp.
  set (vb := cmp_validate_basic v) in *. set (so := sess_ok _ _ _ _). set (cs := can_sign _ _ _ _).
  destruct vb; [rewrite (Hp eq_refl)|]; ssolve.
Qed.

Lemma cmp_Presign v signers :
  geval (alookup (env_cmp_Presign v signers)) go_cmp_Presign = Some (cmp_presign_start v signers).
Proof. unfold env_cmp_Presign, go_cmp_Presign. rewrite cmp_presign_StartPresign. reflexivity. Qed.

Lemma cmp_presign_StartPresignOnline v pp pv sg m :
  geval (alookup (env_cmp_StartPresignOnline v pp pv sg m)) go_cmp_presign_StartPresignOnline
  = Some (cmp_presign_online_start v pp pv sg m).
Proof.
  unfold env_cmp_StartPresignOnline, go_cmp_presign_StartPresignOnline, cmp_presign_online_start, msg_ok.
  set (vb := cmp_validate_basic v). set (so := sess_ok _ _ _ _). set (cs := can_sign _ _ _ _).
  destruct (cv_present v), pp, pv; ssolve.
Qed.

Lemma cmp_PresignOnline v pp pv sg m :
  geval (alookup (env_cmp_PresignOnline v pp pv sg m)) go_cmp_PresignOnline = Some (cmp_presign_online_start v pp pv sg m).
Proof. unfold env_cmp_PresignOnline, go_cmp_PresignOnline. rewrite cmp_presign_StartPresignOnline. reflexivity. Qed.

(* ---------------------------------------------------------------- frost *)

Lemma frost_sameParties ids holders is_holder :
  geval (alookup (env_sameParties ids holders is_holder)) go_frost_sameParties
  = Some (Nat.eqb (length ids) holders && forallb is_holder ids).
Proof.
  unfold env_sameParties, go_frost_sameParties. rewrite existsb_negb_forallb.
  set (a := Nat.eqb _ _). set (b := forallb _ _). ssolve.
Qed.

Lemma frost_keygen_StartKeygenCommon grp ids self t :
  geval (alookup (env_frost_StartKeygenCommon grp ids self t)) go_frost_keygen_StartKeygenCommon = Some (sess_ok grp ids self t).
Proof. unfold env_frost_StartKeygenCommon, go_frost_keygen_StartKeygenCommon. set (so := sess_ok _ _ _ _). ssolve. Qed.

Lemma frost_Keygen grp ids self t :
  geval (alookup (env_frost_Keygen grp ids self t)) go_frost_Keygen = Some (frost_keygen_start grp ids self t).
Proof. unfold env_frost_Keygen, go_frost_Keygen. rewrite frost_keygen_StartKeygenCommon. reflexivity. Qed.

Lemma frost_KeygenTaproot ids self t :
  geval (alookup (env_frost_KeygenTaproot ids self t)) go_frost_KeygenTaproot
  = Some (frost_keygen_start (Some secp256k1_name) ids self t).
Proof. unfold env_frost_KeygenTaproot, go_frost_KeygenTaproot. rewrite frost_keygen_StartKeygenCommon. reflexivity. Qed.

Lemma frost_sign_StartSignCommon grp v signers m :
  geval (alookup (env_frost_StartSignCommon grp v signers m)) go_frost_sign_StartSignCommon
  = Some (frost_sign_start grp v signers m).
Proof.
  unfold env_frost_StartSignCommon, go_frost_sign_StartSignCommon, frost_sign_start, frost_complete, msg_ok.
  rewrite existsb_negb_forallb. set (so := sess_ok _ _ _ _). set (fa := forallb _ _).
  destruct (fv_present v), (fv_share v), (fv_public v), (fv_shares v); ssolve.
Qed.

Lemma frost_Sign grp v signers m :
  geval (alookup (env_frost_Sign grp v signers m)) go_frost_Sign = Some (frost_sign_start grp v signers m).
Proof. unfold env_frost_Sign, go_frost_Sign. rewrite frost_sign_StartSignCommon. reflexivity. Qed.

Lemma frost_Refresh grp v ids :
  geval (alookup (env_frost_Refresh grp v ids)) go_frost_Refresh = Some (frost_refresh_start grp v ids).
Proof.
  unfold env_frost_Refresh, go_frost_Refresh, frost_refresh_start, frost_same_parties.
  rewrite frost_sameParties, frost_keygen_StartKeygenCommon. unfold frost_complete.
  set (so := sess_ok _ _ _ _). set (a := Nat.eqb _ _). set (b := forallb _ _).
  destruct (fv_present v), (fv_share v), (fv_public v), (fv_shares v); ssolve.
Qed.

Lemma frost_RefreshTaproot v ids :
  geval (alookup (env_frost_RefreshTaproot v ids)) go_frost_RefreshTaproot = Some (frost_refresh_taproot_start v ids).
Proof.
  unfold env_frost_RefreshTaproot, go_frost_RefreshTaproot, frost_refresh_taproot_start, frost_same_parties.
  rewrite frost_sameParties, frost_keygen_StartKeygenCommon. unfold taproot_complete.
  change (frost_entries (taproot_generic v)) with (taproot_entries v).
  set (so := sess_ok _ _ _ _). set (a := Nat.eqb (length ids) _). set (b := forallb _ _). set (l32 := Nat.eqb (tv_pk_len v) 32).
  destruct (tv_present v), (tv_share v), (tv_shares v); ssolve.
Qed.

Lemma frost_SignTaproot v signers m :
  geval (alookup (env_frost_SignTaproot v signers m)) go_frost_SignTaproot = Some (frost_sign_taproot_start v signers m).
Proof.
  unfold env_frost_SignTaproot, go_frost_SignTaproot, frost_sign_taproot_start.
  rewrite frost_sign_StartSignCommon, existsb_negb_forallb. unfold taproot_complete.
  set (st := frost_sign_start _ _ _ _). set (fa := forallb _ _). set (l32 := Nat.eqb (tv_pk_len v) 32).
  destruct (tv_present v), (tv_share v), (tv_shares v); ssolve.
Qed.

(* the generic config handed to the signing code: the taproot config's id, THRESHOLD, private share, lifted key and shares *)
Lemma frost_SignTaproot_config :
  lit_of "keygen.Config" go_frost_SignTaproot_lits =
  Some [ ("ID", "config.ID"); ("Threshold", "config.Threshold"); ("PrivateShare", "config.PrivateShare"); ("PublicKey", "publicKey");
         ("VerificationShares", "party.NewPointMap(genericVerificationShares)") ] /\
  count_lits "keygen.Config" go_frost_SignTaproot_lits = 1%nat.
Proof. split; reflexivity. Qed.

(* ---------------------------------------------------------------- doerner *)

Lemma doerner_sessions receiver grp self other :
  geval (alookup (env_doerner_session receiver grp self other)) go_doerner_keygen_StartKeygen = Some (doerner_pair_ok grp self other) /\
  geval (alookup (env_doerner_session receiver grp self other)) go_doerner_sign_StartSignReceiver = Some (doerner_pair_ok grp self other) /\
  geval (alookup (env_doerner_session receiver grp self other)) go_doerner_sign_StartSignSender = Some (doerner_pair_ok grp self other).
Proof.
  unfold env_doerner_session, go_doerner_keygen_StartKeygen, go_doerner_sign_StartSignReceiver, go_doerner_sign_StartSignSender.
  set (ok := doerner_pair_ok _ _ _). repeat split; destruct receiver; ssolve.
Qed.

Lemma doerner_Keygen receiver grp self other :
  geval (alookup (env_doerner_Keygen receiver grp self other)) go_doerner_Keygen = Some (doerner_keygen_start grp self other).
Proof. unfold env_doerner_Keygen, go_doerner_Keygen. rewrite (proj1 (doerner_sessions _ _ _ _)). reflexivity. Qed.

Lemma doerner_Refresh grp v self other :
  geval (alookup (env_doerner_Refresh grp v self other)) go_doerner_RefreshReceiver = Some (doerner_refresh_start grp v self other) /\
  geval (alookup (env_doerner_Refresh grp v self other)) go_doerner_RefreshSender = Some (doerner_refresh_start grp v self other).
Proof.
  unfold env_doerner_Refresh, env_doerner_guards, go_doerner_RefreshReceiver, go_doerner_RefreshSender, doerner_refresh_start, doerner_material.
  rewrite !(proj1 (doerner_sessions _ _ _ _)). set (ok := doerner_pair_ok _ _ _).
  split; destruct (dv_present v), (dv_share v), (dv_public v); ssolve.
Qed.

Lemma doerner_Sign grp v self other m :
  geval (alookup (env_doerner_Sign grp v self other m)) go_doerner_SignReceiver = Some (doerner_sign_start grp v self other m) /\
  geval (alookup (env_doerner_Sign grp v self other m)) go_doerner_SignSender = Some (doerner_sign_start grp v self other m).
Proof.
  unfold env_doerner_Sign, env_doerner_guards, go_doerner_SignReceiver, go_doerner_SignSender, doerner_sign_start, doerner_material, msg_ok.
  rewrite (proj1 (proj2 (doerner_sessions _ _ _ _))), (proj2 (proj2 (doerner_sessions _ _ _ _))). set (ok := doerner_pair_ok _ _ _).
  split; destruct (dv_present v), (dv_setup v), (dv_share v), (dv_public v); ssolve.
Qed.

(* ---------------------------------------------------------------- what the start functions hand to NewSession *)

Lemma start_session_infos :
  session_info go_cmp_Keygen_lits = (Some "selfID", Some "participants", Some "threshold", Some "group") /\
  session_info go_cmp_Refresh_lits = (Some "config.ID", Some "config.PartyIDs()", Some "config.Threshold", Some "config.Group") /\
  session_info go_cmp_sign_StartSign_lits = (Some "config.ID", Some "signers", Some "config.Threshold", Some "config.Group") /\
  session_info go_cmp_presign_StartPresign_lits = (Some "c.ID", Some "signers", Some "c.Threshold", Some "c.Group") /\
  session_info go_cmp_presign_StartPresignOnline_lits = (Some "c.ID", Some "signers", Some "c.Threshold", Some "c.Group") /\
  session_info go_frost_keygen_StartKeygenCommon_lits = (Some "selfID", Some "participants", Some "threshold", Some "group") /\
  session_info go_frost_sign_StartSignCommon_lits = (Some "result.ID", Some "signers", Some "result.Threshold", Some "result.PublicKey.Curve()") /\
  session_info go_doerner_keygen_StartKeygen_lits = (Some "selfID", Some "party.NewIDSlice([]party.ID{selfID, otherID})", Some "1", Some "group") /\
  session_info go_doerner_sign_StartSignReceiver_lits = (Some "selfID", Some "party.NewIDSlice([]party.ID{selfID, otherID})", Some "1", Some "config.Group()") /\
  session_info go_doerner_sign_StartSignSender_lits = (Some "selfID", Some "party.NewIDSlice([]party.ID{selfID, otherID})", Some "1", Some "config.Group()") /\
  session_info go_example_StartXOR_lits = (Some "selfID", Some "partyIDs", None, None).
Proof. repeat split; reflexivity. Qed.

(* one round.Info per session constructor, none in the pure delegations *)
Lemma start_session_info_counts :
  map (count_lits "round.Info")
    [ go_cmp_Keygen_lits; go_cmp_Refresh_lits; go_cmp_Sign_lits; go_cmp_Presign_lits; go_cmp_PresignOnline_lits; go_cmp_keygen_Start_lits;
      go_cmp_sign_StartSign_lits; go_cmp_presign_StartPresign_lits; go_cmp_presign_StartPresignOnline_lits;
      go_frost_Keygen_lits; go_frost_KeygenTaproot_lits; go_frost_Refresh_lits; go_frost_RefreshTaproot_lits; go_frost_Sign_lits;
      go_frost_SignTaproot_lits; go_frost_keygen_StartKeygenCommon_lits; go_frost_sign_StartSignCommon_lits;
      go_doerner_Keygen_lits; go_doerner_RefreshReceiver_lits; go_doerner_RefreshSender_lits; go_doerner_SignReceiver_lits;
      go_doerner_SignSender_lits; go_doerner_keygen_StartKeygen_lits; go_doerner_sign_StartSignReceiver_lits; go_doerner_sign_StartSignSender_lits ]
  = [1; 1; 0; 0; 0; 0; 1; 1; 1; 0; 0; 0; 0; 0; 0; 1; 1; 0; 0; 0; 0; 0; 1; 1; 1]%nat.
Proof. reflexivity. Qed.

(* the guard section of each session constructor, literally: where NewSession is called (with the info literal above), and
   where the locals of the atoms come from *)

Lemma start_traces_ok :
  starts_with
    [ "do var helper *round.Helper";
      "if c == nil {";
      "do helper, err = round.NewSession(info, sessionID, pl)";
      "}";
      "else {";
      "if err != nil where err = c.ValidateBasic() -> return error";
      "do helper, err = round.NewSession(info, sessionID, pl, c)";
      "}";
      "if err != nil -> return error" ] go_cmp_keygen_Start_trace = true /\
  starts_with
    [ "if err != nil where err := config.ValidateBasic() -> return error";
      "do group := config.Group";
      "if len(message) == 0 -> return error";
      "do info := round.Info{ProtocolID: protocolSignID, FinalRoundNumber: protocolSignRounds, SelfID: config.ID, PartyIDs: signers, Threshold: config.Threshold, Group: config.Group}";
      "do helper, err := round.NewSession(info, sessionID, pl, config, types.SigningMessage(message))";
      "if err != nil -> return error";
      "if !config.CanSign(helper.PartyIDs()) -> return error" ] go_cmp_sign_StartSign_trace = true /\
  starts_with
    [ "if c == nil -> return error";
      "if err != nil where err := c.ValidateBasic() -> return error";
      "do info := round.Info{SelfID: c.ID, PartyIDs: signers, Threshold: c.Threshold, Group: c.Group}";
      "do if len(message) == 0 { info.FinalRoundNumber = protocolOfflineRounds info.ProtocolID = protocolOfflineID } else { info.FinalRoundNumber = protocolFullRounds info.ProtocolID = protocolFullID }";
      "do helper, err := round.NewSession(info, sessionID, pl, c, types.SigningMessage(message))";
      "if err != nil -> return error";
      "if !c.CanSign(helper.PartyIDs()) -> return error" ] go_cmp_presign_StartPresign_trace = true /\
  go_cmp_presign_StartPresignOnline_trace =
    [ "if c == nil || preSignature == nil -> return error";
      "if err != nil where err := c.ValidateBasic() -> return error";
      "if len(message) == 0 -> return error";
      "if err != nil where err := preSignature.Validate() -> return error";
      "do signers := preSignature.SignerIDs()";
      "if !c.CanSign(signers) -> return error";
      "do info := round.Info{ProtocolID: protocolOnlineID, FinalRoundNumber: protocolFullRounds, SelfID: c.ID, PartyIDs: signers, Threshold: c.Threshold, Group: c.Group}";
      "do helper, err := round.NewSession(info, sessionID, pl, c, hash.BytesWithDomain{TheDomain: ""PreSignatureID"", Bytes: preSignature.ID}, types.SigningMessage(message))";
      "if err != nil -> return error";
      "return session" ] /\
  starts_with
    [ "do info := round.Info{FinalRoundNumber: protocolRounds, SelfID: selfID, PartyIDs: participants, Threshold: threshold, Group: group}";
      "do if taproot { info.ProtocolID = protocolIDTaproot } else { info.ProtocolID = protocolID }";
      "do helper, err := round.NewSession(info, sessionID, nil)";
      "if err != nil -> return error" ] go_frost_keygen_StartKeygenCommon_trace = true /\
  go_frost_sign_StartSignCommon_trace =
    [ "if result == nil || result.PrivateShare == nil || result.PublicKey == nil || result.VerificationShares == nil -> return error";
      "if len(messageHash) == 0 -> return error";
      "loop any id in signers: (!ok || share == nil where share, ok := result.VerificationShares.Points[id]) -> return error";
      "do info := round.Info{FinalRoundNumber: protocolRounds, SelfID: result.ID, PartyIDs: signers, Threshold: result.Threshold, Group: result.PublicKey.Curve()}";
      "do if taproot { info.ProtocolID = protocolIDTaproot } else { info.ProtocolID = protocolID }";
      "do helper, err := round.NewSession(info, sessionID, nil)";
      "if err != nil -> return error";
      "return session" ] /\
  go_frost_SignTaproot_trace =
    [ "if config == nil || config.PrivateShare == nil || len(config.PublicKey) != 32 || config.VerificationShares == nil -> return refusal";
      "do publicKey, err := curve.Secp256k1{}.LiftX(config.PublicKey)";
      "if err != nil -> return refusal";
      "do genericVerificationShares := make(map[party.ID]curve.Point)";
      "loop any k, v in config.VerificationShares: v == nil [genericVerificationShares[k] = v] -> return refusal";
      "do normalResult := &keygen.Config{ID: config.ID, Threshold: config.Threshold, PrivateShare: config.PrivateShare, PublicKey: publicKey, VerificationShares: party.NewPointMap(genericVerificationShares)}";
      "return sign.StartSignCommon(true, normalResult, signers, messageHash)" ] /\
  starts_with
    [ "if config == nil || config.PrivateShare == nil || len(config.PublicKey) != 32 || config.VerificationShares == nil -> return refusal";
      "if !sameParties(participants, len(config.VerificationShares), func(id party.ID) bool { share, ok := config.VerificationShares[id] return ok && share != nil }) -> return refusal";
      "do publicKey, err := curve.Secp256k1{}.LiftX(config.PublicKey)";
      "if err != nil -> return refusal" ] go_frost_RefreshTaproot_trace = true /\
  starts_with
    [ "do info := round.Info{ProtocolID: ""doerner/keygen"", FinalRoundNumber: 3, SelfID: selfID, PartyIDs: party.NewIDSlice([]party.ID{selfID, otherID}), Threshold: 1, Group: group}";
      "do helper, err := round.NewSession(info, sessionID, nil)";
      "if err != nil -> return error" ] go_doerner_keygen_StartKeygen_trace = true /\
  starts_with
    [ "do info := round.Info{ProtocolID: ""doerner/sign"", FinalRoundNumber: 2, SelfID: selfID, PartyIDs: party.NewIDSlice([]party.ID{selfID, otherID}), Threshold: 1, Group: config.Group()}";
      "do helper, err := round.NewSession(info, sessionID, nil)";
      "if err != nil -> return error" ] go_doerner_sign_StartSignReceiver_trace = true /\
  starts_with
    [ "do info := round.Info{ProtocolID: ""doerner/sign"", FinalRoundNumber: 2, SelfID: selfID, PartyIDs: party.NewIDSlice([]party.ID{selfID, otherID}), Threshold: 1, Group: config.Group()}";
      "do helper, err := round.NewSession(info, sessionID, nil)";
      "if err != nil -> return error" ] go_doerner_sign_StartSignSender_trace = true.
Proof. repeat split; vm_compute; reflexivity. Qed.

(* ---------------------------------------------------------------- what the predicates mean *)

Lemma sess_ok_iff grp ids self t :
  sess_ok grp ids self t = true <->
  NoDup ids /\ (forall id, In id ids -> id_ok grp id = true) /\ In self ids /\ (0 <= t <= max_uint32) /\ t <= Z.of_nat (length ids) - 1.
Proof. unfold sess_ok. rewrite new_session_ok_iff. reflexivity. Qed.

Lemma in_sort_iff l x : In x (sort_ids l) <-> In x l.
Proof. rewrite <- ids_contains_iff. apply ids_contains_sort_iff. Qed.

(* CanSign on the sorted signers, as the start functions call it *)
Lemma can_sign_sorted_iff t self sh sg :
  can_sign t self sh (sort_ids sg) = true <->
  (0 <= t <= max_uint32) /\ t < Z.of_nat (length sg) /\ NoDup sg /\ In self sg /\ (forall j, In j sg -> In j sh).
Proof.
  rewrite can_sign_iff, sort_ids_length, ids_valid_sort_iff, in_sort_iff. split.
  - intros (H1 & H2 & H3 & H4 & H5). repeat split; try assumption; try lia. intros j Hj. apply H5. now apply in_sort_iff.
  - intros (H1 & H2 & H3 & H4 & H5). repeat split; try assumption; try lia. intros j Hj. apply H5. now apply in_sort_iff.
Qed.

Lemma has_key_iff {A} id (m : list (bytes * A)) : has_key id m = true <-> In id (map fst m).
Proof.
  unfold has_key. rewrite existsb_exists, in_map_iff. split.
  - intros [e [He E]]. apply bytes_eqb_eq in E. exists e. split; [now symmetry|assumption].
  - intros [e [E He]]. exists e. split; [assumption|]. apply bytes_eqb_eq. now symmetry.
Qed.

Lemma cmp_validate_basic_iff v :
  cmp_validate_basic v = true <->
  cv_present v = true /\ cv_group v <> None /\ (cv_ecdsa v = true /\ cv_elgamal v = true /\ cv_paillier v = true) /\
  (0 <= cv_thr v <= max_uint32 /\ cv_thr v <= Z.of_nat (length (cv_public v)) - 1) /\
  In (cv_id v) (cmp_holders v) /\ (forall e, In e (cv_public v) -> pub_complete (snd e) = true).
Proof.
  unfold cmp_validate_basic, cmp_holders. rewrite !andb_true_iff, valid_threshold_iff, has_key_iff, forallb_forall.
  destruct (cv_group v); cbn [is_present]; intuition congruence.
Qed.

(* cmp.Sign starts exactly when: usable config, a message, and the signers are pairwise distinct valid ids, contain this party,
   are more than t, and all hold a share *)
Lemma cmp_sign_start_iff v sg m :
  cmp_sign_start v sg m = true <->
  cmp_validate_basic v = true /\ m <> 0%nat /\
  NoDup sg /\ (forall id, In id sg -> id_ok (cv_group v) id = true) /\ In (cv_id v) sg /\
  cv_thr v < Z.of_nat (length sg) /\ (forall j, In j sg -> In j (cmp_holders v)).
Proof.
  unfold cmp_sign_start, msg_ok. rewrite !andb_true_iff, sess_ok_iff, can_sign_sorted_iff, negb_true_iff, Nat.eqb_neq.
  split.
  - intros [[[Hb Hm] (H1 & H2 & H3 & H4 & H5)] (H6 & H7 & H8 & H9 & H10)]. repeat split; assumption.
  - intros (Hb & Hm & H1 & H2 & H3 & H4 & H5).
    apply cmp_validate_basic_iff in Hb as Hb'. destruct Hb' as (_ & _ & _ & [Ht _] & _).
    repeat split; try assumption; lia.
Qed.

Lemma cmp_presign_start_iff v sg :
  cmp_presign_start v sg = true <->
  cmp_validate_basic v = true /\
  NoDup sg /\ (forall id, In id sg -> id_ok (cv_group v) id = true) /\ In (cv_id v) sg /\
  cv_thr v < Z.of_nat (length sg) /\ (forall j, In j sg -> In j (cmp_holders v)).
Proof.
  unfold cmp_presign_start. rewrite !andb_true_iff, sess_ok_iff, can_sign_sorted_iff.
  split.
  - intros [[Hb (H1 & H2 & H3 & H4 & H5)] (H6 & H7 & H8 & H9 & H10)]. repeat split; assumption.
  - intros (Hb & H1 & H2 & H3 & H4 & H5).
    apply cmp_validate_basic_iff in Hb as Hb'. destruct Hb' as (_ & _ & _ & [Ht _] & _).
    repeat split; try assumption; lia.
Qed.

Lemma cmp_refresh_start_iff v :
  cmp_refresh_start v = true <->
  cmp_validate_basic v = true /\ NoDup (cmp_holders v) /\ (forall id, In id (cmp_holders v) -> id_ok (cv_group v) id = true).
Proof.
  unfold cmp_refresh_start. rewrite andb_true_iff, sess_ok_iff. split.
  - intros [Hb (H1 & H2 & _)]. repeat split; assumption.
  - intros (Hb & H1 & H2). apply cmp_validate_basic_iff in Hb as Hb'. destruct Hb' as (_ & _ & _ & [Ht Hn] & Hin & _).
    unfold cmp_holders in *. rewrite map_length. repeat split; try assumption; lia.
Qed.

Lemma cmp_presign_online_start_iff v pp pv sg m :
  cmp_presign_online_start v pp pv sg m = true <->
  cmp_validate_basic v = true /\ pp = true /\ pv = true /\ m <> 0%nat /\
  NoDup sg /\ (forall id, In id sg -> id_ok (cv_group v) id = true) /\ In (cv_id v) sg /\
  cv_thr v < Z.of_nat (length sg) /\ (forall j, In j sg -> In j (cmp_holders v)).
Proof.
  unfold cmp_presign_online_start, msg_ok.
  rewrite !andb_true_iff, sess_ok_iff, can_sign_sorted_iff, negb_true_iff, Nat.eqb_neq, sort_ids_length, in_sort_iff.
  split.
  - intros [[[[[[Hp Hpp] Hb] Hm] Hpv] (H6 & H7 & H8 & H9 & H10)] (H1 & H2 & H3 & H4 & H5)].
    repeat split; try assumption. intros id Hid. apply H2. now apply in_sort_iff.
  - intros (Hb & Hpp & Hpv & Hm & H1 & H2 & H3 & H4 & H5).
    apply cmp_validate_basic_iff in Hb as Hb'. destruct Hb' as (Hp & _ & _ & [Ht _] & _).
    repeat split; try assumption; try lia.
    + apply (Permutation.Permutation_NoDup (Permutation.Permutation_sym (sort_ids_perm sg))). exact H1.
    + intros id Hid. apply H2. now apply in_sort_iff.
Qed.

Lemma frost_holder_iff v id : frost_holder v id = true <-> In (id, true) (frost_entries v).
Proof.
  unfold frost_holder. rewrite existsb_exists. split.
  - intros [[i b] [He E]]. cbn in E. apply andb_true_iff in E as [E1 E2]. apply bytes_eqb_eq in E1. subst. exact He.
  - intro H. exists (id, true). split; [exact H|]. cbn. rewrite andb_true_r. now apply bytes_eqb_eq.
Qed.

(* frost.Sign / sign.StartSignCommon *)
Lemma frost_sign_start_iff grp v sg m :
  frost_sign_start grp v sg m = true <->
  frost_complete v = true /\ m <> 0%nat /\ (forall j, In j sg -> In (j, true) (frost_entries v)) /\
  NoDup sg /\ (forall id, In id sg -> id_ok (Some grp) id = true) /\ In (fv_id v) sg /\
  (0 <= fv_thr v <= max_uint32) /\ fv_thr v < Z.of_nat (length sg).
Proof.
  unfold frost_sign_start, msg_ok. rewrite !andb_true_iff, sess_ok_iff, negb_true_iff, Nat.eqb_neq, forallb_forall.
  split.
  - intros [[[Hc Hm] Hh] (H1 & H2 & H3 & H4 & H5)]. repeat split; try assumption; try lia.
    intros j Hj. apply frost_holder_iff. now apply Hh.
  - intros (Hc & Hm & Hh & H1 & H2 & H3 & H4 & H5). repeat split; try assumption; try lia.
    intros j Hj. apply frost_holder_iff. now apply Hh.
Qed.

(* the same, as the list of reasons for a refusal: the start function refuses iff the config is nil or incomplete, or there is no
   message, or a signer is no share holder, or the signer set is invalid (a duplicate, an unusable id), or this party is not a
   signer, or the threshold is out of range, or there are not more than t signers *)
Lemma frost_sign_refuses_iff grp v sg m :
  frost_sign_start grp v sg m = false <->
  frost_complete v = false \/ m = 0%nat \/ (exists j, In j sg /\ frost_holder v j = false) \/
  ~ NoDup sg \/ (exists id, In id sg /\ id_ok (Some grp) id = false) \/ ~ In (fv_id v) sg \/
  fv_thr v < 0 \/ max_uint32 < fv_thr v \/ Z.of_nat (length sg) <= fv_thr v.
Proof.
  split.
  - intro H. unfold frost_sign_start, sess_ok, new_session_ok, msg_ok in H. cbn [sp_ids sp_group sp_self sp_thr] in H.
    remember (frost_complete v) as fc eqn:Efc.
    repeat (apply andb_false_iff in H; destruct H as [H|H]).
    + now left.
    + right; left. apply negb_false_iff, Nat.eqb_eq in H. exact H.
    + right; right; left. apply not_true_iff_false in H.
      destruct (existsb (fun j => negb (frost_holder v j)) sg) eqn:E.
      * apply existsb_exists in E as [j [Hj E]]. exists j. split; [exact Hj|now apply negb_true_iff in E].
      * exfalso. apply H. rewrite existsb_negb_forallb in E. now apply negb_false_iff in E.
    + right; right; right; left. intro Hn. apply ids_valid_sort_iff in Hn. congruence.
    + right; right; right; right; left.
      rewrite (forallb_perm _ _ _ (sort_ids_perm sg)) in H.
      destruct (existsb (fun id => negb (id_ok (Some grp) id)) sg) eqn:E.
      * apply existsb_exists in E as [id [Hid E]]. exists id. split; [exact Hid|now apply negb_true_iff in E].
      * rewrite existsb_negb_forallb in E. apply negb_false_iff in E. congruence.
    + right; right; right; right; right; left. intro Hn. apply ids_contains_sort_iff in Hn. congruence.
    + do 6 right. left. apply Z.leb_gt in H. exact H.
    + do 7 right. left. apply Z.leb_gt in H. exact H.
    + apply Z.ltb_ge in H. rewrite sort_ids_length in H.
      destruct (Z.ltb_spec (fv_thr v) 0) as [Hneg|Hpos]; [do 6 right; left; exact Hneg|do 8 right; lia].
    + do 8 right. apply Z.leb_gt in H. rewrite sort_ids_length in H. lia.
  - intro H. apply not_true_iff_false. intro Hs. apply frost_sign_start_iff in Hs.
    destruct Hs as (Hc & Hm & Hh & H1 & H2 & H3 & H4 & H5).
    destruct H as [H|[H|[[j [Hj H]]|[H|[[id [Hid H]]|[H|[H|[H|H]]]]]]]]; try congruence; try contradiction; try lia.
    + apply Hh, frost_holder_iff in Hj. congruence.
    + rewrite (H2 id Hid) in H. discriminate.
Qed.

Lemma frost_refresh_start_iff grp v ids :
  frost_refresh_start grp v ids = true <->
  frost_complete v = true /\ length ids = length (frost_entries v) /\ (forall j, In j ids -> In (j, true) (frost_entries v)) /\
  NoDup ids /\ (forall id, In id ids -> id_ok (Some grp) id = true) /\ In (fv_id v) ids /\
  (0 <= fv_thr v <= max_uint32) /\ fv_thr v < Z.of_nat (length ids).
Proof.
  unfold frost_refresh_start, frost_same_parties. rewrite !andb_true_iff, sess_ok_iff, Nat.eqb_eq, forallb_forall.
  split.
  - intros [[Hc [Hl Hh]] (H1 & H2 & H3 & H4 & H5)]. repeat split; try assumption; try lia.
    intros j Hj. apply frost_holder_iff. now apply Hh.
  - intros (Hc & Hl & Hh & H1 & H2 & H3 & H4 & H5). repeat split; try assumption; try lia.
    intros j Hj. apply frost_holder_iff. now apply Hh.
Qed.

(* frost.SignTaproot = frost.Sign on the generic config, which has the taproot config's threshold *)
Lemma frost_sign_taproot_start_iff v sg m :
  frost_sign_taproot_start v sg m = true <->
  taproot_complete v = true /\ tv_liftable v = true /\ (forall e, In e (taproot_entries v) -> snd e = true) /\
  m <> 0%nat /\ (forall j, In j sg -> In (j, true) (taproot_entries v)) /\
  NoDup sg /\ (forall id, In id sg -> id_ok (Some secp256k1_name) id = true) /\ In (tv_id v) sg /\
  (0 <= tv_thr v <= max_uint32) /\ tv_thr v < Z.of_nat (length sg).
Proof.
  unfold frost_sign_taproot_start. rewrite !andb_true_iff, frost_sign_start_iff, forallb_forall.
  change (frost_entries (taproot_generic v)) with (taproot_entries v).
  cbn [taproot_generic fv_id fv_thr]. unfold frost_complete, taproot_complete. cbn [taproot_generic fv_present fv_share fv_public fv_shares].
  rewrite !andb_true_iff. intuition.
Qed.

Lemma doerner_pair_ok_iff grp self other :
  doerner_pair_ok grp self other = true <-> self <> other /\ id_ok grp self = true /\ id_ok grp other = true.
Proof.
  unfold doerner_pair_ok. rewrite sess_ok_iff. cbn [length In]. split.
  - intros (Hn & Hid & _). inversion Hn as [|? ? Hni _]; subst. repeat split.
    + intro E. apply Hni. left. now symmetry.
    + apply Hid. now left.
    + apply Hid. right. now left.
  - intros (Hne & H1 & H2). repeat split.
    + constructor; [intros [E|[]]; now apply Hne|constructor; [intros []|constructor]].
    + intros id [E|[E|[]]]; subst; assumption.
    + now left.
    + lia.
    + unfold max_uint32. lia.
    + cbn. lia.
Qed.

Lemma doerner_sign_start_iff grp v self other m :
  doerner_sign_start grp v self other m = true <->
  (dv_present v = true /\ dv_share v = true /\ dv_public v = true /\ dv_share_zero v = false /\ dv_public_identity v = false) /\
  dv_setup v = true /\ m <> 0%nat /\ self <> other /\ id_ok (Some grp) self = true /\ id_ok (Some grp) other = true.
Proof.
  unfold doerner_sign_start, doerner_material, msg_ok.
  rewrite !andb_true_iff, doerner_pair_ok_iff, !negb_true_iff, Nat.eqb_neq. intuition.
Qed.

Lemma doerner_refresh_start_iff grp v self other :
  doerner_refresh_start grp v self other = true <->
  (dv_present v = true /\ dv_share v = true /\ dv_public v = true /\ dv_share_zero v = false /\ dv_public_identity v = false) /\
  self <> other /\ id_ok (Some grp) self = true /\ id_ok (Some grp) other = true.
Proof.
  unfold doerner_refresh_start, doerner_material. rewrite !andb_true_iff, doerner_pair_ok_iff, !negb_true_iff. intuition.
Qed.

(* ---------------------------------------------------------------- the harness oracle (harness/c20.go, c20Expect) *)

(* the session part of the oracle per family: "sign" -> sess.can_sign(t, self, holders, signers) (the op sorts the signers),
   "keygen" / "cmprefresh" / "doerner" -> sess.ok.  The start predicates are that verdict and the flagged defects. *)
Lemma cmp_sign_start_oracle v sg m :
  cmp_sign_start v sg m
  = cmp_validate_basic v && msg_ok m && forallb (id_ok (cv_group v)) sg
    && can_sign (cv_thr v) (cv_id v) (cmp_holders v) (sort_ids sg).
Proof.
  apply eq_true_iff_eq. rewrite cmp_sign_start_iff. unfold msg_ok.
  rewrite !andb_true_iff, can_sign_sorted_iff, forallb_forall, negb_true_iff, Nat.eqb_neq. split.
  - intros (Hb & Hm & H1 & H2 & H3 & H4 & H5). apply cmp_validate_basic_iff in Hb as Hb'. destruct Hb' as (_ & _ & _ & [Ht _] & _).
    repeat split; try assumption; lia.
  - intros [[[Hb Hm] H2] (H6 & H7 & H8 & H9 & H10)]. repeat split; assumption.
Qed.

Lemma frost_sign_start_oracle grp v sg m :
  frost_sign_start grp v sg m
  = frost_complete v && msg_ok m && forallb (id_ok (Some grp)) sg
    && can_sign (fv_thr v) (fv_id v) (map fst (filter (fun e => snd e) (frost_entries v))) (sort_ids sg).
Proof.
  apply eq_true_iff_eq. rewrite frost_sign_start_iff. unfold msg_ok.
  rewrite !andb_true_iff, can_sign_sorted_iff, forallb_forall, negb_true_iff, Nat.eqb_neq.
  assert (Hh : forall j, In (j, true) (frost_entries v) <-> In j (map fst (filter (fun e => snd e) (frost_entries v)))).
  { intro j. rewrite in_map_iff. split.
    - intro H. exists (j, true). split; [reflexivity|]. apply filter_In. split; [exact H|reflexivity].
    - intros [[i b] [E H]]. cbn in E. subst. apply filter_In in H as [H Hb]. cbn in Hb. subst. exact H. }
  split.
  - intros (Hc & Hm & H0 & H1 & H2 & H3 & H4 & H5). repeat split; try assumption; try lia. intros j Hj. apply Hh. now apply H0.
  - intros [[[Hc Hm] H2] (H6 & H7 & H8 & H9 & H10)]. repeat split; try assumption; try lia. intros j Hj. apply Hh. now apply H10.
Qed.

(* ---------------------------------------------------------------- example.StartXOR *)

Lemma example_StartXOR ids self :
  geval (alookup (env_xor ids self)) go_example_StartXOR = Some (xor_start ids self).
Proof. unfold env_xor, go_example_StartXOR, xor_start. set (so := sess_ok _ _ _ _). ssolve. Qed.

Lemma xor_start_iff ids self :
  xor_start ids self = true <-> NoDup ids /\ (forall id, In id ids -> id_ok None id = true) /\ In self ids.
Proof.
  unfold xor_start. rewrite sess_ok_iff. split.
  - intros (H1 & H2 & H3 & _). repeat split; assumption.
  - intros (H1 & H2 & H3). repeat split; try assumption; try (unfold max_uint32; lia).
    destruct ids; [contradiction|]. cbn [length]. lia.
Qed.
