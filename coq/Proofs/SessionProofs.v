From Coq Require Import String.
From Coq Require Import List NArith ZArith Bool Lia Sorting.Permutation Sorting.Sorted.
From MPS Require Import Model.Bytes Model.Framing Model.Session Proofs.BytesProofs Proofs.FramingProofs.
Import ListNotations.

(* ---------- the byte-string order ---------- *)

Lemma ltb_irrefl a : bytes_ltb a a = false.
Proof. induction a as [|x a IH]; simpl; [reflexivity|]. now rewrite N.ltb_irrefl. Qed.

Lemma ltb_trans a : forall b c, bytes_ltb a b = true -> bytes_ltb b c = true -> bytes_ltb a c = true.
Proof.
  induction a as [|x a IH]; intros [|y b] [|z c]; simpl; intros H1 H2; try discriminate; try reflexivity.
  destruct (N.ltb_spec x y), (N.ltb_spec y x), (N.ltb_spec y z), (N.ltb_spec z y),
    (N.ltb_spec x z), (N.ltb_spec z x); try discriminate; try reflexivity; try lia.
  eapply IH; eassumption.
Qed.

Lemma ltb_total a : forall b, bytes_ltb a b = false -> bytes_ltb b a = false -> a = b.
Proof.
  induction a as [|x a IH]; intros [|y b]; simpl; intros H1 H2; try discriminate; try reflexivity.
  destruct (N.ltb_spec x y), (N.ltb_spec y x); try discriminate; try lia.
  assert (x = y) by lia. subst. f_equal. now apply IH.
Qed.

Lemma ltb_asym a b : bytes_ltb a b = true -> bytes_ltb b a = false.
Proof.
  intro H. destruct (bytes_ltb b a) eqn:E; [|reflexivity].
  pose proof (ltb_trans _ _ _ H E) as T. now rewrite ltb_irrefl in T.
Qed.

Lemma leb_total a b : bytes_leb a b = true \/ bytes_leb b a = true.
Proof.
  unfold bytes_leb. destruct (bytes_ltb b a) eqn:E; [right | left; reflexivity].
  now rewrite (ltb_asym _ _ E).
Qed.

Lemma leb_trans a b c : bytes_leb a b = true -> bytes_leb b c = true -> bytes_leb a c = true.
Proof.
  unfold bytes_leb. rewrite !negb_true_iff. intros H1 H2.
  destruct (bytes_ltb c a) eqn:E; [|reflexivity]. exfalso.
  destruct (bytes_ltb b c) eqn:Ebc.
  - pose proof (ltb_trans _ _ _ Ebc E). congruence.
  - pose proof (ltb_total _ _ Ebc H2). subst. congruence.
Qed.

Lemma leb_neq_ltb a b : bytes_leb a b = true -> a <> b -> bytes_ltb a b = true.
Proof.
  unfold bytes_leb. rewrite negb_true_iff. intros H N.
  destruct (bytes_ltb a b) eqn:E; [reflexivity|]. exfalso. apply N. now apply ltb_total.
Qed.

Lemma ltb_leb a b : bytes_ltb a b = true -> bytes_leb a b = true.
Proof. intro H. unfold bytes_leb. now rewrite (ltb_asym _ _ H). Qed.

(* ---------- insertion sort ---------- *)

Definition le_id (a b : bytes) : Prop := bytes_leb a b = true.
Definition lt_id (a b : bytes) : Prop := bytes_ltb a b = true.

Lemma insert_perm x l : Permutation (insert_id x l) (x :: l).
Proof.
  induction l as [|y l IH]; simpl; [reflexivity|].
  destruct (bytes_leb x y); [reflexivity|].
  rewrite IH. apply perm_swap.
Qed.

Lemma sort_ids_perm l : Permutation (sort_ids l) l.
Proof.
  induction l as [|x l IH]; simpl; [reflexivity|].
  unfold sort_ids in *. simpl. rewrite insert_perm. now constructor.
Qed.

Lemma insert_sorted x l : StronglySorted le_id l -> StronglySorted le_id (insert_id x l).
Proof.
  induction l as [|y l IH]; intro S; simpl.
  - repeat constructor.
  - inversion S as [|? ? S' F]; subst.
    destruct (bytes_leb x y) eqn:E.
    + constructor; [assumption|]. constructor; [exact E|].
      rewrite Forall_forall in *. intros z Hz. eapply leb_trans; [exact E | now apply F].
    + constructor; [now apply IH|].
      assert (le_id y x) as Hyx by (destruct (leb_total x y) as [H|H]; [congruence | exact H]).
      rewrite Forall_forall in *. intros z Hz.
      apply (Permutation_in _ (insert_perm x l)) in Hz. destruct Hz as [<-|Hz]; [exact Hyx | now apply F].
Qed.

Lemma sort_ids_sorted l : StronglySorted le_id (sort_ids l).
Proof.
  induction l as [|x l IH]; unfold sort_ids in *; simpl; [constructor | now apply insert_sorted].
Qed.

(* ---------- Valid = strictly increasing = sorted without duplicates ---------- *)

Lemma ids_valid_strong l : ids_valid l = true -> StronglySorted lt_id l.
Proof.
  induction l as [|x l IH]; intro H; [constructor|].
  destruct l as [|y l]; [repeat constructor|].
  cbn [ids_valid] in H. apply andb_true_iff in H as [Hxy H].
  specialize (IH H). constructor; [assumption|].
  inversion IH as [|? ? _ F]; subst. constructor; [exact Hxy|].
  rewrite Forall_forall in *. intros z Hz. eapply ltb_trans; [exact Hxy | now apply F].
Qed.

Lemma strong_lt_nodup l : StronglySorted lt_id l -> NoDup l.
Proof.
  induction 1 as [|x l S IH F]; constructor; [|assumption].
  intro Hin. rewrite Forall_forall in F. specialize (F x Hin). unfold lt_id in F. now rewrite ltb_irrefl in F.
Qed.

Lemma sorted_nodup_valid l : StronglySorted le_id l -> NoDup l -> ids_valid l = true.
Proof.
  induction 1 as [|x l S IH F]; intro ND; [reflexivity|].
  inversion ND as [|? ? Hnin ND']; subst.
  destruct l as [|y l]; [reflexivity|].
  cbn [ids_valid]. apply andb_true_iff. split; [|now apply IH].
  apply leb_neq_ltb.
  - rewrite Forall_forall in F. apply F. now left.
  - intros ->. apply Hnin. now left.
Qed.

Theorem ids_valid_sort_iff l : ids_valid (sort_ids l) = true <-> NoDup l.
Proof.
  split; intro H.
  - apply (Permutation_NoDup (sort_ids_perm l)). now apply strong_lt_nodup, ids_valid_strong.
  - apply sorted_nodup_valid; [apply sort_ids_sorted|].
    apply (Permutation_NoDup (Permutation_sym (sort_ids_perm l))). exact H.
Qed.

Lemma ids_contains_iff l x : ids_contains l x = true <-> In x l.
Proof.
  unfold ids_contains. rewrite existsb_exists. split.
  - intros [y [Hy E]]. apply bytes_eqb_eq in E. now subst.
  - intro H. exists x. split; [assumption | now apply bytes_eqb_eq].
Qed.

Lemma ids_contains_sort_iff l x : ids_contains (sort_ids l) x = true <-> In x l.
Proof.
  rewrite ids_contains_iff. split; intro H.
  - now apply (Permutation_in _ (sort_ids_perm l)).
  - now apply (Permutation_in _ (Permutation_sym (sort_ids_perm l))).
Qed.

Lemma sort_ids_length l : length (sort_ids l) = length l.
Proof. apply Permutation_length, sort_ids_perm. Qed.

Lemma forallb_perm {A} (f : A -> bool) l l' : Permutation l l' -> forallb f l = forallb f l'.
Proof.
  induction 1 as [|x l l' P IH|x y l|l l' l'' P1 IH1 P2 IH2]; cbn [forallb]; try congruence.
  now rewrite !andb_assoc, (andb_comm (f y) (f x)).
Qed.

(* C20: NewSession accepts exactly the well-formed parameter sets *)
Theorem new_session_ok_iff p :
  new_session_ok p = true <->
  NoDup (sp_ids p) /\ (forall id, In id (sp_ids p) -> id_ok (sp_group p) id = true) /\ In (sp_self p) (sp_ids p) /\
  (0 <= sp_thr p <= max_uint32)%Z /\ (sp_thr p <= Z.of_nat (length (sp_ids p)) - 1)%Z.
Proof.
  unfold new_session_ok. rewrite !andb_true_iff, ids_valid_sort_iff, ids_contains_sort_iff, sort_ids_length.
  rewrite (forallb_perm _ _ _ (sort_ids_perm (sp_ids p))), forallb_forall.
  rewrite !Z.leb_le, Z.ltb_lt. split.
  - intros [[[[[[H1 H0] H2] H3] H4] H5] H6]. repeat split; assumption.
  - intros (H1 & H0 & H2 & [H3 H4] & H5). repeat split; try assumption.
    destruct (sp_ids p); [contradiction | simpl; lia].
Qed.

Theorem valid_threshold_iff t n :
  valid_threshold t n = true <-> (0 <= t <= max_uint32 /\ t <= Z.of_nat n - 1)%Z.
Proof.
  unfold valid_threshold. rewrite !andb_true_iff, !Z.leb_le, Z.ltb_lt. lia.
Qed.

Theorem can_sign_iff t self sh sg :
  can_sign t self sh sg = true <->
  (0 <= t <= max_uint32)%Z /\ (t < Z.of_nat (length sg))%Z /\ ids_valid sg = true /\ In self sg /\
  (forall j, In j sg -> In j sh).
Proof.
  unfold can_sign. rewrite !andb_true_iff, valid_threshold_iff, ids_contains_iff, forallb_forall.
  split.
  - intros [[[[H0 H1] H2] H3] H4]. repeat split; try assumption; try lia.
    intros j Hj. apply ids_contains_iff. now apply H4.
  - intros ([H0 H0'] & H1 & H2 & H3 & H4). repeat split; try assumption; try lia.
    intros j Hj. apply ids_contains_iff. now apply H4.
Qed.

(* ---------- C09: the session tag input determines the parameters ---------- *)

Definition ids_small (l : list bytes) : Prop :=
  Forall (fun id => (len id < 256 ^ N.of_nat 8)%N) l /\ (N.of_nat (length l) < 256 ^ N.of_nat 8)%N.

Lemma enc_all_app a b : enc_all (a ++ b) =
  match enc_all a, enc_all b with Some x, Some y => Some (x ++ y) | _, _ => None end.
Proof.
  induction a as [|v a IH]; cbn [app enc_all].
  - destruct (enc_all b); reflexivity.
  - rewrite IH. destruct (enc_hval v), (enc_all a), (enc_all b); reflexivity.
Qed.

Lemma be32_mod_inj a b : be32 a = be32 b -> (a mod 2^32 = b mod 2^32)%N.
Proof.
  intro E. apply (f_equal be_val) in E. unfold be32 in E. rewrite !be_val_be_bytes in E. exact E.
Qed.

Lemma dom_sid_proto : str "Session ID" <> str "Protocol ID".  Proof. discriminate. Qed.
Lemma dom_group_idslice : str "Group Name" <> str "IDSlice".  Proof. discriminate. Qed.

Lemma enc_wd d b : enc_hval (HWithDomain d (Some b)) = Some (mkItem d b).  Proof. reflexivity. Qed.
Lemma enc_ids l : enc_hval (HIDSlice (Some l)) = Some (mkItem (str "IDSlice") (idslice_data l)).  Proof. reflexivity. Qed.
Lemma enc_thr t : enc_hval (HThreshold t) = Some (mkItem (str "Threshold") (be32 t)).  Proof. reflexivity. Qed.

(* the fixed part of the tag input (everything before the aux items), as items *)
Definition ssid_head (sid : option bytes) (pr : bytes) (g : option bytes) (ids : list bytes) (t : Z) : list item :=
  (match sid with Some s => [mkItem (str "Session ID") s] | None => [] end)
  ++ [mkItem (str "Protocol ID") pr]
  ++ (match g with Some x => [mkItem (str "Group Name") x] | None => [] end)
  ++ [mkItem (str "IDSlice") (idslice_data (sort_ids ids)); mkItem (str "Threshold") (be32 (Z.to_N t))].

Lemma ssid_vals_enc p a :
  enc_all (sp_aux p) = Some a ->
  enc_all (ssid_vals p) = Some (ssid_head (sp_sid p) (sp_proto p) (sp_group p) (sp_ids p) (sp_thr p) ++ a).
Proof.
  intro A. unfold ssid_vals, ssid_head. rewrite !enc_all_app, A.
  destruct (sp_sid p), (sp_group p); cbn [enc_all]; rewrite ?enc_wd, ?enc_ids, ?enc_thr; reflexivity.
Qed.

Lemma item_eq_inv d1 t1 d2 t2 : mkItem d1 t1 = mkItem d2 t2 -> d1 = d2 /\ t1 = t2.
Proof. intros [= -> ->]. now split. Qed.

Lemma ssid_head_inj sid1 pr1 g1 ids1 t1 a1 sid2 pr2 g2 ids2 t2 a2 :
  ids_small (sort_ids ids1) -> ids_small (sort_ids ids2) ->
  ssid_head sid1 pr1 g1 ids1 t1 ++ a1 = ssid_head sid2 pr2 g2 ids2 t2 ++ a2 ->
  sid1 = sid2 /\ pr1 = pr2 /\ g1 = g2 /\ sort_ids ids1 = sort_ids ids2 /\
  (Z.to_N t1 mod 2^32 = Z.to_N t2 mod 2^32)%N /\ a1 = a2.
Proof.
  intros [S1 S1'] [S2 S2'] E. unfold ssid_head in E.
  pose proof dom_sid_proto as D1. pose proof dom_group_idslice as D2.
  destruct sid1 as [s1|], sid2 as [s2|], g1 as [gr1|], g2 as [gr2|]; cbn [app] in E.
  all: repeat match goal with
           | H : _ :: _ = _ :: _ |- _ => apply cons_eq_inv in H as [? H]
           end.
  all: repeat match goal with
           | H : mkItem _ _ = mkItem _ _ |- _ => apply item_eq_inv in H as [? ?]
           end.
  all: try (exfalso; (apply D1 + apply D2); (assumption + (symmetry; assumption))).
  all: subst.
  all: repeat match goal with
           | H : idslice_data _ = idslice_data _ |- _ => apply idslice_data_inj in H; try assumption
           | H : be32 _ = be32 _ |- _ => apply be32_mod_inj in H
           end.
  all: repeat split; try reflexivity; try assumption; try congruence.
Qed.

(* the ordered list of items written for the session tag is an injective function of
   (session id incl. nil-vs-empty, protocol id, group incl. absent, sorted party list, threshold mod 2^32, aux items) *)
Theorem ssid_items_inj p1 p2 l1 l2 a1 a2 :
  enc_all (ssid_vals p1) = Some l1 -> enc_all (ssid_vals p2) = Some l2 ->
  enc_all (sp_aux p1) = Some a1 -> enc_all (sp_aux p2) = Some a2 ->
  ids_small (sort_ids (sp_ids p1)) -> ids_small (sort_ids (sp_ids p2)) ->
  l1 = l2 ->
  sp_sid p1 = sp_sid p2 /\ sp_proto p1 = sp_proto p2 /\ sp_group p1 = sp_group p2 /\
  sort_ids (sp_ids p1) = sort_ids (sp_ids p2) /\
  (Z.to_N (sp_thr p1) mod 2^32 = Z.to_N (sp_thr p2) mod 2^32)%N /\ a1 = a2.
Proof.
  intros E1 E2 A1 A2 S1 S2 EQ. subst l2.
  rewrite (ssid_vals_enc _ _ A1) in E1. rewrite (ssid_vals_enc _ _ A2) in E2.
  injection E1 as <-. injection E2 as E2. symmetry in E2.
  eapply ssid_head_inj; eassumption.
Qed.

(* with framing injectivity: equal session-hash streams => equal parameters *)
Theorem ssid_stream_inj p1 p2 l1 l2 a1 a2 :
  enc_all (ssid_vals p1) = Some l1 -> enc_all (ssid_vals p2) = Some l2 ->
  enc_all (sp_aux p1) = Some a1 -> enc_all (sp_aux p2) = Some a2 ->
  forallb wf_item l1 = true -> forallb wf_item l2 = true ->
  ids_small (sort_ids (sp_ids p1)) -> ids_small (sort_ids (sp_ids p2)) ->
  stream init_state l1 = stream init_state l2 ->
  sp_sid p1 = sp_sid p2 /\ sp_proto p1 = sp_proto p2 /\ sp_group p1 = sp_group p2 /\
  sort_ids (sp_ids p1) = sort_ids (sp_ids p2) /\
  (Z.to_N (sp_thr p1) mod 2^32 = Z.to_N (sp_thr p2) mod 2^32)%N /\ a1 = a2.
Proof.
  intros E1 E2 A1 A2 W1 W2 S1 S2 ES. apply stream_inj in ES; try assumption.
  eapply ssid_items_inj; eassumption.
Qed.

(* per-party Fiat-Shamir contexts: HashForID separates parties (for non-empty ids) *)
Theorem hash_for_id_inj st a b :
  a <> [] -> b <> [] -> wf_bytes a = true -> wf_bytes b = true ->
  (len a < 2^64)%N -> (len b < 2^64)%N ->
  hash_for_id st a = hash_for_id st b -> a = b.
Proof.
  intros Na Nb Wa Wb La Lb E. unfold hash_for_id in E.
  destruct a as [|x a]; [contradiction|]. destruct b as [|y b]; [contradiction|].
  apply app_inv_head in E.
  rewrite <- (app_nil_r (frame _)) in E. rewrite <- (app_nil_r (frame (mkItem _ (y :: b)))) in E.
  apply frame_prefix_free in E as [E _].
  - apply item_eq_inv in E as [_ E]. exact E.
  - unfold wf_item. cbn [dom dat]. rewrite Wa. apply N.ltb_lt in La. rewrite La. reflexivity.
  - unfold wf_item. cbn [dom dat]. rewrite Wb. apply N.ltb_lt in Lb. rewrite Lb. reflexivity.
Qed.

Theorem hash_for_id_ext st a : a <> [] -> hash_for_id st a <> st.
Proof.
  intros Na E. unfold hash_for_id in E. destruct a; [contradiction|].
  rewrite <- (app_nil_r st) in E at 2. apply app_inv_head in E.
  now apply frame_nonempty in E.
Qed.
