From Coq Require Import List Bool String.
Import ListNotations.

Section NoDupB.
  Context {A : Type} (eqb : A -> A -> bool) (eqb_eq : forall a b, eqb a b = true <-> a = b).

  Fixpoint nodupb (l : list A) : bool :=
    match l with
    | [] => true
    | a :: l' => negb (existsb (eqb a) l') && nodupb l'
    end.

  Lemma nodupb_sound l : nodupb l = true -> NoDup l.
  Proof.
    induction l as [|a l IH]; cbn [nodupb]; intro H; [constructor|].
    apply andb_true_iff in H as [H1 H2]. constructor; [|now apply IH].
    intro Hin. apply negb_true_iff in H1.
    assert (existsb (eqb a) l = true) as E by (apply existsb_exists; exists a; split; [assumption | now apply eqb_eq]).
    congruence.
  Qed.
End NoDupB.

Definition nodupb_str := nodupb String.eqb.
Lemma nodupb_str_sound l : nodupb_str l = true -> NoDup l.
Proof. apply nodupb_sound. intros a b. apply String.eqb_eq. Qed.

Definition inb_str (s : string) (l : list string) : bool := existsb (String.eqb s) l.
Lemma inb_str_sound s l : inb_str s l = true -> In s l.
Proof. unfold inb_str. rewrite existsb_exists. intros [x [Hx E]]. apply String.eqb_eq in E. now subst. Qed.
