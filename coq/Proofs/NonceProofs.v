(* NonceProofs.v -- the nonce-derivation inputs (Model/Nonce.v) are injective functions of
   (share, session digest, message, randomness) resp. (masked key, public key, message); hence for ANY hash
   "equal nonce digests => equal tuples, or an exhibited collision". *)
From Coq Require Import String.
From Coq Require Import List NArith ZArith Bool Lia.
From MPS Require Import Model.Bytes Model.Framing Model.Nonce Proofs.BytesProofs Proofs.FramingProofs.
Import ListNotations.
Open Scope N_scope.

(* ------------------------------------------------------------------ *)
(* list lemmas                                                         *)

Lemma app_eq_length_tail {A} (a b x y : list A) :
  length x = length y -> a ++ x = b ++ y -> a = b /\ x = y.
Proof.
  intros L E. assert (La : length a = length b).
  { apply (f_equal (@length A)) in E. rewrite !app_length in E. lia. }
  now apply app_eq_length.
Qed.

(* a ++ b ++ c is uniquely parsable when the first and the last component have fixed length *)
Lemma app3_fixed_inj {A} (a b c a' b' c' : list A) :
  length a = length a' -> length c = length c' ->
  a ++ b ++ c = a' ++ b' ++ c' -> a = a' /\ b = b' /\ c = c'.
Proof.
  intros La Lc E. apply app_eq_length in E as [-> E]; [|assumption].
  apply app_eq_length_tail in E as [-> ->]; [|assumption]. repeat split.
Qed.

(* a ++ b ++ c with the first TWO components of fixed length *)
Lemma app3_prefix_inj {A} (a b c a' b' c' : list A) :
  length a = length a' -> length b = length b' ->
  a ++ b ++ c = a' ++ b' ++ c' -> a = a' /\ b = b' /\ c = c'.
Proof.
  intros La Lb E. apply app_eq_length in E as [-> E]; [|assumption].
  apply app_eq_length in E as [-> ->]; [|assumption]. repeat split.
Qed.

Lemma Some_inj {A} (a b : A) : Some a = Some b -> a = b.
Proof. now intros [= ->]. Qed.

Lemma bytes_eq_dec (a b : bytes) : {a = b} + {a <> b}.
Proof. apply list_eq_dec, N.eq_dec. Qed.

(* ------------------------------------------------------------------ *)
(* scalars                                                             *)

Lemma scalar_bytes_length s : length (scalar_bytes s) = 32%nat.
Proof. apply be_bytes_length. Qed.

Lemma pow256_32 : 256 ^ N.of_nat 32 = 2 ^ 256.
Proof. reflexivity. Qed.

Lemma scalar_bytes_inj s s' : s < 2^256 -> s' < 2^256 -> scalar_bytes s = scalar_bytes s' -> s = s'.
Proof. intros B B' E. apply (be_bytes_inj 32); rewrite ?pow256_32; assumption. Qed.

Lemma secp_n_lt : secp_n < 2^256.
Proof. reflexivity. Qed.

(* ------------------------------------------------------------------ *)
(* FROST                                                               *)

Lemma frost_lens_ok_iff digest rnd :
  frost_lens_ok digest rnd = true <-> length digest = 64%nat /\ length rnd = 32%nat.
Proof.
  unfold frost_lens_ok, frost_digest_len, frost_rand_len.
  rewrite andb_true_iff, !Nat.eqb_eq. tauto.
Qed.

(* the stream fed to the keyed hash determines (digest, message, randomness) *)
Theorem frost_stream_inj dg msg rnd dg' msg' rnd' :
  frost_lens_ok dg rnd = true -> frost_lens_ok dg' rnd' = true ->
  frost_stream dg msg rnd = frost_stream dg' msg' rnd' ->
  dg = dg' /\ msg = msg' /\ rnd = rnd'.
Proof.
  intros L L' E. apply frost_lens_ok_iff in L as [L1 L2]. apply frost_lens_ok_iff in L' as [L1' L2'].
  unfold frost_stream in E. apply app3_fixed_inj in E; [assumption|congruence|congruence].
Qed.

(* the pair (key material, stream) determines (share, digest, message, randomness) *)
Theorem frost_nonce_input_inj s dg msg rnd s' dg' msg' rnd' :
  s < 2^256 -> s' < 2^256 ->
  frost_lens_ok dg rnd = true -> frost_lens_ok dg' rnd' = true ->
  frost_nonce_input s dg msg rnd = frost_nonce_input s' dg' msg' rnd' ->
  s = s' /\ dg = dg' /\ msg = msg' /\ rnd = rnd'.
Proof.
  intros B B' L L' E. unfold frost_nonce_input in E. apply pair_equal_spec in E as [Es Est].
  apply scalar_bytes_inj in Es; [|assumption|assumption].
  apply frost_stream_inj in Est; [|assumption|assumption]. tauto.
Qed.

(* contrapositive: contexts that differ in ANY component give different hash inputs -- in particular when the
   randomness is the same in both (rnd = rnd': a constant or repeating reader, or a reader that fails and leaves zeros) *)
Corollary frost_nonce_input_neq s dg msg rnd s' dg' msg' rnd' :
  s < 2^256 -> s' < 2^256 ->
  frost_lens_ok dg rnd = true -> frost_lens_ok dg' rnd' = true ->
  (s, dg, msg, rnd) <> (s', dg', msg', rnd') ->
  frost_nonce_input s dg msg rnd <> frost_nonce_input s' dg' msg' rnd'.
Proof.
  intros B B' L L' NE E. apply NE.
  apply frost_nonce_input_inj in E as (-> & -> & -> & ->); trivial.
Qed.

Lemma frost_checked_some s dg msg rnd p :
  frost_nonce_input_checked s dg msg rnd = Some p ->
  s < 2^256 /\ frost_lens_ok dg rnd = true /\ p = frost_nonce_input s dg msg rnd.
Proof.
  unfold frost_nonce_input_checked. destruct (frost_lens_ok dg rnd) eqn:L; cbn [andb]; [|discriminate].
  destruct (s <? 2^256) eqn:B; [|discriminate]. intros [= <-]. apply N.ltb_lt in B. auto.
Qed.

Theorem frost_checked_inj s dg msg rnd s' dg' msg' rnd' p :
  frost_nonce_input_checked s dg msg rnd = Some p ->
  frost_nonce_input_checked s' dg' msg' rnd' = Some p ->
  s = s' /\ dg = dg' /\ msg = msg' /\ rnd = rnd'.
Proof.
  intros E E'. apply frost_checked_some in E as (B & L & ->). apply frost_checked_some in E' as (B' & L' & E').
  now apply frost_nonce_input_inj.
Qed.

Section FrostAnyHash.
  Context {T : Type}.
  Variable KDF : bytes -> bytes -> bytes.   (* blake3.DeriveKey(context, material) *)
  Variable KH : bytes -> bytes -> T.        (* blake3 keyed hash / XOF: key, stream *)

  Definition kdf_collision (x y : bytes) : Prop :=
    x <> y /\ KDF frost_kdf_context x = KDF frost_kdf_context y.
  Definition kh_collision (k st k' st' : bytes) : Prop :=
    (k, st) <> (k', st') /\ KH k st = KH k' st'.

  (* equal nonce digests => equal (share, digest, message, randomness), or an exhibited collision of the KDF
     (two different shares, same hash key) or of the keyed hash (two different (key, stream) pairs, same output) *)
  Theorem frost_nonce_binding s dg msg rnd s' dg' msg' rnd' :
    s < 2^256 -> s' < 2^256 ->
    frost_lens_ok dg rnd = true -> frost_lens_ok dg' rnd' = true ->
    frost_nonce KDF KH s dg msg rnd = frost_nonce KDF KH s' dg' msg' rnd' ->
    (s = s' /\ dg = dg' /\ msg = msg' /\ rnd = rnd')
    \/ kdf_collision (scalar_bytes s) (scalar_bytes s')
    \/ kh_collision (KDF frost_kdf_context (scalar_bytes s)) (frost_stream dg msg rnd)
                    (KDF frost_kdf_context (scalar_bytes s')) (frost_stream dg' msg' rnd').
  Proof.
    intros B B' L L' E. unfold frost_nonce in E.
    destruct (bytes_eq_dec (scalar_bytes s) (scalar_bytes s')) as [Es|Ns].
    - destruct (bytes_eq_dec (frost_stream dg msg rnd) (frost_stream dg' msg' rnd')) as [Est|Nst].
      + left. apply scalar_bytes_inj in Es; [|assumption|assumption].
        apply frost_stream_inj in Est; [|assumption|assumption]. tauto.
      + right. right. split; [|exact E]. intro Ep. apply pair_equal_spec in Ep as [_ Est]. now apply Nst.
    - destruct (bytes_eq_dec (KDF frost_kdf_context (scalar_bytes s)) (KDF frost_kdf_context (scalar_bytes s')))
        as [Ek|Nk].
      + right. left. now split.
      + right. right. split; [|exact E]. intro Ep. apply pair_equal_spec in Ep as [Ek _]. now apply Nk.
  Qed.

  (* RNG failure: the same 32 "random" bytes in both attempts.  Equal nonces then force equal share, context and
     message -- or a collision. *)
  Corollary frost_nonce_binding_same_rand s dg msg s' dg' msg' rnd :
    s < 2^256 -> s' < 2^256 ->
    frost_lens_ok dg rnd = true -> frost_lens_ok dg' rnd = true ->
    frost_nonce KDF KH s dg msg rnd = frost_nonce KDF KH s' dg' msg' rnd ->
    (s = s' /\ dg = dg' /\ msg = msg')
    \/ kdf_collision (scalar_bytes s) (scalar_bytes s')
    \/ kh_collision (KDF frost_kdf_context (scalar_bytes s)) (frost_stream dg msg rnd)
                    (KDF frost_kdf_context (scalar_bytes s')) (frost_stream dg' msg' rnd).
  Proof.
    intros B B' L L' E. destruct (frost_nonce_binding _ _ _ _ _ _ _ _ B B' L L' E) as [(?&?&?&?)|[?|?]]; auto.
  Qed.

  (* working RNG: different randomness in otherwise identical attempts gives different nonces, or a collision *)
  Corollary frost_nonce_fresh s dg msg rnd rnd' :
    s < 2^256 -> frost_lens_ok dg rnd = true -> frost_lens_ok dg rnd' = true -> rnd <> rnd' ->
    frost_nonce KDF KH s dg msg rnd = frost_nonce KDF KH s dg msg rnd' ->
    kh_collision (KDF frost_kdf_context (scalar_bytes s)) (frost_stream dg msg rnd)
                 (KDF frost_kdf_context (scalar_bytes s)) (frost_stream dg msg rnd').
  Proof.
    intros B L L' NE E. destruct (frost_nonce_binding _ _ _ _ _ _ _ _ B B L L' E) as [(_&_&_&?)|[[N _]|?]];
      [contradiction|now elim N|assumption].
  Qed.

  (* with the session hash: digest = Hs(stream of the session items) (round.NewSession, C09/C19).
     Equal nonces => equal share, equal SESSION ITEM LIST, message, randomness -- or a collision of one of the
     three hashes.  (Properties/C09.v: the item list determines session id, protocol id -- i.e. the taproot flag --,
     group, sorted signer set and threshold.) *)
  Variable Hs : bytes -> bytes.
  Hypothesis Hs_len : forall x, length (Hs x) = 64%nat.

  Theorem frost_nonce_session_binding s l msg rnd s' l' msg' rnd' :
    s < 2^256 -> s' < 2^256 ->
    length rnd = 32%nat -> length rnd' = 32%nat ->
    forallb wf_item l = true -> forallb wf_item l' = true ->
    frost_nonce KDF KH s (Hs (stream init_state l)) msg rnd
      = frost_nonce KDF KH s' (Hs (stream init_state l')) msg' rnd' ->
    (s = s' /\ l = l' /\ msg = msg' /\ rnd = rnd')
    \/ collision Hs (stream init_state l) (stream init_state l')
    \/ kdf_collision (scalar_bytes s) (scalar_bytes s')
    \/ kh_collision (KDF frost_kdf_context (scalar_bytes s)) (frost_stream (Hs (stream init_state l)) msg rnd)
                    (KDF frost_kdf_context (scalar_bytes s')) (frost_stream (Hs (stream init_state l')) msg' rnd').
  Proof.
    intros B B' R R' W W' E.
    assert (L : frost_lens_ok (Hs (stream init_state l)) rnd = true) by (apply frost_lens_ok_iff; auto).
    assert (L' : frost_lens_ok (Hs (stream init_state l')) rnd' = true) by (apply frost_lens_ok_iff; auto).
    destruct (frost_nonce_binding _ _ _ _ _ _ _ _ B B' L L' E) as [(Es & Ed & Em & Er)|[C|C]]; auto.
    destruct (digest_binding Hs init_state l l' W W' Ed) as [El|C]; auto.
  Qed.
End FrostAnyHash.

(* ------------------------------------------------------------------ *)
(* BIP-340                                                             *)

Lemma xor_bytes_length a : forall b, length (xor_bytes a b) = Nat.min (length a) (length b).
Proof. induction a as [|x a IH]; intros [|y b]; cbn [xor_bytes length Nat.min]; auto. Qed.

Lemma xor_bytes_cancel_r a : forall a' h,
  length a = length h -> length a' = length h -> xor_bytes a h = xor_bytes a' h -> a = a'.
Proof.
  induction a as [|x a IH]; intros [|x' a'] [|y h] L L' E; cbn in *; try discriminate; auto.
  injection E as Ex E. injection L as L. injection L' as L'.
  f_equal; [|eapply IH; eassumption].
  apply (f_equal (fun v => N.lxor v y)) in Ex.
  now rewrite !N.lxor_assoc, N.lxor_nilpotent, !N.lxor_0_r in Ex.
Qed.

Lemma xor_bytes_cancel_l d : forall h h',
  length h = length d -> length h' = length d -> xor_bytes d h = xor_bytes d h' -> h = h'.
Proof.
  induction d as [|x d IH]; intros [|y h] [|y' h'] L L' E; cbn in *; try discriminate; auto.
  injection E as Ex E. injection L as L. injection L' as L'.
  f_equal; [|eapply IH; eassumption].
  apply (f_equal (fun v => N.lxor x v)) in Ex.
  now rewrite <- !N.lxor_assoc, N.lxor_nilpotent, !N.lxor_0_l in Ex.
Qed.

Lemma bip340_t_length d ah : length ah = 32%nat -> length (bip340_t d ah) = 32%nat.
Proof. intro L. unfold bip340_t. now rewrite xor_bytes_length, scalar_bytes_length, L. Qed.

Lemma bip340_lens_ok_iff ah pk : bip340_lens_ok ah pk = true <-> length ah = 32%nat /\ length pk = 32%nat.
Proof. unfold bip340_lens_ok. rewrite andb_true_iff, !Nat.eqb_eq. tauto. Qed.

(* t || P || m is uniquely parsable: t and P have fixed length 32 *)
Theorem bip340_nonce_data_inj t pk msg t' pk' msg' :
  length t = 32%nat -> length t' = 32%nat -> length pk = 32%nat -> length pk' = 32%nat ->
  bip340_nonce_data t pk msg = bip340_nonce_data t' pk' msg' -> t = t' /\ pk = pk' /\ msg = msg'.
Proof. intros. unfold bip340_nonce_data in *. apply app3_prefix_inj; congruence. Qed.

(* the masked key determines the key when the aux digest is the same, and the aux digest when the key is the same *)
Lemma bip340_t_inj_key d d' ah :
  d < 2^256 -> d' < 2^256 -> length ah = 32%nat -> bip340_t d ah = bip340_t d' ah -> d = d'.
Proof.
  intros B B' L E. unfold bip340_t in E. apply xor_bytes_cancel_r in E; rewrite ?scalar_bytes_length; auto.
  now apply scalar_bytes_inj.
Qed.
Lemma bip340_t_inj_aux d ah ah' :
  length ah = 32%nat -> length ah' = 32%nat -> bip340_t d ah = bip340_t d ah' -> ah = ah'.
Proof. intros L L' E. unfold bip340_t in E. apply xor_bytes_cancel_l in E; rewrite ?scalar_bytes_length; auto. Qed.

(* the hashed data determines (masked key, public key, message) *)
Theorem bip340_nonce_input_inj d ah pk msg d' ah' pk' msg' :
  bip340_lens_ok ah pk = true -> bip340_lens_ok ah' pk' = true ->
  snd (bip340_nonce_input d ah pk msg) = snd (bip340_nonce_input d' ah' pk' msg') ->
  bip340_t d ah = bip340_t d' ah' /\ pk = pk' /\ msg = msg'.
Proof.
  intros L L' E. apply bip340_lens_ok_iff in L as [La Lp]. apply bip340_lens_ok_iff in L' as [La' Lp'].
  cbn [bip340_nonce_input snd] in E. apply bip340_nonce_data_inj in E; auto using bip340_t_length.
Qed.

(* ... and with equal aux digests (RNG failure) the key itself; with equal keys the aux digest *)
Corollary bip340_nonce_input_inj_same_aux d ah pk msg d' pk' msg' :
  d < 2^256 -> d' < 2^256 ->
  bip340_lens_ok ah pk = true -> bip340_lens_ok ah pk' = true ->
  snd (bip340_nonce_input d ah pk msg) = snd (bip340_nonce_input d' ah pk' msg') ->
  d = d' /\ pk = pk' /\ msg = msg'.
Proof.
  intros B B' L L' E. pose proof L as L0. apply bip340_lens_ok_iff in L0 as [La _].
  apply bip340_nonce_input_inj in E as (Et & Ep & Em); auto. split; auto. eapply bip340_t_inj_key; eauto.
Qed.
Corollary bip340_nonce_input_inj_same_key d ah pk msg ah' pk' msg' :
  bip340_lens_ok ah pk = true -> bip340_lens_ok ah' pk' = true ->
  snd (bip340_nonce_input d ah pk msg) = snd (bip340_nonce_input d ah' pk' msg') ->
  ah = ah' /\ pk = pk' /\ msg = msg'.
Proof.
  intros L L' E. pose proof L as L0. apply bip340_lens_ok_iff in L0 as [La _].
  pose proof L' as L0'. apply bip340_lens_ok_iff in L0' as [La' _].
  apply bip340_nonce_input_inj in E as (Et & Ep & Em); auto. split; auto. eapply bip340_t_inj_aux; eauto.
Qed.

Lemma bip340_norm_d_lt d ev : 0 < d -> d < secp_n -> 0 < bip340_norm_d d ev /\ bip340_norm_d d ev < secp_n.
Proof. intros P B. unfold bip340_norm_d. destruct ev; lia. Qed.

Lemma bip340_norm_d_inj d d' ev : d < secp_n -> d' < secp_n ->
  bip340_norm_d d ev = bip340_norm_d d' ev -> d = d'.
Proof. unfold bip340_norm_d. destruct ev; lia. Qed.

Section Bip340AnyHash.
  Variable H : bytes -> bytes.                       (* in the place of SHA-256 *)
  Hypothesis H_len : forall x, length (H x) = 32%nat.

  Lemma tagged_length tag data : length (tagged H tag data) = 32%nat.
  Proof. apply H_len. Qed.

  Lemma tagged_input_inj tag x y : tagged_input H tag x = tagged_input H tag y -> x = y.
  Proof. unfold tagged_input. intro E. now do 2 apply app_inv_head in E. Qed.

  (* the complete SHA-256 preimage determines (masked key, public key, message) *)
  Theorem bip340_preimage_inj d pk msg a d' pk' msg' a' :
    length pk = 32%nat -> length pk' = 32%nat ->
    bip340_nonce_preimage H d pk msg a = bip340_nonce_preimage H d' pk' msg' a' ->
    bip340_t d (tagged H tag_aux a) = bip340_t d' (tagged H tag_aux a') /\ pk = pk' /\ msg = msg'.
  Proof.
    intros Lp Lp' E. unfold bip340_nonce_preimage in E. apply tagged_input_inj in E.
    apply bip340_nonce_data_inj in E; auto using bip340_t_length, tagged_length.
  Qed.

  (* equal "rand" (hence equal k = rand mod n) => equal (masked key, public key, message), or a collision *)
  Theorem bip340_rand_binding d pk msg a d' pk' msg' a' :
    length pk = 32%nat -> length pk' = 32%nat ->
    bip340_rand H d pk msg a = bip340_rand H d' pk' msg' a' ->
    (bip340_t d (tagged H tag_aux a) = bip340_t d' (tagged H tag_aux a') /\ pk = pk' /\ msg = msg')
    \/ collision H (bip340_nonce_preimage H d pk msg a) (bip340_nonce_preimage H d' pk' msg' a').
  Proof.
    intros Lp Lp' E. unfold bip340_rand in E.
    destruct (bytes_eq_dec (bip340_nonce_preimage H d pk msg a) (bip340_nonce_preimage H d' pk' msg' a')) as [Ei|Ni].
    - left. now apply bip340_preimage_inj.
    - right. now split.
  Qed.

  (* RNG failure (same aux bytes a in both calls): equal nonces force equal key, public key and message *)
  Theorem bip340_binding_same_aux d pk msg d' pk' msg' a :
    d < 2^256 -> d' < 2^256 -> length pk = 32%nat -> length pk' = 32%nat ->
    bip340_rand H d pk msg a = bip340_rand H d' pk' msg' a ->
    (d = d' /\ pk = pk' /\ msg = msg')
    \/ collision H (bip340_nonce_preimage H d pk msg a) (bip340_nonce_preimage H d' pk' msg' a).
  Proof.
    intros B B' Lp Lp' E. destruct (bip340_rand_binding _ _ _ _ _ _ _ _ Lp Lp' E) as [(Et & Ep & Em)|C]; auto.
    left. split; auto. apply (bip340_t_inj_key d d' (tagged H tag_aux a)); auto using tagged_length.
  Qed.

  (* same key: equal nonces force equal aux bytes, public key and message -- or a collision in one of the two
     tagged hashes *)
  Theorem bip340_binding_same_key d pk msg a pk' msg' a' :
    length pk = 32%nat -> length pk' = 32%nat ->
    bip340_rand H d pk msg a = bip340_rand H d pk' msg' a' ->
    (a = a' /\ pk = pk' /\ msg = msg')
    \/ collision H (tagged_input H tag_aux a) (tagged_input H tag_aux a')
    \/ collision H (bip340_nonce_preimage H d pk msg a) (bip340_nonce_preimage H d pk' msg' a').
  Proof.
    intros Lp Lp' E. destruct (bip340_rand_binding _ _ _ _ _ _ _ _ Lp Lp' E) as [(Et & Ep & Em)|C]; auto.
    apply bip340_t_inj_aux in Et; auto using tagged_length.
    destruct (bytes_eq_dec a a') as [Ea|Na]; auto.
    right. left. split; [|exact Et]. intro Ei. apply tagged_input_inj in Ei. contradiction.
  Qed.

  (* general case, with the public key a function of the (normalised) secret key that is injective on keys --
     x-only public keys of even-y-normalised secret keys; the elliptic-curve fact is a premise here *)
  Theorem bip340_binding_full (pubx : N -> bytes) d msg a d' msg' a' :
    (forall x y, pubx x = pubx y -> x = y) ->
    length (pubx d) = 32%nat -> length (pubx d') = 32%nat ->
    bip340_rand H d (pubx d) msg a = bip340_rand H d' (pubx d') msg' a' ->
    (d = d' /\ msg = msg' /\ a = a')
    \/ collision H (tagged_input H tag_aux a) (tagged_input H tag_aux a')
    \/ collision H (bip340_nonce_preimage H d (pubx d) msg a) (bip340_nonce_preimage H d' (pubx d') msg' a').
  Proof.
    intros Inj Lp Lp' E. destruct (bip340_rand_binding _ _ _ _ _ _ _ _ Lp Lp' E) as [(Et & Ep & Em)|C]; auto.
    apply Inj in Ep. subst d'. apply bip340_t_inj_aux in Et; auto using tagged_length.
    destruct (bytes_eq_dec a a') as [Ea|Na]; auto.
    right. left. split; [|exact Et]. intro Ei. apply tagged_input_inj in Ei. contradiction.
  Qed.

  (* working RNG, identical key and message: different aux bytes give different nonces, or a collision *)
  Corollary bip340_fresh d pk msg a a' :
    length pk = 32%nat -> a <> a' ->
    bip340_rand H d pk msg a = bip340_rand H d pk msg a' ->
    collision H (tagged_input H tag_aux a) (tagged_input H tag_aux a')
    \/ collision H (bip340_nonce_preimage H d pk msg a) (bip340_nonce_preimage H d pk msg a').
  Proof.
    intros Lp NE E. destruct (bip340_binding_same_key _ _ _ _ _ _ _ Lp Lp E) as [(Ea&_)|C]; [contradiction|exact C].
  Qed.
End Bip340AnyHash.

(* ------------------------------------------------------------------ *)
(* rand == nil: the atomic counter                                     *)

Lemma pow2_64 : 2^64 = 18446744073709551616.  Proof. reflexivity. Qed.
Lemma pow256_8 : 256 ^ N.of_nat 8 = 2^64.  Proof. reflexivity. Qed.

Lemma counter_aux_length c : length (bip340_counter_aux c) = 32%nat.
Proof. unfold bip340_counter_aux. rewrite app_length, repeat_length. unfold be64. now rewrite be_bytes_length. Qed.

Lemma counter_aux_inj c c' : c < 2^64 -> c' < 2^64 -> bip340_counter_aux c = bip340_counter_aux c' -> c = c'.
Proof.
  intros B B' E. unfold bip340_counter_aux in E. apply app_inv_tail in E.
  apply (be_bytes_inj 8); rewrite ?pow256_8; assumption.
Qed.

Lemma ctr_next_lt c : ctr_next c < 2^64.
Proof. unfold ctr_next. apply N.mod_lt. discriminate. Qed.

Lemma mod_eq_close a b : a <= b -> b < a + 2^64 -> a mod 2^64 = b mod 2^64 -> a = b.
Proof.
  intros L U E. rewrite pow2_64 in *.
  pose proof (N.div_mod a 18446744073709551616 ltac:(discriminate)) as Da.
  pose proof (N.div_mod b 18446744073709551616 ltac:(discriminate)) as Db.
  pose proof (N.mod_lt a 18446744073709551616 ltac:(discriminate)) as Ma.
  rewrite E in Da. lia.
Qed.

(* the i-th and the j-th nil-reader call of a process use different aux values unless i = j modulo 2^64 *)
Theorem bip340_nth_counter_fresh i j :
  i mod 2^64 <> j mod 2^64 -> bip340_nth_counter_aux i <> bip340_nth_counter_aux j.
Proof.
  intros NE E. apply NE. unfold bip340_nth_counter_aux in E.
  apply counter_aux_inj in E; auto; apply N.mod_lt; discriminate.
Qed.

Corollary bip340_nth_counter_fresh_window i j :
  i < j -> j < i + 2^64 -> bip340_nth_counter_aux i <> bip340_nth_counter_aux j.
Proof.
  intros L U. apply bip340_nth_counter_fresh. intro E. apply mod_eq_close in E; lia.
Qed.

(* the state machine: k successive calls from counter value c use the values of calls c+1 ... c+k *)
Lemma nil_calls_nth k : forall c i, (i < k)%nat ->
  nth_error (bip340_nil_calls k c) i = Some (bip340_counter_aux ((c + N.of_nat (S i)) mod 2^64)).
Proof.
  induction k as [|k IH]; intros c i Hi; [lia|].
  cbn [bip340_nil_calls bip340_aux]. destruct i as [|i]; cbn [nth_error].
  - unfold ctr_next. now rewrite N.add_1_r, <- N.add_1_r.
  - rewrite IH by lia. f_equal. f_equal. unfold ctr_next.
    rewrite N.add_mod_idemp_l by discriminate. f_equal. lia.
Qed.

Lemma nil_calls_length k : forall c, length (bip340_nil_calls k c) = k.
Proof. induction k as [|k IH]; intro c; cbn [bip340_nil_calls bip340_aux length]; auto. Qed.

(* up to 2^64 successive nil-reader calls: all aux values pairwise different (whatever the starting value) *)
Theorem bip340_counter_fresh k c : N.of_nat k <= 2^64 -> NoDup (bip340_nil_calls k c).
Proof.
  intro K. apply NoDup_nth_error. intros i j Hi E. rewrite nil_calls_length in Hi.
  destruct (Nat.lt_ge_cases j k) as [Hj|Hj].
  - rewrite !nil_calls_nth in E by assumption. apply Some_inj in E.
    apply counter_aux_inj in E; try (apply N.mod_lt; discriminate).
    destruct (Nat.le_ge_cases i j) as [Lij|Lij].
    + apply mod_eq_close in E; lia.
    + symmetry in E. apply mod_eq_close in E; lia.
  - rewrite nil_calls_nth in E by assumption.
    assert (N : nth_error (bip340_nil_calls k c) j = None) by (apply nth_error_None; now rewrite nil_calls_length).
    rewrite N in E. discriminate.
Qed.

(* the counter value is all that distinguishes two nil-reader calls with the same key and message: after the counter
   wraps (2^64 calls) or in a NEW PROCESS (counter restarts at 0) the same (key, message) gives the same nonce --
   and the same signature, which is harmless; a different message always gives a different preimage (above). *)
Lemma bip340_counter_wraps i : bip340_nth_counter_aux (i + 2^64) = bip340_nth_counter_aux i.
Proof.
  unfold bip340_nth_counter_aux. f_equal.
  rewrite <- (N.mul_1_l (2^64)) at 1. now rewrite N.mod_add by discriminate.
Qed.
