(* FieldPoly.v -- polynomials over an abstract field F and an abstract F-module G:
   Horner evaluation (Polynomial.Evaluate / Exponent.Evaluate), root counting, the Lagrange
   coefficients exactly as lagrange.go computes them, interpolation at 0 in the field and
   "in the exponent" (with and without the IsConstant representation of exponent.go). *)
From Coq Require Import List Arith Lia Field Ring Permutation.
Import ListNotations.

(* laws of an F-module (G, gadd, gzero, gopp) with scalar action smul; the parameters are the
   field's one, addition, multiplication *)
Record module_laws {F G : Type} (f1 : F) (fadd fmul : F -> F -> F)
       (gadd : G -> G -> G) (gzero : G) (gopp : G -> G) (smul : F -> G -> G) : Prop := mk_module {
  gadd_comm : forall a b, gadd a b = gadd b a;
  gadd_assoc : forall a b c, gadd a (gadd b c) = gadd (gadd a b) c;
  gadd_0_l : forall a, gadd gzero a = a;
  gadd_opp_r : forall a, gadd a (gopp a) = gzero;
  smul_1 : forall P, smul f1 P = P;
  smul_mul : forall a b P, smul (fmul a b) P = smul a (smul b P);
  smul_add_l : forall a b P, smul (fadd a b) P = gadd (smul a P) (smul b P);
  smul_add_r : forall a P Q, smul a (gadd P Q) = gadd (smul a P) (smul a Q) }.

Declare Scope F_scope.
Delimit Scope F_scope with F.

(* generic list facts about [remove] *)
Section RemoveFacts.
  Context {A : Type} (dec : forall a b : A, {a = b} + {a <> b}).
  Lemma NoDup_remove_elt (r : A) l : NoDup l -> NoDup (remove dec r l).
  Proof.
    induction 1 as [|a l Hn Hd IH]; cbn; [constructor|].
    destruct (dec r a); [exact IH|]. constructor; [|exact IH].
    intro Hin. apply in_remove in Hin. tauto.
  Qed.
  Lemma remove_length_NoDup (r : A) l :
    NoDup l -> In r l -> length (remove dec r l) = pred (length l).
  Proof.
    induction 1 as [|a l Hn Hd IH]; cbn; [tauto|].
    intros [->|Hin].
    - destruct (dec r r) as [_|]; [|congruence]. now rewrite notin_remove.
    - destruct (dec r a) as [->|]; [tauto|]. cbn. rewrite IH by assumption.
      destruct l; [destruct Hin|reflexivity].
  Qed.
  Lemma remove_head_NoDup (r : A) l : NoDup (r :: l) -> remove dec r (r :: l) = l.
  Proof.
    intros H. inversion H; subst. rewrite remove_cons. now apply notin_remove.
  Qed.
End RemoveFacts.

Section Field.
Variable F : Type.
Variables (f0 f1 : F) (fadd fmul fsub : F -> F -> F) (fopp : F -> F) (fdiv : F -> F -> F) (finv : F -> F).
Hypothesis FT : field_theory f0 f1 fadd fmul fsub fopp fdiv finv eq.
Hypothesis Feq_dec : forall a b : F, {a = b} + {a <> b}.
Add Field Ffield : FT.

Notation "0" := f0 : F_scope.
Notation "1" := f1 : F_scope.
Notation "a + b" := (fadd a b) : F_scope.
Notation "a * b" := (fmul a b) : F_scope.
Notation "a - b" := (fsub a b) : F_scope.
Notation "- a" := (fopp a) : F_scope.
Notation "a / b" := (fdiv a b) : F_scope.
Notation "/ a" := (finv a) : F_scope.
Local Open Scope F_scope.

(* ---------- field facts ---------- *)
Lemma Fmul_integral a b : a * b = 0 -> a = 0 \/ b = 0.
Proof.
  intros H. destruct (Feq_dec a 0) as [|Ha]; [now left|right].
  assert (E : b = / a * (a * b)) by (field; exact Ha).
  rewrite E, H. ring.
Qed.
Lemma Fsub_eq0 a b : a - b = 0 -> a = b.
Proof. intros H. assert (E : a = (a - b) + b) by ring. rewrite E, H. ring. Qed.
Lemma Fsub_neq0 a b : a <> b -> a - b <> 0.
Proof. intros H E. apply H, Fsub_eq0, E. Qed.
Lemma Fmul_neq0 a b : a <> 0 -> b <> 0 -> a * b <> 0.
Proof. intros Ha Hb E. destruct (Fmul_integral _ _ E); tauto. Qed.
Lemma Finv_neq0 a : a <> 0 -> / a <> 0.
Proof.
  intros Ha E. apply (F_1_neq_0 FT).
  assert (E1 : 1 = / a * a) by (field; exact Ha). rewrite E1, E. ring.
Qed.

(* ---------- finite sums and products ---------- *)
Fixpoint fsum (l : list F) : F := match l with [] => 0 | a :: l' => a + fsum l' end.
Fixpoint fprod (l : list F) : F := match l with [] => 1 | a :: l' => a * fprod l' end.

Lemma fsum_app l1 l2 : fsum (l1 ++ l2) = fsum l1 + fsum l2.
Proof. induction l1 as [|a l1 IH]; cbn; [ring|rewrite IH; ring]. Qed.
Lemma fprod_app l1 l2 : fprod (l1 ++ l2) = fprod l1 * fprod l2.
Proof. induction l1 as [|a l1 IH]; cbn; [ring|rewrite IH; ring]. Qed.
Lemma fsum_map_add {A} (p q : A -> F) l :
  fsum (map (fun x => p x + q x) l) = fsum (map p l) + fsum (map q l).
Proof. induction l as [|a l IH]; cbn; [ring|rewrite IH; ring]. Qed.
Lemma fsum_map_scale {A} c (p : A -> F) l :
  fsum (map (fun x => c * p x) l) = c * fsum (map p l).
Proof. induction l as [|a l IH]; cbn; [ring|rewrite IH; ring]. Qed.
Lemma fsum_map_zero {A} (l : list A) : fsum (map (fun _ => 0) l) = 0.
Proof. induction l as [|a l IH]; cbn; [reflexivity|rewrite IH; ring]. Qed.
Lemma fsum_perm l1 l2 : Permutation l1 l2 -> fsum l1 = fsum l2.
Proof. induction 1; cbn; try congruence; try ring. Qed.
Lemma fprod_perm l1 l2 : Permutation l1 l2 -> fprod l1 = fprod l2.
Proof. induction 1; cbn; try congruence; try ring. Qed.

Lemma fsum_remove (p : F -> F) r l :
  NoDup l -> In r l -> fsum (map p l) = p r + fsum (map p (remove Feq_dec r l)).
Proof.
  induction 1 as [|a l Hn Hd IH]; cbn; [tauto|].
  intros [->|Hin].
  - destruct (Feq_dec r r) as [_|]; [|congruence]. now rewrite notin_remove.
  - destruct (Feq_dec r a) as [->|]; [tauto|]. cbn. rewrite IH by assumption. ring.
Qed.
Lemma fprod_remove (p : F -> F) r l :
  NoDup l -> In r l -> fprod (map p l) = p r * fprod (map p (remove Feq_dec r l)).
Proof.
  induction 1 as [|a l Hn Hd IH]; cbn; [tauto|].
  intros [->|Hin].
  - destruct (Feq_dec r r) as [_|]; [|congruence]. now rewrite notin_remove.
  - destruct (Feq_dec r a) as [->|]; [tauto|]. cbn. rewrite IH by assumption. ring.
Qed.
Lemma fprod_neq0 {A} (p : A -> F) l : (forall x, In x l -> p x <> 0) -> fprod (map p l) <> 0.
Proof.
  induction l as [|a l IH]; cbn; intros H.
  - exact (F_1_neq_0 FT).
  - apply Fmul_neq0; [apply H; now left|apply IH; intros; apply H; now right].
Qed.
Lemma fprod_div {A} (p q : A -> F) l :
  (forall x, In x l -> q x <> 0) ->
  fprod (map (fun x => p x / q x) l) = fprod (map p l) / fprod (map q l).
Proof.
  induction l as [|a l IH]; cbn; intros H.
  - field. exact (F_1_neq_0 FT).
  - rewrite IH by (intros; apply H; now right). field.
    split; [apply fprod_neq0; intros; apply H; now right|apply H; now left].
Qed.
Lemma fold_left_mul {A} (p : A -> F) l a :
  fold_left (fun d x => d * p x) l a = a * fprod (map p l).
Proof.
  revert a; induction l as [|b l IH]; intros a; cbn; [ring|rewrite IH; ring].
Qed.

(* ---------- polynomials: coefficient lists, constant first ---------- *)
(* Polynomial.Evaluate: result = 0; for i = len-1 .. 0: result = result*x + a_i *)
Fixpoint peval (f : list F) (x : F) : F :=
  match f with [] => 0 | a :: f' => peval f' x * x + a end.

Lemma peval_cons a f x : peval (a :: f) x = peval f x * x + a.
Proof. reflexivity. Qed.
Lemma peval_at0 f : peval f 0 = hd 0 f.
Proof. destruct f as [|a f]; [reflexivity|rewrite peval_cons; cbn; ring]. Qed.
Lemma peval_all_zero f : Forall (fun a => a = 0) f -> forall x, peval f x = 0.
Proof.
  induction 1 as [|a f Ha _ IH]; intros x; [reflexivity|].
  rewrite peval_cons, IH, Ha. ring.
Qed.

(* synthetic division by (X - r) *)
Fixpoint quot (f : list F) (r : F) : list F :=
  match f with
  | [] => []
  | a :: f' => match f' with [] => [] | _ => peval f' r :: quot f' r end
  end.

Lemma quot_length f r : length (quot f r) = pred (length f).
Proof.
  induction f as [|a f IH]; [reflexivity|].
  destruct f as [|b f]; [reflexivity|].
  change (quot (a :: b :: f) r) with (peval (b :: f) r :: quot (b :: f) r).
  cbn [length]. rewrite IH. reflexivity.
Qed.
Lemma quot_spec f r x : peval f x = (x - r) * peval (quot f r) x + peval f r.
Proof.
  induction f as [|a f IH]; [cbn; ring|].
  destruct f as [|b f]; [cbn; ring|].
  change (quot (a :: b :: f) r) with (peval (b :: f) r :: quot (b :: f) r).
  rewrite (peval_cons a), (peval_cons a (b :: f) r), (peval_cons (peval (b :: f) r)), IH. ring.
Qed.
Lemma quot_zero f r :
  Forall (fun a => a = 0) (quot f r) -> peval f r = 0 -> Forall (fun a => a = 0) f.
Proof.
  induction f as [|a f IH]; [constructor|].
  destruct f as [|b f].
  - intros _ H. constructor; [|constructor]. cbn in H. rewrite <- H. ring.
  - change (quot (a :: b :: f) r) with (peval (b :: f) r :: quot (b :: f) r).
    intros Hq H. pose proof (Forall_inv Hq) as H1. pose proof (Forall_inv_tail Hq) as H2.
    cbn beta in H1. rewrite peval_cons, H1 in H.
    constructor; [rewrite <- H; ring|]. apply IH; assumption.
Qed.

(* root counting: at most (length f - 1) distinct roots unless f is the zero polynomial *)
Theorem root_counting roots : forall f,
  NoDup roots -> (length f <= length roots)%nat ->
  (forall r, In r roots -> peval f r = 0) -> Forall (fun a => a = 0) f.
Proof.
  induction roots as [|r rs IH]; intros f Hnd Hlen Hroot.
  - destruct f; [constructor|cbn in Hlen; lia].
  - inversion Hnd as [|? ? Hnotin Hnd']; subst.
    assert (Hr : peval f r = 0) by (apply Hroot; now left).
    apply (quot_zero f r); [|exact Hr].
    apply IH; [exact Hnd'|rewrite quot_length; cbn in Hlen; lia|].
    intros r' Hin.
    assert (H := quot_spec f r r'). rewrite Hr, (Hroot r' (or_intror Hin)) in H.
    assert (H' : (r' - r) * peval (quot f r) r' = 0) by (rewrite H; ring).
    destruct (Fmul_integral _ _ H') as [E|E]; [|exact E].
    apply Fsub_eq0 in E. subst. tauto.
Qed.
Corollary root_counting_eval roots f :
  NoDup roots -> (length f <= length roots)%nat ->
  (forall r, In r roots -> peval f r = 0) -> forall x, peval f x = 0.
Proof. intros. apply peval_all_zero. eapply root_counting; eassumption. Qed.

(* coefficient-wise sum (padded) *)
Fixpoint padd (f g : list F) : list F :=
  match f, g with
  | [], _ => g
  | _, [] => f
  | a :: f', b :: g' => (a + b) :: padd f' g'
  end.
Definition psum (fs : list (list F)) : list F := fold_right padd [] fs.
Lemma peval_padd f : forall g x, peval (padd f g) x = peval f x + peval g x.
Proof.
  induction f as [|a f IH]; intros [|b g] x; cbn [padd]; try (cbn; ring).
  rewrite !peval_cons, IH. ring.
Qed.
Lemma padd_length f : forall g, length (padd f g) = Nat.max (length f) (length g).
Proof.
  induction f as [|a f IH]; intros [|b g]; cbn [padd length]; try reflexivity.
  rewrite IH. reflexivity.
Qed.
Lemma padd_hd f g : hd 0 (padd f g) = hd 0 f + hd 0 g.
Proof. destruct f, g; cbn; ring. Qed.
Lemma peval_psum fs x : peval (psum fs) x = fsum (map (fun f => peval f x) fs).
Proof.
  induction fs as [|f fs IH]; [reflexivity|].
  change (psum (f :: fs)) with (padd f (psum fs)). cbn [map fsum]. rewrite peval_padd, IH. reflexivity.
Qed.
Lemma psum_length fs m : Forall (fun f => (length f <= m)%nat) fs -> (length (psum fs) <= m)%nat.
Proof.
  induction 1 as [|f fs Hf _ IH]; [cbn; lia|].
  change (psum (f :: fs)) with (padd f (psum fs)). rewrite padd_length. lia.
Qed.
Lemma psum_hd fs : hd 0 (psum fs) = fsum (map (hd 0) fs).
Proof.
  induction fs as [|f fs IH]; [reflexivity|].
  change (psum (f :: fs)) with (padd f (psum fs)). cbn [map fsum]. rewrite padd_hd, IH. reflexivity.
Qed.

(* multiplication by (X - c), used to build explicit polynomials with prescribed roots *)
Definition pmul_lin (c : F) (p : list F) : list F := padd (0 :: p) (map (fun a => - c * a) p).
Lemma peval_map_scale c p x : peval (map (fun a => c * a) p) x = c * peval p x.
Proof. induction p as [|a p IH]; cbn; [ring|]. fold (peval (map (fun a => c * a) p) x). rewrite IH. ring. Qed.
Lemma peval_pmul_lin c p x : peval (pmul_lin c p) x = (x - c) * peval p x.
Proof. unfold pmul_lin. rewrite peval_padd, peval_map_scale, peval_cons. ring. Qed.
Lemma pmul_lin_length c p : length (pmul_lin c p) = S (length p).
Proof. unfold pmul_lin. rewrite padd_length, map_length. cbn [length]. lia. Qed.

(* ---------- Lagrange coefficients at 0, as lagrange.go computes them ---------- *)
(* numerator = 1 * x_0 * ... * x_k   (getScalarsAndNumerator) *)
Definition lag_num (xs : list F) : F := fold_left fmul xs 1.
(* denominator = 1 * prod_i (if i == j then x_j else x_i - x_j)   (lagrange) *)
Definition lag_den (xs : list F) (xj : F) : F :=
  fold_left (fun den xi => den * (if Feq_dec xi xj then xj else xi - xj)) xs 1.
(* l_j = denominator.Invert() * numerator *)
Definition lagrange (xs : list F) (xj : F) : F := / (lag_den xs xj) * lag_num xs.

(* the textbook basis polynomial of node xj over nodes xs, evaluated at x *)
Definition basis_at (xs : list F) (xj x : F) : F :=
  fprod (map (fun xi => (x - xi) / (xj - xi)) (remove Feq_dec xj xs)).
(* its value at 0 in the usual closed form *)
Definition lag0 (xs : list F) (xj : F) : F :=
  fprod (map (fun xi => xi / (xi - xj)) (remove Feq_dec xj xs)).

Lemma basis_at_0 xs xj : basis_at xs xj 0 = lag0 xs xj.
Proof.
  unfold basis_at, lag0. f_equal. apply map_ext_in. intros xi Hin.
  apply in_remove in Hin. destruct Hin as [_ Hne].
  field. split; apply Fsub_neq0; congruence.
Qed.

Lemma lag_num_prod xs : lag_num xs = fprod xs.
Proof.
  unfold lag_num. rewrite (fold_left_mul (fun x => x)), map_id. ring.
Qed.

Lemma lagrange_lag0 xs xj :
  NoDup xs -> ~ In 0 xs -> In xj xs -> lagrange xs xj = lag0 xs xj.
Proof.
  intros Hnd H0 Hin.
  assert (Hxj : xj <> 0) by (intros ->; tauto).
  unfold lagrange, lag_den.
  rewrite (fold_left_mul (fun xi => if Feq_dec xi xj then xj else xi - xj)), lag_num_prod.
  rewrite (fprod_remove _ xj xs Hnd Hin).
  destruct (Feq_dec xj xj) as [_|]; [|congruence].
  rewrite <- (map_id xs) at 2. rewrite (fprod_remove (fun x => x) xj xs Hnd Hin).
  set (R := remove Feq_dec xj xs).
  assert (HR : forall x, In x R -> x <> xj) by (intros x Hx; apply in_remove in Hx; tauto).
  rewrite (map_ext_in (fun xi => if Feq_dec xi xj then xj else xi - xj) (fun xi => xi - xj)).
  2:{ intros x Hx. destruct (Feq_dec x xj); [exfalso; eapply HR; eauto|reflexivity]. }
  unfold lag0. fold R.
  rewrite (fprod_div (fun x => x) (fun x => x - xj)).
  2:{ intros x Hx. apply Fsub_neq0. auto. }
  assert (HD : fprod (map (fun x => x - xj) R) <> 0).
  { apply fprod_neq0. intros x Hx. apply Fsub_neq0. auto. }
  field. repeat split; assumption.
Qed.

(* the code's numerator/denominator expression IS the textbook basis polynomial at 0 *)
Theorem lagrange_code_formula xs xj :
  NoDup xs -> ~ In 0 xs -> In xj xs -> lagrange xs xj = basis_at xs xj 0.
Proof. intros. rewrite basis_at_0. now apply lagrange_lag0. Qed.

Lemma lag0_neq0 xs xj : ~ In 0 xs -> lag0 xs xj <> 0.
Proof.
  intros H0. unfold lag0.
  apply fprod_neq0. intros x Hx. apply in_remove in Hx. destruct Hx as [Hx Hne].
  assert (x <> 0) by (intros ->; tauto).
  assert (x - xj <> 0) by (apply Fsub_neq0; assumption).
  intro E. assert (E' : x = (x / (x - xj)) * (x - xj)) by (field; assumption).
  rewrite E in E'. apply H. rewrite E'. ring.
Qed.
Lemma lagrange_neq0 xs xj : NoDup xs -> ~ In 0 xs -> In xj xs -> lagrange xs xj <> 0.
Proof. intros. rewrite lagrange_lag0 by assumption. now apply lag0_neq0. Qed.

(* removing a node r: l_j^{xs} * (x_j - r) = - r * l_j^{xs \ r} *)
Lemma lag0_remove xs r xj :
  NoDup xs -> In r xs -> In xj xs -> xj <> r ->
  lag0 xs xj * (xj - r) = - r * lag0 (remove Feq_dec r xs) xj.
Proof.
  intros Hnd Hr Hj Hne. unfold lag0.
  rewrite (fprod_remove _ r (remove Feq_dec xj xs)).
  2:{ now apply NoDup_remove_elt. }
  2:{ apply in_in_remove; [congruence|assumption]. }
  rewrite (remove_remove_comm Feq_dec xs r xj).
  field. apply Fsub_neq0. congruence.
Qed.

(* ================= G-valued interpolation (any F-module) ================= *)
Section Mod.
Variable G : Type.
Variables (gadd : G -> G -> G) (gzero : G) (gopp : G -> G) (smul : F -> G -> G).
Hypothesis ML : module_laws f1 fadd fmul gadd gzero gopp smul.

Let ga_comm := gadd_comm _ _ _ _ _ _ _ ML.
Let ga_assoc := gadd_assoc _ _ _ _ _ _ _ ML.
Let ga_0_l := gadd_0_l _ _ _ _ _ _ _ ML.
Let ga_opp_r := gadd_opp_r _ _ _ _ _ _ _ ML.
Let sm_1 := smul_1 _ _ _ _ _ _ _ ML.
Let sm_mul := smul_mul _ _ _ _ _ _ _ ML.
Let sm_add_l := smul_add_l _ _ _ _ _ _ _ ML.
Let sm_add_r := smul_add_r _ _ _ _ _ _ _ ML.

Lemma gadd_0_r a : gadd a gzero = a.
Proof. rewrite ga_comm. apply ga_0_l. Qed.
Lemma gadd_cancel_l a b c : gadd a b = gadd a c -> b = c.
Proof.
  intros H.
  assert (E : forall d, gadd (gopp a) (gadd a d) = d).
  { intros d. rewrite ga_assoc, (ga_comm (gopp a) a), ga_opp_r. apply ga_0_l. }
  rewrite <- (E b), <- (E c), H. reflexivity.
Qed.
Lemma smul_0_l P : smul 0 P = gzero.
Proof.
  apply (gadd_cancel_l (smul 0 P)). rewrite <- sm_add_l, gadd_0_r.
  f_equal. ring.
Qed.
Lemma smul_0_r a : smul a gzero = gzero.
Proof.
  apply (gadd_cancel_l (smul a gzero)). rewrite <- sm_add_r, !gadd_0_r. reflexivity.
Qed.
Lemma smul_opp_l a P : smul (- a) P = gopp (smul a P).
Proof.
  apply (gadd_cancel_l (smul a P)). rewrite <- sm_add_l, ga_opp_r.
  replace (a + - a) with 0 by ring. apply smul_0_l.
Qed.
Lemma gadd_swap a b c d : gadd (gadd a b) (gadd c d) = gadd (gadd a c) (gadd b d).
Proof.
  rewrite <- (ga_assoc a b), (ga_assoc b c d), (ga_comm b c), <- (ga_assoc c b d), ga_assoc.
  reflexivity.
Qed.

Fixpoint gsum (l : list G) : G := match l with [] => gzero | a :: l' => gadd a (gsum l') end.

Lemma gsum_app l1 l2 : gsum (l1 ++ l2) = gadd (gsum l1) (gsum l2).
Proof. induction l1 as [|a l1 IH]; cbn; [now rewrite ga_0_l|rewrite IH; apply ga_assoc]. Qed.
Lemma gsum_perm l1 l2 : Permutation l1 l2 -> gsum l1 = gsum l2.
Proof.
  induction 1; cbn; [reflexivity|congruence| |congruence].
  rewrite !ga_assoc, (ga_comm y x). reflexivity.
Qed.
Lemma gsum_map_add {A} (p q : A -> G) l :
  gsum (map (fun x => gadd (p x) (q x)) l) = gadd (gsum (map p l)) (gsum (map q l)).
Proof.
  induction l as [|a l IH]; cbn; [now rewrite ga_0_l|]. rewrite IH. apply gadd_swap.
Qed.
Lemma gsum_map_smul {A} c (p : A -> G) l :
  gsum (map (fun x => smul c (p x)) l) = smul c (gsum (map p l)).
Proof.
  induction l as [|a l IH]; cbn; [now rewrite smul_0_r|]. rewrite IH, sm_add_r. reflexivity.
Qed.
Lemma gsum_map_zero {A} (l : list A) : gsum (map (fun _ => gzero) l) = gzero.
Proof. induction l as [|a l IH]; cbn; [reflexivity|rewrite IH; apply ga_0_l]. Qed.
(* sum_x (c x) . P = (sum_x c x) . P *)
Lemma gsum_smul_const {A} (c : A -> F) P l :
  gsum (map (fun x => smul (c x) P) l) = smul (fsum (map c l)) P.
Proof.
  induction l as [|a l IH]; cbn; [now rewrite smul_0_l|]. rewrite IH, sm_add_l. reflexivity.
Qed.
Lemma gsum_remove (p : F -> G) r l :
  NoDup l -> In r l -> gsum (map p l) = gadd (p r) (gsum (map p (remove Feq_dec r l))).
Proof.
  induction 1 as [|a l Hn Hd IH]; cbn; [tauto|].
  intros [->|Hin].
  - destruct (Feq_dec r r) as [_|]; [|congruence]. now rewrite notin_remove.
  - destruct (Feq_dec r a) as [->|]; [tauto|]. cbn. rewrite IH by assumption.
    rewrite !ga_assoc, (ga_comm (p a) (p r)). reflexivity.
Qed.
(* exchanging two finite sums *)
Lemma gsum_exchange {A B} (c : A -> F) (p : B -> A -> G) (l : list A) (m : list B) :
  gsum (map (fun x => smul (c x) (gsum (map (fun e => p e x) m))) l)
  = gsum (map (fun e => gsum (map (fun x => smul (c x) (p e x)) l)) m).
Proof.
  induction m as [|e m IH]; cbn.
  - rewrite (map_ext _ (fun _ => gzero)) by (intros; apply smul_0_r). apply gsum_map_zero.
  - rewrite <- IH, <- gsum_map_add. f_equal. apply map_ext. intros. apply sm_add_r.
Qed.

(* the Lagrange functional: sum_j l_j . h(x_j) *)
Definition Lg (xs : list F) (h : F -> G) : G :=
  gsum (map (fun xj => smul (lagrange xs xj) (h xj)) xs).

Lemma Lg_ext xs h h' : (forall x, In x xs -> h x = h' x) -> Lg xs h = Lg xs h'.
Proof. intros H. unfold Lg. f_equal. apply map_ext_in. intros x Hx. now rewrite H. Qed.
Lemma Lg_add xs h1 h2 : Lg xs (fun x => gadd (h1 x) (h2 x)) = gadd (Lg xs h1) (Lg xs h2).
Proof.
  unfold Lg. rewrite <- gsum_map_add. f_equal. apply map_ext. intros. apply sm_add_r.
Qed.
Lemma Lg_smul xs c h : Lg xs (fun x => smul c (h x)) = smul c (Lg xs h).
Proof.
  unfold Lg. rewrite <- gsum_map_smul. f_equal. apply map_ext. intros x.
  rewrite <- !sm_mul. f_equal. ring.
Qed.

(* key step: a factor (x - r) with r a node removes that node *)
Lemma Lg_factor xs r h :
  NoDup xs -> ~ In 0 xs -> In r xs ->
  Lg xs (fun x => smul (x - r) (h x)) = smul (- r) (Lg (remove Feq_dec r xs) h).
Proof.
  intros Hnd H0 Hr. unfold Lg.
  rewrite (gsum_remove _ r xs Hnd Hr).
  replace (r - r) with 0 by ring. rewrite smul_0_l, smul_0_r, ga_0_l.
  rewrite <- gsum_map_smul. f_equal. apply map_ext_in. intros xj Hj.
  pose proof (in_remove Feq_dec xs xj r Hj) as [Hj' Hne].
  rewrite <- !sm_mul. f_equal.
  rewrite (lagrange_lag0 xs xj Hnd H0 Hj').
  rewrite (lagrange_lag0 (remove Feq_dec r xs) xj).
  - apply lag0_remove; assumption.
  - now apply NoDup_remove_elt.
  - intros Hin. apply in_remove in Hin. tauto.
  - exact Hj.
Qed.

(* sum_j l_j . P = P   (the Lagrange coefficients sum to one) *)
Lemma Lg_const_aux n : forall xs, length xs = S n -> NoDup xs -> ~ In 0 xs ->
  forall P, Lg xs (fun _ => P) = P.
Proof.
  induction n as [|n IH]; intros xs Hlen Hnd H0 P.
  - destruct xs as [|x [|y xs]]; try discriminate.
    unfold Lg. cbn [map gsum fold_right].
    rewrite lagrange_lag0 by (assumption || now left).
    unfold lag0. rewrite remove_head_NoDup by assumption. cbn.
    rewrite sm_1. apply gadd_0_r.
  - destruct xs as [|x1 [|x2 xs]]; try discriminate.
    set (XS := x1 :: x2 :: xs) in *.
    assert (H1 : In x1 XS) by (now left).
    assert (H2 : In x2 XS) by (right; now left).
    assert (Hne : x2 <> x1).
    { inversion Hnd as [|? ? Hn _]; subst. intros ->. apply Hn. now left. }
    assert (Hd : x2 - x1 <> 0) by (apply Fsub_neq0; exact Hne).
    set (c := / (x2 - x1)).
    set (Q := smul (- (1)) P).
    rewrite (Lg_ext XS (fun _ => P)
               (fun x => smul c (gadd (smul (x - x1) P) (smul (x - x2) Q)))).
    2:{ intros x _. unfold Q. rewrite <- sm_mul, <- sm_add_l, <- sm_mul.
        rewrite <- (sm_1 P) at 1. f_equal. unfold c. field. exact Hd. }
    rewrite Lg_smul, Lg_add, !Lg_factor by assumption.
    assert (Hlen' : forall r, In r XS -> length (remove Feq_dec r XS) = S n).
    { intros r Hr. rewrite remove_length_NoDup by assumption. rewrite Hlen. reflexivity. }
    assert (H0' : forall r, ~ In 0 (remove Feq_dec r XS)).
    { intros r Hin. apply in_remove in Hin. tauto. }
    rewrite !IH; try (apply Hlen'; assumption); try (apply NoDup_remove_elt; assumption);
      try apply H0'.
    unfold Q. rewrite <- !sm_mul, <- sm_add_l, <- sm_mul.
    rewrite <- (sm_1 P) at 2. f_equal. unfold c. field. exact Hd.
Qed.
Theorem Lg_const xs P : NoDup xs -> ~ In 0 xs -> xs <> [] -> Lg xs (fun _ => P) = P.
Proof.
  intros Hnd H0 Hne. destruct xs as [|x xs]; [congruence|].
  apply (Lg_const_aux (length xs)); auto.
Qed.

(* Exponent.Evaluate: result = identity; for i = len-1 .. 0: result = x.Act(result).Add(A_i) *)
Fixpoint geval (As : list G) (x : F) : G :=
  match As with [] => gzero | A :: As' => gadd (smul x (geval As' x)) A end.
Lemma geval_cons A As x : geval (A :: As) x = gadd (smul x (geval As x)) A.
Proof. reflexivity. Qed.
Lemma geval_at0 As : geval As 0 = hd gzero As.
Proof. destruct As as [|A As]; [reflexivity|]. rewrite geval_cons, smul_0_l. apply ga_0_l. Qed.

Fixpoint gquot (As : list G) (r : F) : list G :=
  match As with
  | [] => []
  | A :: As' => match As' with [] => [] | _ => geval As' r :: gquot As' r end
  end.
Lemma gquot_length As r : length (gquot As r) = pred (length As).
Proof.
  induction As as [|A As IH]; [reflexivity|].
  destruct As as [|B As]; [reflexivity|].
  change (gquot (A :: B :: As) r) with (geval (B :: As) r :: gquot (B :: As) r).
  cbn [length]. rewrite IH. reflexivity.
Qed.
Lemma gquot_spec As r x :
  geval As x = gadd (smul (x - r) (geval (gquot As r) x)) (geval As r).
Proof.
  induction As as [|A As IH]; [cbn; now rewrite smul_0_r, ga_0_l|].
  destruct As as [|B As].
  - cbn. rewrite !smul_0_r, !ga_0_l. reflexivity.
  - change (gquot (A :: B :: As) r) with (geval (B :: As) r :: gquot (B :: As) r).
    rewrite (geval_cons A), (geval_cons A (B :: As) r), (geval_cons (geval (B :: As) r)), IH.
    set (Q := geval (gquot (B :: As) r) x). set (V := geval (B :: As) r).
    rewrite !sm_add_r, <- !sm_mul.
    (* x.(x-r).Q + x.V + A  =  ((x-r).x.Q + (x-r).V) + (r.V + A) *)
    rewrite (ga_assoc _ (smul r V) A). f_equal.
    rewrite <- (ga_assoc _ (smul (x - r) V) (smul r V)), <- sm_add_l.
    f_equal; f_equal; ring.
Qed.

(* Lagrange interpolation at 0 of a G-valued polynomial of length <= number of nodes *)
Theorem lagrange_interp_G n : forall xs As,
  length xs = n -> NoDup xs -> ~ In 0 xs -> (length As <= n)%nat ->
  Lg xs (geval As) = geval As 0.
Proof.
  induction n as [|n IH]; intros xs As Hlen Hnd H0 HA.
  - destruct xs; [|discriminate]. destruct As; [reflexivity|cbn in HA; lia].
  - destruct xs as [|r xs]; [discriminate|].
    rewrite (Lg_ext _ (geval As)
               (fun x => gadd (smul (x - r) (geval (gquot As r) x)) (geval As r))).
    2:{ intros x _. apply gquot_spec. }
    rewrite Lg_add, Lg_factor, Lg_const; try assumption; try (now left); try discriminate.
    rewrite remove_head_NoDup by assumption.
    inversion Hnd; subst.
    rewrite IH; try assumption.
    + rewrite (gquot_spec As r 0). do 2 f_equal. ring.
    + cbn in Hlen. lia.
    + intros Hin. apply H0. now right.
    + rewrite gquot_length. lia.
Qed.

(* coefficient-wise sum of G-polynomials of equal length (Exponent.add) *)
Fixpoint gzip (As Bs : list G) : list G :=
  match As, Bs with
  | A :: As', B :: Bs' => gadd A B :: gzip As' Bs'
  | _, _ => []
  end.
Lemma gzip_length As : forall Bs, length As = length Bs -> length (gzip As Bs) = length As.
Proof.
  induction As as [|A As IH]; intros [|B Bs] H; try discriminate; cbn; [reflexivity|].
  f_equal. apply IH. now injection H.
Qed.
Lemma geval_gzip As : forall Bs x, length As = length Bs ->
  geval (gzip As Bs) x = gadd (geval As x) (geval Bs x).
Proof.
  induction As as [|A As IH]; intros [|B Bs] x H; try discriminate.
  - cbn. now rewrite ga_0_l.
  - cbn [gzip]. rewrite !geval_cons, IH by (now injection H). rewrite sm_add_r. apply gadd_swap.
Qed.

End Mod.

(* ================= the field as a module over itself: scalar statements ================= *)
Lemma F_module : module_laws f1 fadd fmul fadd f0 fopp fmul.
Proof. constructor; intros; ring. Qed.

Lemma fsum_gsum l : fsum l = gsum F fadd f0 l.
Proof. reflexivity. Qed.
Lemma peval_geval f x : peval f x = geval F fadd f0 fmul f x.
Proof.
  induction f as [|a f IH]; [reflexivity|].
  rewrite peval_cons, geval_cons, IH. ring.
Qed.

Theorem sum_lagrange_eq_1 xs :
  NoDup xs -> ~ In 0 xs -> xs <> [] -> fsum (map (lagrange xs) xs) = 1.
Proof.
  intros Hnd H0 Hne.
  pose proof (Lg_const F fadd f0 fopp fmul F_module xs 1 Hnd H0 Hne) as H.
  unfold Lg in H. rewrite <- fsum_gsum in H. rewrite <- H. f_equal.
  apply map_ext. intros. ring.
Qed.

Theorem lagrange_interp xs f :
  NoDup xs -> ~ In 0 xs -> (length f <= length xs)%nat ->
  fsum (map (fun xj => lagrange xs xj * peval f xj) xs) = peval f 0.
Proof.
  intros Hnd H0 Hlen.
  pose proof (lagrange_interp_G F fadd f0 fopp fmul F_module (length xs) xs f eq_refl Hnd H0 Hlen) as H.
  unfold Lg in H. rewrite <- fsum_gsum, <- peval_geval in H. rewrite <- H. f_equal.
  apply map_ext. intros. now rewrite peval_geval.
Qed.

(* ================= "in the exponent": module G with a base point g ================= *)
Section Exponent.
Variable G : Type.
Variables (gadd : G -> G -> G) (gzero : G) (gopp : G -> G) (smul : F -> G -> G).
Hypothesis ML : module_laws f1 fadd fmul gadd gzero gopp smul.
Variable g : G.

Notation gsum' := (gsum G gadd gzero).
Notation geval' := (geval G gadd gzero smul).

Definition act (a : F) : G := smul a g.

Lemma geval_map_act f x : geval' (map act f) x = act (peval f x).
Proof.
  induction f as [|a f IH]; [cbn; unfold act; symmetry; eapply smul_0_l; eassumption|].
  cbn [map]. rewrite geval_cons, IH, peval_cons. unfold act.
  rewrite <- (smul_mul _ _ _ _ _ _ _ ML), <- (smul_add_l _ _ _ _ _ _ _ ML). f_equal. ring.
Qed.

Lemma gsum_map_act {A} (c : A -> F) l : gsum' (map (fun x => act (c x)) l) = act (fsum (map c l)).
Proof. unfold act. eapply gsum_smul_const; eassumption. Qed.

(* Exponent in the code's representation: (IsConstant, coefficients) *)
Definition erep := (bool * list G)%type.
(* full coefficient list: the dropped constant is the identity *)
Definition efull (e : erep) : list G := if fst e then gzero :: snd e else snd e.
(* Exponent.Evaluate *)
Definition eeval (e : erep) (x : F) : G :=
  let r := geval' (snd e) x in if fst e then smul x r else r.
(* Exponent.Constant (for a non-IsConstant exponent with no coefficients the code panics; hd default) *)
Definition econst (e : erep) : G := if fst e then gzero else hd gzero (snd e).
(* NewPolynomialExponent *)
Definition eofpoly (f : list F) : erep :=
  match f with
  | [] => (false, [])
  | a0 :: r => if Feq_dec a0 0 then (true, map act r) else (false, map act f)
  end.

Lemma eeval_efull e x : eeval e x = geval' (efull e) x.
Proof.
  destruct e as [[|] cs]; unfold eeval, efull; cbn [fst snd]; [|reflexivity].
  rewrite geval_cons. symmetry. eapply gadd_0_r; eassumption.
Qed.
Lemma econst_efull e : econst e = hd gzero (efull e).
Proof. destruct e as [[|] cs]; reflexivity. Qed.
Lemma efull_eofpoly f : efull (eofpoly f) = map act f.
Proof.
  destruct f as [|a0 r]; [reflexivity|]. unfold eofpoly.
  destruct (Feq_dec a0 0) as [->|]; [|reflexivity].
  unfold efull; cbn [fst snd map]. f_equal. unfold act. symmetry. eapply smul_0_l; eassumption.
Qed.

(* evaluation in the exponent agrees with evaluation in the field, in both representations *)
Theorem eeval_eofpoly f x : eeval (eofpoly f) x = act (peval f x).
Proof. rewrite eeval_efull, efull_eofpoly. apply geval_map_act. Qed.
Theorem econst_eofpoly f : econst (eofpoly f) = act (hd 0 f).
Proof.
  rewrite econst_efull, efull_eofpoly. destruct f; cbn; [|reflexivity].
  unfold act. symmetry. eapply smul_0_l; eassumption.
Qed.

(* interpolation in the exponent *)
Theorem lagrange_interp_exp xs f :
  NoDup xs -> ~ In 0 xs -> (length f <= length xs)%nat ->
  gsum' (map (fun xj => smul (lagrange xs xj) (act (peval f xj))) xs) = act (peval f 0).
Proof.
  intros Hnd H0 Hlen. rewrite <- (lagrange_interp xs f Hnd H0 Hlen).
  rewrite <- gsum_map_act. f_equal. apply map_ext. intros x. unfold act.
  now rewrite (smul_mul _ _ _ _ _ _ _ ML).
Qed.
(* ... through the code's Exponent.Evaluate, for an honest dealer *)
Theorem lagrange_interp_eofpoly xs f :
  NoDup xs -> ~ In 0 xs -> (length f <= length xs)%nat ->
  gsum' (map (fun xj => smul (lagrange xs xj) (eeval (eofpoly f) xj)) xs) = act (peval f 0).
Proof.
  intros Hnd H0 Hlen. rewrite <- (lagrange_interp_exp xs f Hnd H0 Hlen).
  f_equal. apply map_ext. intros x. now rewrite eeval_eofpoly.
Qed.
(* ... and for ANY exponent polynomial (adversarial coefficients), in either representation *)
Theorem lagrange_interp_erep xs e :
  NoDup xs -> ~ In 0 xs -> (length (efull e) <= length xs)%nat ->
  gsum' (map (fun xj => smul (lagrange xs xj) (eeval e xj)) xs) = econst e.
Proof.
  intros Hnd H0 Hlen.
  pose proof (lagrange_interp_G G gadd gzero gopp smul ML (length xs) xs (efull e) eq_refl Hnd H0 Hlen) as H.
  unfold Lg in H. rewrite econst_efull, <- (geval_at0 G gadd gzero gopp smul ML), <- H.
  f_equal. apply map_ext. intros x. now rewrite eeval_efull.
Qed.

(* Exponent.add / polynomial.Sum with their error cases *)
Definition eadd (p e : erep) : option erep :=
  if negb (Nat.eqb (length (snd p)) (length (snd e))) then None
  else if negb (Bool.eqb (fst p) (fst e)) then None
  else Some (fst p, gzip G gadd (snd p) (snd e)).
Definition esum (es : list erep) : option erep :=
  match es with
  | [] => None
  | e0 :: rest =>
      fold_left (fun acc e => match acc with Some p => eadd p e | None => None end) rest (Some e0)
  end.

Lemma eadd_spec p e s : eadd p e = Some s ->
  fst s = fst p /\ fst e = fst p /\ length (snd s) = length (snd p) /\ length (snd e) = length (snd p) /\
  forall x, eeval s x = gadd (eeval p x) (eeval e x).
Proof.
  unfold eadd.
  destruct (Nat.eqb (length (snd p)) (length (snd e))) eqn:El; [|discriminate].
  destruct (Bool.eqb (fst p) (fst e)) eqn:Eb; [|discriminate].
  cbn [negb]. intros H. injection H as <-.
  apply Nat.eqb_eq in El. apply Bool.eqb_prop in Eb.
  cbn [fst snd]. repeat split; try congruence.
  - now apply gzip_length.
  - intros x. unfold eeval. cbn [fst snd]. rewrite <- Eb.
    rewrite (geval_gzip G gadd gzero gopp smul ML) by assumption.
    destruct (fst p); [apply (smul_add_r _ _ _ _ _ _ _ ML)|reflexivity].
Qed.

Lemma esum_fold_spec rest : forall p s,
  fold_left (fun acc e => match acc with Some p => eadd p e | None => None end) rest (Some p) = Some s ->
  fst s = fst p /\ length (snd s) = length (snd p) /\
  Forall (fun e => fst e = fst p /\ length (snd e) = length (snd p)) rest /\
  forall x, eeval s x = gadd (eeval p x) (gsum' (map (fun e => eeval e x) rest)).
Proof.
  induction rest as [|e rest IH]; intros p s H; cbn in H.
  - injection H as <-. repeat split; auto. intros x. cbn. symmetry. eapply gadd_0_r; eassumption.
  - destruct (eadd p e) as [p'|] eqn:E.
    + destruct (eadd_spec _ _ _ E) as (Hf & Hfe & Hl & Hle & Hev).
      destruct (IH _ _ H) as (Hf' & Hl' & Hall & Hev').
      repeat split; try congruence.
      * constructor; [split; congruence|].
        eapply Forall_impl; [|exact Hall]. cbn. intros a [? ?]. split; congruence.
      * intros x. rewrite Hev', Hev. cbn. symmetry. apply (gadd_assoc _ _ _ _ _ _ _ ML).
    + exfalso. clear -H. induction rest; cbn in H; [discriminate|auto].
Qed.

(* Sum succeeded: same shape as every summand, and it evaluates to the sum of the evaluations *)
Theorem esum_spec es s : esum es = Some s ->
  Forall (fun e => fst e = fst s /\ length (snd e) = length (snd s)) es /\
  forall x, eeval s x = gsum' (map (fun e => eeval e x) es).
Proof.
  destruct es as [|e0 rest]; [discriminate|]. unfold esum. intros H.
  destruct (esum_fold_spec _ _ _ H) as (Hf & Hl & Hall & Hev).
  split; [|exact Hev].
  constructor; [split; congruence|].
  eapply Forall_impl; [|exact Hall]. cbn. intros a [? ?]. split; congruence.
Qed.
(* conversely Sum succeeds on a non-empty list of equally shaped exponents *)
Theorem esum_succeeds e0 rest :
  Forall (fun e => fst e = fst e0 /\ length (snd e) = length (snd e0)) rest ->
  exists s, esum (e0 :: rest) = Some s.
Proof.
  unfold esum. revert e0. induction rest as [|e rest IH]; intros e0 H; cbn.
  - eauto.
  - inversion H as [|? ? [Hf Hl] H']; subst.
    unfold eadd at 2. rewrite Hl, Nat.eqb_refl, Hf, Bool.eqb_reflx. cbn [negb].
    apply IH. cbn [fst snd]. eapply Forall_impl; [|exact H']. cbn.
    intros a [? ?]. split; [assumption|]. rewrite gzip_length; congruence.
Qed.

End Exponent.
End Field.

(* implicit arguments for the generalized lemmas: the field/module operations are inferred from the
   explicit FT / ML / Feq_dec arguments (definitions keep all their arguments explicit) *)
Arguments Fmul_integral {F} {f0} {f1} {fadd} {fmul} {fsub} {fopp} {fdiv} {finv}.
Arguments Fsub_eq0 {F} {f0} {f1} {fadd} {fmul} {fsub} {fopp} {fdiv} {finv}.
Arguments Fsub_neq0 {F} {f0} {f1} {fadd} {fmul} {fsub} {fopp} {fdiv} {finv}.
Arguments Fmul_neq0 {F} {f0} {f1} {fadd} {fmul} {fsub} {fopp} {fdiv} {finv}.
Arguments Finv_neq0 {F} {f0} {f1} {fadd} {fmul} {fsub} {fopp} {fdiv} {finv}.
Arguments fsum_app {F} {f0} {f1} {fadd} {fmul} {fsub} {fopp} {fdiv} {finv}.
Arguments fprod_app {F} {f0} {f1} {fadd} {fmul} {fsub} {fopp} {fdiv} {finv}.
Arguments fsum_map_add {F} {f0} {f1} {fadd} {fmul} {fsub} {fopp} {fdiv} {finv}.
Arguments fsum_map_scale {F} {f0} {f1} {fadd} {fmul} {fsub} {fopp} {fdiv} {finv}.
Arguments fsum_map_zero {F} {f0} {f1} {fadd} {fmul} {fsub} {fopp} {fdiv} {finv}.
Arguments fsum_perm {F} {f0} {f1} {fadd} {fmul} {fsub} {fopp} {fdiv} {finv}.
Arguments fprod_perm {F} {f0} {f1} {fadd} {fmul} {fsub} {fopp} {fdiv} {finv}.
Arguments fsum_remove {F} {f0} {f1} {fadd} {fmul} {fsub} {fopp} {fdiv} {finv}.
Arguments fprod_remove {F} {f0} {f1} {fadd} {fmul} {fsub} {fopp} {fdiv} {finv}.
Arguments fprod_neq0 {F} {f0} {f1} {fadd} {fmul} {fsub} {fopp} {fdiv} {finv}.
Arguments fprod_div {F} {f0} {f1} {fadd} {fmul} {fsub} {fopp} {fdiv} {finv}.
Arguments fold_left_mul {F} {f0} {f1} {fadd} {fmul} {fsub} {fopp} {fdiv} {finv}.
Arguments peval_cons {F} {f0} {fadd} {fmul}.
Arguments peval_at0 {F} {f0} {f1} {fadd} {fmul} {fsub} {fopp} {fdiv} {finv}.
Arguments peval_all_zero {F} {f0} {f1} {fadd} {fmul} {fsub} {fopp} {fdiv} {finv}.
Arguments quot_length {F} {f0} {fadd} {fmul}.
Arguments quot_spec {F} {f0} {f1} {fadd} {fmul} {fsub} {fopp} {fdiv} {finv}.
Arguments quot_zero {F} {f0} {f1} {fadd} {fmul} {fsub} {fopp} {fdiv} {finv}.
Arguments root_counting {F} {f0} {f1} {fadd} {fmul} {fsub} {fopp} {fdiv} {finv}.
Arguments root_counting_eval {F} {f0} {f1} {fadd} {fmul} {fsub} {fopp} {fdiv} {finv}.
Arguments peval_padd {F} {f0} {f1} {fadd} {fmul} {fsub} {fopp} {fdiv} {finv}.
Arguments padd_length {F} {fadd}.
Arguments padd_hd {F} {f0} {f1} {fadd} {fmul} {fsub} {fopp} {fdiv} {finv}.
Arguments peval_psum {F} {f0} {f1} {fadd} {fmul} {fsub} {fopp} {fdiv} {finv}.
Arguments psum_length {F} {fadd}.
Arguments psum_hd {F} {f0} {f1} {fadd} {fmul} {fsub} {fopp} {fdiv} {finv}.
Arguments peval_map_scale {F} {f0} {f1} {fadd} {fmul} {fsub} {fopp} {fdiv} {finv}.
Arguments peval_pmul_lin {F} {f0} {f1} {fadd} {fmul} {fsub} {fopp} {fdiv} {finv}.
Arguments pmul_lin_length {F} {f0} {fadd} {fmul} {fopp}.
Arguments basis_at_0 {F} {f0} {f1} {fadd} {fmul} {fsub} {fopp} {fdiv} {finv}.
Arguments lag_num_prod {F} {f0} {f1} {fadd} {fmul} {fsub} {fopp} {fdiv} {finv}.
Arguments lagrange_lag0 {F} {f0} {f1} {fadd} {fmul} {fsub} {fopp} {fdiv} {finv}.
Arguments lagrange_code_formula {F} {f0} {f1} {fadd} {fmul} {fsub} {fopp} {fdiv} {finv}.
Arguments lag0_neq0 {F} {f0} {f1} {fadd} {fmul} {fsub} {fopp} {fdiv} {finv}.
Arguments lagrange_neq0 {F} {f0} {f1} {fadd} {fmul} {fsub} {fopp} {fdiv} {finv}.
Arguments lag0_remove {F} {f0} {f1} {fadd} {fmul} {fsub} {fopp} {fdiv} {finv}.
Arguments gadd_0_r {F} {f1} {fadd} {fmul} {G} {gadd} {gzero} {gopp} {smul}.
Arguments gadd_cancel_l {F} {f1} {fadd} {fmul} {G} {gadd} {gzero} {gopp} {smul}.
Arguments smul_0_l {F} {f0} {f1} {fadd} {fmul} {fsub} {fopp} {fdiv} {finv} FT {G} {gadd} {gzero} {gopp} {smul}.
Arguments smul_0_r {F} {f1} {fadd} {fmul} {G} {gadd} {gzero} {gopp} {smul}.
Arguments smul_opp_l {F} {f0} {f1} {fadd} {fmul} {fsub} {fopp} {fdiv} {finv} FT {G} {gadd} {gzero} {gopp} {smul}.
Arguments gadd_swap {F} {f1} {fadd} {fmul} {G} {gadd} {gzero} {gopp} {smul}.
Arguments gsum_app {F} {f1} {fadd} {fmul} {G} {gadd} {gzero} {gopp} {smul}.
Arguments gsum_perm {F} {f1} {fadd} {fmul} {G} {gadd} {gzero} {gopp} {smul}.
Arguments gsum_map_add {F} {f1} {fadd} {fmul} {G} {gadd} {gzero} {gopp} {smul}.
Arguments gsum_map_smul {F} {f1} {fadd} {fmul} {G} {gadd} {gzero} {gopp} {smul}.
Arguments gsum_map_zero {F} {f1} {fadd} {fmul} {G} {gadd} {gzero} {gopp} {smul}.
Arguments gsum_smul_const {F} {f0} {f1} {fadd} {fmul} {fsub} {fopp} {fdiv} {finv} FT {G} {gadd} {gzero} {gopp} {smul}.
Arguments gsum_remove {F} {f1} {fadd} {fmul} Feq_dec {G} {gadd} {gzero} {gopp} {smul}.
Arguments gsum_exchange {F} {f1} {fadd} {fmul} {G} {gadd} {gzero} {gopp} {smul}.
Arguments Lg_ext {F} {f1} {fmul} {fsub} {finv} Feq_dec {G} {gadd} {gzero} {smul}.
Arguments Lg_add {F} {f1} {fadd} {fmul} {fsub} {finv} Feq_dec {G} {gadd} {gzero} {gopp} {smul}.
Arguments Lg_smul {F} {f0} {f1} {fadd} {fmul} {fsub} {fopp} {fdiv} {finv} FT Feq_dec {G} {gadd} {gzero} {gopp} {smul}.
Arguments Lg_factor {F} {f0} {f1} {fadd} {fmul} {fsub} {fopp} {fdiv} {finv} FT Feq_dec {G} {gadd} {gzero} {gopp} {smul}.
Arguments Lg_const_aux {F} {f0} {f1} {fadd} {fmul} {fsub} {fopp} {fdiv} {finv} FT Feq_dec {G} {gadd} {gzero} {gopp} {smul}.
Arguments Lg_const {F} {f0} {f1} {fadd} {fmul} {fsub} {fopp} {fdiv} {finv} FT Feq_dec {G} {gadd} {gzero} {gopp} {smul}.
Arguments geval_cons {F} {G} {gadd} {gzero} {smul}.
Arguments geval_at0 {F} {f0} {f1} {fadd} {fmul} {fsub} {fopp} {fdiv} {finv} FT {G} {gadd} {gzero} {gopp} {smul}.
Arguments gquot_length {F} {G} {gadd} {gzero} {smul}.
Arguments gquot_spec {F} {f0} {f1} {fadd} {fmul} {fsub} {fopp} {fdiv} {finv} FT {G} {gadd} {gzero} {gopp} {smul}.
Arguments lagrange_interp_G {F} {f0} {f1} {fadd} {fmul} {fsub} {fopp} {fdiv} {finv} FT Feq_dec {G} {gadd} {gzero} {gopp} {smul}.
Arguments gzip_length {G} {gadd}.
Arguments geval_gzip {F} {f1} {fadd} {fmul} {G} {gadd} {gzero} {gopp} {smul}.
Arguments F_module {F} {f0} {f1} {fadd} {fmul} {fsub} {fopp} {fdiv} {finv}.
Arguments fsum_gsum {F} {f0} {fadd}.
Arguments peval_geval {F} {f0} {f1} {fadd} {fmul} {fsub} {fopp} {fdiv} {finv}.
Arguments sum_lagrange_eq_1 {F} {f0} {f1} {fadd} {fmul} {fsub} {fopp} {fdiv} {finv}.
Arguments lagrange_interp {F} {f0} {f1} {fadd} {fmul} {fsub} {fopp} {fdiv} {finv}.
Arguments geval_map_act {F} {f0} {f1} {fadd} {fmul} {fsub} {fopp} {fdiv} {finv} FT {G} {gadd} {gzero} {gopp} {smul}.
Arguments gsum_map_act {F} {f0} {f1} {fadd} {fmul} {fsub} {fopp} {fdiv} {finv} FT {G} {gadd} {gzero} {gopp} {smul}.
Arguments eeval_efull {F} {f1} {fadd} {fmul} {G} {gadd} {gzero} {gopp} {smul}.
Arguments econst_efull {G} {gzero}.
Arguments efull_eofpoly {F} {f0} {f1} {fadd} {fmul} {fsub} {fopp} {fdiv} {finv} FT Feq_dec {G} {gadd} {gzero} {gopp} {smul}.
Arguments eeval_eofpoly {F} {f0} {f1} {fadd} {fmul} {fsub} {fopp} {fdiv} {finv} FT Feq_dec {G} {gadd} {gzero} {gopp} {smul}.
Arguments econst_eofpoly {F} {f0} {f1} {fadd} {fmul} {fsub} {fopp} {fdiv} {finv} FT Feq_dec {G} {gadd} {gzero} {gopp} {smul}.
Arguments lagrange_interp_exp {F} {f0} {f1} {fadd} {fmul} {fsub} {fopp} {fdiv} {finv} FT Feq_dec {G} {gadd} {gzero} {gopp} {smul}.
Arguments lagrange_interp_eofpoly {F} {f0} {f1} {fadd} {fmul} {fsub} {fopp} {fdiv} {finv} FT Feq_dec {G} {gadd} {gzero} {gopp} {smul}.
Arguments lagrange_interp_erep {F} {f0} {f1} {fadd} {fmul} {fsub} {fopp} {fdiv} {finv} FT Feq_dec {G} {gadd} {gzero} {gopp} {smul}.
Arguments eadd_spec {F} {f1} {fadd} {fmul} {G} {gadd} {gzero} {gopp} {smul}.
Arguments esum_fold_spec {F} {f1} {fadd} {fmul} {G} {gadd} {gzero} {gopp} {smul}.
Arguments esum_spec {F} {f1} {fadd} {fmul} {G} {gadd} {gzero} {gopp} {smul}.
Arguments esum_succeeds {G} {gadd}.

(* =====================================================================================
   The concrete instance that runs: Z_q (Model/Poly.v).  For q > 1 on which the model's
   [modinv] really inverts (proved below for every prime q, by Fermat's little theorem),
   canonical residues form a field, the model's functions are the abstract ones at that field,
   and the abstract theorems transfer to statements about the executable model.
   ===================================================================================== *)
From Coq Require Import ZArith Znumtheory Eqdep_dec Bool.
From MPS Require Model.Poly.

Section ZqField.
Open Scope Z_scope.
Variable q : Z.
Hypothesis Hq : 1 < q.
Definition inv_ok : Prop := forall a, 0 < a < q -> (Poly.modinv q a * a) mod q = 1.
Hypothesis Hinv : inv_ok.

Record Zq : Type := mkZq { zval : Z; zok : (zval mod q =? zval) = true }.

Lemma zq_eq a b : zval a = zval b -> a = b.
Proof.
  destruct a as [a pa], b as [b pb]. cbn. intros ->. f_equal.
  apply UIP_dec. apply bool_dec.
Qed.
Lemma zval_mod a : zval a mod q = zval a.
Proof. apply Z.eqb_eq, zok. Qed.
Lemma zval_range a : 0 <= zval a < q.
Proof. rewrite <- zval_mod. apply Z.mod_pos_bound. lia. Qed.
Lemma zn_ok z : ((z mod q) mod q =? z mod q) = true.
Proof. apply Z.eqb_eq, Zmod_mod. Qed.
Definition zn (z : Z) : Zq := mkZq (z mod q) (zn_ok z).
Lemma zn_zval a : zn (zval a) = a.
Proof. apply zq_eq. cbn. apply zval_mod. Qed.
Lemma zval_zn z : 0 <= z < q -> zval (zn z) = z.
Proof. intros H. cbn. now apply Z.mod_small. Qed.

Definition zq0 := zn 0.
Definition zq1 := zn 1.
Definition zqadd a b := zn (zval a + zval b).
Definition zqmul a b := zn (zval a * zval b).
Definition zqsub a b := zn (zval a - zval b).
Definition zqopp a := zn (- zval a).
Definition zqinv a := zn (Poly.modinv q (zval a)).
Definition zqdiv a b := zqmul a (zqinv b).

Definition Zq_eq_dec (a b : Zq) : {a = b} + {a <> b}.
Proof.
  destruct (Z.eq_dec (zval a) (zval b)) as [E|E]; [left; now apply zq_eq|right; congruence].
Defined.

Ltac zq_norm :=
  cbn [zval zn zqadd zqmul zqsub zqopp zq0 zq1];
  repeat first [rewrite Zplus_mod_idemp_l | rewrite Zplus_mod_idemp_r
               | rewrite Zmult_mod_idemp_l | rewrite Zmult_mod_idemp_r
               | rewrite Zminus_mod_idemp_l | rewrite Zminus_mod_idemp_r ].

Lemma Zq_ring : ring_theory zq0 zq1 zqadd zqmul zqsub zqopp eq.
Proof.
  constructor; intros; apply zq_eq; unfold zqadd, zqmul, zqsub, zqopp, zq0, zq1; zq_norm;
    try (f_equal; ring).
  - rewrite Z.add_0_l. apply zval_mod.
  - rewrite Z.mul_1_l. apply zval_mod.
Qed.

Lemma Zq_field : field_theory zq0 zq1 zqadd zqmul zqsub zqopp zqdiv zqinv eq.
Proof.
  constructor.
  - exact Zq_ring.
  - intros E. apply (f_equal zval) in E. cbn in E.
    rewrite Z.mod_1_l in E by lia. rewrite ?Z.mod_0_l in E by lia. discriminate.
  - reflexivity.
  - intros p Hp. apply zq_eq. unfold zqmul, zqinv, zq1. zq_norm.
    rewrite Z.mod_1_l by lia. apply Hinv.
    pose proof (zval_range p).
    assert (zval p <> 0).
    { intros E. apply Hp. apply zq_eq. cbn. rewrite E. reflexivity. }
    lia.
Qed.

(* ---- the model's functions are the abstract ones at this field ---- *)
Notation Zpeval := (peval Zq zq0 zqadd zqmul).
Notation Zfsum := (fsum Zq zq0 zqadd).
Notation Zlagrange := (lagrange Zq zq1 zqmul zqsub zqinv Zq_eq_dec).

Lemma zval_peval f x : zval (Zpeval f x) = Poly.horner q (map zval f) (zval x).
Proof.
  induction f as [|a f IH]; [reflexivity|].
  cbn [peval map Poly.horner fold_right]. fold (Poly.horner q (map zval f) (zval x)).
  rewrite <- IH. reflexivity.
Qed.
Lemma zval_fold_mul xs : forall acc,
  zval (fold_left zqmul xs acc) = fold_left (Poly.fmul q) (map zval xs) (zval acc).
Proof. induction xs as [|x xs IH]; intros acc; [reflexivity|]. cbn [fold_left map]. now rewrite IH. Qed.
Lemma zval_lag_den xs xj : forall acc,
  zval (fold_left (fun den xi => zqmul den (if Zq_eq_dec xi xj then xj else zqsub xi xj)) xs acc)
  = fold_left (fun den xi => Poly.fmul q den (if (xi =? zval xj) then zval xj else Poly.fsub q xi (zval xj)))
              (map zval xs) (zval acc).
Proof.
  induction xs as [|x xs IH]; intros acc; [reflexivity|].
  cbn [fold_left map]. rewrite IH. f_equal.
  destruct (Zq_eq_dec x xj) as [->|Hne].
  - now rewrite Z.eqb_refl.
  - destruct (Z.eqb_spec (zval x) (zval xj)) as [E|_]; [exfalso; apply Hne, zq_eq, E|reflexivity].
Qed.
Lemma map_mod_zval xs : map (fun x => x mod q) (map zval xs) = map zval xs.
Proof. rewrite map_map. apply map_ext. intros. apply zval_mod. Qed.

Theorem zval_lagrange xs xj : zval (Zlagrange xs xj) = Poly.lagrange_coef q (map zval xs) (zval xj).
Proof.
  unfold lagrange, Poly.lagrange_coef, lag_num, lag_den, Poly.lag_num, Poly.lag_den.
  rewrite map_mod_zval, zval_mod.
  unfold zqmul at 1, zqinv. cbn [zval zn]. rewrite Zmult_mod_idemp_l.
  rewrite zval_fold_mul, zval_lag_den. reflexivity.
Qed.
Lemma zval_dot (c y : Zq -> Zq) l :
  zval (Zfsum (map (fun x => zqmul (c x) (y x)) l))
  = Poly.dot q (map (fun x => zval (c x)) l) (map (fun x => zval (y x)) l).
Proof.
  induction l as [|a l IH]; [reflexivity|].
  cbn [map fsum Poly.dot]. rewrite <- IH. reflexivity.
Qed.

(* lifting canonical Z lists *)
Definition canon (l : list Z) : Prop := Forall (fun z => 0 <= z < q) l.
Lemma map_zval_zn l : canon l -> map zval (map zn l) = l.
Proof.
  induction 1 as [|z l Hz _ IH]; [reflexivity|]. cbn [map]. rewrite IH. f_equal. now apply Z.mod_small.
Qed.
Lemma NoDup_map_zn l : canon l -> NoDup l -> NoDup (map zn l).
Proof.
  intros Hc Hnd. apply (NoDup_map_inv zval). now rewrite map_zval_zn.
Qed.
Lemma notin0_map_zn l : canon l -> ~ In 0 l -> ~ In zq0 (map zn l).
Proof.
  intros Hc H0 Hin. apply H0. apply (in_map zval) in Hin. rewrite map_zval_zn in Hin by assumption.
  exact Hin.
Qed.

(* ---- transfer: the model's interpolation at 0 is exact ---- *)
Theorem Zq_interpolate0_exact xs f :
  canon xs -> canon f -> NoDup xs -> ~ In 0 xs -> (length f <= length xs)%nat ->
  Poly.interpolate0 q xs (map (Poly.horner q f) xs) = Poly.poly_constant q f.
Proof.
  intros Hcx Hcf Hnd H0 Hlen.
  pose proof (lagrange_interp Zq_field Zq_eq_dec (map zn xs) (map zn f)
                (NoDup_map_zn xs Hcx Hnd) (notin0_map_zn xs Hcx H0)) as H.
  rewrite !map_length in H. specialize (H Hlen).
  apply (f_equal zval) in H.
  rewrite (zval_dot (fun x => Zlagrange (map zn xs) x) (fun x => Zpeval (map zn f) x)) in H.
  rewrite (peval_at0 Zq_field) in H.
  unfold Poly.interpolate0, Poly.lagrange_all, Poly.poly_constant.
  replace (zval (hd zq0 (map zn f))) with (hd 0 f mod q) in H.
  2:{ destruct f; reflexivity. }
  rewrite <- H. f_equal.
  - rewrite map_map. apply map_ext_in. intros x Hx.
    rewrite zval_lagrange, map_zval_zn by assumption. cbn [zval zn].
    rewrite Z.mod_small; [reflexivity|]. unfold canon in Hcx. rewrite Forall_forall in Hcx. now apply Hcx.
  - rewrite !map_map. apply map_ext_in. intros x Hx.
    rewrite zval_peval, map_zval_zn by assumption. cbn [zval zn].
    rewrite Z.mod_small; [reflexivity|]. unfold canon in Hcx. rewrite Forall_forall in Hcx. now apply Hcx.
Qed.
(* the model's Lagrange coefficients sum to one *)
Lemma zval_fsum_map {A} (c : A -> Zq) l :
  zval (Zfsum (map c l)) = fold_right (Poly.fadd q) 0 (map (fun x => zval (c x)) l).
Proof. induction l as [|a l IH]; [reflexivity|]. cbn [map fsum fold_right]. now rewrite <- IH. Qed.
Theorem Zq_lagrange_all_sum xs :
  canon xs -> NoDup xs -> ~ In 0 xs -> xs <> [] ->
  fold_right (Poly.fadd q) 0 (Poly.lagrange_all q xs) = 1.
Proof.
  intros Hcx Hnd H0 Hne.
  pose proof (sum_lagrange_eq_1 Zq_field Zq_eq_dec (map zn xs)
                (NoDup_map_zn xs Hcx Hnd) (notin0_map_zn xs Hcx H0)) as H.
  assert (Hne' : map zn xs <> []) by (destruct xs; [congruence|discriminate]).
  specialize (H Hne'). apply (f_equal zval) in H.
  replace (zval zq1) with 1 in H by (cbn; now rewrite Z.mod_1_l by lia).
  rewrite <- H, zval_fsum_map. unfold Poly.lagrange_all. f_equal.
  rewrite map_map. apply map_ext_in. intros x Hx.
  rewrite zval_lagrange, map_zval_zn by assumption. cbn [zval zn].
  rewrite Z.mod_small; [reflexivity|]. unfold canon in Hcx. rewrite Forall_forall in Hcx. now apply Hcx.
Qed.
End ZqField.

(* ---------- the model's modinv inverts modulo every prime: Fermat's little theorem ---------- *)
Section Fermat.
Open Scope Z_scope.

Lemma NoDup_map_inj_on {A B} (f : A -> B) (l : list A) :
  (forall x y, In x l -> In y l -> f x = f y -> x = y) -> NoDup l -> NoDup (map f l).
Proof.
  intros Hinj. induction 1 as [|a l Hn Hd IH]; cbn; constructor.
  - intros Hin. apply in_map_iff in Hin. destruct Hin as (y & Hy & Hyl).
    assert (y = a) by (apply Hinj; [now right|now left|exact Hy]). subst. tauto.
  - apply IH. intros x y Hx Hy. apply Hinj; now right.
Qed.

Fixpoint zprod (l : list Z) : Z := match l with [] => 1 | x :: l' => x * zprod l' end.
Lemma zprod_perm l1 l2 : Permutation l1 l2 -> zprod l1 = zprod l2.
Proof. induction 1; cbn; try congruence; ring. Qed.

Variable p : Z.
Hypothesis Hp : prime p.

Lemma prime_gt1 : 1 < p.
Proof. destruct Hp. assumption. Qed.

Lemma prime_ndiv a : 0 < a < p -> ~ (p | a).
Proof. intros Ha Hd. apply Z.divide_pos_le in Hd; lia. Qed.
Lemma prime_mul_nz a x : 0 < a < p -> 0 < x < p -> (a * x) mod p <> 0.
Proof.
  intros Ha Hx E. pose proof prime_gt1. apply Z.mod_divide in E; [|lia].
  destruct (prime_mult p Hp _ _ E) as [H1|H1]; revert H1; now apply prime_ndiv.
Qed.
Lemma prime_mul_cancel a x y :
  0 < a < p -> 0 < x < p -> 0 < y < p -> (a * x) mod p = (a * y) mod p -> x = y.
Proof.
  intros Ha Hx Hy E. pose proof prime_gt1.
  assert (Hd : (p | a * (x - y))).
  { apply Z.mod_divide; [lia|]. replace (a * (x - y)) with (a * x - a * y) by ring.
    rewrite Zminus_mod, E, Z.sub_diag. apply Z.mod_0_l. lia. }
  destruct (prime_mult p Hp _ _ Hd) as [H1|H1]; [exfalso; revert H1; now apply prime_ndiv|].
  destruct H1 as [k Hk].
  assert (k = 0) by nia. subst k. lia.
Qed.

(* the residues 1 .. p-1 *)
Definition residues : list Z := map Z.of_nat (seq 1 (Z.to_nat (p - 1))).
Lemma in_residues x : In x residues <-> 0 < x < p.
Proof.
  pose proof prime_gt1. unfold residues. rewrite in_map_iff. split.
  - intros (n & <- & Hn). apply in_seq in Hn. lia.
  - intros Hx. exists (Z.to_nat x). split; [lia|]. apply in_seq. lia.
Qed.
Lemma residues_NoDup : NoDup residues.
Proof.
  unfold residues. apply FinFun.Injective_map_NoDup; [|apply seq_NoDup].
  intros x y. apply Nat2Z.inj.
Qed.
Lemma residues_length : Z.of_nat (length residues) = p - 1.
Proof. pose proof prime_gt1. unfold residues. rewrite map_length, seq_length. lia. Qed.

Lemma zprod_map_mul_mod a l :
  zprod (map (fun x => (a * x) mod p) l) mod p = (a ^ Z.of_nat (length l) * zprod l) mod p.
Proof.
  induction l as [|x l IH]; [reflexivity|].
  cbn [map zprod length].
  rewrite Zmult_mod, IH, Zmod_mod, <- Zmult_mod.
  rewrite Nat2Z.inj_succ, Z.pow_succ_r by lia. f_equal. ring.
Qed.
Lemma zprod_residues_ndiv l : (forall x, In x l -> 0 < x < p) -> ~ (p | zprod l).
Proof.
  induction l as [|x l IH]; intros Hl; cbn.
  - intros Hd. pose proof prime_gt1. apply Z.divide_1_r_nonneg in Hd; lia.
  - intros Hd. destruct (prime_mult p Hp _ _ Hd) as [H1|H1].
    + revert H1. apply prime_ndiv. apply Hl. now left.
    + revert H1. apply IH. intros y Hy. apply Hl. now right.
Qed.

Theorem fermat_little a : 0 < a < p -> a ^ (p - 1) mod p = 1.
Proof.
  intros Ha. pose proof prime_gt1 as Hp1.
  set (l' := map (fun x => (a * x) mod p) residues).
  assert (Hperm : Permutation l' residues).
  { apply NoDup_Permutation_bis.
    - apply NoDup_map_inj_on; [|apply residues_NoDup].
      intros x y Hx Hy. apply in_residues in Hx, Hy. now apply prime_mul_cancel.
    - unfold l'. rewrite map_length. lia.
    - intros y Hy. unfold l' in Hy. apply in_map_iff in Hy. destruct Hy as (x & <- & Hx).
      apply in_residues in Hx. apply in_residues.
      pose proof (Z.mod_pos_bound (a * x) p ltac:(lia)).
      pose proof (prime_mul_nz a x Ha Hx). lia. }
  pose proof (zprod_map_mul_mod a residues) as E.
  fold l' in E. rewrite (zprod_perm _ _ Hperm), residues_length in E.
  set (P := zprod residues) in *. set (A := a ^ (p - 1)) in *.
  assert (Hd : (p | (A - 1) * P)).
  { apply Z.mod_divide; [lia|]. replace ((A - 1) * P) with (A * P - P) by ring.
    rewrite Zminus_mod, <- E, Z.sub_diag. apply Z.mod_0_l. lia. }
  destruct (prime_mult p Hp _ _ Hd) as [H1|H1].
  - apply Zdivide_mod_minus; [lia|exact H1].
  - exfalso. revert H1. apply zprod_residues_ndiv. intros x. apply in_residues.
Qed.

(* the model's square-and-multiply computes the power *)
Lemma powmod_pos_spec b e : Poly.powmod_pos p b e = (b ^ Zpos e) mod p.
Proof.
  induction e as [e IH|e IH|]; cbn [Poly.powmod_pos].
  - rewrite IH, Pos2Z.inj_xI, Z.pow_add_r, Z.pow_1_r, Z.pow_twice_r by lia.
    rewrite <- Zmult_mod, Zmult_mod_idemp_l. reflexivity.
  - rewrite IH, Pos2Z.inj_xO, Z.pow_twice_r, <- Zmult_mod. reflexivity.
  - now rewrite Z.pow_1_r.
Qed.
Lemma powmod_spec b e : 0 <= e -> Poly.powmod p b e = (b ^ e) mod p.
Proof. destruct e; cbn [Poly.powmod]; try lia; intros _; [reflexivity|apply powmod_pos_spec]. Qed.

Theorem prime_inv_ok : inv_ok p.
Proof.
  intros a Ha. pose proof prime_gt1 as Hp1. unfold Poly.modinv.
  rewrite (Z.mod_small a p) by lia.
  destruct (Z.eqb_spec a 0); [lia|].
  rewrite powmod_spec by lia. rewrite Zmult_mod_idemp_l.
  replace (a ^ (p - 2) * a) with (a ^ (p - 1)).
  - now apply fermat_little.
  - replace (p - 1) with (Z.succ (p - 2)) by lia. rewrite Z.pow_succ_r by lia. ring.
Qed.
End Fermat.

(* interpolation by the executable model is exact for every prime modulus *)
Corollary prime_interpolate0_exact q xs f :
  prime q -> canon q xs -> canon q f -> NoDup xs -> ~ In 0%Z xs -> (length f <= length xs)%nat ->
  Poly.interpolate0 q xs (map (Poly.horner q f) xs) = Poly.poly_constant q f.
Proof.
  intros Hq. apply Zq_interpolate0_exact; [now apply prime_gt1|now apply prime_inv_ok].
Qed.

(* a checkable sufficient condition for [inv_ok] on small moduli (used for the Z_101 examples) *)
Definition inv_ok_check (q : Z) : bool :=
  forallb (fun a => ((Poly.modinv q a * a) mod q =? 1)%Z) (map Z.of_nat (seq 1 (Z.to_nat (q - 1)))).
Lemma inv_ok_check_sound q : inv_ok_check q = true -> inv_ok q.
Proof.
  unfold inv_ok_check. rewrite forallb_forall. intros H a Ha.
  apply Z.eqb_eq, H. apply in_map_iff. exists (Z.to_nat a). split; [lia|]. apply in_seq. lia.
Qed.

(* ---------- the id-keyed Lagrange function (the map-based code of lagrange.go) agrees with the
   value-keyed one whenever the listed ids have pairwise distinct scalars ---------- *)
From MPS Require Import Model.Bytes Proofs.BytesProofs.
Section IdKeyed.
Open Scope Z_scope.
Variable q : Z.

Lemma mem_id_In i l : Poly.mem_id i l = true <-> In i l.
Proof.
  induction l as [|a l IH]; cbn; [split; [discriminate|tauto]|].
  rewrite orb_true_iff, bytes_eqb_eq, IH. tauto.
Qed.
Lemma dedup_ids_NoDup l : NoDup l -> Poly.dedup_ids l = l.
Proof.
  induction 1 as [|a l Hn _ IH]; [reflexivity|]. cbn. rewrite IH.
  destruct (Poly.mem_id a l) eqn:E; [|reflexivity]. apply mem_id_In in E. tauto.
Qed.
Lemma NoDup_map_inj_in {A B} (f : A -> B) l x y :
  NoDup (map f l) -> In x l -> In y l -> f x = f y -> x = y.
Proof.
  induction l as [|a l IH]; cbn; [tauto|]. intros Hnd Hx Hy E.
  inversion Hnd as [|? ? Hn Hnd']; subst.
  destruct Hx as [->|Hx], Hy as [->|Hy]; auto.
  - exfalso. apply Hn. rewrite E. now apply in_map.
  - exfalso. apply Hn. rewrite <- E. now apply in_map.
Qed.

Theorem lagrange_ids_value_keyed ids j :
  NoDup (map (Poly.id_scalar q) ids) -> In j ids ->
  Poly.lagrange_ids q ids j = Some (Poly.lagrange_coef q (map (Poly.id_scalar q) ids) (Poly.id_scalar q j)).
Proof.
  intros Hnd Hj. unfold Poly.lagrange_ids, Poly.lagrange_coef.
  rewrite (proj2 (mem_id_In j ids) Hj).
  assert (Hmod : forall b, Poly.id_scalar q b mod q = Poly.id_scalar q b) by (intros; apply Zmod_mod).
  rewrite Hmod, map_map.
  rewrite (map_ext (fun x => Poly.id_scalar q x mod q) (Poly.id_scalar q)) by (intros; apply Hmod).
  rewrite dedup_ids_NoDup by (eapply NoDup_map_inv; exact Hnd).
  do 3 f_equal. unfold Poly.lag_den.
  generalize (1 mod q) as acc.
  assert (Hsub : incl ids ids) by apply incl_refl. revert Hsub.
  generalize ids at 1 3 4 as l. induction l as [|i l IH]; intros Hsub acc; [reflexivity|].
  cbn [fold_left map]. rewrite IH by (intros x Hx; apply Hsub; now right). f_equal. f_equal.
  destruct (bytes_eqb i j) eqn:E.
  - apply bytes_eqb_eq in E. subst i. now rewrite Z.eqb_refl.
  - destruct (Z.eqb_spec (Poly.id_scalar q i) (Poly.id_scalar q j)) as [E'|]; [|reflexivity].
    assert (i = j) by (eapply NoDup_map_inj_in; eauto; apply Hsub; now left).
    subst i. assert (bytes_eqb j j = true) by now apply bytes_eqb_eq. congruence.
Qed.
End IdKeyed.
