(* HandlerProofs.v -- single-handler theorems over Model/Handler.v
   (C17 lifecycle, C05 handler level, C07/C09 no-op lemmas, C04 handler level).
   All results are for an arbitrary shape, arbitrary oracles, arbitrary n, arbitrary messages and
   arbitrary API histories (induction over the event list). *)
From Coq Require Import List NArith ZArith Bool Arith Lia.
From MPS Require Import Model.Handler.
Import ListNotations.

(* ------------------------------------------------------------------ *)
(* API histories                                                       *)
(* ------------------------------------------------------------------ *)
Inductive api := Accept (m : msg) | Stop | Drain (k : nat).

Definition api_step (fixed : bool) (vh : nat -> list N -> N) (ofp : nat -> N) (s : hstate) (e : api) : hstate :=
  match e with
  | Accept m => accept vh ofp s m
  | Stop => stop fixed s
  | Drain k => drain k s
  end.

Definition run_api (fixed : bool) (vh : nat -> list N -> N) (ofp : nat -> N) (s : hstate) (es : list api) : hstate :=
  fold_left (api_step fixed vh ofp) es s.

(* "well-drained": the user empties the Listen() channel after every API call *)
Definition drain_all (s : hstate) : hstate := drain (h_pending s) s.
Definition api_step_drained (fixed : bool) (vh : nat -> list N -> N) (ofp : nat -> N) (s : hstate) (e : api) : hstate :=
  drain_all (api_step fixed vh ofp s e).
Definition run_api_drained (fixed : bool) (vh : nat -> list N -> N) (ofp : nat -> N) (s : hstate) (es : list api) : hstate :=
  fold_left (api_step_drained fixed vh ofp) es s.

Definition reachable (fixed : bool) (vh : nat -> list N -> N) (ofp : nat -> N)
           (self : party) (n : nat) (ssid proto : N) (sh : shape) (s : hstate) : Prop :=
  exists es, s = run_api fixed vh ofp (new_handler vh ofp self n ssid proto sh) es.

Definition is_panicked (rt : runtime) : bool := match rt with Panicked _ => true | _ => false end.

(* ------------------------------------------------------------------ *)
(* Frame (projection) lemmas for the primitives                        *)
(* ------------------------------------------------------------------ *)
Ltac dmatch :=
  repeat match goal with
         | |- context [match ?x with _ => _ end] => destruct x eqn:?
         | |- context [if ?x then _ else _] => destruct x eqn:?
         end.
Ltac prj := intros; unfold store, abort, close_out, emit, set_rt, drain; dmatch; cbn; dmatch; try reflexivity.

Lemma store_h_self (s : hstate) (m : msg) : h_self (store s m) = h_self s.
Proof. prj. Qed.
#[export] Hint Rewrite store_h_self : hdb.
Lemma store_h_n (s : hstate) (m : msg) : h_n (store s m) = h_n s.
Proof. prj. Qed.
#[export] Hint Rewrite store_h_n : hdb.
Lemma store_h_ssid (s : hstate) (m : msg) : h_ssid (store s m) = h_ssid s.
Proof. prj. Qed.
#[export] Hint Rewrite store_h_ssid : hdb.
Lemma store_h_proto (s : hstate) (m : msg) : h_proto (store s m) = h_proto s.
Proof. prj. Qed.
#[export] Hint Rewrite store_h_proto : hdb.
Lemma store_h_shape (s : hstate) (m : msg) : h_shape (store s m) = h_shape s.
Proof. prj. Qed.
#[export] Hint Rewrite store_h_shape : hdb.
Lemma store_h_cur (s : hstate) (m : msg) : h_cur (store s m) = h_cur s.
Proof. prj. Qed.
#[export] Hint Rewrite store_h_cur : hdb.
Lemma store_h_reached (s : hstate) (m : msg) : h_reached (store s m) = h_reached s.
Proof. prj. Qed.
#[export] Hint Rewrite store_h_reached : hdb.
Lemma store_h_hashes (s : hstate) (m : msg) : h_hashes (store s m) = h_hashes s.
Proof. prj. Qed.
#[export] Hint Rewrite store_h_hashes : hdb.
Lemma store_h_err (s : hstate) (m : msg) : h_err (store s m) = h_err s.
Proof. prj. Qed.
#[export] Hint Rewrite store_h_err : hdb.
Lemma store_h_res (s : hstate) (m : msg) : h_res (store s m) = h_res s.
Proof. prj. Qed.
#[export] Hint Rewrite store_h_res : hdb.
Lemma store_h_out (s : hstate) (m : msg) : h_out (store s m) = h_out s.
Proof. prj. Qed.
#[export] Hint Rewrite store_h_out : hdb.
Lemma store_h_pending (s : hstate) (m : msg) : h_pending (store s m) = h_pending s.
Proof. prj. Qed.
#[export] Hint Rewrite store_h_pending : hdb.
Lemma store_h_closes (s : hstate) (m : msg) : h_closes (store s m) = h_closes s.
Proof. prj. Qed.
#[export] Hint Rewrite store_h_closes : hdb.
Lemma store_h_rt (s : hstate) (m : msg) : h_rt (store s m) = h_rt s.
Proof. prj. Qed.
#[export] Hint Rewrite store_h_rt : hdb.
Lemma set_rt_h_self (s : hstate) (rt : runtime) : h_self (set_rt s rt) = h_self s.
Proof. prj. Qed.
#[export] Hint Rewrite set_rt_h_self : hdb.
Lemma set_rt_h_n (s : hstate) (rt : runtime) : h_n (set_rt s rt) = h_n s.
Proof. prj. Qed.
#[export] Hint Rewrite set_rt_h_n : hdb.
Lemma set_rt_h_ssid (s : hstate) (rt : runtime) : h_ssid (set_rt s rt) = h_ssid s.
Proof. prj. Qed.
#[export] Hint Rewrite set_rt_h_ssid : hdb.
Lemma set_rt_h_proto (s : hstate) (rt : runtime) : h_proto (set_rt s rt) = h_proto s.
Proof. prj. Qed.
#[export] Hint Rewrite set_rt_h_proto : hdb.
Lemma set_rt_h_shape (s : hstate) (rt : runtime) : h_shape (set_rt s rt) = h_shape s.
Proof. prj. Qed.
#[export] Hint Rewrite set_rt_h_shape : hdb.
Lemma set_rt_h_cur (s : hstate) (rt : runtime) : h_cur (set_rt s rt) = h_cur s.
Proof. prj. Qed.
#[export] Hint Rewrite set_rt_h_cur : hdb.
Lemma set_rt_h_reached (s : hstate) (rt : runtime) : h_reached (set_rt s rt) = h_reached s.
Proof. prj. Qed.
#[export] Hint Rewrite set_rt_h_reached : hdb.
Lemma set_rt_h_qb (s : hstate) (rt : runtime) : h_qb (set_rt s rt) = h_qb s.
Proof. prj. Qed.
#[export] Hint Rewrite set_rt_h_qb : hdb.
Lemma set_rt_h_qp (s : hstate) (rt : runtime) : h_qp (set_rt s rt) = h_qp s.
Proof. prj. Qed.
#[export] Hint Rewrite set_rt_h_qp : hdb.
Lemma set_rt_h_hashes (s : hstate) (rt : runtime) : h_hashes (set_rt s rt) = h_hashes s.
Proof. prj. Qed.
#[export] Hint Rewrite set_rt_h_hashes : hdb.
Lemma set_rt_h_err (s : hstate) (rt : runtime) : h_err (set_rt s rt) = h_err s.
Proof. prj. Qed.
#[export] Hint Rewrite set_rt_h_err : hdb.
Lemma set_rt_h_res (s : hstate) (rt : runtime) : h_res (set_rt s rt) = h_res s.
Proof. prj. Qed.
#[export] Hint Rewrite set_rt_h_res : hdb.
Lemma set_rt_h_out (s : hstate) (rt : runtime) : h_out (set_rt s rt) = h_out s.
Proof. prj. Qed.
#[export] Hint Rewrite set_rt_h_out : hdb.
Lemma set_rt_h_pending (s : hstate) (rt : runtime) : h_pending (set_rt s rt) = h_pending s.
Proof. prj. Qed.
#[export] Hint Rewrite set_rt_h_pending : hdb.
Lemma set_rt_h_closes (s : hstate) (rt : runtime) : h_closes (set_rt s rt) = h_closes s.
Proof. prj. Qed.
#[export] Hint Rewrite set_rt_h_closes : hdb.
Lemma close_out_h_self (s : hstate) : h_self (close_out s) = h_self s.
Proof. prj. Qed.
#[export] Hint Rewrite close_out_h_self : hdb.
Lemma close_out_h_n (s : hstate) : h_n (close_out s) = h_n s.
Proof. prj. Qed.
#[export] Hint Rewrite close_out_h_n : hdb.
Lemma close_out_h_ssid (s : hstate) : h_ssid (close_out s) = h_ssid s.
Proof. prj. Qed.
#[export] Hint Rewrite close_out_h_ssid : hdb.
Lemma close_out_h_proto (s : hstate) : h_proto (close_out s) = h_proto s.
Proof. prj. Qed.
#[export] Hint Rewrite close_out_h_proto : hdb.
Lemma close_out_h_shape (s : hstate) : h_shape (close_out s) = h_shape s.
Proof. prj. Qed.
#[export] Hint Rewrite close_out_h_shape : hdb.
Lemma close_out_h_cur (s : hstate) : h_cur (close_out s) = h_cur s.
Proof. prj. Qed.
#[export] Hint Rewrite close_out_h_cur : hdb.
Lemma close_out_h_reached (s : hstate) : h_reached (close_out s) = h_reached s.
Proof. prj. Qed.
#[export] Hint Rewrite close_out_h_reached : hdb.
Lemma close_out_h_qb (s : hstate) : h_qb (close_out s) = h_qb s.
Proof. prj. Qed.
#[export] Hint Rewrite close_out_h_qb : hdb.
Lemma close_out_h_qp (s : hstate) : h_qp (close_out s) = h_qp s.
Proof. prj. Qed.
#[export] Hint Rewrite close_out_h_qp : hdb.
Lemma close_out_h_hashes (s : hstate) : h_hashes (close_out s) = h_hashes s.
Proof. prj. Qed.
#[export] Hint Rewrite close_out_h_hashes : hdb.
Lemma close_out_h_err (s : hstate) : h_err (close_out s) = h_err s.
Proof. prj. Qed.
#[export] Hint Rewrite close_out_h_err : hdb.
Lemma close_out_h_res (s : hstate) : h_res (close_out s) = h_res s.
Proof. prj. Qed.
#[export] Hint Rewrite close_out_h_res : hdb.
Lemma close_out_h_out (s : hstate) : h_out (close_out s) = h_out s.
Proof. prj. Qed.
#[export] Hint Rewrite close_out_h_out : hdb.
Lemma close_out_h_pending (s : hstate) : h_pending (close_out s) = h_pending s.
Proof. prj. Qed.
#[export] Hint Rewrite close_out_h_pending : hdb.
Lemma abort_h_self (s : hstate) (e : option (list party * errkind)) : h_self (abort s e) = h_self s.
Proof. prj. Qed.
#[export] Hint Rewrite abort_h_self : hdb.
Lemma abort_h_n (s : hstate) (e : option (list party * errkind)) : h_n (abort s e) = h_n s.
Proof. prj. Qed.
#[export] Hint Rewrite abort_h_n : hdb.
Lemma abort_h_ssid (s : hstate) (e : option (list party * errkind)) : h_ssid (abort s e) = h_ssid s.
Proof. prj. Qed.
#[export] Hint Rewrite abort_h_ssid : hdb.
Lemma abort_h_proto (s : hstate) (e : option (list party * errkind)) : h_proto (abort s e) = h_proto s.
Proof. prj. Qed.
#[export] Hint Rewrite abort_h_proto : hdb.
Lemma abort_h_shape (s : hstate) (e : option (list party * errkind)) : h_shape (abort s e) = h_shape s.
Proof. prj. Qed.
#[export] Hint Rewrite abort_h_shape : hdb.
Lemma abort_h_cur (s : hstate) (e : option (list party * errkind)) : h_cur (abort s e) = h_cur s.
Proof. prj. Qed.
#[export] Hint Rewrite abort_h_cur : hdb.
Lemma abort_h_reached (s : hstate) (e : option (list party * errkind)) : h_reached (abort s e) = h_reached s.
Proof. prj. Qed.
#[export] Hint Rewrite abort_h_reached : hdb.
Lemma abort_h_qb (s : hstate) (e : option (list party * errkind)) : h_qb (abort s e) = h_qb s.
Proof. prj. Qed.
#[export] Hint Rewrite abort_h_qb : hdb.
Lemma abort_h_qp (s : hstate) (e : option (list party * errkind)) : h_qp (abort s e) = h_qp s.
Proof. prj. Qed.
#[export] Hint Rewrite abort_h_qp : hdb.
Lemma abort_h_hashes (s : hstate) (e : option (list party * errkind)) : h_hashes (abort s e) = h_hashes s.
Proof. prj. Qed.
#[export] Hint Rewrite abort_h_hashes : hdb.
Lemma abort_h_res (s : hstate) (e : option (list party * errkind)) : h_res (abort s e) = h_res s.
Proof. prj. Qed.
#[export] Hint Rewrite abort_h_res : hdb.
Lemma emit_h_self (s : hstate) (o : outmsg) : h_self (emit s o) = h_self s.
Proof. prj. Qed.
#[export] Hint Rewrite emit_h_self : hdb.
Lemma emit_h_n (s : hstate) (o : outmsg) : h_n (emit s o) = h_n s.
Proof. prj. Qed.
#[export] Hint Rewrite emit_h_n : hdb.
Lemma emit_h_ssid (s : hstate) (o : outmsg) : h_ssid (emit s o) = h_ssid s.
Proof. prj. Qed.
#[export] Hint Rewrite emit_h_ssid : hdb.
Lemma emit_h_proto (s : hstate) (o : outmsg) : h_proto (emit s o) = h_proto s.
Proof. prj. Qed.
#[export] Hint Rewrite emit_h_proto : hdb.
Lemma emit_h_shape (s : hstate) (o : outmsg) : h_shape (emit s o) = h_shape s.
Proof. prj. Qed.
#[export] Hint Rewrite emit_h_shape : hdb.
Lemma emit_h_cur (s : hstate) (o : outmsg) : h_cur (emit s o) = h_cur s.
Proof. prj. Qed.
#[export] Hint Rewrite emit_h_cur : hdb.
Lemma emit_h_reached (s : hstate) (o : outmsg) : h_reached (emit s o) = h_reached s.
Proof. prj. Qed.
#[export] Hint Rewrite emit_h_reached : hdb.
Lemma emit_h_qb (s : hstate) (o : outmsg) : h_qb (emit s o) = h_qb s.
Proof. prj. Qed.
#[export] Hint Rewrite emit_h_qb : hdb.
Lemma emit_h_qp (s : hstate) (o : outmsg) : h_qp (emit s o) = h_qp s.
Proof. prj. Qed.
#[export] Hint Rewrite emit_h_qp : hdb.
Lemma emit_h_hashes (s : hstate) (o : outmsg) : h_hashes (emit s o) = h_hashes s.
Proof. prj. Qed.
#[export] Hint Rewrite emit_h_hashes : hdb.
Lemma emit_h_err (s : hstate) (o : outmsg) : h_err (emit s o) = h_err s.
Proof. prj. Qed.
#[export] Hint Rewrite emit_h_err : hdb.
Lemma emit_h_res (s : hstate) (o : outmsg) : h_res (emit s o) = h_res s.
Proof. prj. Qed.
#[export] Hint Rewrite emit_h_res : hdb.
Lemma emit_h_closes (s : hstate) (o : outmsg) : h_closes (emit s o) = h_closes s.
Proof. prj. Qed.
#[export] Hint Rewrite emit_h_closes : hdb.
Lemma drain_h_self (s : hstate) (k : nat) : h_self (drain k s) = h_self s.
Proof. prj. Qed.
#[export] Hint Rewrite drain_h_self : hdb.
Lemma drain_h_n (s : hstate) (k : nat) : h_n (drain k s) = h_n s.
Proof. prj. Qed.
#[export] Hint Rewrite drain_h_n : hdb.
Lemma drain_h_ssid (s : hstate) (k : nat) : h_ssid (drain k s) = h_ssid s.
Proof. prj. Qed.
#[export] Hint Rewrite drain_h_ssid : hdb.
Lemma drain_h_proto (s : hstate) (k : nat) : h_proto (drain k s) = h_proto s.
Proof. prj. Qed.
#[export] Hint Rewrite drain_h_proto : hdb.
Lemma drain_h_shape (s : hstate) (k : nat) : h_shape (drain k s) = h_shape s.
Proof. prj. Qed.
#[export] Hint Rewrite drain_h_shape : hdb.
Lemma drain_h_cur (s : hstate) (k : nat) : h_cur (drain k s) = h_cur s.
Proof. prj. Qed.
#[export] Hint Rewrite drain_h_cur : hdb.
Lemma drain_h_reached (s : hstate) (k : nat) : h_reached (drain k s) = h_reached s.
Proof. prj. Qed.
#[export] Hint Rewrite drain_h_reached : hdb.
Lemma drain_h_qb (s : hstate) (k : nat) : h_qb (drain k s) = h_qb s.
Proof. prj. Qed.
#[export] Hint Rewrite drain_h_qb : hdb.
Lemma drain_h_qp (s : hstate) (k : nat) : h_qp (drain k s) = h_qp s.
Proof. prj. Qed.
#[export] Hint Rewrite drain_h_qp : hdb.
Lemma drain_h_hashes (s : hstate) (k : nat) : h_hashes (drain k s) = h_hashes s.
Proof. prj. Qed.
#[export] Hint Rewrite drain_h_hashes : hdb.
Lemma drain_h_err (s : hstate) (k : nat) : h_err (drain k s) = h_err s.
Proof. prj. Qed.
#[export] Hint Rewrite drain_h_err : hdb.
Lemma drain_h_res (s : hstate) (k : nat) : h_res (drain k s) = h_res s.
Proof. prj. Qed.
#[export] Hint Rewrite drain_h_res : hdb.
Lemma drain_h_out (s : hstate) (k : nat) : h_out (drain k s) = h_out s.
Proof. prj. Qed.
#[export] Hint Rewrite drain_h_out : hdb.
Lemma drain_h_closes (s : hstate) (k : nat) : h_closes (drain k s) = h_closes s.
Proof. prj. Qed.
#[export] Hint Rewrite drain_h_closes : hdb.
Lemma drain_h_rt' (s : hstate) (k : nat) : h_rt (drain k s) = h_rt s.
Proof. unfold drain; cbn. destruct (h_rt s); reflexivity. Qed.
