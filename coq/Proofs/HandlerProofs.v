(* HandlerProofs.v -- single-handler theorems over Model/Handler.v
   (C17 lifecycle, C05 handler level, C07/C09 no-op lemmas, C04 handler level).
   All results are for an arbitrary shape, arbitrary oracles, arbitrary n, arbitrary messages and
   arbitrary API histories (induction over the event list). *)
From Coq Require Import List NArith ZArith Bool Arith Lia.
From MPS Require Import Model.Handler.
Import ListNotations.

(* ------------------------------------------------------------------ *)
(* API histories                                                       *)
(* ------------------------------------------------------------------ *)
Inductive api := Accept (m : msg) | Stop | Drain (k : nat).

Definition api_step (fixed : bool) (vh : nat -> list N -> N) (ofp : nat -> N) (s : hstate) (e : api) : hstate :=
  match e with
  | Accept m => accept vh ofp s m
  | Stop => stop fixed s
  | Drain k => drain k s
  end.

Definition run_api (fixed : bool) (vh : nat -> list N -> N) (ofp : nat -> N) (s : hstate) (es : list api) : hstate :=
  fold_left (api_step fixed vh ofp) es s.

(* "well-drained": the user empties the Listen() channel after every API call *)
Definition drain_all (s : hstate) : hstate := drain (h_pending s) s.
Definition api_step_drained (fixed : bool) (vh : nat -> list N -> N) (ofp : nat -> N) (s : hstate) (e : api) : hstate :=
  drain_all (api_step fixed vh ofp s e).
Definition run_api_drained (fixed : bool) (vh : nat -> list N -> N) (ofp : nat -> N) (s : hstate) (es : list api) : hstate :=
  fold_left (api_step_drained fixed vh ofp) es s.

Definition reachable (fixed : bool) (vh : nat -> list N -> N) (ofp : nat -> N)
           (self : party) (n : nat) (ssid proto : N) (sh : shape) (s : hstate) : Prop :=
  exists es, s = run_api fixed vh ofp (new_handler vh ofp self n ssid proto sh) es.

Definition is_panicked (rt : runtime) : bool := match rt with Panicked _ => true | _ => false end.

(* ------------------------------------------------------------------ *)
(* Frame (projection) lemmas for the primitives                        *)
(* ------------------------------------------------------------------ *)
Ltac dmatch :=
  repeat match goal with
         | |- context [match ?x with _ => _ end] => destruct x eqn:?
         | |- context [if ?x then _ else _] => destruct x eqn:?
         end.
Ltac prj := intros; unfold raise_panic, store, abort, close_out, emit, set_rt, drain; dmatch; cbn; dmatch; try reflexivity.

Lemma store_h_self (s : hstate) (m : msg) : h_self (store s m) = h_self s.
Proof. prj. Qed.
#[export] Hint Rewrite store_h_self : hdb.
Lemma store_h_n (s : hstate) (m : msg) : h_n (store s m) = h_n s.
Proof. prj. Qed.
#[export] Hint Rewrite store_h_n : hdb.
Lemma store_h_ssid (s : hstate) (m : msg) : h_ssid (store s m) = h_ssid s.
Proof. prj. Qed.
#[export] Hint Rewrite store_h_ssid : hdb.
Lemma store_h_proto (s : hstate) (m : msg) : h_proto (store s m) = h_proto s.
Proof. prj. Qed.
#[export] Hint Rewrite store_h_proto : hdb.
Lemma store_h_shape (s : hstate) (m : msg) : h_shape (store s m) = h_shape s.
Proof. prj. Qed.
#[export] Hint Rewrite store_h_shape : hdb.
Lemma store_h_cur (s : hstate) (m : msg) : h_cur (store s m) = h_cur s.
Proof. prj. Qed.
#[export] Hint Rewrite store_h_cur : hdb.
Lemma store_h_reached (s : hstate) (m : msg) : h_reached (store s m) = h_reached s.
Proof. prj. Qed.
#[export] Hint Rewrite store_h_reached : hdb.
Lemma store_h_hashes (s : hstate) (m : msg) : h_hashes (store s m) = h_hashes s.
Proof. prj. Qed.
#[export] Hint Rewrite store_h_hashes : hdb.
Lemma store_h_err (s : hstate) (m : msg) : h_err (store s m) = h_err s.
Proof. prj. Qed.
#[export] Hint Rewrite store_h_err : hdb.
Lemma store_h_res (s : hstate) (m : msg) : h_res (store s m) = h_res s.
Proof. prj. Qed.
#[export] Hint Rewrite store_h_res : hdb.
Lemma store_h_out (s : hstate) (m : msg) : h_out (store s m) = h_out s.
Proof. prj. Qed.
#[export] Hint Rewrite store_h_out : hdb.
Lemma store_h_pending (s : hstate) (m : msg) : h_pending (store s m) = h_pending s.
Proof. prj. Qed.
#[export] Hint Rewrite store_h_pending : hdb.
Lemma store_h_closes (s : hstate) (m : msg) : h_closes (store s m) = h_closes s.
Proof. prj. Qed.
#[export] Hint Rewrite store_h_closes : hdb.
Lemma store_h_rt (s : hstate) (m : msg) : h_rt (store s m) = h_rt s.
Proof. prj. Qed.
#[export] Hint Rewrite store_h_rt : hdb.
Lemma set_rt_h_self (s : hstate) (rt : runtime) : h_self (set_rt s rt) = h_self s.
Proof. prj. Qed.
#[export] Hint Rewrite set_rt_h_self : hdb.
Lemma set_rt_h_n (s : hstate) (rt : runtime) : h_n (set_rt s rt) = h_n s.
Proof. prj. Qed.
#[export] Hint Rewrite set_rt_h_n : hdb.
Lemma set_rt_h_ssid (s : hstate) (rt : runtime) : h_ssid (set_rt s rt) = h_ssid s.
Proof. prj. Qed.
#[export] Hint Rewrite set_rt_h_ssid : hdb.
Lemma set_rt_h_proto (s : hstate) (rt : runtime) : h_proto (set_rt s rt) = h_proto s.
Proof. prj. Qed.
#[export] Hint Rewrite set_rt_h_proto : hdb.
Lemma set_rt_h_shape (s : hstate) (rt : runtime) : h_shape (set_rt s rt) = h_shape s.
Proof. prj. Qed.
#[export] Hint Rewrite set_rt_h_shape : hdb.
Lemma set_rt_h_cur (s : hstate) (rt : runtime) : h_cur (set_rt s rt) = h_cur s.
Proof. prj. Qed.
#[export] Hint Rewrite set_rt_h_cur : hdb.
Lemma set_rt_h_reached (s : hstate) (rt : runtime) : h_reached (set_rt s rt) = h_reached s.
Proof. prj. Qed.
#[export] Hint Rewrite set_rt_h_reached : hdb.
Lemma set_rt_h_qb (s : hstate) (rt : runtime) : h_qb (set_rt s rt) = h_qb s.
Proof. prj. Qed.
#[export] Hint Rewrite set_rt_h_qb : hdb.
Lemma set_rt_h_qp (s : hstate) (rt : runtime) : h_qp (set_rt s rt) = h_qp s.
Proof. prj. Qed.
#[export] Hint Rewrite set_rt_h_qp : hdb.
Lemma set_rt_h_hashes (s : hstate) (rt : runtime) : h_hashes (set_rt s rt) = h_hashes s.
Proof. prj. Qed.
#[export] Hint Rewrite set_rt_h_hashes : hdb.
Lemma set_rt_h_err (s : hstate) (rt : runtime) : h_err (set_rt s rt) = h_err s.
Proof. prj. Qed.
#[export] Hint Rewrite set_rt_h_err : hdb.
Lemma set_rt_h_res (s : hstate) (rt : runtime) : h_res (set_rt s rt) = h_res s.
Proof. prj. Qed.
#[export] Hint Rewrite set_rt_h_res : hdb.
Lemma set_rt_h_out (s : hstate) (rt : runtime) : h_out (set_rt s rt) = h_out s.
Proof. prj. Qed.
#[export] Hint Rewrite set_rt_h_out : hdb.
Lemma set_rt_h_pending (s : hstate) (rt : runtime) : h_pending (set_rt s rt) = h_pending s.
Proof. prj. Qed.
#[export] Hint Rewrite set_rt_h_pending : hdb.
Lemma set_rt_h_closes (s : hstate) (rt : runtime) : h_closes (set_rt s rt) = h_closes s.
Proof. prj. Qed.
#[export] Hint Rewrite set_rt_h_closes : hdb.
Lemma close_out_h_self (s : hstate) : h_self (close_out s) = h_self s.
Proof. prj. Qed.
#[export] Hint Rewrite close_out_h_self : hdb.
Lemma close_out_h_n (s : hstate) : h_n (close_out s) = h_n s.
Proof. prj. Qed.
#[export] Hint Rewrite close_out_h_n : hdb.
Lemma close_out_h_ssid (s : hstate) : h_ssid (close_out s) = h_ssid s.
Proof. prj. Qed.
#[export] Hint Rewrite close_out_h_ssid : hdb.
Lemma close_out_h_proto (s : hstate) : h_proto (close_out s) = h_proto s.
Proof. prj. Qed.
#[export] Hint Rewrite close_out_h_proto : hdb.
Lemma close_out_h_shape (s : hstate) : h_shape (close_out s) = h_shape s.
Proof. prj. Qed.
#[export] Hint Rewrite close_out_h_shape : hdb.
Lemma close_out_h_cur (s : hstate) : h_cur (close_out s) = h_cur s.
Proof. prj. Qed.
#[export] Hint Rewrite close_out_h_cur : hdb.
Lemma close_out_h_reached (s : hstate) : h_reached (close_out s) = h_reached s.
Proof. prj. Qed.
#[export] Hint Rewrite close_out_h_reached : hdb.
Lemma close_out_h_qb (s : hstate) : h_qb (close_out s) = h_qb s.
Proof. prj. Qed.
#[export] Hint Rewrite close_out_h_qb : hdb.
Lemma close_out_h_qp (s : hstate) : h_qp (close_out s) = h_qp s.
Proof. prj. Qed.
#[export] Hint Rewrite close_out_h_qp : hdb.
Lemma close_out_h_hashes (s : hstate) : h_hashes (close_out s) = h_hashes s.
Proof. prj. Qed.
#[export] Hint Rewrite close_out_h_hashes : hdb.
Lemma close_out_h_err (s : hstate) : h_err (close_out s) = h_err s.
Proof. prj. Qed.
#[export] Hint Rewrite close_out_h_err : hdb.
Lemma close_out_h_res (s : hstate) : h_res (close_out s) = h_res s.
Proof. prj. Qed.
#[export] Hint Rewrite close_out_h_res : hdb.
Lemma close_out_h_out (s : hstate) : h_out (close_out s) = h_out s.
Proof. prj. Qed.
#[export] Hint Rewrite close_out_h_out : hdb.
Lemma close_out_h_pending (s : hstate) : h_pending (close_out s) = h_pending s.
Proof. prj. Qed.
#[export] Hint Rewrite close_out_h_pending : hdb.
Lemma abort_h_self (s : hstate) (e : option (list party * errkind)) : h_self (abort s e) = h_self s.
Proof. prj. Qed.
#[export] Hint Rewrite abort_h_self : hdb.
Lemma abort_h_n (s : hstate) (e : option (list party * errkind)) : h_n (abort s e) = h_n s.
Proof. prj. Qed.
#[export] Hint Rewrite abort_h_n : hdb.
Lemma abort_h_ssid (s : hstate) (e : option (list party * errkind)) : h_ssid (abort s e) = h_ssid s.
Proof. prj. Qed.
#[export] Hint Rewrite abort_h_ssid : hdb.
Lemma abort_h_proto (s : hstate) (e : option (list party * errkind)) : h_proto (abort s e) = h_proto s.
Proof. prj. Qed.
#[export] Hint Rewrite abort_h_proto : hdb.
Lemma abort_h_shape (s : hstate) (e : option (list party * errkind)) : h_shape (abort s e) = h_shape s.
Proof. prj. Qed.
#[export] Hint Rewrite abort_h_shape : hdb.
Lemma abort_h_cur (s : hstate) (e : option (list party * errkind)) : h_cur (abort s e) = h_cur s.
Proof. prj. Qed.
#[export] Hint Rewrite abort_h_cur : hdb.
Lemma abort_h_reached (s : hstate) (e : option (list party * errkind)) : h_reached (abort s e) = h_reached s.
Proof. prj. Qed.
#[export] Hint Rewrite abort_h_reached : hdb.
Lemma abort_h_qb (s : hstate) (e : option (list party * errkind)) : h_qb (abort s e) = h_qb s.
Proof. prj. Qed.
#[export] Hint Rewrite abort_h_qb : hdb.
Lemma abort_h_qp (s : hstate) (e : option (list party * errkind)) : h_qp (abort s e) = h_qp s.
Proof. prj. Qed.
#[export] Hint Rewrite abort_h_qp : hdb.
Lemma abort_h_hashes (s : hstate) (e : option (list party * errkind)) : h_hashes (abort s e) = h_hashes s.
Proof. prj. Qed.
#[export] Hint Rewrite abort_h_hashes : hdb.
Lemma abort_h_res (s : hstate) (e : option (list party * errkind)) : h_res (abort s e) = h_res s.
Proof. prj. Qed.
#[export] Hint Rewrite abort_h_res : hdb.
Lemma emit_h_self (s : hstate) (o : outmsg) : h_self (emit s o) = h_self s.
Proof. prj. Qed.
#[export] Hint Rewrite emit_h_self : hdb.
Lemma emit_h_n (s : hstate) (o : outmsg) : h_n (emit s o) = h_n s.
Proof. prj. Qed.
#[export] Hint Rewrite emit_h_n : hdb.
Lemma emit_h_ssid (s : hstate) (o : outmsg) : h_ssid (emit s o) = h_ssid s.
Proof. prj. Qed.
#[export] Hint Rewrite emit_h_ssid : hdb.
Lemma emit_h_proto (s : hstate) (o : outmsg) : h_proto (emit s o) = h_proto s.
Proof. prj. Qed.
#[export] Hint Rewrite emit_h_proto : hdb.
Lemma emit_h_shape (s : hstate) (o : outmsg) : h_shape (emit s o) = h_shape s.
Proof. prj. Qed.
#[export] Hint Rewrite emit_h_shape : hdb.
Lemma emit_h_cur (s : hstate) (o : outmsg) : h_cur (emit s o) = h_cur s.
Proof. prj. Qed.
#[export] Hint Rewrite emit_h_cur : hdb.
Lemma emit_h_reached (s : hstate) (o : outmsg) : h_reached (emit s o) = h_reached s.
Proof. prj. Qed.
#[export] Hint Rewrite emit_h_reached : hdb.
Lemma emit_h_qb (s : hstate) (o : outmsg) : h_qb (emit s o) = h_qb s.
Proof. prj. Qed.
#[export] Hint Rewrite emit_h_qb : hdb.
Lemma emit_h_qp (s : hstate) (o : outmsg) : h_qp (emit s o) = h_qp s.
Proof. prj. Qed.
#[export] Hint Rewrite emit_h_qp : hdb.
Lemma emit_h_hashes (s : hstate) (o : outmsg) : h_hashes (emit s o) = h_hashes s.
Proof. prj. Qed.
#[export] Hint Rewrite emit_h_hashes : hdb.
Lemma emit_h_err (s : hstate) (o : outmsg) : h_err (emit s o) = h_err s.
Proof. prj. Qed.
#[export] Hint Rewrite emit_h_err : hdb.
Lemma emit_h_res (s : hstate) (o : outmsg) : h_res (emit s o) = h_res s.
Proof. prj. Qed.
#[export] Hint Rewrite emit_h_res : hdb.
Lemma emit_h_closes (s : hstate) (o : outmsg) : h_closes (emit s o) = h_closes s.
Proof. prj. Qed.
#[export] Hint Rewrite emit_h_closes : hdb.
Lemma drain_h_self (s : hstate) (k : nat) : h_self (drain k s) = h_self s.
Proof. prj. Qed.
#[export] Hint Rewrite drain_h_self : hdb.
Lemma drain_h_n (s : hstate) (k : nat) : h_n (drain k s) = h_n s.
Proof. prj. Qed.
#[export] Hint Rewrite drain_h_n : hdb.
Lemma drain_h_ssid (s : hstate) (k : nat) : h_ssid (drain k s) = h_ssid s.
Proof. prj. Qed.
#[export] Hint Rewrite drain_h_ssid : hdb.
Lemma drain_h_proto (s : hstate) (k : nat) : h_proto (drain k s) = h_proto s.
Proof. prj. Qed.
#[export] Hint Rewrite drain_h_proto : hdb.
Lemma drain_h_shape (s : hstate) (k : nat) : h_shape (drain k s) = h_shape s.
Proof. prj. Qed.
#[export] Hint Rewrite drain_h_shape : hdb.
Lemma drain_h_cur (s : hstate) (k : nat) : h_cur (drain k s) = h_cur s.
Proof. prj. Qed.
#[export] Hint Rewrite drain_h_cur : hdb.
Lemma drain_h_reached (s : hstate) (k : nat) : h_reached (drain k s) = h_reached s.
Proof. prj. Qed.
#[export] Hint Rewrite drain_h_reached : hdb.
Lemma drain_h_qb (s : hstate) (k : nat) : h_qb (drain k s) = h_qb s.
Proof. prj. Qed.
#[export] Hint Rewrite drain_h_qb : hdb.
Lemma drain_h_qp (s : hstate) (k : nat) : h_qp (drain k s) = h_qp s.
Proof. prj. Qed.
#[export] Hint Rewrite drain_h_qp : hdb.
Lemma drain_h_hashes (s : hstate) (k : nat) : h_hashes (drain k s) = h_hashes s.
Proof. prj. Qed.
#[export] Hint Rewrite drain_h_hashes : hdb.
Lemma drain_h_err (s : hstate) (k : nat) : h_err (drain k s) = h_err s.
Proof. prj. Qed.
#[export] Hint Rewrite drain_h_err : hdb.
Lemma drain_h_res (s : hstate) (k : nat) : h_res (drain k s) = h_res s.
Proof. prj. Qed.
#[export] Hint Rewrite drain_h_res : hdb.
Lemma drain_h_out (s : hstate) (k : nat) : h_out (drain k s) = h_out s.
Proof. prj. Qed.
#[export] Hint Rewrite drain_h_out : hdb.
Lemma drain_h_closes (s : hstate) (k : nat) : h_closes (drain k s) = h_closes s.
Proof. prj. Qed.
#[export] Hint Rewrite drain_h_closes : hdb.
Lemma drain_h_rt (s : hstate) (k : nat) : h_rt (drain k s) = h_rt s.
Proof. unfold drain; cbn. destruct (h_rt s); reflexivity. Qed.
#[export] Hint Rewrite drain_h_rt : hdb.
Lemma drain_h_pending (s : hstate) (k : nat) : h_pending (drain k s) = h_pending s - k.
Proof. reflexivity. Qed.
#[export] Hint Rewrite drain_h_pending : hdb.

Lemma raise_panic_h_self (s : hstate) : h_self (raise_panic s) = h_self s.
Proof. prj. Qed.
#[export] Hint Rewrite raise_panic_h_self : hdb.
Lemma raise_panic_h_n (s : hstate) : h_n (raise_panic s) = h_n s.
Proof. prj. Qed.
#[export] Hint Rewrite raise_panic_h_n : hdb.
Lemma raise_panic_h_ssid (s : hstate) : h_ssid (raise_panic s) = h_ssid s.
Proof. prj. Qed.
#[export] Hint Rewrite raise_panic_h_ssid : hdb.
Lemma raise_panic_h_proto (s : hstate) : h_proto (raise_panic s) = h_proto s.
Proof. prj. Qed.
#[export] Hint Rewrite raise_panic_h_proto : hdb.
Lemma raise_panic_h_shape (s : hstate) : h_shape (raise_panic s) = h_shape s.
Proof. prj. Qed.
#[export] Hint Rewrite raise_panic_h_shape : hdb.
Lemma raise_panic_h_cur (s : hstate) : h_cur (raise_panic s) = h_cur s.
Proof. prj. Qed.
#[export] Hint Rewrite raise_panic_h_cur : hdb.
Lemma raise_panic_h_reached (s : hstate) : h_reached (raise_panic s) = h_reached s.
Proof. prj. Qed.
#[export] Hint Rewrite raise_panic_h_reached : hdb.
Lemma raise_panic_h_qb (s : hstate) : h_qb (raise_panic s) = h_qb s.
Proof. prj. Qed.
#[export] Hint Rewrite raise_panic_h_qb : hdb.
Lemma raise_panic_h_qp (s : hstate) : h_qp (raise_panic s) = h_qp s.
Proof. prj. Qed.
#[export] Hint Rewrite raise_panic_h_qp : hdb.
Lemma raise_panic_h_hashes (s : hstate) : h_hashes (raise_panic s) = h_hashes s.
Proof. prj. Qed.
#[export] Hint Rewrite raise_panic_h_hashes : hdb.
Lemma raise_panic_h_err (s : hstate) : h_err (raise_panic s) = h_err s.
Proof. prj. Qed.
#[export] Hint Rewrite raise_panic_h_err : hdb.
Lemma raise_panic_h_res (s : hstate) : h_res (raise_panic s) = h_res s.
Proof. prj. Qed.
#[export] Hint Rewrite raise_panic_h_res : hdb.
Lemma raise_panic_h_out (s : hstate) : h_out (raise_panic s) = h_out s.
Proof. prj. Qed.
#[export] Hint Rewrite raise_panic_h_out : hdb.
Lemma raise_panic_h_pending (s : hstate) : h_pending (raise_panic s) = h_pending s.
Proof. prj. Qed.
#[export] Hint Rewrite raise_panic_h_pending : hdb.
Lemma raise_panic_h_closes (s : hstate) : h_closes (raise_panic s) = h_closes s.
Proof. prj. Qed.
#[export] Hint Rewrite raise_panic_h_closes : hdb.
Lemma raise_panic_h_rt (s : hstate) : h_rt (raise_panic s) = Panicked 3.
Proof. reflexivity. Qed.
#[export] Hint Rewrite raise_panic_h_rt : hdb.
Lemma set_rt_h_rt (s : hstate) (rt : runtime) : h_rt (set_rt s rt) = rt.
Proof. reflexivity. Qed.
#[export] Hint Rewrite set_rt_h_rt : hdb.
Lemma recover_abort_h_self (s : hstate) : h_self (recover_abort s) = h_self s.
Proof. unfold recover_abort. dmatch; autorewrite with hdb; reflexivity. Qed.
#[export] Hint Rewrite recover_abort_h_self : hdb.
Lemma recover_abort_h_n (s : hstate) : h_n (recover_abort s) = h_n s.
Proof. unfold recover_abort. dmatch; autorewrite with hdb; reflexivity. Qed.
#[export] Hint Rewrite recover_abort_h_n : hdb.
Lemma recover_abort_h_ssid (s : hstate) : h_ssid (recover_abort s) = h_ssid s.
Proof. unfold recover_abort. dmatch; autorewrite with hdb; reflexivity. Qed.
#[export] Hint Rewrite recover_abort_h_ssid : hdb.
Lemma recover_abort_h_proto (s : hstate) : h_proto (recover_abort s) = h_proto s.
Proof. unfold recover_abort. dmatch; autorewrite with hdb; reflexivity. Qed.
#[export] Hint Rewrite recover_abort_h_proto : hdb.
Lemma recover_abort_h_shape (s : hstate) : h_shape (recover_abort s) = h_shape s.
Proof. unfold recover_abort. dmatch; autorewrite with hdb; reflexivity. Qed.
#[export] Hint Rewrite recover_abort_h_shape : hdb.
Lemma recover_abort_h_cur (s : hstate) : h_cur (recover_abort s) = h_cur s.
Proof. unfold recover_abort. dmatch; autorewrite with hdb; reflexivity. Qed.
#[export] Hint Rewrite recover_abort_h_cur : hdb.
Lemma recover_abort_h_reached (s : hstate) : h_reached (recover_abort s) = h_reached s.
Proof. unfold recover_abort. dmatch; autorewrite with hdb; reflexivity. Qed.
#[export] Hint Rewrite recover_abort_h_reached : hdb.
Lemma recover_abort_h_qb (s : hstate) : h_qb (recover_abort s) = h_qb s.
Proof. unfold recover_abort. dmatch; autorewrite with hdb; reflexivity. Qed.
#[export] Hint Rewrite recover_abort_h_qb : hdb.
Lemma recover_abort_h_qp (s : hstate) : h_qp (recover_abort s) = h_qp s.
Proof. unfold recover_abort. dmatch; autorewrite with hdb; reflexivity. Qed.
#[export] Hint Rewrite recover_abort_h_qp : hdb.
Lemma recover_abort_h_hashes (s : hstate) : h_hashes (recover_abort s) = h_hashes s.
Proof. unfold recover_abort. dmatch; autorewrite with hdb; reflexivity. Qed.
#[export] Hint Rewrite recover_abort_h_hashes : hdb.
Lemma recover_abort_h_res (s : hstate) : h_res (recover_abort s) = h_res s.
Proof. unfold recover_abort. dmatch; autorewrite with hdb; reflexivity. Qed.
#[export] Hint Rewrite recover_abort_h_res : hdb.

(* ------------------------------------------------------------------ *)
(* received_all / emit_all frames; one-round step of finalize           *)
(* ------------------------------------------------------------------ *)
Definition set_hashes (s : hstate) (hs : list (nat * N)) : hstate :=
  mkH (h_self s) (h_n s) (h_ssid s) (h_proto s) (h_shape s) (h_cur s) (h_reached s)
      (h_qb s) (h_qp s) hs (h_err s) (h_res s) (h_out s) (h_pending s) (h_closes s) (h_rt s).

Lemma set_hashes_same s : set_hashes s (h_hashes s) = s.
Proof. destruct s; reflexivity. Qed.

Ltac dmin :=
  repeat match goal with
         | |- context [match ?x with _ => _ end] =>
             lazymatch x with
             | context [match _ with _ => _ end] => fail
             | _ => destruct x eqn:?
             end
         end.

Lemma received_all_frame vh s : exists hs, snd (received_all vh s) = set_hashes s hs.
Proof.
  unfold received_all.
  dmin; cbn [snd]; try (exists (h_hashes s); symmetry; apply set_hashes_same);
    eexists; unfold set_hashes; reflexivity.
Qed.

Lemma ra_h_self vh s : h_self (snd (received_all vh s)) = h_self s.
Proof. destruct (received_all_frame vh s) as [hs ->]; reflexivity. Qed.
#[export] Hint Rewrite ra_h_self : hdb.
Lemma ra_h_n vh s : h_n (snd (received_all vh s)) = h_n s.
Proof. destruct (received_all_frame vh s) as [hs ->]; reflexivity. Qed.
#[export] Hint Rewrite ra_h_n : hdb.
Lemma ra_h_ssid vh s : h_ssid (snd (received_all vh s)) = h_ssid s.
Proof. destruct (received_all_frame vh s) as [hs ->]; reflexivity. Qed.
#[export] Hint Rewrite ra_h_ssid : hdb.
Lemma ra_h_proto vh s : h_proto (snd (received_all vh s)) = h_proto s.
Proof. destruct (received_all_frame vh s) as [hs ->]; reflexivity. Qed.
#[export] Hint Rewrite ra_h_proto : hdb.
Lemma ra_h_shape vh s : h_shape (snd (received_all vh s)) = h_shape s.
Proof. destruct (received_all_frame vh s) as [hs ->]; reflexivity. Qed.
#[export] Hint Rewrite ra_h_shape : hdb.
Lemma ra_h_cur vh s : h_cur (snd (received_all vh s)) = h_cur s.
Proof. destruct (received_all_frame vh s) as [hs ->]; reflexivity. Qed.
#[export] Hint Rewrite ra_h_cur : hdb.
Lemma ra_h_reached vh s : h_reached (snd (received_all vh s)) = h_reached s.
Proof. destruct (received_all_frame vh s) as [hs ->]; reflexivity. Qed.
#[export] Hint Rewrite ra_h_reached : hdb.
Lemma ra_h_qb vh s : h_qb (snd (received_all vh s)) = h_qb s.
Proof. destruct (received_all_frame vh s) as [hs ->]; reflexivity. Qed.
#[export] Hint Rewrite ra_h_qb : hdb.
Lemma ra_h_qp vh s : h_qp (snd (received_all vh s)) = h_qp s.
Proof. destruct (received_all_frame vh s) as [hs ->]; reflexivity. Qed.
#[export] Hint Rewrite ra_h_qp : hdb.
Lemma ra_h_err vh s : h_err (snd (received_all vh s)) = h_err s.
Proof. destruct (received_all_frame vh s) as [hs ->]; reflexivity. Qed.
#[export] Hint Rewrite ra_h_err : hdb.
Lemma ra_h_res vh s : h_res (snd (received_all vh s)) = h_res s.
Proof. destruct (received_all_frame vh s) as [hs ->]; reflexivity. Qed.
#[export] Hint Rewrite ra_h_res : hdb.
Lemma ra_h_out vh s : h_out (snd (received_all vh s)) = h_out s.
Proof. destruct (received_all_frame vh s) as [hs ->]; reflexivity. Qed.
#[export] Hint Rewrite ra_h_out : hdb.
Lemma ra_h_pending vh s : h_pending (snd (received_all vh s)) = h_pending s.
Proof. destruct (received_all_frame vh s) as [hs ->]; reflexivity. Qed.
#[export] Hint Rewrite ra_h_pending : hdb.
Lemma ra_h_closes vh s : h_closes (snd (received_all vh s)) = h_closes s.
Proof. destruct (received_all_frame vh s) as [hs ->]; reflexivity. Qed.
#[export] Hint Rewrite ra_h_closes : hdb.
Lemma ra_h_rt vh s : h_rt (snd (received_all vh s)) = h_rt s.
Proof. destruct (received_all_frame vh s) as [hs ->]; reflexivity. Qed.
#[export] Hint Rewrite ra_h_rt : hdb.
Lemma emit_all_h_self ofp l : forall s, h_self (emit_all ofp s l) = h_self s.
Proof.
  induction l as [|o l IH]; intro s; cbn [emit_all]; [reflexivity|].
  rewrite IH. destruct (o_bcast o); autorewrite with hdb; reflexivity.
Qed.
#[export] Hint Rewrite emit_all_h_self : hdb.
Lemma emit_all_h_n ofp l : forall s, h_n (emit_all ofp s l) = h_n s.
Proof.
  induction l as [|o l IH]; intro s; cbn [emit_all]; [reflexivity|].
  rewrite IH. destruct (o_bcast o); autorewrite with hdb; reflexivity.
Qed.
#[export] Hint Rewrite emit_all_h_n : hdb.
Lemma emit_all_h_ssid ofp l : forall s, h_ssid (emit_all ofp s l) = h_ssid s.
Proof.
  induction l as [|o l IH]; intro s; cbn [emit_all]; [reflexivity|].
  rewrite IH. destruct (o_bcast o); autorewrite with hdb; reflexivity.
Qed.
#[export] Hint Rewrite emit_all_h_ssid : hdb.
Lemma emit_all_h_proto ofp l : forall s, h_proto (emit_all ofp s l) = h_proto s.
Proof.
  induction l as [|o l IH]; intro s; cbn [emit_all]; [reflexivity|].
  rewrite IH. destruct (o_bcast o); autorewrite with hdb; reflexivity.
Qed.
#[export] Hint Rewrite emit_all_h_proto : hdb.
Lemma emit_all_h_shape ofp l : forall s, h_shape (emit_all ofp s l) = h_shape s.
Proof.
  induction l as [|o l IH]; intro s; cbn [emit_all]; [reflexivity|].
  rewrite IH. destruct (o_bcast o); autorewrite with hdb; reflexivity.
Qed.
#[export] Hint Rewrite emit_all_h_shape : hdb.
Lemma emit_all_h_cur ofp l : forall s, h_cur (emit_all ofp s l) = h_cur s.
Proof.
  induction l as [|o l IH]; intro s; cbn [emit_all]; [reflexivity|].
  rewrite IH. destruct (o_bcast o); autorewrite with hdb; reflexivity.
Qed.
#[export] Hint Rewrite emit_all_h_cur : hdb.
Lemma emit_all_h_reached ofp l : forall s, h_reached (emit_all ofp s l) = h_reached s.
Proof.
  induction l as [|o l IH]; intro s; cbn [emit_all]; [reflexivity|].
  rewrite IH. destruct (o_bcast o); autorewrite with hdb; reflexivity.
Qed.
#[export] Hint Rewrite emit_all_h_reached : hdb.
Lemma store_bcast_h_qp s m : m_bcast m = true -> h_qp (store s m) = h_qp s.
Proof. intro H. unfold store. rewrite H. dmatch; reflexivity. Qed.
Lemma store_p2p_h_qb s m : m_bcast m = false -> h_qb (store s m) = h_qb s.
Proof. intro H. unfold store. rewrite H. dmatch; reflexivity. Qed.
Lemma emit_all_h_qp ofp l : forall s, h_qp (emit_all ofp s l) = h_qp s.
Proof.
  induction l as [|o l IH]; intro s; cbn [emit_all]; [reflexivity|].
  rewrite IH. destruct (o_bcast o); autorewrite with hdb; [|reflexivity].
  apply store_bcast_h_qp. reflexivity.
Qed.
#[export] Hint Rewrite emit_all_h_qp : hdb.
Lemma emit_all_h_hashes ofp l : forall s, h_hashes (emit_all ofp s l) = h_hashes s.
Proof.
  induction l as [|o l IH]; intro s; cbn [emit_all]; [reflexivity|].
  rewrite IH. destruct (o_bcast o); autorewrite with hdb; reflexivity.
Qed.
#[export] Hint Rewrite emit_all_h_hashes : hdb.
Lemma emit_all_h_err ofp l : forall s, h_err (emit_all ofp s l) = h_err s.
Proof.
  induction l as [|o l IH]; intro s; cbn [emit_all]; [reflexivity|].
  rewrite IH. destruct (o_bcast o); autorewrite with hdb; reflexivity.
Qed.
#[export] Hint Rewrite emit_all_h_err : hdb.
Lemma emit_all_h_res ofp l : forall s, h_res (emit_all ofp s l) = h_res s.
Proof.
  induction l as [|o l IH]; intro s; cbn [emit_all]; [reflexivity|].
  rewrite IH. destruct (o_bcast o); autorewrite with hdb; reflexivity.
Qed.
#[export] Hint Rewrite emit_all_h_res : hdb.
Lemma emit_all_h_closes ofp l : forall s, h_closes (emit_all ofp s l) = h_closes s.
Proof.
  induction l as [|o l IH]; intro s; cbn [emit_all]; [reflexivity|].
  rewrite IH. destruct (o_bcast o); autorewrite with hdb; reflexivity.
Qed.
#[export] Hint Rewrite emit_all_h_closes : hdb.

(* ------------------------------------------------------------------ *)
(* finalize = iteration of a one-round step                             *)
(* ------------------------------------------------------------------ *)
Definition advance (s : hstate) (nr : nat) : hstate :=
  mkH (h_self s) (h_n s) (h_ssid s) (h_proto s) (h_shape s) nr (nr :: h_reached s)
      (h_qb s) (h_qp s) (h_hashes s) (h_err s) (h_res s) (h_out s) (h_pending s) (h_closes s) (h_rt s).
Definition set_res (s : hstate) : hstate :=
  mkH (h_self s) (h_n s) (h_ssid s) (h_proto s) (h_shape s) (h_cur s) (h_reached s)
      (h_qb s) (h_qp s) (h_hashes s) (h_err s) true (h_out s) (h_pending s) (h_closes s) (h_rt s).

Definition next_round (s : hstate) : nat := if sh_final (h_shape s) <=? h_cur s then 0 else S (h_cur s).
Definition cur_bv (s : hstate) : N := match hget (h_hashes s) (h_cur s) with Some d => d | None => 0%N end.

Ltac prjs := cbn [h_self h_n h_ssid h_proto h_shape h_cur h_reached h_qb h_qp h_hashes h_err h_res h_out h_pending h_closes h_rt].
Tactic Notation "prjs" "in" hyp(H) := cbn [h_self h_n h_ssid h_proto h_shape h_cur h_reached h_qb h_qp h_hashes h_err h_res h_out h_pending h_closes h_rt] in H.

Inductive fstep := FDone (s : hstate) | FCont (s : hstate).

Definition fin_step (vh : nat -> list N -> N) (ofp : nat -> N) (s : hstate) : fstep :=
  match h_rt s with
  | Running =>
      if h_cur s =? 0 then FDone s else
      let s1 := snd (received_all vh s) in
      if negb (fst (received_all vh s)) then FDone s1
      else if negb (check_broadcast_hash s1) then FDone (abort s1 (Some ([], EBroadcastHash)))
      else if fin_panics s1 then FDone (raise_panic s1)
      else
        let s2 := emit_all ofp s1 (round_outputs s1 (h_cur s1) (cur_bv s1)) in
        match h_rt s2 with
        | Running =>
            let nr := next_round s1 in
            if existsb (Nat.eqb nr) (h_reached s2) then FDone s2
            else
              let s3 := advance s2 nr in
              if nr =? 0 then FDone (abort (set_res s3) None)
              else match first_bad s3 nr with
                   | Some (_, VHash) => FDone (abort s3 (Some ([], EBroadcastHash)))
                   | Some (_, VPanic) => FDone (raise_panic s3)
                   | Some (j, _) => FDone (abort s3 (Some ([j], EVerify)))
                   | None => FCont s3
                   end
        | _ => FDone s2
        end
  | _ => FDone s
  end.

Lemma finalize_S vh ofp f s :
  finalize vh ofp (S f) s = match fin_step vh ofp s with FDone s' => s' | FCont s3 => finalize vh ofp f s3 end.
Proof.
  unfold fin_step, advance, set_res. cbn [finalize].
  destruct (h_rt s); try reflexivity.
  destruct (h_cur s =? 0); try reflexivity.
  destruct (received_all vh s) as [all s1]. cbn [fst snd].
  destruct (negb all); try reflexivity.
  destruct (negb (check_broadcast_hash s1)); try reflexivity.
  destruct (fin_panics s1); try reflexivity.
  unfold cur_bv, next_round.
  rewrite emit_all_h_shape.
  match goal with |- context [h_rt (emit_all ofp s1 ?l)] => destruct (h_rt (emit_all ofp s1 l)) end; try reflexivity.
  destruct (existsb _ _); try reflexivity.
  prjs.
  destruct (_ =? 0); try reflexivity.
  destruct (first_bad _ _) as [[j []]|]; reflexivity.
Qed.

(* induction principle: a step-invariant [P] with exit condition [Q] *)
Lemma finalize_ind vh ofp (P Q : hstate -> Prop) :
  (forall s, P s -> Q s) ->
  (forall s, P s -> match fin_step vh ofp s with FDone s' => Q s' | FCont s3 => P s3 end) ->
  forall f s, P s -> Q (finalize vh ofp f s).
Proof.
  intros H0 Hs. induction f as [|f IH]; intros s Hp; [cbn; auto|].
  rewrite finalize_S. specialize (Hs s Hp). destruct (fin_step vh ofp s); auto.
Qed.

(* ------------------------------------------------------------------ *)
(* Lifecycle invariant                                                  *)
(* ------------------------------------------------------------------ *)
Definition nonterm_ok (s : hstate) : Prop :=
  h_closes s = 0 /\ terminal s = false /\ is_panicked (h_rt s) = false.
Definition term_ok (s : hstate) : Prop :=
  h_closes s = 1 /\ terminal s = true /\ is_panicked (h_rt s) = false /\ (h_res s = true -> h_err s = None).
Definition life_ok (s : hstate) : Prop := nonterm_ok s \/ term_ok s.

Lemma terminal_eq s s' : h_err s' = h_err s -> h_res s' = h_res s -> terminal s' = terminal s.
Proof. unfold terminal; intros -> ->; reflexivity. Qed.

Lemma terminal_false s : terminal s = false <-> h_err s = None /\ h_res s = false.
Proof.
  unfold terminal. destruct (h_err s), (h_res s); cbn; split; try intros [? ?]; try discriminate; auto.
Qed.

Lemma abort_not_running s e : h_rt s <> Running -> abort s e = s.
Proof. unfold abort. destruct (h_rt s); congruence. Qed.

Lemma abort_some_running s ce :
  h_rt s = Running -> h_closes s = 0 ->
  h_err (abort s (Some ce)) = Some ce /\ h_closes (abort s (Some ce)) = 1 /\ h_rt (abort s (Some ce)) = Running.
Proof.
  intros Hr Hc. unfold abort, close_out. rewrite Hr, Hc. cbn. auto.
Qed.

Lemma abort_none_running s :
  h_rt s = Running -> h_closes s = 0 ->
  h_err (abort s None) = h_err s /\ h_closes (abort s None) = 1 /\ h_rt (abort s None) = Running
  /\ h_out (abort s None) = h_out s /\ h_pending (abort s None) = h_pending s.
Proof.
  intros Hr Hc. unfold abort, close_out. rewrite Hr, Hc. cbn. auto.
Qed.

Lemma emit_no_panic s o : h_closes s = 0 -> is_panicked (h_rt s) = false -> is_panicked (h_rt (emit s o)) = false.
Proof.
  intros Hc Hp. unfold emit. destruct (h_rt s) eqn:Hr; try (rewrite Hr; exact Hp).
  rewrite Hc. cbn [Nat.ltb Nat.leb]. dmatch; cbn; try rewrite Hr; reflexivity.
Qed.

Lemma emit_all_no_panic ofp l : forall s,
  h_closes s = 0 -> is_panicked (h_rt s) = false -> is_panicked (h_rt (emit_all ofp s l)) = false.
Proof.
  induction l as [|o l IH]; intros s Hc Hp; cbn [emit_all]; [exact Hp|].
  apply IH.
  - destruct (o_bcast o); autorewrite with hdb; exact Hc.
  - apply emit_no_panic; destruct (o_bcast o); autorewrite with hdb; assumption.
Qed.

Lemma nonterm_frame s s' :
  h_closes s' = h_closes s -> h_err s' = h_err s -> h_res s' = h_res s -> h_rt s' = h_rt s ->
  nonterm_ok s -> nonterm_ok s'.
Proof.
  intros Hc He Hres Hrt (A & B & C). unfold nonterm_ok.
  rewrite Hc, Hrt, (terminal_eq s s') by assumption. auto.
Qed.

Lemma nonterm_store s m : nonterm_ok s -> nonterm_ok (store s m).
Proof. apply nonterm_frame; autorewrite with hdb; reflexivity. Qed.

Lemma nonterm_ra vh s : nonterm_ok s -> nonterm_ok (snd (received_all vh s)).
Proof. apply nonterm_frame; autorewrite with hdb; reflexivity. Qed.

Lemma nonterm_emit_all ofp s l : nonterm_ok s -> nonterm_ok (emit_all ofp s l).
Proof.
  intros (A & B & C). unfold nonterm_ok. autorewrite with hdb.
  rewrite (terminal_eq s) by (autorewrite with hdb; reflexivity).
  auto using emit_all_no_panic.
Qed.

Lemma life_abort_some s ce : nonterm_ok s -> life_ok (abort s (Some ce)).
Proof.
  intros (A & B & C). destruct (h_rt s) eqn:Hr; try discriminate.
  - destruct (abort_some_running s ce Hr A) as (E & Cl & R).
    right. unfold term_ok. rewrite Cl, R. unfold terminal. rewrite E. autorewrite with hdb.
    apply terminal_false in B as [_ B]. rewrite B. cbn. repeat split; auto; discriminate.
  - rewrite abort_not_running by congruence. left. unfold nonterm_ok. rewrite Hr. auto.
Qed.

(* a panic of the round code is raised only while the session is running and the channel is open *)
Definition nonterm_raised (s : hstate) : Prop :=
  h_closes s = 0 /\ terminal s = false /\ h_rt s = Panicked 3.
Definition life_or_raised (s : hstate) : Prop := life_ok s \/ nonterm_raised s.

Lemma raise_nonterm s : nonterm_ok s -> nonterm_raised (raise_panic s).
Proof.
  intros (A & B & C). unfold nonterm_raised. autorewrite with hdb.
  rewrite (terminal_eq s) by (autorewrite with hdb; reflexivity). auto.
Qed.

Lemma fin_step_life vh ofp s :
  nonterm_ok s -> match fin_step vh ofp s with FDone s' => life_or_raised s' | FCont s3 => nonterm_ok s3 end.
Proof.
  intro H. unfold fin_step.
  destruct (h_rt s) eqn:Hr; try (left; left; exact H).
  destruct (h_cur s =? 0); [left; left; exact H|].
  pose proof (nonterm_ra vh s H) as H1.
  set (s1 := snd (received_all vh s)) in *.
  destruct (negb (fst (received_all vh s))); [left; left; exact H1|].
  destruct (negb (check_broadcast_hash s1)); [left; apply life_abort_some; exact H1|].
  destruct (fin_panics s1); [right; apply raise_nonterm; exact H1|].
  pose proof (nonterm_emit_all ofp s1 (round_outputs s1 (h_cur s1) (cur_bv s1)) H1) as H2.
  set (s2 := emit_all ofp s1 _) in *.
  destruct (h_rt s2) eqn:Hr2; try (left; left; exact H2).
  destruct (existsb _ _); [left; left; exact H2|].
  assert (H3 : nonterm_ok (advance s2 (next_round s1))).
  { revert H2. apply nonterm_frame; reflexivity. }
  destruct (next_round s1 =? 0).
  - destruct H3 as (A & B & C).
    destruct (abort_none_running (set_res (advance s2 (next_round s1)))) as (E & Cl & R & _); [exact Hr2|exact A|].
    left. right. unfold term_ok. rewrite Cl, R. unfold terminal. rewrite E. autorewrite with hdb.
    apply terminal_false in B as [B _]. unfold set_res, advance in *. prjs. prjs in B. rewrite B. cbn. auto.
  - destruct (first_bad _ _) as [[j []]|];
      [left; apply life_abort_some; exact H3 | left; apply life_abort_some; exact H3
      | left; apply life_abort_some; exact H3 | right; apply raise_nonterm; exact H3 | exact H3].
Qed.

Lemma finalize_life_raised vh ofp f s : nonterm_ok s -> life_or_raised (finalize vh ofp f s).
Proof.
  apply (finalize_ind vh ofp nonterm_ok life_or_raised); [intros; left; left; assumption|].
  apply fin_step_life.
Qed.

Lemma life_not_terminal s : life_ok s -> terminal s = false -> nonterm_ok s.
Proof. intros [H|(A & B & C)] T; [exact H|congruence]. Qed.

Lemma life_not_panicked s : life_ok s -> is_panicked (h_rt s) = false.
Proof. intros [(_ & _ & C)|(_ & _ & C & _)]; exact C. Qed.

(* the deferred recover: identity unless the body panicked *)
Lemma recover_abort_id s : is_panicked (h_rt s) = false -> recover_abort s = s.
Proof. unfold recover_abort. destruct (h_rt s); [reflexivity|discriminate|reflexivity]. Qed.

Lemma recover_abort_running s : h_rt s = Running -> recover_abort s = s.
Proof. intro H. apply recover_abort_id. rewrite H. reflexivity. Qed.

Lemma set_rt_running_nonterm s : nonterm_raised s -> nonterm_ok (set_rt s Running).
Proof.
  intros (A & B & C). unfold nonterm_ok. autorewrite with hdb.
  rewrite (terminal_eq s) by (autorewrite with hdb; reflexivity). auto.
Qed.

Lemma recover_raised s :
  terminal s = false -> is_panicked (h_rt s) = true ->
  recover_abort s = abort (set_rt s Running) (Some ([], EPanic)).
Proof.
  intros B C. unfold recover_abort. destruct (h_rt s); try discriminate. cbv zeta.
  rewrite (terminal_eq s (set_rt s Running)) by (autorewrite with hdb; reflexivity). rewrite B. reflexivity.
Qed.

Lemma recover_life s : life_or_raised s -> life_ok (recover_abort s).
Proof.
  intros [L|R].
  - rewrite recover_abort_id; [exact L|apply life_not_panicked; exact L].
  - rewrite recover_raised; [|apply R|destruct R as (_ & _ & ->); reflexivity].
    apply life_abort_some, set_rt_running_nonterm, R.
Qed.

Lemma accept_guard_terminal s m :
  (negb (can_accept s m) || (match h_err s with Some _ => true | None => false end) || h_res s || duplicate s m) = false ->
  can_accept s m = true /\ terminal s = false /\ duplicate s m = false.
Proof.
  intro H. apply orb_false_iff in H as [H D]. apply orb_false_iff in H as [H R].
  apply orb_false_iff in H as [C E]. apply negb_false_iff in C.
  unfold terminal. rewrite E, R. auto.
Qed.

Lemma accept_body_life vh ofp s m : life_ok s -> life_or_raised (accept_body vh ofp s m).
Proof.
  intro H. unfold accept_body.
  destruct (h_rt s) eqn:Hr; try (left; exact H).
  destruct (_ || _) eqn:G; [left; exact H|].
  apply accept_guard_terminal in G as (C & T & D).
  pose proof (life_not_terminal s H T) as Hn.
  destruct (m_round m =? 0); [left; apply life_abort_some; exact Hn|].
  pose proof (nonterm_store s m Hn) as H1.
  destruct (negb _); [left; left; exact H1|].
  destruct (if m_bcast m then _ else _);
    [apply finalize_life_raised; exact H1|left; apply life_abort_some; exact H1..|right; apply raise_nonterm; exact H1].
Qed.

Lemma accept_life vh ofp s m : life_ok s -> life_ok (accept vh ofp s m).
Proof.
  intro H. unfold accept. destruct (h_rt s); try exact H.
  apply recover_life, accept_body_life, H.
Qed.

(* accept is the body whenever the body does not panic; in particular when it changes nothing *)
Lemma accept_of_body vh ofp s m :
  is_panicked (h_rt (accept_body vh ofp s m)) = false -> accept vh ofp s m = accept_body vh ofp s m.
Proof.
  intro H. unfold accept. destruct (h_rt s) eqn:Hr.
  - apply recover_abort_id, H.
  - unfold accept_body. rewrite Hr. reflexivity.
  - unfold accept_body. rewrite Hr. reflexivity.
Qed.

Lemma accept_body_id_accept vh ofp s m : accept_body vh ofp s m = s -> accept vh ofp s m = s.
Proof.
  intro H. unfold accept. destruct (h_rt s) eqn:Hr; try reflexivity.
  rewrite H. apply recover_abort_running, Hr.
Qed.

(* ------------------------------------------------------------------ *)
(* Calm states: no queued message makes the round code panic            *)
(* ------------------------------------------------------------------ *)
Definition calm_q (q : list (nat * party * msg)) : Prop := forall r j m, In (r, j, m) q -> m_panic m = NoPanic.
Definition calm (s : hstate) : Prop := calm_q (h_qb s) /\ calm_q (h_qp s).

Lemma qget_In q r j m : qget q r j = Some m -> In (r, j, m) q.
Proof.
  induction q as [|[[r' j'] m'] q IH]; cbn [qget]; [discriminate|].
  destruct ((r' =? r) && (j' =? j)) eqn:E.
  - apply andb_true_iff in E as [E1 E2]. apply Nat.eqb_eq in E1, E2. subst.
    intro H; inversion H; subst. left; reflexivity.
  - intro H. right. apply IH, H.
Qed.

Lemma calm_q_existsb q r :
  calm_q q -> existsb (fun e => match e with (r', _, m) => (r' =? r) && panics_finalize m end) q = false.
Proof.
  intro C. induction q as [|[[r' j'] m'] q IH]; [reflexivity|]. cbn [existsb].
  rewrite IH by (intros r0 j0 m0 Hin; apply (C r0 j0 m0); right; exact Hin).
  unfold panics_finalize. rewrite (C r' j' m') by (left; reflexivity). rewrite andb_false_r. reflexivity.
Qed.

Lemma calm_fin_panics s : calm s -> fin_panics s = false.
Proof.
  intros [A B]. unfold fin_panics. cbv zeta.
  rewrite (calm_q_existsb _ _ A), (calm_q_existsb _ _ B), !andb_false_r. reflexivity.
Qed.

Lemma calm_verify_p2p s p : m_panic p = NoPanic -> verify_p2p s p <> VPanic.
Proof. intro H. unfold verify_p2p, panics_verify. rewrite H. dmatch; discriminate. Qed.

Lemma calm_verify_bcast s m : calm s -> m_panic m = NoPanic -> verify_bcast s m <> VPanic.
Proof.
  intros [_ C] H. unfold verify_bcast, panics_verify. rewrite H.
  destruct (negb (existsb _ _)); [discriminate|].
  destruct (negb (same_view s m)); [discriminate|].
  destruct (negb (sh_bcast _ _)); [discriminate|].
  destruct (negb (m_valid m)); [discriminate|].
  destruct (sh_p2p _ _); try discriminate;
    (destruct (qget (h_qp s) (m_round m) (m_from m)) as [p|] eqn:Q; [|discriminate];
     apply calm_verify_p2p; apply qget_In in Q; eapply C; exact Q).
Qed.

Lemma calm_first_bad s r j : calm s -> first_bad s r <> Some (j, VPanic).
Proof.
  intros C H. unfold first_bad in H. destruct (find _ _) as [j0|]; [|discriminate].
  injection H as H1 H2. subst j0. revert H2. unfold queued_verdict.
  destruct (sh_bcast (h_shape s) r).
  - destruct (qget (h_qb s) r j) as [x|] eqn:Q; [|discriminate].
    apply calm_verify_bcast; [exact C|]. apply qget_In in Q. destruct C as [Cb _]. eapply Cb; exact Q.
  - destruct (qget (h_qp s) r j) as [x|] eqn:Q; [|discriminate].
    apply calm_verify_p2p. apply qget_In in Q. destruct C as [_ Cp]. eapply Cp; exact Q.
Qed.

Lemma calm_frame s s' : h_qb s' = h_qb s -> h_qp s' = h_qp s -> calm s -> calm s'.
Proof. unfold calm. intros -> ->. auto. Qed.

Lemma calm_store s m : m_panic m = NoPanic -> calm s -> calm (store s m).
Proof.
  intros H [A B]. unfold calm, store. destruct (negb _); [split; assumption|].
  destruct (qget (queue_of s m) _ _); [split; assumption|].
  destruct (m_bcast m); prjs; split; try assumption;
    (intros r j x [E|Hin]; [inversion E; subst; exact H|eauto]).
Qed.

Lemma calm_emit_all ofp l : forall s, calm s -> calm (emit_all ofp s l).
Proof.
  induction l as [|o l IH]; intros s C; cbn [emit_all]; [exact C|]. apply IH.
  apply (calm_frame (if o_bcast o then store s (own_bcast_msg ofp s o) else s)); [autorewrite with hdb; reflexivity..|].
  destruct (o_bcast o); [apply calm_store; [reflexivity|exact C]|exact C].
Qed.

(* on a calm state finalize never raises a panic *)
Lemma fin_step_life_calm vh ofp s :
  calm s /\ nonterm_ok s ->
  match fin_step vh ofp s with FDone s' => life_ok s' /\ calm s' | FCont s3 => calm s3 /\ nonterm_ok s3 end.
Proof.
  intros [C H]. unfold fin_step.
  destruct (h_rt s) eqn:Hr; try (split; [left; exact H|exact C]).
  destruct (h_cur s =? 0); [split; [left; exact H|exact C]|].
  pose proof (nonterm_ra vh s H) as H1.
  assert (C1 : calm (snd (received_all vh s))) by (revert C; apply calm_frame; autorewrite with hdb; reflexivity).
  set (s1 := snd (received_all vh s)) in *.
  destruct (negb (fst (received_all vh s))); [split; [left; exact H1|exact C1]|].
  destruct (negb (check_broadcast_hash s1)).
  { split; [apply life_abort_some; exact H1|]. revert C1. apply calm_frame; autorewrite with hdb; reflexivity. }
  rewrite (calm_fin_panics s1 C1).
  pose proof (nonterm_emit_all ofp s1 (round_outputs s1 (h_cur s1) (cur_bv s1)) H1) as H2.
  pose proof (calm_emit_all ofp (round_outputs s1 (h_cur s1) (cur_bv s1)) s1 C1) as C2.
  set (s2 := emit_all ofp s1 _) in *.
  destruct (h_rt s2) eqn:Hr2; try (split; [left; exact H2|exact C2]).
  destruct (existsb _ _); [split; [left; exact H2|exact C2]|].
  assert (H3 : nonterm_ok (advance s2 (next_round s1))).
  { revert H2. apply nonterm_frame; reflexivity. }
  assert (C3 : calm (advance s2 (next_round s1))) by (revert C2; apply calm_frame; reflexivity).
  destruct (next_round s1 =? 0).
  - split; [|revert C3; apply calm_frame; autorewrite with hdb; reflexivity].
    destruct H3 as (A & B & Cc).
    destruct (abort_none_running (set_res (advance s2 (next_round s1)))) as (E & Cl & R & _); [exact Hr2|exact A|].
    right. unfold term_ok. rewrite Cl, R. unfold terminal. rewrite E. autorewrite with hdb.
    apply terminal_false in B as [B _]. unfold set_res, advance in *. prjs. prjs in B. rewrite B. cbn. auto.
  - destruct (first_bad _ _) as [[j v]|] eqn:F; [|split; assumption].
    assert (Cab : forall ce, calm (abort (advance s2 (next_round s1)) (Some ce)))
      by (intro ce; revert C3; apply calm_frame; autorewrite with hdb; reflexivity).
    destruct v; try (split; [apply life_abort_some; exact H3|apply Cab]).
    exfalso. exact (calm_first_bad _ _ _ C3 F).
Qed.

Lemma finalize_life_calm vh ofp f s : calm s -> nonterm_ok s -> life_ok (finalize vh ofp f s) /\ calm (finalize vh ofp f s).
Proof.
  intros C H.
  apply (finalize_ind vh ofp (fun x => calm x /\ nonterm_ok x) (fun x => life_ok x /\ calm x)); [| |auto].
  - intros x [Cx Hx]. split; [left; exact Hx|exact Cx].
  - apply fin_step_life_calm.
Qed.

Lemma stop_life s : life_ok s -> life_ok (stop true s).
Proof.
  intro H. unfold stop. destruct (h_rt s); try exact H.
  destruct (terminal s) eqn:T; [exact H|].
  apply life_abort_some. apply life_not_terminal; assumption.
Qed.

Lemma drain_life k s : life_ok s -> life_ok (drain k s).
Proof.
  unfold life_ok, nonterm_ok, term_ok. autorewrite with hdb.
  rewrite (terminal_eq s (drain k s)) by reflexivity. auto.
Qed.

Lemma init_nonterm self n ssid proto sh : nonterm_ok (init_state self n ssid proto sh).
Proof. repeat split. Qed.

Lemma init_calm self n ssid proto sh : calm (init_state self n ssid proto sh).
Proof. split; intros r j m []. Qed.

(* NewMultiHandler has no recover -- and needs none: no peer message exists yet *)
Lemma new_handler_life vh ofp self n ssid proto sh : life_ok (new_handler vh ofp self n ssid proto sh).
Proof. apply finalize_life_calm; [apply init_calm|apply init_nonterm]. Qed.

Lemma api_step_life vh ofp s e : life_ok s -> life_ok (api_step true vh ofp s e).
Proof. destruct e; cbn; auto using accept_life, stop_life, drain_life. Qed.

Lemma run_api_inv (P : hstate -> Prop) fixed vh ofp :
  (forall s e, P s -> P (api_step fixed vh ofp s e)) ->
  forall es s, P s -> P (run_api fixed vh ofp s es).
Proof.
  intros Hstep. induction es as [|e es IH]; intros s Hs; cbn; [exact Hs|].
  apply IH, Hstep, Hs.
Qed.

Lemma reachable_life vh ofp self n ssid proto sh s :
  reachable true vh ofp self n ssid proto sh s -> life_ok s.
Proof.
  intros [es ->]. apply run_api_inv; [intros; now apply api_step_life|apply new_handler_life].
Qed.

(* C17: lifecycle invariant on every reachable state (repaired Stop guard) *)
Theorem lifecycle_inv vh ofp self n ssid proto sh s :
  reachable true vh ofp self n ssid proto sh s ->
  h_closes s <= 1
  /\ (h_closes s = 1 <-> terminal s = true)
  /\ ~ (h_res s = true /\ h_err s <> None)
  /\ (forall w, h_rt s <> Panicked w).
Proof.
  intro R. apply reachable_life in R.
  destruct R as [(A & B & C)|(A & B & C & D)].
  - repeat split; try lia; try congruence.
    + apply terminal_false in B as [E Rz]. intros [X Y]; congruence.
    + intros w Hw; rewrite Hw in C; discriminate.
  - repeat split; try lia; try congruence.
    + intros [X Y]. auto.
    + intros w Hw; rewrite Hw in C; discriminate.
Qed.

(* ------------------------------------------------------------------ *)
(* C07 / C09 no-op lemmas                                               *)
(* ------------------------------------------------------------------ *)
Lemma reject_noop vh ofp s m : can_accept s m = false -> accept vh ofp s m = s.
Proof. intro H. apply accept_body_id_accept. unfold accept_body. rewrite H. cbn. destruct (h_rt s); reflexivity. Qed.

Lemma duplicate_noop vh ofp s m : duplicate s m = true -> accept vh ofp s m = s.
Proof.
  intro H. apply accept_body_id_accept. unfold accept_body. rewrite H. rewrite !orb_true_r. destruct (h_rt s); reflexivity.
Qed.

Lemma terminal_noop vh ofp s m : terminal s = true -> accept vh ofp s m = s.
Proof.
  intro H. apply accept_body_id_accept. unfold accept_body, terminal in *. destruct (h_rt s); try reflexivity.
  destruct (h_err s); [rewrite orb_true_r; reflexivity|].
  cbn in H. rewrite H. rewrite orb_true_r. reflexivity.
Qed.

Lemma not_running_noop vh ofp s m : h_rt s <> Running -> accept vh ofp s m = s.
Proof. intro H. unfold accept. destruct (h_rt s); congruence. Qed.

(* can_accept is exactly this conjunction of header conditions *)
Definition can_accept_spec (s : hstate) (m : msg) : Prop :=
  m_from m <> h_self s
  /\ (m_to m = None \/ m_to m = Some (h_self s))
  /\ m_proto m = h_proto s
  /\ m_ssid m = h_ssid s
  /\ m_from m < h_n s
  /\ m_data m = true
  /\ m_round m <= sh_final (h_shape s)
  /\ (m_round m = 0 \/ h_cur s <= m_round m).

Lemma is_for_spec self m :
  is_for self m = true <-> m_from m <> self /\ (m_to m = None \/ m_to m = Some self).
Proof.
  unfold is_for. rewrite andb_true_iff, negb_true_iff, Nat.eqb_neq.
  destruct (m_to m) as [t|].
  - rewrite Nat.eqb_eq. split.
    + intros [A B]. split; [exact A|right; congruence].
    + intros [A [B|B]]; [discriminate|]. split; [exact A|congruence].
  - split; intros [A B]; auto.
Qed.

Lemma can_accept_total_spec s m : can_accept s m = true <-> can_accept_spec s m.
Proof.
  unfold can_accept, can_accept_spec.
  rewrite !andb_true_iff, is_for_spec, !N.eqb_eq, Nat.ltb_lt, Nat.leb_le, negb_true_iff, andb_false_iff, !Nat.ltb_ge.
  intuition lia.
Qed.

(* the header of a message: everything [can_accept] may depend on *)
Definition same_header (m m' : msg) : Prop :=
  m_ssid m = m_ssid m' /\ m_proto m = m_proto m' /\ m_from m = m_from m' /\ m_to m = m_to m'
  /\ m_round m = m_round m' /\ m_data m = m_data m'.

Lemma can_accept_header_only s m m' : same_header m m' -> can_accept s m = can_accept s m'.
Proof.
  intros (A & B & C & D & E & F). unfold can_accept, is_for. rewrite A, B, C, D, E, F. reflexivity.
Qed.

Lemma foreign_session_rejected s m :
  m_ssid m <> h_ssid s \/ m_proto m <> h_proto s \/ ~ (m_from m < h_n s) \/ is_for (h_self s) m = false ->
  can_accept s m = false.
Proof.
  intro H. destruct (can_accept s m) eqn:C; [|reflexivity].
  apply can_accept_total_spec in C. destruct C as (A & B & C & D & E & _).
  destruct H as [H|[H|[H|H]]]; try contradiction; try congruence.
  assert (is_for (h_self s) m = true) by (apply is_for_spec; auto). congruence.
Qed.

Lemma foreign_session_noop vh ofp s m :
  m_ssid m <> h_ssid s \/ m_proto m <> h_proto s \/ ~ (m_from m < h_n s) \/ is_for (h_self s) m = false ->
  accept vh ofp s m = s.
Proof. intro H. apply reject_noop, foreign_session_rejected, H. Qed.

Lemma stale_round_rejected s m : 0 < m_round m < h_cur s -> can_accept s m = false.
Proof.
  intro H. destruct (can_accept s m) eqn:C; [|reflexivity].
  apply can_accept_total_spec in C. unfold can_accept_spec in C. lia.
Qed.

Lemma future_round_rejected s m : sh_final (h_shape s) < m_round m -> can_accept s m = false.
Proof.
  intro H. destruct (can_accept s m) eqn:C; [|reflexivity].
  apply can_accept_total_spec in C. unfold can_accept_spec in C. lia.
Qed.

(* ------------------------------------------------------------------ *)
(* Queue slots only ever get filled, never overwritten                  *)
(* ------------------------------------------------------------------ *)
Definition slot (s : hstate) (b : bool) (r : nat) (j : party) : option msg :=
  qget (if b then h_qb s else h_qp s) r j.

Lemma slot_frame s s' b r j : h_qb s' = h_qb s -> h_qp s' = h_qp s -> slot s' b r j = slot s b r j.
Proof. unfold slot. intros -> ->. reflexivity. Qed.

Lemma qget_cons_other q r j r' j' m x :
  qget q r j = Some x -> qget q r' j' = None -> qget ((r', j', m) :: q) r j = Some x.
Proof.
  intros H N. cbn. destruct ((r' =? r) && (j' =? j)) eqn:E; [|exact H].
  apply andb_true_iff in E as [E1 E2]. apply Nat.eqb_eq in E1, E2. subst. congruence.
Qed.

Lemma store_slot_mono s m b r j x : slot s b r j = Some x -> slot (store s m) b r j = Some x.
Proof.
  unfold slot, store, queue_of. intro H.
  destruct (negb (has_queue s (m_round m))); [exact H|].
  destruct (m_bcast m) eqn:Bm.
  - destruct (qget (h_qb s) (m_round m) (m_from m)) eqn:Q; [exact H|].
    destruct b; prjs; [|exact H]. apply qget_cons_other; assumption.
  - destruct (qget (h_qp s) (m_round m) (m_from m)) eqn:Q; [exact H|].
    destruct b; prjs; [exact H|]. apply qget_cons_other; assumption.
Qed.

Lemma store_slot_new s m :
  has_queue s (m_round m) = true -> slot s (m_bcast m) (m_round m) (m_from m) = None ->
  slot (store s m) (m_bcast m) (m_round m) (m_from m) = Some m.
Proof.
  unfold slot, store, queue_of. intros Hq N. rewrite Hq. cbn [negb].
  destruct (m_bcast m); rewrite N; prjs; cbn; rewrite !Nat.eqb_refl; reflexivity.
Qed.

Lemma emit_all_slot_mono ofp l b r j x : forall s, slot s b r j = Some x -> slot (emit_all ofp s l) b r j = Some x.
Proof.
  induction l as [|o l IH]; intros s H; cbn [emit_all]; [exact H|].
  apply IH. rewrite (slot_frame (if o_bcast o then store s (own_bcast_msg ofp s o) else s)) by (autorewrite with hdb; reflexivity).
  destruct (o_bcast o); [apply store_slot_mono|]; exact H.
Qed.

Lemma fin_step_slot_mono vh ofp b r j x s :
  slot s b r j = Some x ->
  match fin_step vh ofp s with FDone s' => slot s' b r j = Some x | FCont s3 => slot s3 b r j = Some x end.
Proof.
  intro H. unfold fin_step.
  destruct (h_rt s); try exact H.
  destruct (h_cur s =? 0); [exact H|].
  assert (H1 : slot (snd (received_all vh s)) b r j = Some x)
    by (rewrite (slot_frame s) by (autorewrite with hdb; reflexivity); exact H).
  set (s1 := snd (received_all vh s)) in *.
  destruct (negb (fst _)); [exact H1|].
  destruct (negb (check_broadcast_hash s1)).
  { rewrite (slot_frame s1) by (autorewrite with hdb; reflexivity); exact H1. }
  destruct (fin_panics s1).
  { rewrite (slot_frame s1) by (autorewrite with hdb; reflexivity); exact H1. }
  pose proof (emit_all_slot_mono ofp (round_outputs s1 (h_cur s1) (cur_bv s1)) b r j x s1 H1) as H2.
  set (s2 := emit_all ofp s1 _) in *.
  destruct (h_rt s2); try exact H2.
  destruct (existsb _ _); [exact H2|].
  destruct (_ =? 0).
  { rewrite (slot_frame s2) by (autorewrite with hdb; reflexivity); exact H2. }
  destruct (first_bad _ _) as [[j0 []]|]; [| | | |exact H2];
    (rewrite (slot_frame s2) by (autorewrite with hdb; reflexivity); exact H2).
Qed.

Lemma finalize_slot_mono vh ofp f b r j x s :
  slot s b r j = Some x -> slot (finalize vh ofp f s) b r j = Some x.
Proof.
  apply (finalize_ind vh ofp (fun s => slot s b r j = Some x) (fun s => slot s b r j = Some x)); [auto|].
  intros; now apply fin_step_slot_mono.
Qed.

Lemma accept_body_slot_mono vh ofp s m b r j x : slot s b r j = Some x -> slot (accept_body vh ofp s m) b r j = Some x.
Proof.
  intro H. unfold accept_body. destruct (h_rt s); try exact H.
  destruct (_ || _); [exact H|].
  destruct (m_round m =? 0).
  { rewrite (slot_frame s) by (autorewrite with hdb; reflexivity); exact H. }
  pose proof (store_slot_mono s m b r j x H) as H1.
  destruct (negb _); [exact H1|].
  destruct (if m_bcast m then _ else _); [apply finalize_slot_mono; exact H1| | |];
    (rewrite (slot_frame (store s m)) by (autorewrite with hdb; reflexivity); exact H1).
Qed.

(* the recovery leaves the queues alone: a message the round code panicked on stays stored *)
Lemma recover_slot s b r j : slot (recover_abort s) b r j = slot s b r j.
Proof. apply slot_frame; autorewrite with hdb; reflexivity. Qed.

Lemma accept_slot_body vh ofp s m b r j : slot (accept vh ofp s m) b r j = slot (accept_body vh ofp s m) b r j.
Proof.
  unfold accept. destruct (h_rt s) eqn:Hr; [apply recover_slot| |]; unfold accept_body; rewrite Hr; reflexivity.
Qed.

Lemma accept_slot_mono vh ofp s m b r j x : slot s b r j = Some x -> slot (accept vh ofp s m) b r j = Some x.
Proof. intro H. rewrite accept_slot_body. apply accept_body_slot_mono, H. Qed.

Lemma stop_slot fixed s b r j : slot (stop fixed s) b r j = slot s b r j.
Proof.
  unfold stop. destruct (h_rt s); try reflexivity.
  destruct fixed, (terminal s); try reflexivity; apply slot_frame; autorewrite with hdb; reflexivity.
Qed.

Lemma api_step_slot_mono fixed vh ofp s e b r j x :
  slot s b r j = Some x -> slot (api_step fixed vh ofp s e) b r j = Some x.
Proof.
  intro H. destruct e; cbn.
  - now apply accept_slot_mono.
  - now rewrite stop_slot.
  - exact H.
Qed.

Lemma run_api_slot_mono fixed vh ofp es s b r j x :
  slot s b r j = Some x -> slot (run_api fixed vh ofp s es) b r j = Some x.
Proof.
  apply (run_api_inv (fun s => slot s b r j = Some x)). intros; now apply api_step_slot_mono.
Qed.

Lemma duplicate_of_slot s m x : 0 < m_round m -> slot s (m_bcast m) (m_round m) (m_from m) = Some x -> duplicate s m = true.
Proof.
  unfold duplicate, slot, queue_of. intros R H.
  destruct (m_round m =? 0) eqn:E; [apply Nat.eqb_eq in E; lia|].
  destruct (negb _); [reflexivity|]. rewrite H. reflexivity.
Qed.

Lemma duplicate_false_slot s m :
  duplicate s m = false -> 0 < m_round m ->
  has_queue s (m_round m) = true /\ slot s (m_bcast m) (m_round m) (m_from m) = None.
Proof.
  unfold duplicate, slot, queue_of. intros D R.
  destruct (m_round m =? 0) eqn:E; [apply Nat.eqb_eq in E; lia|].
  destruct (has_queue s (m_round m)); cbn in D; [|discriminate].
  destruct (qget _ _ _); [discriminate|auto].
Qed.

(* an accepted, fresh message is stored in its slot *)
Lemma accept_stores vh ofp s m :
  h_rt s = Running -> can_accept s m = true -> terminal s = false -> duplicate s m = false -> 0 < m_round m ->
  slot (accept vh ofp s m) (m_bcast m) (m_round m) (m_from m) = Some m.
Proof.
  intros Hr C T D R. rewrite accept_slot_body. unfold accept_body. rewrite Hr, C, D.
  apply terminal_false in T as [E Rs]. rewrite E, Rs. cbn [negb orb].
  destruct (m_round m =? 0) eqn:E0; [apply Nat.eqb_eq in E0; lia|].
  destruct (duplicate_false_slot s m D R) as [Hq N].
  pose proof (store_slot_new s m Hq N) as H1.
  destruct (negb _); [exact H1|].
  destruct (if m_bcast m then _ else _); [apply finalize_slot_mono; exact H1| | |];
    (rewrite (slot_frame (store s m)) by (autorewrite with hdb; reflexivity); exact H1).
Qed.

Theorem first_message_wins fixed vh ofp s m m' :
  h_rt s = Running -> can_accept s m = true -> terminal s = false -> duplicate s m = false -> 0 < m_round m ->
  m_round m' = m_round m -> m_from m' = m_from m -> m_bcast m' = m_bcast m ->
  let s1 := accept vh ofp s m in
  slot s1 (m_bcast m) (m_round m) (m_from m) = Some m
  /\ accept vh ofp s1 m' = s1
  /\ (forall es, let s2 := run_api fixed vh ofp s1 es in
                 slot s2 (m_bcast m) (m_round m) (m_from m) = Some m /\ accept vh ofp s2 m' = s2).
Proof.
  intros Hr C T D R E1 E2 E3 s1.
  pose proof (accept_stores vh ofp s m Hr C T D R) as H. fold s1 in H.
  assert (G : forall s2, slot s2 (m_bcast m) (m_round m) (m_from m) = Some m -> accept vh ofp s2 m' = s2).
  { intros s2 H2. apply duplicate_noop. apply (duplicate_of_slot s2 m' m); [lia|]. rewrite E1, E2, E3. exact H2. }
  split; [exact H|]. split; [apply G, H|].
  intros es s2. assert (H2 : slot s2 (m_bcast m) (m_round m) (m_from m) = Some m) by (apply run_api_slot_mono, H).
  split; [exact H2|apply G, H2].
Qed.

(* ------------------------------------------------------------------ *)
(* C17: terminal states are stable; Stop                                *)
(* ------------------------------------------------------------------ *)
Lemma stop_finished_noop s : terminal s = true -> stop true s = s.
Proof. intro H. unfold stop. rewrite H. destruct (h_rt s); reflexivity. Qed.

Definition same_but_pending (s s' : hstate) : Prop :=
  h_self s' = h_self s /\ h_n s' = h_n s /\ h_ssid s' = h_ssid s /\ h_proto s' = h_proto s /\ h_shape s' = h_shape s
  /\ h_cur s' = h_cur s /\ h_reached s' = h_reached s /\ h_qb s' = h_qb s /\ h_qp s' = h_qp s /\ h_hashes s' = h_hashes s
  /\ h_err s' = h_err s /\ h_res s' = h_res s /\ h_out s' = h_out s /\ h_closes s' = h_closes s /\ h_rt s' = h_rt s.

Lemma same_but_pending_refl s : same_but_pending s s.
Proof. repeat split. Qed.

Lemma same_but_pending_trans s1 s2 s3 : same_but_pending s1 s2 -> same_but_pending s2 s3 -> same_but_pending s1 s3.
Proof. unfold same_but_pending. intuition congruence. Qed.

Lemma same_but_pending_drain k s : same_but_pending s (drain k s).
Proof. unfold same_but_pending. autorewrite with hdb. repeat split. Qed.

Lemma same_but_pending_terminal s s' : same_but_pending s s' -> terminal s' = terminal s.
Proof. intros H. apply terminal_eq; apply H. Qed.

Lemma same_but_pending_result_class s s' : same_but_pending s s' -> result_class s' = result_class s.
Proof. intros H. unfold result_class. destruct H as (_&_&_&_&_&_&_&_&_&_&E&R&_). rewrite E, R. reflexivity. Qed.


Theorem terminal_stable_step vh ofp s e :
  terminal s = true ->
  let s' := api_step true vh ofp s e in
  same_but_pending s s' /\ ((forall k, e <> Drain k) -> s' = s).
Proof.
  intros T s'. subst s'. destruct e; cbn.
  - rewrite terminal_noop by exact T. split; [apply same_but_pending_refl|reflexivity].
  - rewrite stop_finished_noop by exact T. split; [apply same_but_pending_refl|reflexivity].
  - split; [apply same_but_pending_drain|]. intro H. exfalso. apply (H k). reflexivity.
Qed.

Lemma run_api_cons fixed vh ofp s e es :
  run_api fixed vh ofp s (e :: es) = run_api fixed vh ofp (api_step fixed vh ofp s e) es.
Proof. reflexivity. Qed.

Theorem terminal_stable vh ofp es : forall s,
  terminal s = true ->
  let s' := run_api true vh ofp s es in
  same_but_pending s s' /\ terminal s' = true /\ result_class s' = result_class s.
Proof.
  induction es as [|e es IH]; intros s T s'; subst s'.
  - cbn. split; [apply same_but_pending_refl|auto].
  - rewrite run_api_cons.
    destruct (terminal_stable_step vh ofp s e T) as [H _]. cbv zeta in H.
    assert (T1 : terminal (api_step true vh ofp s e) = true) by (rewrite (same_but_pending_terminal s); assumption).
    destruct (IH _ T1) as (A & B & C). cbv zeta in A, B, C.
    split; [eapply same_but_pending_trans; eassumption|]. split; [exact B|].
    rewrite C. apply same_but_pending_result_class, H.
Qed.

Lemma stop_ends_running_life s :
  life_ok s -> terminal s = false -> h_rt s = Running ->
  let s' := stop true s in
  result_class s' = 2 /\ h_closes s' = 1 /\ h_err s' = Some ([h_self s], EUser).
Proof.
  intros L T Hr s'. subst s'. unfold stop. rewrite Hr, T.
  destruct (life_not_terminal s L T) as (A & _ & _).
  destruct (abort_some_running s ([h_self s], EUser) Hr A) as (E & Cl & R).
  unfold result_class. rewrite E. autorewrite with hdb.
  apply terminal_false in T as [_ T]. rewrite T. auto.
Qed.

Theorem stop_ends_running vh ofp self n ssid proto sh s :
  reachable true vh ofp self n ssid proto sh s ->
  terminal s = false -> h_rt s = Running ->
  let s' := stop true s in
  result_class s' = 2 /\ h_closes s' = 1 /\ h_err s' = Some ([h_self s], EUser).
Proof. intro R. apply stop_ends_running_life. eapply reachable_life; eassumption. Qed.

(* C05: accept never panics, whatever the message *)
Theorem accept_no_panic vh ofp self n ssid proto sh s m :
  reachable true vh ofp self n ssid proto sh s ->
  forall w, h_rt (accept vh ofp s m) <> Panicked w.
Proof.
  intros R w Hw. apply reachable_life in R. apply (accept_life vh ofp s m) in R.
  destruct R as [(_ & _ & C)|(_ & _ & C & _)]; rewrite Hw in C; discriminate.
Qed.

(* ------------------------------------------------------------------ *)
(* Further invariants: current round is reached; queue keys; static    *)
(* ------------------------------------------------------------------ *)
Definition cur_reached (s : hstate) : Prop := existsb (Nat.eqb (h_cur s)) (h_reached s) = true.

Definition wf_queues (s : hstate) : Prop :=
  (forall r j m, qget (h_qb s) r j = Some m -> m_round m = r /\ m_from m = j /\ m_bcast m = true)
  /\ (forall r j m, qget (h_qp s) r j = Some m -> m_round m = r /\ m_from m = j /\ m_bcast m = false).

(* culprit lists have the shape their error kind promises; EFinalize / EProtoAbort are never produced by the
   control model (they come from the protocol's own Finalize) *)
Definition err_shape (s : hstate) : Prop :=
  match h_err s with
  | None => True
  | Some (c, k) =>
      match k with
      | EBroadcastHash | EPanic => c = []
      | EUser => c = [h_self s]
      | EAbortNotice | EVerify => exists j, c = [j] /\ j <> h_self s
      | _ => False
      end
  end.

Definition hinv (s : hstate) : Prop := cur_reached s /\ wf_queues s /\ err_shape s.

Lemma hinv_frame s s' :
  h_self s' = h_self s -> h_cur s' = h_cur s -> h_reached s' = h_reached s -> h_qb s' = h_qb s -> h_qp s' = h_qp s ->
  h_err s' = h_err s -> hinv s -> hinv s'.
Proof.
  unfold hinv, cur_reached, wf_queues, err_shape. intros -> -> -> -> -> ->. auto.
Qed.

Lemma abort_none_err s : h_err (abort s None) = h_err s.
Proof. unfold abort, close_out. dmatch; cbn; dmatch; reflexivity. Qed.

Lemma abort_err_cases s ce : h_err (abort s (Some ce)) = Some ce \/ h_err (abort s (Some ce)) = h_err s.
Proof. unfold abort, close_out, set_rt. dmatch; cbn; dmatch; cbn; auto. Qed.

Lemma hinv_abort s c k :
  match k with
  | EBroadcastHash | EPanic => c = []
  | EUser => c = [h_self s]
  | EAbortNotice | EVerify => exists j, c = [j] /\ j <> h_self s
  | _ => False
  end ->
  hinv s -> hinv (abort s (Some (c, k))).
Proof.
  intros Hk (A & B & C). split; [|split].
  - unfold cur_reached in *. autorewrite with hdb. exact A.
  - unfold wf_queues in *. autorewrite with hdb. exact B.
  - unfold err_shape in *. rewrite abort_h_self.
    destruct (abort_err_cases s (c, k)) as [E|E]; rewrite E; [exact Hk|exact C].
Qed.

Lemma hinv_abort_none s : hinv s -> hinv (abort s None).
Proof. apply hinv_frame; autorewrite with hdb; try reflexivity. apply abort_none_err. Qed.

Lemma wf_store s m : wf_queues s -> wf_queues (store s m).
Proof.
  intros [A B]. unfold wf_queues, store, queue_of.
  destruct (negb _); [split; assumption|].
  destruct (m_bcast m) eqn:Bm.
  - destruct (qget (h_qb s) _ _); [split; assumption|]. prjs. split; [|exact B].
    intros r j x. cbn [qget]. destruct ((m_round m =? r) && (m_from m =? j)) eqn:E; [|apply A].
    apply andb_true_iff in E as [E1 E2]. apply Nat.eqb_eq in E1, E2. intro H; inversion H; subst. auto.
  - destruct (qget (h_qp s) _ _); [split; assumption|]. prjs. split; [exact A|].
    intros r j x. cbn [qget]. destruct ((m_round m =? r) && (m_from m =? j)) eqn:E; [|apply B].
    apply andb_true_iff in E as [E1 E2]. apply Nat.eqb_eq in E1, E2. intro H; inversion H; subst. auto.
Qed.

Lemma hinv_store s m : hinv s -> hinv (store s m).
Proof.
  intros (A & B & C). split; [|split].
  - unfold cur_reached in *. autorewrite with hdb. exact A.
  - apply wf_store, B.
  - unfold err_shape in *. autorewrite with hdb. exact C.
Qed.

Lemma hinv_emit s o : hinv s -> hinv (emit s o).
Proof. apply hinv_frame; autorewrite with hdb; reflexivity. Qed.

Lemma hinv_emit_all ofp l : forall s, hinv s -> hinv (emit_all ofp s l).
Proof.
  induction l as [|o l IH]; intros s H; cbn [emit_all]; [exact H|].
  apply IH, hinv_emit. destruct (o_bcast o); [apply hinv_store|]; exact H.
Qed.

Lemma others_spec s j : In j (others s) <-> j < h_n s /\ j <> h_self s.
Proof.
  unfold others. rewrite filter_In, in_seq, negb_true_iff, Nat.eqb_neq. intuition lia.
Qed.

Lemma first_bad_spec s r j v :
  first_bad s r = Some (j, v) -> In j (others s) /\ v = queued_verdict s r j /\ vres_ok v = false.
Proof.
  unfold first_bad. destruct (find _ _) as [j0|] eqn:F; [|discriminate].
  intro H. inversion H; subst. apply find_some in F as [F1 F2]. apply negb_true_iff in F2. auto.
Qed.

Lemma first_bad_in s r j v : first_bad s r = Some (j, v) -> In j (others s).
Proof. intro H. apply (first_bad_spec s r j v H). Qed.

Lemma fin_step_hinv vh ofp s :
  hinv s -> match fin_step vh ofp s with FDone s' => hinv s' | FCont s3 => hinv s3 end.
Proof.
  intro H. unfold fin_step.
  destruct (h_rt s); try exact H.
  destruct (h_cur s =? 0); [exact H|].
  assert (H1 : hinv (snd (received_all vh s))) by (revert H; apply hinv_frame; autorewrite with hdb; reflexivity).
  set (s1 := snd (received_all vh s)) in *.
  destruct (negb (fst _)); [exact H1|].
  destruct (negb (check_broadcast_hash s1)); [apply hinv_abort; [reflexivity|exact H1]|].
  destruct (fin_panics s1); [revert H1; apply hinv_frame; autorewrite with hdb; reflexivity|].
  pose proof (hinv_emit_all ofp (round_outputs s1 (h_cur s1) (cur_bv s1)) s1 H1) as H2.
  set (s2 := emit_all ofp s1 _) in *.
  destruct (h_rt s2); try exact H2.
  destruct (existsb _ _); [exact H2|].
  assert (H3 : hinv (advance s2 (next_round s1))).
  { destruct H2 as (A & B & C). split; [|split; [exact B|exact C]].
    unfold cur_reached, advance. prjs. cbn [existsb]. rewrite Nat.eqb_refl. reflexivity. }
  destruct (_ =? 0).
  { apply hinv_abort_none. revert H3. apply hinv_frame; reflexivity. }
  destruct (first_bad _ _) as [[j v]|] eqn:F; [|exact H3].
  apply first_bad_in, others_spec in F.
  destruct v; [| | |revert H3; apply hinv_frame; autorewrite with hdb; reflexivity];
    apply hinv_abort; try exact H3; try reflexivity; (exists j; split; [reflexivity|apply F]).
Qed.

Lemma finalize_hinv vh ofp f s : hinv s -> hinv (finalize vh ofp f s).
Proof. apply (finalize_ind vh ofp hinv hinv); [auto|apply fin_step_hinv]. Qed.

Lemma recover_hinv s : hinv s -> hinv (recover_abort s).
Proof.
  intro H. unfold recover_abort. destruct (h_rt s); try exact H. cbv zeta.
  assert (H0 : hinv (set_rt s Running)) by (revert H; apply hinv_frame; autorewrite with hdb; reflexivity).
  destruct (terminal _); [exact H0|]. apply hinv_abort; [reflexivity|exact H0].
Qed.

Lemma accept_hinv vh ofp s m : hinv s -> hinv (accept vh ofp s m).
Proof.
  intro H. unfold accept. destruct (h_rt s) eqn:Hrt; try exact H. apply recover_hinv.
  unfold accept_body. rewrite Hrt.
  destruct (_ || _) eqn:G; [exact H|].
  apply accept_guard_terminal in G as (C & _ & _).
  apply can_accept_total_spec in C. destruct C as (C & _).
  destruct (m_round m =? 0).
  { apply hinv_abort; [|exact H]. exists (m_from m). auto. }
  pose proof (hinv_store s m H) as H1.
  destruct (negb _); [exact H1|].
  destruct (if m_bcast m then _ else _); [apply finalize_hinv; exact H1| | |].
  - apply hinv_abort; [|exact H1]. exists (m_from m). autorewrite with hdb. auto.
  - apply hinv_abort; [reflexivity|exact H1].
  - revert H1. apply hinv_frame; autorewrite with hdb; reflexivity.
Qed.

Lemma stop_hinv fixed s : hinv s -> hinv (stop fixed s).
Proof.
  intro H. unfold stop. destruct (h_rt s); try exact H.
  destruct fixed, (terminal s); try exact H; apply hinv_abort; auto.
Qed.

Lemma drain_hinv k s : hinv s -> hinv (drain k s).
Proof. apply hinv_frame; reflexivity. Qed.

Lemma init_hinv self n ssid proto sh : hinv (init_state self n ssid proto sh).
Proof. repeat split; cbn; discriminate. Qed.

Lemma reachable_hinv fixed vh ofp self n ssid proto sh s :
  reachable fixed vh ofp self n ssid proto sh s -> hinv s.
Proof.
  intros [es ->]. apply run_api_inv.
  - intros s e H. destruct e; cbn; auto using accept_hinv, stop_hinv, drain_hinv.
  - apply finalize_hinv, init_hinv.
Qed.


Definition same_static (s s' : hstate) : Prop :=
  h_self s' = h_self s /\ h_n s' = h_n s /\ h_ssid s' = h_ssid s /\ h_proto s' = h_proto s /\ h_shape s' = h_shape s.

Lemma same_static_frame s0 s s' :
  h_self s' = h_self s -> h_n s' = h_n s -> h_ssid s' = h_ssid s -> h_proto s' = h_proto s -> h_shape s' = h_shape s ->
  same_static s0 s -> same_static s0 s'.
Proof. unfold same_static. intros -> -> -> -> ->. auto. Qed.

Ltac sframe := apply same_static_frame; autorewrite with hdb; reflexivity.

Lemma fin_step_static vh ofp s0 s :
  same_static s0 s -> match fin_step vh ofp s with FDone s' => same_static s0 s' | FCont s3 => same_static s0 s3 end.
Proof.
  intro H. unfold fin_step.
  destruct (h_rt s); try exact H.
  destruct (h_cur s =? 0); [exact H|].
  assert (H1 : same_static s0 (snd (received_all vh s))) by (revert H; sframe).
  set (s1 := snd (received_all vh s)) in *.
  destruct (negb (fst _)); [exact H1|].
  destruct (negb (check_broadcast_hash s1)); [revert H1; sframe|].
  destruct (fin_panics s1); [revert H1; sframe|].
  assert (H2 : same_static s0 (emit_all ofp s1 (round_outputs s1 (h_cur s1) (cur_bv s1)))) by (revert H1; sframe).
  set (s2 := emit_all ofp s1 _) in *.
  destruct (h_rt s2); try exact H2.
  destruct (existsb _ _); [exact H2|].
  destruct (_ =? 0); [revert H2; sframe|].
  destruct (first_bad _ _) as [[j []]|]; [revert H2; sframe..|exact H2].
Qed.

Lemma finalize_static vh ofp f s0 s : same_static s0 s -> same_static s0 (finalize vh ofp f s).
Proof. apply (finalize_ind vh ofp (same_static s0) (same_static s0)); [auto|apply fin_step_static]. Qed.

Lemma accept_body_static vh ofp s m : same_static s (accept_body vh ofp s m).
Proof.
  assert (H : same_static s s) by (repeat split).
  unfold accept_body. destruct (h_rt s); try exact H.
  destruct (_ || _); [exact H|].
  destruct (m_round m =? 0); [revert H; sframe|].
  destruct (negb _); [revert H; sframe|].
  destruct (if m_bcast m then _ else _); [apply finalize_static| | |]; revert H; sframe.
Qed.

Lemma accept_static vh ofp s m : same_static s (accept vh ofp s m).
Proof.
  unfold accept. destruct (h_rt s); [|repeat split..].
  generalize (accept_body_static vh ofp s m). sframe.
Qed.

Lemma api_step_static fixed vh ofp s e : same_static s (api_step fixed vh ofp s e).
Proof.
  destruct e; cbn.
  - apply accept_static.
  - assert (H : same_static s s) by (repeat split).
    unfold stop. destruct (h_rt s); try exact H. destruct fixed, (terminal s); try exact H; revert H; sframe.
  - repeat split.
Qed.

Lemma run_api_static fixed vh ofp es : forall s, same_static s (run_api fixed vh ofp s es).
Proof.
  induction es as [|e es IH]; intro s; [repeat split|].
  rewrite run_api_cons. specialize (IH (api_step fixed vh ofp s e)).
  pose proof (api_step_static fixed vh ofp s e) as H. unfold same_static in *. intuition congruence.
Qed.

Lemma new_handler_static vh ofp self n ssid proto sh :
  same_static (init_state self n ssid proto sh) (new_handler vh ofp self n ssid proto sh).
Proof. apply finalize_static. repeat split. Qed.

Theorem reachable_static fixed vh ofp self n ssid proto sh s :
  reachable fixed vh ofp self n ssid proto sh s ->
  h_self s = self /\ h_n s = n /\ h_ssid s = ssid /\ h_proto s = proto /\ h_shape s = sh.
Proof.
  intros [es ->].
  pose proof (run_api_static fixed vh ofp es (new_handler vh ofp self n ssid proto sh)) as H.
  pose proof (new_handler_static vh ofp self n ssid proto sh) as H0.
  unfold same_static in *. cbn in H0. intuition congruence.
Qed.

(* ------------------------------------------------------------------ *)
(* C05: an invalid message of the current round ends in a clean abort   *)
(* ------------------------------------------------------------------ *)
Lemma same_view_frame s s' m : h_hashes s' = h_hashes s -> same_view s' m = same_view s m.
Proof. unfold same_view. intros ->. reflexivity. Qed.

(* the verdict on a fresh message of the current round that is processed now *)
Lemma current_verdict s m :
  cur_reached s -> m_round m = h_cur s ->
  (m_bcast m = true \/ sh_bcast (h_shape s) (m_round m) = false \/ slot s true (m_round m) (m_from m) <> None) ->
  (same_view s m = false ->
     (if m_bcast m then verify_bcast (store s m) m else verify_p2p (store s m) m) = VHash)
  /\ (same_view s m = true -> m_valid m = false ->
     (if m_bcast m then verify_bcast (store s m) m else verify_p2p (store s m) m) = VBad).
Proof.
  intros CR Ecur Now.
  unfold verify_bcast, verify_p2p. rewrite (same_view_frame s (store s m)) by (autorewrite with hdb; reflexivity).
  autorewrite with hdb. rewrite Ecur. unfold cur_reached in CR. rewrite CR. cbn [negb].
  rewrite <- Ecur.
  destruct (m_bcast m) eqn:Bm.
  - split; [intros ->; reflexivity|]. intros -> V. cbn [negb].
    destruct (sh_bcast _ _); [|reflexivity]. cbn [negb]. rewrite V. reflexivity.
  - rewrite store_p2p_h_qb by exact Bm.
    assert (W : sh_bcast (h_shape s) (m_round m) &&
                match qget (h_qb s) (m_round m) (m_from m) with Some _ => false | None => true end = false).
    { destruct Now as [N|[N|N]]; [discriminate|rewrite N; reflexivity|].
      unfold slot in N. destruct (qget (h_qb s) (m_round m) (m_from m)); [apply andb_false_r|congruence]. }
    rewrite W. split; [intros ->; reflexivity|]. intros -> V. cbn [negb]. rewrite V.
    destruct (sh_p2p _ _); reflexivity.
Qed.

Lemma set_rt_raise s : h_rt s = Running -> set_rt (raise_panic s) Running = s.
Proof. destruct s; cbn. intros ->. reflexivity. Qed.

(* the recovery of a panic raised on a running, open, unfinished state: a clean abort of exactly that state *)
Lemma recover_raise s :
  h_rt s = Running -> terminal s = false -> recover_abort (raise_panic s) = abort s (Some ([], EPanic)).
Proof.
  intros Hr T. rewrite recover_raised.
  - rewrite set_rt_raise by exact Hr. reflexivity.
  - rewrite (terminal_eq s) by (autorewrite with hdb; reflexivity). exact T.
  - reflexivity.
Qed.

Lemma accept_current s m vh ofp :
  h_rt s = Running -> h_closes s = 0 -> terminal s = false -> can_accept s m = true -> duplicate s m = false ->
  0 < m_round m -> m_round m = h_cur s ->
  accept vh ofp s m =
  match (if m_bcast m then verify_bcast (store s m) m else verify_p2p (store s m) m) with
  | VOk => recover_abort (finalize vh ofp (fuel_of (store s m)) (store s m))
  | VBad => abort (store s m) (Some ([m_from m], EVerify))
  | VHash => abort (store s m) (Some ([], EBroadcastHash))
  | VPanic => abort (store s m) (Some ([], EPanic))
  end.
Proof.
  intros Hr Hc T C D R Ecur. unfold accept, accept_body. rewrite Hr, C, D.
  pose proof T as T'. apply terminal_false in T' as [E Rs]. rewrite E, Rs. cbn [negb orb].
  destruct (m_round m =? 0) eqn:E0; [apply Nat.eqb_eq in E0; lia|].
  autorewrite with hdb. rewrite Ecur, Nat.eqb_refl. cbn [negb].
  assert (Hr1 : h_rt (store s m) = Running) by (autorewrite with hdb; exact Hr).
  assert (Hc1 : h_closes (store s m) = 0) by (autorewrite with hdb; exact Hc).
  destruct (if m_bcast m then _ else _).
  - reflexivity.
  - apply recover_abort_running. apply (abort_some_running _ _ Hr1 Hc1).
  - apply recover_abort_running. apply (abort_some_running _ _ Hr1 Hc1).
  - apply recover_raise; [exact Hr1|]. rewrite (terminal_eq s) by (autorewrite with hdb; reflexivity). exact T.
Qed.

Lemma abort_clean s ce :
  h_rt s = Running -> h_closes s = 0 -> h_res s = false ->
  let s' := abort s (Some ce) in
  h_closes s' = 1 /\ result_class s' = 2 /\ h_err s' = Some ce /\ h_rt s' = Running.
Proof.
  intros Hr Hc Rs s'. subst s'.
  destruct (abort_some_running s ce Hr Hc) as (Er & Cl & Rr).
  unfold result_class. rewrite Er. autorewrite with hdb. rewrite Rs. auto.
Qed.

Lemma invalid_message_clean_abort_inv vh ofp s m :
  life_ok s -> cur_reached s ->
  h_rt s = Running -> terminal s = false ->
  can_accept s m = true -> duplicate s m = false ->
  0 < m_round m -> m_round m = h_cur s -> m_valid m = false -> same_view s m = true ->
  (m_bcast m = true \/ sh_bcast (h_shape s) (m_round m) = false \/ slot s true (m_round m) (m_from m) <> None) ->
  let s' := accept vh ofp s m in
  h_closes s' = 1 /\ result_class s' = 2 /\ h_err s' = Some ([m_from m], EVerify) /\ h_rt s' = Running.
Proof.
  intros L CR Hr T C D R Ecur V SV Now s'. subst s'.
  destruct (life_not_terminal s L T) as (A & _ & _).
  rewrite accept_current by assumption.
  destruct (current_verdict s m CR Ecur Now) as [_ Vb]. rewrite (Vb SV V).
  apply terminal_false in T as [_ Rs].
  apply abort_clean; autorewrite with hdb; assumption.
Qed.

Theorem invalid_message_clean_abort vh ofp self n ssid proto sh s m :
  reachable true vh ofp self n ssid proto sh s ->
  h_rt s = Running -> terminal s = false ->
  can_accept s m = true -> duplicate s m = false ->
  0 < m_round m -> m_round m = h_cur s -> m_valid m = false -> same_view s m = true ->
  (m_bcast m = true \/ sh_bcast (h_shape s) (m_round m) = false \/ slot s true (m_round m) (m_from m) <> None) ->
  let s' := accept vh ofp s m in
  h_closes s' = 1 /\ result_class s' = 2 /\ h_err s' = Some ([m_from m], EVerify) /\ h_rt s' = Running.
Proof.
  intro R. apply invalid_message_clean_abort_inv.
  - eapply reachable_life; eassumption.
  - eapply reachable_hinv; eassumption.
Qed.

(* a message sent under a different broadcast view (valid or not) ends in a clean abort naming nobody *)
Lemma foreign_view_clean_abort_inv vh ofp s m :
  life_ok s -> cur_reached s ->
  h_rt s = Running -> terminal s = false ->
  can_accept s m = true -> duplicate s m = false ->
  0 < m_round m -> m_round m = h_cur s -> same_view s m = false ->
  (m_bcast m = true \/ sh_bcast (h_shape s) (m_round m) = false \/ slot s true (m_round m) (m_from m) <> None) ->
  let s' := accept vh ofp s m in
  h_closes s' = 1 /\ result_class s' = 2 /\ h_err s' = Some ([], EBroadcastHash) /\ h_rt s' = Running.
Proof.
  intros L CR Hr T C D R Ecur SV Now s'. subst s'.
  destruct (life_not_terminal s L T) as (A & _ & _).
  rewrite accept_current by assumption.
  destruct (current_verdict s m CR Ecur Now) as [Vh _]. rewrite (Vh SV).
  apply terminal_false in T as [_ Rs].
  apply abort_clean; autorewrite with hdb; assumption.
Qed.

Theorem foreign_view_clean_abort vh ofp self n ssid proto sh s m :
  reachable true vh ofp self n ssid proto sh s ->
  h_rt s = Running -> terminal s = false ->
  can_accept s m = true -> duplicate s m = false ->
  0 < m_round m -> m_round m = h_cur s -> same_view s m = false ->
  (m_bcast m = true \/ sh_bcast (h_shape s) (m_round m) = false \/ slot s true (m_round m) (m_from m) <> None) ->
  let s' := accept vh ofp s m in
  h_closes s' = 1 /\ result_class s' = 2 /\ h_err s' = Some ([], EBroadcastHash) /\ h_rt s' = Running.
Proof.
  intro R. apply foreign_view_clean_abort_inv.
  - eapply reachable_life; eassumption.
  - eapply reachable_hinv; eassumption.
Qed.

(* ------------------------------------------------------------------ *)
(* C04 (handler level)                                                  *)
(* ------------------------------------------------------------------ *)
Lemma abort_notice_attribution_inv vh ofp s m :
  life_ok s -> h_rt s = Running -> terminal s = false -> can_accept s m = true -> m_round m = 0 ->
  let s' := accept vh ofp s m in
  h_err s' = Some ([m_from m], EAbortNotice) /\ h_closes s' = 1 /\ result_class s' = 2.
Proof.
  intros L Hr T C R0 s'. subst s'.
  destruct (life_not_terminal s L T) as (A & _ & _).
  destruct (abort_some_running s ([m_from m], EAbortNotice) Hr A) as (Er & Cl & Rr).
  pose proof T as T'. apply terminal_false in T' as [E Rs].
  assert (X : accept vh ofp s m = abort s (Some ([m_from m], EAbortNotice))).
  { unfold accept, accept_body, duplicate. rewrite Hr, C, R0. cbn [Nat.eqb].
    rewrite E, Rs. cbn [negb orb]. apply recover_abort_running, Rr. }
  rewrite X. unfold result_class. rewrite Er. autorewrite with hdb. rewrite Rs. auto.
Qed.

Theorem abort_notice_attribution vh ofp self n ssid proto sh s m :
  reachable true vh ofp self n ssid proto sh s ->
  h_rt s = Running -> terminal s = false -> can_accept s m = true -> m_round m = 0 ->
  let s' := accept vh ofp s m in
  h_err s' = Some ([m_from m], EAbortNotice) /\ h_closes s' = 1 /\ result_class s' = 2.
Proof. intro R. apply abort_notice_attribution_inv. eapply reachable_life; eassumption. Qed.

(* a stored message that its round does not expect, or that the validity oracle rejects *)
Definition bad_msg (sh : shape) (m : msg) : bool :=
  if m_bcast m
  then negb (sh_bcast sh (m_round m)) || negb (m_valid m)
  else (match sh_p2p sh (m_round m) with NoP2P => true | _ => false end) || negb (m_valid m).

Definition stored (s : hstate) (m : msg) : Prop := slot s (m_bcast m) (m_round m) (m_from m) = Some m.

(* the culprit sent a stored message that is bad AND was sent under our own broadcast view *)
Definition blames_bad (s : hstate) (c : list party) : Prop :=
  exists j m0, c = [j] /\ j <> h_self s /\ m_from m0 = j /\ stored s m0
               /\ bad_msg (h_shape s) m0 = true /\ same_view s m0 = true.

Lemma blames_bad_frame s s' c :
  h_self s' = h_self s -> h_shape s' = h_shape s -> h_qb s' = h_qb s -> h_qp s' = h_qp s -> h_hashes s' = h_hashes s ->
  blames_bad s c -> blames_bad s' c.
Proof.
  intros A B C D E (j & m0 & H1 & H2 & H3 & H4 & H5 & H6). exists j, m0.
  unfold stored in *. rewrite (slot_frame s s') by assumption. rewrite (same_view_frame s s') by assumption.
  rewrite A, B. repeat split; assumption.
Qed.

Lemma verify_p2p_bad s p :
  m_bcast p = false -> verify_p2p s p = VBad -> bad_msg (h_shape s) p = true /\ same_view s p = true.
Proof.
  intros Bp. unfold verify_p2p, bad_msg. rewrite Bp.
  destruct (negb (existsb _ _)); [discriminate|].
  destruct (_ && _); [discriminate|].
  destruct (same_view s p); cbn [negb]; [|discriminate].
  destruct (sh_p2p _ _); destruct (m_valid p); try destruct (panics_verify p); intro H; try discriminate; auto.
Qed.

Lemma verify_bcast_bad s m :
  wf_queues s -> m_bcast m = true -> verify_bcast s m = VBad ->
  (bad_msg (h_shape s) m = true /\ same_view s m = true)
  \/ exists p, qget (h_qp s) (m_round m) (m_from m) = Some p /\ bad_msg (h_shape s) p = true /\ same_view s p = true.
Proof.
  intros [_ W] Bm. unfold verify_bcast.
  destruct (negb (existsb _ _)); [discriminate|].
  destruct (same_view s m) eqn:SV; cbn [negb]; [|discriminate].
  destruct (sh_bcast (h_shape s) (m_round m)) eqn:Sb; cbn [negb].
  2:{ intros _. left. unfold bad_msg. rewrite Bm, Sb. auto. }
  destruct (m_valid m) eqn:V; cbn [negb].
  2:{ intros _. left. unfold bad_msg. rewrite Bm, V. split; [apply orb_true_r|reflexivity]. }
  destruct (panics_verify m); [discriminate|].
  destruct (sh_p2p _ _); try discriminate;
    (destruct (qget (h_qp s) (m_round m) (m_from m)) as [p|] eqn:Q; [|discriminate];
     intro H; right; exists p; split; [reflexivity|];
     apply verify_p2p_bad; [apply (W _ _ _ Q)|exact H]).
Qed.

Lemma first_bad_blames s r j :
  wf_queues s -> first_bad s r = Some (j, VBad) -> blames_bad s [j].
Proof.
  intros W F. destruct (first_bad_spec s r j VBad F) as (Hin & Hv & _).
  apply others_spec in Hin as [_ Hne]. symmetry in Hv.
  unfold queued_verdict in Hv. destruct W as [Wb Wp].
  destruct (sh_bcast (h_shape s) r).
  - destruct (qget (h_qb s) r j) as [m0|] eqn:Q; [|discriminate].
    destruct (Wb _ _ _ Q) as (E1 & E2 & E3).
    destruct (verify_bcast_bad s m0 (conj Wb Wp) E3 Hv) as [[B SV]|(p & Qp & B & SV)].
    + exists j, m0. unfold stored, slot. rewrite E1, E2, E3. auto 10.
    + rewrite E1, E2 in Qp. destruct (Wp _ _ _ Qp) as (P1 & P2 & P3).
      exists j, p. unfold stored, slot. rewrite P1, P2, P3. auto 10.
  - destruct (qget (h_qp s) r j) as [m0|] eqn:Q; [|discriminate].
    destruct (Wp _ _ _ Q) as (E1 & E2 & E3).
    destruct (verify_p2p_bad s m0 E3 Hv) as [B SV].
    exists j, m0. unfold stored, slot. rewrite E1, E2, E3. auto 10.
Qed.

Definition verify_blame_ok (s : hstate) : Prop := forall c, h_err s = Some (c, EVerify) -> blames_bad s c.

(* the body of Accept never produces the recovered-panic error itself *)
Definition no_epanic (s : hstate) : Prop := forall c, h_err s <> Some (c, EPanic).
Definition blame_post (s : hstate) : Prop := verify_blame_ok s /\ no_epanic s.

Lemma blame_post_none s : h_err s = None -> blame_post s.
Proof. intro E. split; intros c Hc; congruence. Qed.

Lemma blame_post_abort_other s c k :
  h_err s = None -> k <> EVerify -> k <> EPanic -> blame_post (abort s (Some (c, k))).
Proof.
  intros E K1 K2. split; intros c0 Hc; destruct (abort_err_cases s (c, k)) as [X|X]; rewrite X in Hc; congruence.
Qed.

Lemma blame_post_abort_verify s j :
  h_err s = None -> blames_bad (abort s (Some ([j], EVerify))) [j] -> blame_post (abort s (Some ([j], EVerify))).
Proof.
  intros E B. split; intros c0 Hc; destruct (abort_err_cases s ([j], EVerify)) as [X|X]; rewrite X in Hc; congruence.
Qed.

Lemma fin_step_verify_blame vh ofp s :
  wf_queues s /\ h_err s = None ->
  match fin_step vh ofp s with FDone s' => blame_post s' | FCont s3 => wf_queues s3 /\ h_err s3 = None end.
Proof.
  intros [W E]. unfold fin_step.
  destruct (h_rt s); try (apply blame_post_none; exact E).
  destruct (h_cur s =? 0); [apply blame_post_none; exact E|].
  set (s1 := snd (received_all vh s)).
  assert (E1 : h_err s1 = None) by (unfold s1; autorewrite with hdb; exact E).
  assert (W1 : wf_queues s1) by (unfold wf_queues, s1; autorewrite with hdb; exact W).
  destruct (negb (fst _)); [apply blame_post_none; exact E1|].
  destruct (negb (check_broadcast_hash s1)); [apply blame_post_abort_other; [exact E1|discriminate..]|].
  destruct (fin_panics s1); [apply blame_post_none; autorewrite with hdb; exact E1|].
  set (s2 := emit_all ofp s1 (round_outputs s1 (h_cur s1) (cur_bv s1))).
  assert (E2 : h_err s2 = None) by (unfold s2; autorewrite with hdb; exact E1).
  assert (W2 : wf_queues s2).
  { assert (G : forall l s0, wf_queues s0 -> wf_queues (emit_all ofp s0 l)).
    { induction l as [|o l IH]; intros s0 H0; cbn [emit_all]; [exact H0|]. apply IH.
      unfold wf_queues. autorewrite with hdb. destruct (o_bcast o); [apply wf_store|]; exact H0. }
    apply G, W1. }
  destruct (h_rt s2); try (apply blame_post_none; exact E2).
  destruct (existsb _ _); [apply blame_post_none; exact E2|].
  destruct (_ =? 0).
  { apply blame_post_none. rewrite abort_none_err. exact E2. }
  destruct (first_bad _ _) as [[j v]|] eqn:F; [|split; [exact W2|exact E2]].
  destruct v.
  - (* VOk cannot be a bad verdict *)
    apply first_bad_spec in F as (_ & _ & X). discriminate.
  - apply blame_post_abort_verify; [exact E2|].
    apply (blames_bad_frame (advance s2 (next_round s1))); autorewrite with hdb; try reflexivity.
    eapply first_bad_blames; [exact W2|exact F].
  - apply blame_post_abort_other; [exact E2|discriminate..].
  - apply blame_post_none. autorewrite with hdb. exact E2.
Qed.

Lemma finalize_blame_post vh ofp f s :
  wf_queues s -> h_err s = None -> blame_post (finalize vh ofp f s).
Proof.
  intros W E.
  apply (finalize_ind vh ofp (fun s => wf_queues s /\ h_err s = None) blame_post); [| |auto].
  - intros s0 [_ E0]. apply blame_post_none, E0.
  - apply fin_step_verify_blame.
Qed.

Lemma finalize_verify_blame vh ofp f s :
  wf_queues s -> h_err s = None -> verify_blame_ok (finalize vh ofp f s).
Proof. intros W E. apply finalize_blame_post; assumption. Qed.

Lemma accept_body_blame_post vh ofp s m :
  wf_queues s -> h_err s = None -> blame_post (accept_body vh ofp s m).
Proof.
  intros W E. unfold accept_body.
  destruct (h_rt s); try (apply blame_post_none; exact E).
  destruct (_ || _) eqn:G; [apply blame_post_none; exact E|].
  apply accept_guard_terminal in G as (C & T & D).
  destruct (m_round m =? 0) eqn:R0; [apply blame_post_abort_other; [exact E|discriminate..]|].
  apply Nat.eqb_neq in R0.
  pose proof (wf_store s m W) as W1.
  assert (E1 : h_err (store s m) = None) by (autorewrite with hdb; exact E).
  destruct (negb _); [apply blame_post_none; exact E1|].
  destruct (if m_bcast m then _ else _) eqn:V;
    [apply finalize_blame_post; assumption| |apply blame_post_abort_other; [exact E1|discriminate..]
    |apply blame_post_none; rewrite raise_panic_h_err; exact E1].
  apply blame_post_abort_verify; [exact E1|].
  apply (blames_bad_frame (store s m)); autorewrite with hdb; try reflexivity.
  destruct (duplicate_false_slot s m D) as [Hq N]; [lia|].
  pose proof (store_slot_new s m Hq N) as St.
  apply can_accept_total_spec in C. destruct C as (C & _).
  destruct (m_bcast m) eqn:Bm.
  - destruct (verify_bcast_bad (store s m) m W1 Bm V) as [[B SV]|(p & Qp & B & SV)]; rewrite store_h_shape in B.
    + exists (m_from m), m. unfold stored. rewrite Bm. autorewrite with hdb. auto 10.
    + destruct W1 as [_ Wp]. destruct (Wp _ _ _ Qp) as (P1 & P2 & P3).
      exists (m_from m), p. unfold stored, slot. rewrite P1, P2, P3. autorewrite with hdb. auto 10.
  - destruct (verify_p2p_bad (store s m) m Bm V) as [B SV]. rewrite store_h_shape in B.
    exists (m_from m), m. unfold stored. rewrite Bm. autorewrite with hdb. auto 10.
Qed.

(* the recovery never produces (or disturbs) an EVerify verdict *)
Lemma recover_verify_blame b : verify_blame_ok b -> verify_blame_ok (recover_abort b).
Proof.
  intro H. unfold recover_abort. destruct (h_rt b); try exact H. cbv zeta.
  destruct (terminal (set_rt b Running)) eqn:T.
  - intros c Hc. autorewrite with hdb in Hc.
    apply (blames_bad_frame b); autorewrite with hdb; try reflexivity. apply H, Hc.
  - intros c Hc. apply terminal_false in T as [E _].
    destruct (abort_err_cases (set_rt b Running) ([], EPanic)) as [X|X]; rewrite X in Hc; congruence.
Qed.

Lemma verify_failure_blames_sender_inv vh ofp s m c :
  wf_queues s -> h_err s = None ->
  h_err (accept vh ofp s m) = Some (c, EVerify) -> blames_bad (accept vh ofp s m) c.
Proof.
  intros W E. revert c. change (verify_blame_ok (accept vh ofp s m)). unfold accept.
  destruct (h_rt s); try (intros c Hc; congruence).
  apply recover_verify_blame, accept_body_blame_post; assumption.
Qed.

(* the recovered-panic error comes from the recovery alone: it is reported only if the body of Accept panicked
   (the handler without the recovery would have crashed in that call), and it names nobody *)
Lemma epanic_only_by_recovery_inv vh ofp s m c :
  wf_queues s -> h_err s = None ->
  h_err (accept vh ofp s m) = Some (c, EPanic) ->
  c = [] /\ is_panicked (h_rt (accept_v0 vh ofp s m)) = true.
Proof.
  intros W E. unfold accept, accept_v0.
  destruct (h_rt s) eqn:Hr; try congruence.
  destruct (accept_body_blame_post vh ofp s m W E) as [_ NP].
  set (b := accept_body vh ofp s m) in *.
  destruct (is_panicked (h_rt b)) eqn:P.
  - intro Hc. split; [|reflexivity]. revert Hc. unfold recover_abort.
    destruct (h_rt b); try discriminate. cbv zeta.
    destruct (terminal (set_rt b Running)) eqn:T.
    + autorewrite with hdb. intro Hc. exfalso. exact (NP c Hc).
    + apply terminal_false in T as [E0 _]. intro Hc.
      destruct (abort_err_cases (set_rt b Running) ([], EPanic)) as [X|X]; rewrite X in Hc; congruence.
  - rewrite recover_abort_id by exact P. intro Hc. exfalso. exact (NP c Hc).
Qed.

Theorem verify_failure_blames_sender fixed vh ofp self n ssid proto sh s m c :
  reachable fixed vh ofp self n ssid proto sh s ->
  h_err s = None ->
  h_err (accept vh ofp s m) = Some (c, EVerify) ->
  blames_bad (accept vh ofp s m) c.
Proof.
  intros R. apply verify_failure_blames_sender_inv. apply reachable_hinv in R. apply R.
Qed.

(* corollary: a sender whose stored messages are, as far as they were sent under our broadcast view, all valid
   and expected, is never named by EVerify *)
Theorem honest_sender_never_blamed_by_verify fixed vh ofp self n ssid proto sh s m c j :
  reachable fixed vh ofp self n ssid proto sh s ->
  h_err s = None ->
  h_err (accept vh ofp s m) = Some (c, EVerify) ->
  (forall m0, stored (accept vh ofp s m) m0 -> m_from m0 = j -> same_view (accept vh ofp s m) m0 = true ->
              bad_msg (h_shape s) m0 = false) ->
  ~ In j c.
Proof.
  intros R E Hc Hon Hin.
  destruct (verify_failure_blames_sender fixed vh ofp self n ssid proto sh s m c R E Hc) as (j' & m0 & -> & _ & F & St & B & SV).
  destruct Hin as [<-|[]].
  assert (Sh : h_shape (accept vh ofp s m) = h_shape s) by apply accept_static.
  rewrite Sh in B. rewrite (Hon m0 St F SV) in B. discriminate.
Qed.

(* in particular: a party all of whose stored messages were sent under a different view is never named *)
Theorem different_view_never_blamed_by_verify fixed vh ofp self n ssid proto sh s m c j :
  reachable fixed vh ofp self n ssid proto sh s ->
  h_err s = None ->
  h_err (accept vh ofp s m) = Some (c, EVerify) ->
  (forall m0, stored (accept vh ofp s m) m0 -> m_from m0 = j -> same_view (accept vh ofp s m) m0 = false) ->
  ~ In j c.
Proof.
  intros R E Hc Hd. apply (honest_sender_never_blamed_by_verify fixed vh ofp self n ssid proto sh s m c j R E Hc).
  intros m0 St F SV. rewrite (Hd m0 St F) in SV. discriminate.
Qed.

Theorem broadcast_hash_failure_names_nobody fixed vh ofp self n ssid proto sh s c :
  reachable fixed vh ofp self n ssid proto sh s ->
  h_err s = Some (c, EBroadcastHash) -> c = [].
Proof.
  intros R E. apply reachable_hinv in R. destruct R as (_ & _ & S). unfold err_shape in S. rewrite E in S. exact S.
Qed.

Theorem error_kinds_and_culprits fixed vh ofp self n ssid proto sh s c k :
  reachable fixed vh ofp self n ssid proto sh s ->
  h_err s = Some (c, k) ->
  match k with
  | EBroadcastHash | EPanic => c = []
  | EUser => c = [h_self s]
  | EAbortNotice | EVerify => exists j, c = [j] /\ j <> h_self s
  | _ => False
  end.
Proof.
  intros R E. apply reachable_hinv in R. destruct R as (_ & _ & S). unfold err_shape in S. rewrite E in S. exact S.
Qed.

(* ------------------------------------------------------------------ *)
(* C05 / C17: a panic of the round code is contained by Accept           *)
(* ------------------------------------------------------------------ *)
(* the verdict on a fresh message of the current round the round code panics on, when it is processed now *)
Lemma current_verdict_panic s m :
  cur_reached s -> m_round m = h_cur s -> same_view s m = true -> m_valid m = true -> panics_verify m = true ->
  (if m_bcast m then sh_bcast (h_shape s) (m_round m) = true
   else sh_p2p (h_shape s) (m_round m) <> NoP2P
        /\ (sh_bcast (h_shape s) (m_round m) = false \/ slot s true (m_round m) (m_from m) <> None)) ->
  (if m_bcast m then verify_bcast (store s m) m else verify_p2p (store s m) m) = VPanic.
Proof.
  intros CR Ecur SV V P Now.
  unfold verify_bcast, verify_p2p. rewrite (same_view_frame s (store s m)) by (autorewrite with hdb; reflexivity).
  autorewrite with hdb. rewrite Ecur. unfold cur_reached in CR. rewrite CR. cbn [negb].
  rewrite <- Ecur. rewrite SV, V, P. cbn [negb].
  destruct (m_bcast m) eqn:Bm.
  - rewrite Now. reflexivity.
  - rewrite store_p2p_h_qb by exact Bm. destruct Now as [NP Now].
    assert (W : sh_bcast (h_shape s) (m_round m) &&
                match qget (h_qb s) (m_round m) (m_from m) with Some _ => false | None => true end = false).
    { destruct Now as [N|N]; [rewrite N; reflexivity|].
      unfold slot in N. destruct (qget (h_qb s) (m_round m) (m_from m)); [apply andb_false_r|congruence]. }
    rewrite W. destruct (sh_p2p _ _); [congruence|reflexivity..].
Qed.

(* what is left of [b] after the recovered abort: everything but error, notice, close *)
Definition recovered_from (b s' : hstate) : Prop :=
  h_rt s' = Running
  /\ h_err s' = Some ([], EPanic) /\ h_res s' = false /\ result_class s' = 2 /\ terminal s' = true
  /\ h_closes s' = 1
  /\ h_cur s' = h_cur b /\ h_reached s' = h_reached b /\ h_qb s' = h_qb b /\ h_qp s' = h_qp b
  /\ h_hashes s' = h_hashes b
  /\ h_out s' = (if h_pending b <? capacity b then h_out b ++ [mkOut None 0 false 0%N] else h_out b)
  /\ h_pending s' = (if h_pending b <? capacity b then S (h_pending b) else h_pending b).

Lemma recover_raised_spec b : nonterm_raised b -> recovered_from b (recover_abort b).
Proof.
  intros (Hc & T & Hr). rewrite recover_raised; [|exact T|rewrite Hr; reflexivity].
  apply terminal_false in T as [E Rs].
  unfold recovered_from, result_class, terminal, abort, close_out, capacity. autorewrite with hdb. rewrite Hc. cbn.
  destruct (h_pending b <? 2 * h_n b); cbn; rewrite Rs; repeat split; reflexivity.
Qed.

(* C05/C17: whenever the body of Accept panics -- i.e. whenever the handler without the recovery would have crashed
   in this call -- it is the round code that panicked (never a channel operation), and the call ends the session
   cleanly: error "panic while processing message" naming nobody, no result, channel closed exactly once, abort
   notice sent iff the channel had room, runtime still Running; round number, reached rounds, queues (including the
   message the round code panicked on) and view digests are what the body had built up when it panicked. *)
Theorem panic_contained_inv vh ofp s m :
  life_ok s -> h_rt s = Running ->
  is_panicked (h_rt (accept_v0 vh ofp s m)) = true ->
  h_rt (accept_v0 vh ofp s m) = Panicked 3
  /\ terminal s = false /\ h_closes s = 0
  /\ recovered_from (accept_v0 vh ofp s m) (accept vh ofp s m).
Proof.
  intros L Hr P. unfold accept_v0 in *.
  destruct (accept_body_life vh ofp s m L) as [Lb|Rb].
  { apply life_not_panicked in Lb. congruence. }
  split; [apply Rb|].
  assert (T : terminal s = false).
  { destruct (terminal s) eqn:T; [|reflexivity]. exfalso.
    assert (X : accept_body vh ofp s m = s).
    { unfold accept_body, terminal in *. destruct (h_rt s); try reflexivity.
      destruct (h_err s); [rewrite orb_true_r; reflexivity|]. cbn in T. rewrite T, orb_true_r. reflexivity. }
    rewrite X, Hr in P. discriminate. }
  split; [exact T|]. split; [apply (life_not_terminal s L T)|].
  unfold accept. rewrite Hr. apply recover_raised_spec, Rb.
Qed.

Theorem panic_contained vh ofp self n ssid proto sh s m :
  reachable true vh ofp self n ssid proto sh s -> h_rt s = Running ->
  is_panicked (h_rt (accept_v0 vh ofp s m)) = true ->
  h_rt (accept_v0 vh ofp s m) = Panicked 3
  /\ terminal s = false /\ h_closes s = 0
  /\ recovered_from (accept_v0 vh ofp s m) (accept vh ofp s m).
Proof. intro R. apply panic_contained_inv. eapply reachable_life; eassumption. Qed.

(* ... and the two handlers agree on every call in which the round code does not panic *)
Theorem accept_v0_agrees vh ofp s m :
  is_panicked (h_rt (accept_v0 vh ofp s m)) = false -> accept vh ofp s m = accept_v0 vh ofp s m.
Proof. apply accept_of_body. Qed.

(* after the recovered panic the session stays ended: every later call (any message, Stop, Drain) leaves the state
   alone up to the drained count *)
Theorem panic_contained_stable vh ofp s m es :
  life_ok s -> h_rt s = Running ->
  is_panicked (h_rt (accept_v0 vh ofp s m)) = true ->
  let s1 := accept vh ofp s m in
  let s2 := run_api true vh ofp s1 es in
  same_but_pending s1 s2
  /\ h_rt s2 = Running /\ h_err s2 = Some ([], EPanic) /\ h_res s2 = false /\ result_class s2 = 2 /\ h_closes s2 = 1.
Proof.
  intros L Hr P s1 s2.
  destruct (panic_contained_inv vh ofp s m L Hr P) as (_ & _ & _ & R).
  destruct R as (R1 & R2 & R3 & R4 & R5 & R6 & _). fold s1 in R1, R2, R3, R4, R5, R6.
  destruct (terminal_stable vh ofp es s1 R5) as (A & B & C). fold s2 in A, B, C.
  split; [exact A|].
  destruct A as (_&_&_&_&_&_&_&_&_&_&E&Rs&_&Cl&Rt).
  rewrite Rt, E, Rs, Cl, C. auto.
Qed.

(* the concrete case of a message of the current round that is processed at once: the message is stored first,
   then the round code panics on it; the session is aborted in exactly that state *)
Theorem panicking_message_current_inv vh ofp s m :
  life_ok s -> cur_reached s ->
  h_rt s = Running -> terminal s = false ->
  can_accept s m = true -> duplicate s m = false ->
  0 < m_round m -> m_round m = h_cur s ->
  m_valid m = true -> panics_verify m = true -> same_view s m = true ->
  (if m_bcast m then sh_bcast (h_shape s) (m_round m) = true
   else sh_p2p (h_shape s) (m_round m) <> NoP2P
        /\ (sh_bcast (h_shape s) (m_round m) = false \/ slot s true (m_round m) (m_from m) <> None)) ->
  let s' := accept vh ofp s m in
  s' = abort (store s m) (Some ([], EPanic))
  /\ h_rt (accept_v0 vh ofp s m) = Panicked 3
  /\ h_closes s' = 1 /\ result_class s' = 2 /\ h_err s' = Some ([], EPanic) /\ h_rt s' = Running
  /\ h_cur s' = h_cur s
  /\ slot s' (m_bcast m) (m_round m) (m_from m) = Some m.
Proof.
  intros L CR Hr T C D R Ecur V P SV Now s'. subst s'.
  destruct (life_not_terminal s L T) as (A & _ & _).
  pose proof (current_verdict_panic s m CR Ecur SV V P Now) as Vp.
  rewrite accept_current by assumption. rewrite Vp.
  split; [reflexivity|]. split.
  { unfold accept_v0, accept_body. rewrite Hr, C, D.
    pose proof T as T'. apply terminal_false in T' as [E Rs]. rewrite E, Rs. cbn [negb orb].
    destruct (m_round m =? 0) eqn:E0; [apply Nat.eqb_eq in E0; lia|].
    autorewrite with hdb. rewrite <- Ecur, Nat.eqb_refl. cbn [negb]. rewrite Vp. reflexivity. }
  pose proof T as T'. apply terminal_false in T' as [_ Rs].
  destruct (abort_clean (store s m) ([], EPanic)) as (X1 & X2 & X3 & X4); [autorewrite with hdb; assumption..|].
  cbv zeta in X1, X2, X3, X4. rewrite X1, X2, X3, X4. autorewrite with hdb.
  repeat split; try reflexivity.
  rewrite (slot_frame (store s m)) by (autorewrite with hdb; reflexivity).
  destruct (duplicate_false_slot s m D R) as [Hq N]. apply store_slot_new; assumption.
Qed.

Theorem panicking_message_current vh ofp self n ssid proto sh s m :
  reachable true vh ofp self n ssid proto sh s ->
  h_rt s = Running -> terminal s = false ->
  can_accept s m = true -> duplicate s m = false ->
  0 < m_round m -> m_round m = h_cur s ->
  m_valid m = true -> panics_verify m = true -> same_view s m = true ->
  (if m_bcast m then sh_bcast (h_shape s) (m_round m) = true
   else sh_p2p (h_shape s) (m_round m) <> NoP2P
        /\ (sh_bcast (h_shape s) (m_round m) = false \/ slot s true (m_round m) (m_from m) <> None)) ->
  let s' := accept vh ofp s m in
  s' = abort (store s m) (Some ([], EPanic))
  /\ h_rt (accept_v0 vh ofp s m) = Panicked 3
  /\ h_closes s' = 1 /\ result_class s' = 2 /\ h_err s' = Some ([], EPanic) /\ h_rt s' = Running
  /\ h_cur s' = h_cur s
  /\ slot s' (m_bcast m) (m_round m) (m_from m) = Some m.
Proof.
  intro R. apply panicking_message_current_inv.
  - eapply reachable_life; eassumption.
  - eapply reachable_hinv; eassumption.
Qed.

(* the recovered-panic error is reported only for a call in which the round code panicked, and names nobody *)
Theorem epanic_only_by_recovery fixed vh ofp self n ssid proto sh s m c :
  reachable fixed vh ofp self n ssid proto sh s ->
  h_err s = None ->
  h_err (accept vh ofp s m) = Some (c, EPanic) ->
  c = [] /\ is_panicked (h_rt (accept_v0 vh ofp s m)) = true.
Proof. intros R. apply epanic_only_by_recovery_inv. apply reachable_hinv in R. apply R. Qed.

(* histories without a message the round code panics on: the queues stay calm, Accept IS its body (the recovery
   never fires), and the recovered-panic error is never reported *)
Lemma accept_body_calm vh ofp s m :
  m_panic m = NoPanic -> calm s -> life_ok s ->
  calm (accept_body vh ofp s m) /\ is_panicked (h_rt (accept_body vh ofp s m)) = false.
Proof.
  intros Pm C L. unfold accept_body.
  destruct (h_rt s) eqn:Hr; try (split; [exact C|rewrite Hr; apply life_not_panicked in L; rewrite Hr in L; exact L]).
  destruct (_ || _) eqn:G; [split; [exact C|rewrite Hr; reflexivity]|].
  apply accept_guard_terminal in G as (_ & T & _).
  pose proof (life_not_terminal s L T) as Hn.
  assert (Ab : forall s0 ce, calm s0 -> nonterm_ok s0 -> calm (abort s0 (Some ce)) /\ is_panicked (h_rt (abort s0 (Some ce))) = false).
  { intros s0 ce C0 N0. split; [revert C0; apply calm_frame; autorewrite with hdb; reflexivity|].
    apply life_not_panicked, life_abort_some, N0. }
  destruct (m_round m =? 0); [apply Ab; assumption|].
  pose proof (nonterm_store s m Hn) as H1.
  pose proof (calm_store s m Pm C) as C1.
  destruct (negb _); [split; [exact C1|apply H1]|].
  destruct (if m_bcast m then _ else _) eqn:V; try (apply Ab; assumption).
  - destruct (finalize_life_calm vh ofp (fuel_of (store s m)) (store s m) C1 H1) as [Lf Cf].
    split; [exact Cf|apply life_not_panicked, Lf].
  - exfalso. destruct (m_bcast m).
    + exact (calm_verify_bcast _ _ C1 Pm V).
    + exact (calm_verify_p2p _ _ Pm V).
Qed.

Theorem calm_accept vh ofp s m :
  m_panic m = NoPanic -> calm s -> life_ok s ->
  accept vh ofp s m = accept_v0 vh ofp s m /\ calm (accept vh ofp s m).
Proof.
  intros Pm C L. destruct (accept_body_calm vh ofp s m Pm C L) as [Cb Pb].
  rewrite (accept_of_body vh ofp s m Pb). split; [reflexivity|exact Cb].
Qed.

(* ------------------------------------------------------------------ *)
(* Capacity of the out channel: when can a single Accept block?         *)
(* ------------------------------------------------------------------ *)
(* every round that has a queue expects something from the peers *)
Definition busy_shape (sh : shape) : Prop :=
  forall r, 2 <= r <= sh_final sh -> sh_bcast sh r = true \/ sh_p2p sh r <> NoP2P.

(* no message of another party is queued for round K or later *)
Definition quiet_from (s : hstate) (K : nat) : Prop :=
  forall r j, K <= r -> j <> h_self s -> qget (h_qb s) r j = None /\ qget (h_qp s) r j = None.

Lemma quiet_from_le s K K' : K <= K' -> quiet_from s K -> quiet_from s K'.
Proof. intros L H r j Hr Hj. apply H; [lia|exact Hj]. Qed.

Lemma quiet_frame s s' K :
  h_self s' = h_self s -> h_qb s' = h_qb s -> h_qp s' = h_qp s -> quiet_from s K -> quiet_from s' K.
Proof. unfold quiet_from. intros -> -> ->. auto. Qed.

Lemma filter_ne_seq_out self : forall n a,
  self < a \/ a + n <= self -> length (filter (fun j => negb (j =? self)) (seq a n)) = n.
Proof.
  induction n as [|n IH]; intros a H; cbn [seq filter length]; [reflexivity|].
  destruct (a =? self) eqn:E; [apply Nat.eqb_eq in E; lia|].
  cbn [negb length]. rewrite IH by lia. reflexivity.
Qed.

Lemma filter_ne_seq_in self : forall n a,
  a <= self < a + n -> length (filter (fun j => negb (j =? self)) (seq a n)) = n - 1.
Proof.
  induction n as [|n IH]; intros a H; cbn [seq filter length]; [lia|].
  destruct (a =? self) eqn:E.
  - apply Nat.eqb_eq in E. cbn [negb]. rewrite filter_ne_seq_out by lia. lia.
  - apply Nat.eqb_neq in E. cbn [negb length]. rewrite IH by lia. lia.
Qed.

Lemma others_length s : h_self s < h_n s -> length (others s) = h_n s - 1.
Proof. intro H. unfold others. apply filter_ne_seq_in. lia. Qed.

(* one round's Finalize puts at most n messages on the channel (n >= 2, self a party) *)
Lemma round_outputs_length s r bv :
  h_self s < h_n s -> 2 <= h_n s -> length (round_outputs s r bv) <= h_n s.
Proof.
  intros Hs Hn. unfold round_outputs.
  destruct (sh_final _ <=? r); [cbn; lia|].
  rewrite app_length.
  assert (A : length (if sh_bcast (h_shape s) (S r) then [mkOut None (S r) true bv] else []) <= 1)
    by (destruct (sh_bcast _ _); cbn; lia).
  assert (B : length (match sh_p2p (h_shape s) (S r) with
                      | NoP2P => []
                      | P2PAll => [mkOut None (S r) false bv]
                      | P2PEach => map (fun j => mkOut (Some j) (S r) false bv) (others s)
                      end) <= h_n s - 1).
  { destruct (sh_p2p _ _); cbn; try lia. rewrite map_length, others_length by exact Hs. lia. }
  lia.
Qed.

Lemma round_outputs_final s r bv : sh_final (h_shape s) <= r -> round_outputs s r bv = [].
Proof. intro H. unfold round_outputs. apply Nat.leb_le in H. rewrite H. reflexivity. Qed.

Lemma emit_ok s o :
  h_rt s = Running -> h_closes s = 0 -> h_pending s < capacity s ->
  h_rt (emit s o) = Running /\ h_pending (emit s o) = S (h_pending s) /\ h_out (emit s o) = h_out s ++ [o].
Proof.
  intros Hr Hc Hp. unfold emit. rewrite Hr, Hc. change (0 <? 0) with false. cbv iota.
  apply Nat.ltb_lt in Hp. rewrite Hp. prjs. auto.
Qed.

Lemma capacity_frame s s' : h_n s' = h_n s -> capacity s' = capacity s.
Proof. unfold capacity. intros ->. reflexivity. Qed.

Lemma emit_all_ok ofp l : forall s,
  h_rt s = Running -> h_closes s = 0 -> h_pending s + length l <= capacity s ->
  h_rt (emit_all ofp s l) = Running
  /\ h_pending (emit_all ofp s l) = h_pending s + length l
  /\ length (h_out (emit_all ofp s l)) = length (h_out s) + length l.
Proof.
  induction l as [|o l IH]; intros s Hr Hc Hp; cbn [emit_all length] in *.
  - repeat split; auto.
  - set (s1 := if o_bcast o then store s (own_bcast_msg ofp s o) else s).
    assert (Hr1 : h_rt s1 = Running) by (unfold s1; destruct (o_bcast o); autorewrite with hdb; exact Hr).
    assert (Hc1 : h_closes s1 = 0) by (unfold s1; destruct (o_bcast o); autorewrite with hdb; exact Hc).
    assert (Hp1 : h_pending s1 = h_pending s) by (unfold s1; destruct (o_bcast o); autorewrite with hdb; reflexivity).
    assert (Ho1 : h_out s1 = h_out s) by (unfold s1; destruct (o_bcast o); autorewrite with hdb; reflexivity).
    assert (Hk1 : capacity s1 = capacity s) by (apply capacity_frame; unfold s1; destruct (o_bcast o); autorewrite with hdb; reflexivity).
    destruct (emit_ok s1 o Hr1 Hc1) as (A & B & C); [lia|].
    destruct (IH (emit s1 o)) as (A' & B' & C'); auto.
    + autorewrite with hdb. exact Hc1.
    + rewrite (capacity_frame s1 (emit s1 o)) by (autorewrite with hdb; reflexivity). lia.
    + repeat split; auto; [lia|]. rewrite C', C, app_length, Ho1. cbn. lia.
Qed.

Lemma qget_cons_ne q r j r' j' m : j' <> j -> qget ((r', j', m) :: q) r j = qget q r j.
Proof.
  intro H. cbn. destruct (j' =? j) eqn:E; [apply Nat.eqb_eq in E; contradiction|].
  rewrite andb_false_r. reflexivity.
Qed.

Lemma store_own_quiet s m K : m_from m = h_self s -> quiet_from s K -> quiet_from (store s m) K.
Proof.
  intros F Q r j Hr Hj. autorewrite with hdb in Hj. destruct (Q r j Hr Hj) as [A B].
  unfold store, queue_of. destruct (negb _); [auto|].
  destruct (m_bcast m).
  - destruct (qget (h_qb s) (m_round m) (m_from m)); [auto|]. prjs. rewrite qget_cons_ne by congruence. auto.
  - destruct (qget (h_qp s) (m_round m) (m_from m)); [auto|]. prjs. rewrite qget_cons_ne by congruence. auto.
Qed.

Lemma store_low_quiet s m K : m_round m < K -> quiet_from s K -> quiet_from (store s m) K.
Proof.
  intros F Q r j Hr Hj. autorewrite with hdb in Hj. destruct (Q r j Hr Hj) as [A B].
  assert (N : forall q, qget ((m_round m, m_from m, m) :: q) r j = qget q r j).
  { intro q. cbn. destruct (m_round m =? r) eqn:E; [apply Nat.eqb_eq in E; lia|reflexivity]. }
  unfold store, queue_of. destruct (negb _); [auto|].
  destruct (m_bcast m).
  - destruct (qget (h_qb s) (m_round m) (m_from m)); [auto|]. prjs. rewrite N. auto.
  - destruct (qget (h_qp s) (m_round m) (m_from m)); [auto|]. prjs. rewrite N. auto.
Qed.

Lemma emit_all_quiet ofp l K : forall s, quiet_from s K -> quiet_from (emit_all ofp s l) K.
Proof.
  induction l as [|o l IH]; intros s Q; cbn [emit_all]; [exact Q|].
  apply IH. apply (quiet_frame (if o_bcast o then store s (own_bcast_msg ofp s o) else s)); autorewrite with hdb; try reflexivity.
  destruct (o_bcast o); [apply store_own_quiet; [reflexivity|]|]; exact Q.
Qed.

Lemma view_of_none s r j : In j (all_parties s) -> qget (h_qb s) r j = None -> view_of s r = None.
Proof.
  unfold view_of. generalize (all_parties s). induction l as [|a l IH]; intros Hin Hq; [contradiction|].
  cbn [fold_right]. destruct Hin as [->|Hin].
  - rewrite Hq. reflexivity.
  - rewrite (IH Hin Hq). destruct (qget (h_qb s) r a); reflexivity.
Qed.

(* with nothing from the peers queued for the current round, the round cannot be finalized *)
Lemma received_all_false vh s :
  h_self s < h_n s -> 2 <= h_n s -> busy_shape (h_shape s) ->
  2 <= h_cur s <= sh_final (h_shape s) -> quiet_from s (h_cur s) ->
  fst (received_all vh s) = false.
Proof.
  intros Hs Hn Busy Hc Q.
  assert (Hq : has_queue s (h_cur s) = true).
  { unfold has_queue. apply andb_true_iff. split; apply Nat.leb_le; lia. }
  assert (exists j, j < h_n s /\ j <> h_self s) as (j & Hj & Hne).
  { destruct (Nat.eq_dec (h_self s) 0); [exists 1|exists 0]; lia. }
  destruct (Q (h_cur s) j (le_n _) Hne) as [Qb Qp].
  unfold received_all. rewrite Hq. cbn [negb andb].
  destruct (sh_bcast (h_shape s) (h_cur s)) eqn:Sb.
  - rewrite (view_of_none s (h_cur s) j); [reflexivity| |exact Qb].
    unfold all_parties. apply in_seq. lia.
  - rewrite andb_false_r.
    destruct (Busy (h_cur s) Hc) as [X|X]; [congruence|].
    assert (F : forallb (fun j0 => match qget (h_qp s) (h_cur s) j0 with Some _ => true | None => false end) (others s) = false).
    { destruct (forallb _ _) eqn:F; [|reflexivity].
      rewrite forallb_forall in F. specialize (F j). rewrite Qp in F. symmetry. apply F. apply others_spec. auto. }
    destruct (sh_p2p _ _); [congruence| |]; cbn [fst]; exact F.
Qed.

(* the step invariant: a budget of [k] rounds that may still be finalized in this call *)
Definition cap_inv (L : nat) (s : hstate) : Prop :=
  h_rt s = Running /\ h_closes s = 0 /\ 1 <= h_cur s
  /\ h_self s < h_n s /\ 2 <= h_n s /\ busy_shape (h_shape s)
  /\ exists k, (h_cur s = 1 -> 1 <= k)
               /\ quiet_from s (h_cur s + k)
               /\ h_pending s + k * h_n s <= capacity s
               /\ length (h_out s) + k * h_n s <= L.

Definition cap_post (L : nat) (s : hstate) : Prop :=
  (h_rt s = Running /\ length (h_out s) <= L + 1)
  \/ (h_rt s = Panicked 3 /\ h_closes s = 0 /\ length (h_out s) <= L).   (* the round code panicked: abort notice still to come *)

Lemma abort_out_length s e : length (h_out (abort s e)) <= length (h_out s) + 1.
Proof.
  unfold abort, close_out, set_rt. dmatch; cbn; dmatch; cbn; try rewrite app_length; cbn; lia.
Qed.

Lemma abort_running s e : h_rt s = Running -> h_closes s = 0 -> h_rt (abort s e) = Running.
Proof.
  intros Hr Hc. destruct e as [ce|].
  - apply abort_some_running; assumption.
  - apply abort_none_running; assumption.
Qed.

Lemma fin_step_cap vh ofp L s :
  cap_inv L s -> match fin_step vh ofp s with FDone s' => cap_post L s' | FCont s3 => cap_inv L s3 end.
Proof.
  intros (Hr & Hc & Hcur & Hs & Hn & Busy & k & Hk1 & Q & Hp & Ho).
  unfold fin_step. rewrite Hr.
  destruct (h_cur s =? 0) eqn:E0; [apply Nat.eqb_eq in E0; lia|].
  set (s1 := snd (received_all vh s)).
  assert (Hr1 : h_rt s1 = Running) by (unfold s1; autorewrite with hdb; exact Hr).
  assert (Hc1 : h_closes s1 = 0) by (unfold s1; autorewrite with hdb; exact Hc).
  assert (Ho1 : h_out s1 = h_out s) by (unfold s1; autorewrite with hdb; reflexivity).
  assert (Hp1 : h_pending s1 = h_pending s) by (unfold s1; autorewrite with hdb; reflexivity).
  assert (Hcur1 : h_cur s1 = h_cur s) by (unfold s1; autorewrite with hdb; reflexivity).
  assert (Hn1 : h_n s1 = h_n s) by (unfold s1; autorewrite with hdb; reflexivity).
  assert (Hs1 : h_self s1 = h_self s) by (unfold s1; autorewrite with hdb; reflexivity).
  assert (Hsh1 : h_shape s1 = h_shape s) by (unfold s1; autorewrite with hdb; reflexivity).
  assert (Q1 : quiet_from s1 (h_cur s + k)) by (revert Q; apply quiet_frame; unfold s1; autorewrite with hdb; reflexivity).
  destruct (negb (fst (received_all vh s))) eqn:RA.
  { left. split; [exact Hr1|]. rewrite Ho1. lia. }
  apply negb_false_iff in RA.
  destruct (negb (check_broadcast_hash s1)).
  { left. split; [apply abort_running; assumption|].
    pose proof (abort_out_length s1 (Some ([], EBroadcastHash))). rewrite Ho1 in *. lia. }
  destruct (fin_panics s1).
  { right. autorewrite with hdb. split; [reflexivity|]. split; [exact Hc1|]. rewrite Ho1. lia. }
  (* how many messages does this round emit? *)
  set (outs := round_outputs s1 (h_cur s1) (cur_bv s1)).
  assert (Hlen : length outs <= (if sh_final (h_shape s) <=? h_cur s then 0 else h_n s) /\
                 (sh_final (h_shape s) <=? h_cur s = false -> 1 <= k)).
  { destruct (sh_final (h_shape s) <=? h_cur s) eqn:Fin.
    - apply Nat.leb_le in Fin. unfold outs. rewrite round_outputs_final by (rewrite Hsh1, Hcur1; exact Fin).
      split; [cbn; lia|discriminate].
    - apply Nat.leb_gt in Fin. split.
      + unfold outs. rewrite <- Hn1. apply round_outputs_length; lia.
      + intros _. destruct k as [|k]; [|lia]. exfalso.
        assert (2 <= h_cur s) by (destruct (Nat.eq_dec (h_cur s) 1) as [X|X]; [specialize (Hk1 X); lia|lia]).
        rewrite Nat.add_0_r in Q.
        rewrite (received_all_false vh s) in RA; [discriminate|assumption..|lia|exact Q]. }
  destruct Hlen as [Hlen Hk].
  assert (Hbudget : length outs <= k * h_n s).
  { destruct (sh_final (h_shape s) <=? h_cur s); [lia|]. specialize (Hk eq_refl). nia. }
  destruct (emit_all_ok ofp outs s1 Hr1 Hc1) as (Hr2 & Hp2 & Ho2).
  { rewrite (capacity_frame s s1) by exact Hn1. lia. }
  set (s2 := emit_all ofp s1 outs) in *.
  rewrite Hr2.
  assert (Hc2 : h_closes s2 = 0) by (unfold s2; autorewrite with hdb; exact Hc1).
  destruct (existsb _ _).
  { left. split; [exact Hr2|]. rewrite Ho2, Ho1. lia. }
  assert (Hnr : next_round s1 = if sh_final (h_shape s) <=? h_cur s then 0 else S (h_cur s))
    by (unfold next_round; rewrite Hsh1, Hcur1; reflexivity).
  destruct (sh_final (h_shape s) <=? h_cur s) eqn:Fin; rewrite Hnr.
  - (* last round: result, channel closed *)
    cbn [Nat.eqb]. left.
    split; [apply abort_running; [exact Hr2|exact Hc2]|].
    pose proof (abort_out_length (set_res (advance s2 0)) None) as X.
    change (h_out (set_res (advance s2 0))) with (h_out s2) in X. rewrite Ho2, Ho1 in X. lia.
  - specialize (Hk eq_refl). cbn [Nat.eqb].
    destruct (first_bad _ _) as [[j v]|].
    + assert (Z : forall e, cap_post L (abort (advance s2 (S (h_cur s))) e)).
      { intro e. left. split; [apply abort_running; [exact Hr2|exact Hc2]|].
        pose proof (abort_out_length (advance s2 (S (h_cur s))) e) as X.
        change (h_out (advance s2 (S (h_cur s)))) with (h_out s2) in X. rewrite Ho2, Ho1 in X. nia. }
      destruct v; try apply Z.
      right. autorewrite with hdb. split; [reflexivity|]. split; [exact Hc2|].
      change (h_out (advance s2 (S (h_cur s)))) with (h_out s2). rewrite Ho2, Ho1. nia.
    + assert (Hn2 : h_n s2 = h_n s) by (unfold s2; autorewrite with hdb; exact Hn1).
      assert (Hs2 : h_self s2 = h_self s) by (unfold s2; autorewrite with hdb; exact Hs1).
      assert (Hsh2 : h_shape s2 = h_shape s) by (unfold s2; autorewrite with hdb; exact Hsh1).
      unfold cap_inv, advance, capacity. prjs. rewrite Hn2, Hs2, Hsh2.
      split; [exact Hr2|]. split; [exact Hc2|]. split; [lia|]. split; [exact Hs|]. split; [exact Hn|].
      split; [exact Busy|].
      exists (k - 1). split; [lia|]. split; [|split].
      * replace (S (h_cur s) + (k - 1)) with (h_cur s + k) by lia.
        intros r j Hrr Hj. prjs. prjs in Hj.
        apply (emit_all_quiet ofp outs (h_cur s + k) s1 Q1 r j Hrr). rewrite <- Hs2 in Hj. exact Hj.
      * rewrite Hp2, Hp1. unfold capacity in Hp. nia.
      * rewrite Ho2, Ho1. nia.
Qed.

(* out_capacity, finalize level: if no peer message is queued for round cur+k or later, a call finalizes at
   most k rounds, puts at most k*n round messages (plus possibly one abort notice) on the channel, and does
   not block provided the channel has room for k*n messages *)
Lemma finalize_capacity vh ofp L f s : cap_inv L s -> cap_post L (finalize vh ofp f s).
Proof.
  apply (finalize_ind vh ofp (cap_inv L) (cap_post L)); [|apply fin_step_cap].
  intros s0 (Hr & _ & _ & _ & _ & _ & k & _ & _ & _ & Ho). left. split; [exact Hr|lia].
Qed.

(* the peers' queue slots and the round counter only move forward inside finalize *)
Definition grows (s0 s : hstate) : Prop :=
  h_self s = h_self s0 /\ h_cur s0 <= h_cur s
  /\ (forall r j, j <> h_self s0 ->
        qget (h_qb s) r j = qget (h_qb s0) r j /\ qget (h_qp s) r j = qget (h_qp s0) r j).

Lemma grows_frame s0 s s' :
  h_self s' = h_self s -> h_cur s' = h_cur s -> h_qb s' = h_qb s -> h_qp s' = h_qp s -> grows s0 s -> grows s0 s'.
Proof. unfold grows. intros -> -> -> ->. auto. Qed.

Lemma grows_quiet s0 s K : grows s0 s -> quiet_from s0 K -> quiet_from s K.
Proof.
  intros (A & _ & C) Q r j Hr Hj. rewrite A in Hj. destruct (C r j Hj) as [-> ->]. apply Q; assumption.
Qed.

Lemma emit_all_others ofp l r j : forall s,
  j <> h_self s -> qget (h_qb (emit_all ofp s l)) r j = qget (h_qb s) r j.
Proof.
  induction l as [|o l IH]; intros s Hj; cbn [emit_all]; [reflexivity|].
  rewrite IH by (destruct (o_bcast o); autorewrite with hdb; exact Hj).
  autorewrite with hdb. destruct (o_bcast o); [|reflexivity].
  unfold store, queue_of. cbn [own_bcast_msg m_bcast m_round m_from].
  destruct (negb _); [reflexivity|].
  destruct (qget (h_qb s) (o_round o) (h_self s)); [reflexivity|]. prjs.
  apply qget_cons_ne. congruence.
Qed.

Lemma fin_step_grows vh ofp s0 s :
  grows s0 s /\ 1 <= h_cur s ->
  match fin_step vh ofp s with
  | FDone s' => terminal s' = true \/ grows s0 s'
  | FCont s3 => grows s0 s3 /\ 1 <= h_cur s3
  end.
Proof.
  intros [G Hc]. unfold fin_step.
  destruct (h_rt s); try (right; exact G).
  destruct (h_cur s =? 0); [right; exact G|].
  assert (G1 : grows s0 (snd (received_all vh s))) by (revert G; apply grows_frame; autorewrite with hdb; reflexivity).
  assert (Hc1 : h_cur (snd (received_all vh s)) = h_cur s) by (autorewrite with hdb; reflexivity).
  assert (Hs1 : h_self (snd (received_all vh s)) = h_self s) by (autorewrite with hdb; reflexivity).
  set (s1 := snd (received_all vh s)) in *.
  destruct (negb (fst _)); [right; exact G1|].
  destruct (negb (check_broadcast_hash s1)).
  { right. revert G1. apply grows_frame; autorewrite with hdb; reflexivity. }
  destruct (fin_panics s1).
  { right. revert G1. apply grows_frame; autorewrite with hdb; reflexivity. }
  set (s2 := emit_all ofp s1 (round_outputs s1 (h_cur s1) (cur_bv s1))).
  assert (G2 : grows s0 s2).
  { destruct G1 as (A & B & C). unfold s2. split; [autorewrite with hdb; exact A|].
    split; [autorewrite with hdb; exact B|].
    intros r j Hj. rewrite emit_all_others by congruence. autorewrite with hdb. apply C, Hj. }
  destruct (h_rt s2); try (right; exact G2).
  destruct (existsb _ _); [right; exact G2|].
  unfold next_round.
  destruct (sh_final (h_shape s1) <=? h_cur s1).
  - cbn [Nat.eqb]. left. unfold terminal. autorewrite with hdb. unfold set_res. prjs. apply orb_true_r.
  - cbn [Nat.eqb].
    assert (G3 : grows s0 (advance s2 (S (h_cur s1)))).
    { destruct G2 as (A & B & C). unfold advance, grows. prjs. repeat split; try apply C; auto.
      unfold s2 in B. autorewrite with hdb in B. lia. }
    destruct (first_bad _ _) as [[j []]|].
    + right. revert G3. apply grows_frame; autorewrite with hdb; reflexivity.
    + right. revert G3. apply grows_frame; autorewrite with hdb; reflexivity.
    + right. revert G3. apply grows_frame; autorewrite with hdb; reflexivity.
    + right. revert G3. apply grows_frame; autorewrite with hdb; reflexivity.
    + split; [exact G3|]. unfold advance. prjs. lia.
Qed.

Lemma finalize_grows vh ofp f s :
  1 <= h_cur s -> terminal (finalize vh ofp f s) = true \/ grows s (finalize vh ofp f s).
Proof.
  intro Hc.
  apply (finalize_ind vh ofp (fun x => grows s x /\ 1 <= h_cur x) (fun x => terminal x = true \/ grows s x)).
  - intros x [G _]. right. exact G.
  - apply fin_step_grows.
  - split; [|exact Hc]. repeat split; auto.
Qed.

Lemma accept_body_grows vh ofp s m K :
  1 <= h_cur s -> quiet_from s K -> m_round m < K ->
  let s' := accept_body vh ofp s m in
  terminal s' = true \/ (h_cur s <= h_cur s' /\ quiet_from s' K).
Proof.
  intros Hc Q Hm s'. subst s'. unfold accept_body.
  destruct (h_rt s); try (right; split; [lia|exact Q]).
  destruct (_ || _); [right; split; [lia|exact Q]|].
  destruct (m_round m =? 0).
  { right. autorewrite with hdb. split; [lia|]. revert Q. apply quiet_frame; autorewrite with hdb; reflexivity. }
  pose proof (store_low_quiet s m K Hm Q) as Q1.
  destruct (negb _); [right; autorewrite with hdb; split; [lia|exact Q1]|].
  destruct (if m_bcast m then _ else _).
  - destruct (finalize_grows vh ofp (fuel_of (store s m)) (store s m)) as [T|G]; [autorewrite with hdb; exact Hc|left; exact T|].
    right. split; [|eapply grows_quiet; eassumption].
    destruct G as (_ & B & _). autorewrite with hdb in B. exact B.
  - right. autorewrite with hdb. split; [lia|]. revert Q1. apply quiet_frame; autorewrite with hdb; reflexivity.
  - right. autorewrite with hdb. split; [lia|]. revert Q1. apply quiet_frame; autorewrite with hdb; reflexivity.
  - right. autorewrite with hdb. split; [lia|]. revert Q1. apply quiet_frame; autorewrite with hdb; reflexivity.
Qed.

Lemma recover_terminal s : terminal s = true -> terminal (recover_abort s) = true.
Proof.
  intro T. unfold recover_abort. destruct (h_rt s); try exact T. cbv zeta.
  rewrite (terminal_eq s (set_rt s Running)) by (autorewrite with hdb; reflexivity). rewrite T.
  rewrite (terminal_eq s) by (autorewrite with hdb; reflexivity). exact T.
Qed.

Lemma accept_grows vh ofp s m K :
  1 <= h_cur s -> quiet_from s K -> m_round m < K ->
  let s' := accept vh ofp s m in
  terminal s' = true \/ (h_cur s <= h_cur s' /\ quiet_from s' K).
Proof.
  intros Hc Q Hm s'. subst s'. unfold accept.
  destruct (h_rt s); try (right; split; [lia|exact Q]).
  destruct (accept_body_grows vh ofp s m K Hc Q Hm) as [T|[A B]]; cbv zeta in *.
  - left. apply recover_terminal, T.
  - right. autorewrite with hdb. split; [exact A|]. revert B. apply quiet_frame; autorewrite with hdb; reflexivity.
Qed.

(* out_capacity, Accept level *)
Lemma accept_body_capacity vh ofp s m k :
  life_ok s -> h_rt s = Running -> 1 <= h_cur s -> 1 <= k ->
  h_self s < h_n s -> 2 <= h_n s -> busy_shape (h_shape s) ->
  quiet_from s (h_cur s + k) -> m_round m < h_cur s + k ->
  h_pending s + k * h_n s <= capacity s ->
  cap_post (length (h_out s) + k * h_n s) (accept_body vh ofp s m).
Proof.
  intros L Hr Hc Hk Hs Hn Busy Q Hm Hp. unfold accept_body. rewrite Hr.
  destruct (_ || _) eqn:G; [left; split; [exact Hr|lia]|].
  apply accept_guard_terminal in G as (_ & T & _).
  destruct (life_not_terminal s L T) as (Hcl & _ & _).
  destruct (m_round m =? 0).
  { left. split; [apply abort_running; assumption|].
    pose proof (abort_out_length s (Some ([m_from m], EAbortNotice))). lia. }
  set (s1 := store s m).
  assert (Hr1 : h_rt s1 = Running) by (unfold s1; autorewrite with hdb; exact Hr).
  assert (Hcl1 : h_closes s1 = 0) by (unfold s1; autorewrite with hdb; exact Hcl).
  assert (Ho1 : h_out s1 = h_out s) by (unfold s1; autorewrite with hdb; reflexivity).
  destruct (negb _); [left; split; [exact Hr1|rewrite Ho1; lia]|].
  destruct (if m_bcast m then _ else _).
  - apply finalize_capacity.
    unfold cap_inv, capacity, s1. autorewrite with hdb.
    repeat split; try assumption.
    exists k. split; [lia|]. split; [apply store_low_quiet; assumption|]. unfold capacity in Hp. split; lia.
  - left. split; [apply abort_running; assumption|].
    pose proof (abort_out_length s1 (Some ([m_from m], EVerify))). rewrite Ho1 in *. lia.
  - left. split; [apply abort_running; assumption|].
    pose proof (abort_out_length s1 (Some ([], EBroadcastHash))). rewrite Ho1 in *. lia.
  - right. autorewrite with hdb. split; [reflexivity|]. split; [exact Hcl1|]. rewrite Ho1. lia.
Qed.

(* the recovery adds at most the abort notice and never blocks (non-blocking send) *)
Lemma recover_cap L s : cap_post L s -> h_rt (recover_abort s) = Running /\ length (h_out (recover_abort s)) <= L + 1.
Proof.
  intros [[Hr Ho]|(Hr & Hc & Ho)].
  - rewrite recover_abort_running by exact Hr. auto.
  - unfold recover_abort. rewrite Hr. cbv zeta. destruct (terminal _).
    + autorewrite with hdb. split; [reflexivity|lia].
    + split; [apply abort_running; autorewrite with hdb; [reflexivity|exact Hc]|].
      pose proof (abort_out_length (set_rt s Running) (Some ([], EPanic))) as X. autorewrite with hdb in X. lia.
Qed.

Theorem out_capacity vh ofp s m k :
  life_ok s -> h_rt s = Running -> 1 <= h_cur s -> 1 <= k ->
  h_self s < h_n s -> 2 <= h_n s -> busy_shape (h_shape s) ->
  quiet_from s (h_cur s + k) -> m_round m < h_cur s + k ->
  h_pending s + k * h_n s <= capacity s ->
  let s' := accept vh ofp s m in
  h_rt s' = Running /\ length (h_out s') <= length (h_out s) + k * h_n s + 1.
Proof.
  intros L Hr Hc Hk Hs Hn Busy Q Hm Hp s'. subst s'. unfold accept. rewrite Hr.
  apply recover_cap, accept_body_capacity; assumption.
Qed.

(* ------------------------------------------------------------------ *)
(* C17: no blocking in well-drained histories with honest-shaped traffic *)
(* ------------------------------------------------------------------ *)
(* honest-shaped traffic: every delivered message is for a round at most one ahead of the handler
   (an honest peer needs this party's round-r message before it can send round r+1) *)
Fixpoint peers_one_ahead (vh : nat -> list N -> N) (ofp : nat -> N) (s : hstate) (es : list api) : Prop :=
  match es with
  | [] => True
  | e :: es' =>
      match e with Accept m => m_round m <= S (h_cur s) | _ => True end
      /\ peers_one_ahead vh ofp (api_step_drained true vh ofp s e) es'
  end.

Definition drained_inv (s : hstate) : Prop :=
  life_ok s /\ h_rt s = Running /\ h_pending s = 0
  /\ h_self s < h_n s /\ 2 <= h_n s /\ busy_shape (h_shape s)
  /\ (terminal s = false -> 1 <= h_cur s /\ quiet_from s (h_cur s + 2)).

Lemma drained_inv_step vh ofp s e :
  drained_inv s ->
  match e with Accept m => m_round m <= S (h_cur s) | _ => True end ->
  drained_inv (api_step_drained true vh ofp s e).
Proof.
  intros (L & Hr & Hp & Hs & Hn & Busy & Hq) He.
  unfold api_step_drained, drain_all.
  set (s' := api_step true vh ofp s e).
  assert (St : same_static s s') by apply api_step_static.
  destruct St as (S1 & S2 & _ & _ & S5).
  assert (L' : life_ok s') by (apply api_step_life; exact L).
  assert (Main : h_rt s' = Running /\ (terminal s' = false -> 1 <= h_cur s' /\ quiet_from s' (h_cur s' + 2))).
  { unfold s'. destruct e as [m| |k]; cbn [api_step].
    - destruct (terminal s) eqn:T.
      + rewrite terminal_noop by exact T. split; [exact Hr|]. intro; congruence.
      + destruct (Hq eq_refl) as [Hc Q].
        destruct (out_capacity vh ofp s m 2) as [A _]; try assumption; try lia.
        { unfold capacity. lia. }
        split; [exact A|]. intro T'.
        destruct (accept_grows vh ofp s m (h_cur s + 2) Hc Q) as [X|[X Y]]; [lia|cbv zeta in X; congruence|].
        cbv zeta in X, Y. split; [lia|]. revert Y. apply quiet_from_le. lia.
    - unfold stop. rewrite Hr. destruct (terminal s) eqn:T.
      + split; [exact Hr|]. intro; congruence.
      + destruct (life_not_terminal s L T) as (Hcl & _ & _).
        destruct (abort_some_running s ([h_self s], EUser) Hr Hcl) as (E & _ & R).
        split; [exact R|]. unfold terminal. rewrite E. cbn. discriminate.
    - split; [autorewrite with hdb; exact Hr|].
      rewrite (terminal_eq s (drain k s)) by reflexivity. exact Hq. }
  destruct Main as [Hr' Hq'].
  unfold drained_inv. autorewrite with hdb.
  rewrite (terminal_eq s' (drain (h_pending s') s')) by reflexivity.
  rewrite S1, S2, S5.
  split; [apply drain_life; exact L'|]. split; [exact Hr'|]. split; [lia|].
  split; [exact Hs|]. split; [exact Hn|]. split; [exact Busy|].
  intro T. destruct (Hq' T) as [A B]. split; [exact A|].
  revert B. apply quiet_frame; reflexivity.
Qed.

Lemma drained_inv_init vh ofp self n ssid proto sh :
  self < n -> 2 <= n -> busy_shape sh ->
  drained_inv (drain_all (new_handler vh ofp self n ssid proto sh)).
Proof.
  intros Hs Hn Busy. unfold drain_all.
  set (s' := new_handler vh ofp self n ssid proto sh).
  pose proof (new_handler_static vh ofp self n ssid proto sh) as (S1 & S2 & _ & _ & S5). fold s' in S1, S2, S5.
  cbn in S1, S2, S5.
  assert (L' : life_ok s') by apply new_handler_life.
  assert (C : cap_post n s').
  { apply finalize_capacity. unfold cap_inv, capacity. cbn.
    repeat split; try lia; try assumption.
    exists 1. split; [lia|]. split; [|cbn; lia].
    intros r j _ _. split; reflexivity. }
  assert (Hr' : h_rt s' = Running).
  { destruct C as [[X _]|(X & _)]; [exact X|].
    apply life_not_panicked in L'. rewrite X in L'. discriminate. }
  unfold drained_inv. autorewrite with hdb.
  rewrite (terminal_eq s' (drain (h_pending s') s')) by reflexivity.
  rewrite S1, S2, S5.
  split; [apply drain_life; exact L'|]. split; [exact Hr'|]. split; [lia|].
  split; [exact Hs|]. split; [exact Hn|]. split; [exact Busy|].
  intro T.
  destruct (finalize_grows vh ofp (fuel_of (init_state self n ssid proto sh)) (init_state self n ssid proto sh)) as [X|G];
    [cbn; lia|fold (new_handler vh ofp self n ssid proto sh) in X; fold s' in X; congruence|].
  fold (new_handler vh ofp self n ssid proto sh) in G. fold s' in G.
  split.
  - destruct G as (_ & B & _). cbn in B. exact B.
  - apply (quiet_frame s'); try reflexivity.
    eapply grows_quiet; [exact G|]. intros r j _ _. split; reflexivity.
Qed.

Theorem no_block_when_drained vh ofp self n ssid proto sh es :
  self < n -> 2 <= n -> busy_shape sh ->
  let s0 := drain_all (new_handler vh ofp self n ssid proto sh) in
  peers_one_ahead vh ofp s0 es ->
  let s := run_api_drained true vh ofp s0 es in
  h_rt s = Running /\ h_rt s <> BlockedOnSend.
Proof.
  intros Hs Hn Busy s0 H s.
  assert (J : drained_inv s).
  { subst s. pose proof (drained_inv_init vh ofp self n ssid proto sh Hs Hn Busy) as J0. fold s0 in J0.
    revert H J0. generalize s0. clear s0.
    induction es as [|e es IH]; intros s0 H J0; [exact J0|].
    cbn [peers_one_ahead] in H. destruct H as [He H].
    unfold run_api_drained. cbn [fold_left]. apply IH; [exact H|].
    apply drained_inv_step; assumption. }
  destruct J as (_ & Hr & _). split; [exact Hr|]. rewrite Hr. discriminate.
Qed.

(* ------------------------------------------------------------------ *)
(* The Stop guard as found at the pinned commit (fixed = false)         *)
(* ------------------------------------------------------------------ *)
(* general form: on EVERY unfinished state Stop does nothing ... *)
Lemma stop_v0_running_noop s : terminal s = false -> stop false s = s.
Proof. intro T. unfold stop. rewrite T. destruct (h_rt s); reflexivity. Qed.

(* ... and on every finished (closed) state it sends on the closed channel *)
Lemma stop_v0_finished_panics s :
  h_rt s = Running -> terminal s = true -> 0 < h_closes s -> h_rt (stop false s) = Panicked 2.
Proof.
  intros Hr T Hc. unfold stop, abort. rewrite Hr, T.
  apply Nat.ltb_lt in Hc. rewrite Hc. unfold close_out. cbn. reflexivity.
Qed.

(* concrete witnesses: n = 2, two rounds, round 2 = one p2p message to all (the example/xor shape) *)
Definition xor_shape : shape := mkShape 2 (fun _ => false) (fun r => if r =? 2 then P2PAll else NoP2P).
Definition xor_msg (from : party) (r : nat) (valid : bool) : msg := mkMsg 7 9 from None r true false 0 5 valid NoPanic.
Definition xor_start vh ofp : hstate := new_handler vh ofp 0 2 7 9 xor_shape.

Lemma xor_start_reachable fixed vh ofp : reachable fixed vh ofp 0 2 7 9 xor_shape (xor_start vh ofp).
Proof. exists []. reflexivity. Qed.

Theorem stop_v0_running_refuted vh ofp :
  exists s, reachable false vh ofp 0 2 7 9 xor_shape s
            /\ h_rt s = Running /\ terminal s = false
            /\ stop false s = s
            /\ result_class (stop false s) = 0 /\ h_closes (stop false s) = 0.
Proof.
  exists (xor_start vh ofp). split; [apply xor_start_reachable|].
  vm_compute. repeat split.
Qed.

Theorem stop_v0_finished_panics_refuted vh ofp :
  exists s, reachable false vh ofp 0 2 7 9 xor_shape s
            /\ h_rt s = Running /\ terminal s = true /\ result_class s = 1
            /\ h_rt (stop false s) = Panicked 2.
Proof.
  exists (run_api false vh ofp (xor_start vh ofp) [Accept (xor_msg 1 2 true)]).
  split; [exists [Accept (xor_msg 1 2 true)]; reflexivity|].
  vm_compute. repeat split.
Qed.

(* hence the lifecycle invariant fails for the guard as found *)
Theorem lifecycle_inv_v0_refuted vh ofp :
  exists s, reachable false vh ofp 0 2 7 9 xor_shape s /\ h_rt s = Panicked 2.
Proof.
  exists (run_api false vh ofp (xor_start vh ofp) [Accept (xor_msg 1 2 true); Stop]).
  split; [exists [Accept (xor_msg 1 2 true); Stop]; reflexivity|].
  vm_compute. reflexivity.
Qed.

(* ------------------------------------------------------------------ *)
(* Accept without the deferred recover (as it was before the fix)        *)
(* ------------------------------------------------------------------ *)
(* API histories of the handler whose Accept does not recover (Stop guard repaired, so that this is the only difference) *)
Definition api_step_v0rec (vh : nat -> list N -> N) (ofp : nat -> N) (s : hstate) (e : api) : hstate :=
  match e with
  | Accept m => accept_v0 vh ofp s m
  | Stop => stop true s
  | Drain k => drain k s
  end.
Definition run_api_v0rec (vh : nat -> list N -> N) (ofp : nat -> N) (s : hstate) (es : list api) : hstate :=
  fold_left (api_step_v0rec vh ofp) es s.
Definition reachable_v0rec (vh : nat -> list N -> N) (ofp : nat -> N)
           (self : party) (n : nat) (ssid proto : N) (sh : shape) (s : hstate) : Prop :=
  exists es, s = run_api_v0rec vh ofp (new_handler vh ofp self n ssid proto sh) es.

(* the peer's round-2 message of the xor session, on which the round code panics *)
Definition xor_panic_msg : msg := mkMsg 7 9 1 None 2 true false 0 5 true PanicVerify.

(* without the recovery the panic escapes from Accept: the lifecycle invariant fails (crashed, never closed) *)
Theorem panic_v0_escapes_refuted vh ofp :
  exists s, reachable_v0rec vh ofp 0 2 7 9 xor_shape s
            /\ h_rt s = Panicked 3 /\ result_class s = 0 /\ h_closes s = 0.
Proof.
  exists (run_api_v0rec vh ofp (xor_start vh ofp) [Accept xor_panic_msg]).
  split; [exists [Accept xor_panic_msg]; reflexivity|].
  vm_compute. repeat split.
Qed.

(* the same history through Accept as it is: clean abort, nobody named, the message stays queued *)
Theorem panic_contained_witness vh ofp :
  let s := run_api true vh ofp (xor_start vh ofp) [Accept xor_panic_msg] in
  reachable true vh ofp 0 2 7 9 xor_shape s
  /\ h_rt s = Running /\ h_err s = Some ([], EPanic) /\ result_class s = 2 /\ h_closes s = 1
  /\ h_cur s = 2 /\ h_qp s = [(2, 1, xor_panic_msg)]
  /\ h_out s = [mkOut None 2 false 0%N; mkOut None 0 false 0%N].
Proof.
  cbv zeta. split; [exists [Accept xor_panic_msg]; reflexivity|].
  vm_compute. repeat split.
Qed.

(* ------------------------------------------------------------------ *)
(* Blocking IS reachable when a peer pre-sends all later rounds         *)
(* ------------------------------------------------------------------ *)
(* n = 2, seven rounds, every round >= 2 expects one p2p message (no broadcast, so no hash to guess).
   The peer first delivers its messages for rounds 3..7, then round 2: a single Accept then finalizes
   rounds 2,3,4,5 (four messages fill the channel of capacity 2n = 4) and blocks in round 6. *)
Definition chain_shape : shape := mkShape 7 (fun _ => false) (fun r => if 2 <=? r then P2PAll else NoP2P).
Definition chain_msg (r : nat) : msg := mkMsg 7 9 1 None r true false 0 5 true NoPanic.
Definition presend : list api :=
  [Accept (chain_msg 3); Accept (chain_msg 4); Accept (chain_msg 5); Accept (chain_msg 6); Accept (chain_msg 7);
   Accept (chain_msg 2)].

Lemma chain_shape_busy : busy_shape chain_shape.
Proof.
  intros r [H _]. right. cbn. destruct r as [|[|r]]; try lia. cbn. discriminate.
Qed.

Theorem block_reachable_with_presending_peer vh ofp :
  let s0 := drain_all (new_handler vh ofp 0 2 7 9 chain_shape) in
  0 < 2 /\ 2 <= 2 /\ busy_shape chain_shape
  /\ h_rt s0 = Running /\ h_pending s0 = 0
  /\ h_rt (run_api_drained true vh ofp s0 presend) = BlockedOnSend
  /\ ~ peers_one_ahead vh ofp s0 presend.
Proof.
  intro s0. split; [lia|]. split; [lia|]. split; [apply chain_shape_busy|].
  split; [vm_compute; reflexivity|]. split; [vm_compute; reflexivity|].
  split; [vm_compute; reflexivity|].
  intro H. cbn [peers_one_ahead presend] in H. destruct H as [_ [H _]].
  revert H. vm_compute. lia.
Qed.

(* ------------------------------------------------------------------ *)
(* Small concrete states used as non-vacuity examples                   *)
(* ------------------------------------------------------------------ *)
(* n = 3, three rounds, round 2 = broadcast + p2p to each, round 3 = broadcast only *)
Definition ex_shape : shape :=
  mkShape 3 (fun r => (r =? 2) || (r =? 3)) (fun r => if r =? 2 then P2PEach else NoP2P).
Definition ex_vh : nat -> list N -> N := fun r _ => N.of_nat (100 + r).
Definition ex_ofp : nat -> N := fun r => N.of_nat (200 + r).
Definition ex_start : hstate := new_handler ex_vh ex_ofp 0 3 7 9 ex_shape.
Definition ex_b (from : party) (r : nat) (bv : N) (valid : bool) : msg :=
  mkMsg 7 9 from None r true true bv (N.of_nat (10 * r + from)) valid NoPanic.
Definition ex_p (from : party) (r : nat) (bv : N) (valid : bool) : msg :=
  mkMsg 7 9 from (Some 0) r true false bv (N.of_nat (50 + 10 * r + from)) valid NoPanic.
(* a complete honest run of party 0 *)
Definition ex_honest : list api :=
  [Accept (ex_b 1 2 0 true); Accept (ex_p 1 2 0 true); Accept (ex_p 2 2 0 true); Drain 3; Accept (ex_b 2 2 0 true);
   Accept (ex_b 1 3 102 true); Accept (ex_b 2 3 102 true)].
(* the same messages with a panic flag *)
Definition ex_bx (from : party) (r : nat) (bv : N) (pa : panic_at) : msg :=
  mkMsg 7 9 from None r true true bv (N.of_nat (10 * r + from)) true pa.
Definition ex_px (from : party) (r : nat) (bv : N) (pa : panic_at) : msg :=
  mkMsg 7 9 from (Some 0) r true false bv (N.of_nat (50 + 10 * r + from)) true pa.
