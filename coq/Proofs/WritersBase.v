(* WritersBase.v -- interpreter and environments for the byte-level WRITERS of the transcript hash, translated from
   /repo's source on every run (Generated/Writers.v, written by verifgen/gen_writers.go).

   A write program (list wop) is run over
     * an ENVIRONMENT: association list  atom (canonical source text of a path) -> component of the model value (cval);
     * a STORE of byte strings: the locals of the Go function, bytes.Buffers, the writer "w", hasher states "x.h";
     * the one error variable `err` (a boolean: err != nil).
   [None]/[Stuck] = an atom the environment does not know, a value of the wrong shape, an index out of range, a panic:
   no theorem of the form  run ... = Some ...  can hold then.  Every theorem in Proofs/WritersProofs.v says that running
   the GENERATED program of a function on the components of a model value yields exactly the bytes of the model's
   encoder (Model/Framing.v), failure for failure.
   Definitions only; nothing here depends on the shape of the generated programs. *)
From Coq Require Import String Ascii List Bool Arith NArith ZArith.
From MPS Require Import Model.Bytes Model.Framing.
From MPS Require Import Generated.Params Generated.Guards Generated.Writers.
Import ListNotations.
Local Open Scope string_scope.
Local Open Scope N_scope.
Local Open Scope list_scope.

(* ---------------------------------------------------------------- values of atoms *)

Inductive cval :=
| VNil                                   (* nil pointer / nil slice *)
| VObj                                   (* a non-nil pointer; its content is reached through other atoms *)
| VBytes (b : bytes)                     (* []byte / string and the named types of those (non-nil) *)
| VNum (n : N)                           (* unsigned integer, *saferith.Nat, *arith.Modulus *)
| VBig (z : Z)                           (* *big.Int *)
| VBool (b : bool)
| VPoint (p : cpoint)                    (* curve.Point (secp256k1): MarshalBinary = 33 bytes, never fails *)
| VPoints (l : option (list cpoint))     (* []curve.Point (None = nil) *)
| VRes (r : option bytes)                (* outcome of a call into another translated function: its bytes, None = error *)
| VDyn (types : list string) (self : cval) (methods : list (string * cval))
                                         (* an interface value: the type-switch cases it satisfies, the value itself,
                                            the outcome of its methods "WriteTo" "Domain" "MarshalBinary" "TypeOf" *)
| VItems (l : list cval)                 (* a ...interface{} argument list *)
| VIter (l : list (list (string * cval))).  (* a slice that is ranged over: the bindings of each iteration *)

Definition env := list (string * cval).
Definition store := list (string * bytes).

Fixpoint lookup (e : env) (a : string) : option cval :=
  match e with
  | [] => None
  | (k, v) :: e' => if String.eqb k a then Some v else lookup e' a
  end.

Fixpoint sget (s : store) (x : string) : option bytes :=
  match s with
  | [] => None
  | (k, v) :: s' => if String.eqb k x then Some v else sget s' x
  end.

(* assignment: in place when the name exists (the store keeps its shape), appended otherwise *)
Fixpoint sset (s : store) (x : string) (v : bytes) : store :=
  match s with
  | [] => [(x, v)]
  | (k, u) :: s' => if String.eqb k x then (k, v) :: s' else (k, u) :: sset s' x v
  end.

(* leaving a block: names declared inside it go out of scope *)
Definition restrict (outer : store) (s : store) : store :=
  flat_map (fun kv => match sget s (fst kv) with Some v => [(fst kv, v)] | None => [] end) outer.

(* the key under which an environment lists the outcome of a statically resolved call  a.M()  *)
Definition callkey (f a : string) : string := String.append f (String.append " on " a).

(* ---------------------------------------------------------------- constants of the source that occur as widths *)

Definition wconsts : list (string * N) :=
  [ ("params.SecBytes", Z.to_N go_param_SecBytes);
    ("params.BytesIntModN", Z.to_N go_param_BytesIntModN);
    ("params.BitsIntModN", Z.to_N go_param_BitsIntModN);
    ("params.BytesPaillier", Z.to_N go_param_BytesPaillier);
    ("params.BitsPaillier", Z.to_N go_param_BitsPaillier);
    ("params.BytesCiphertext", Z.to_N go_param_BytesCiphertext);
    ("DigestLengthBytes", Z.to_N go_const_hash_DigestLengthBytes) ].

Fixpoint wconst (l : list (string * N)) (c : string) : option N :=
  match l with
  | [] => None
  | (k, v) :: l' => if String.eqb k c then Some v else wconst l' c
  end.

(* ---------------------------------------------------------------- expressions *)

(* a value read as a byte string: a nil slice has no bytes *)
Definition bytes_of (v : cval) : option bytes :=
  match v with
  | VNil => Some []
  | VBytes b => Some b
  | VDyn _ VNil _ => Some []
  | VDyn _ (VBytes b) _ => Some b
  | _ => None
  end.

Definition method (v : cval) (m : string) : option cval :=
  match v with VDyn _ _ ms => lookup ms m | _ => None end.

Definition eval_e (en : env) (s : store) (e : wexp) : option bytes :=
  match e with
  | EAtom a => match lookup en a with Some v => bytes_of v | None => None end
  | EVar x => sget s x
  | ELit l => Some (str l)
  | EMinBytes a => match lookup en a with Some (VNum n) => Some (be_min n) | _ => None end
  | EDomain a => match lookup en a with
                 | Some v => match method v "Domain" with Some (VBytes d) => Some d | _ => None end
                 | None => None end
  | ETypeName a => match lookup en a with
                   | Some v => match method v "TypeOf" with Some (VBytes d) => Some d | _ => None end
                   | None => None end
  end.

(* len(e): of a byte string, or the number of elements of a slice *)
Definition eval_len (en : env) (s : store) (e : wexp) : option N :=
  match e with
  | EAtom a => match lookup en a with
               | Some (VIter l) => Some (N.of_nat (length l))
               | Some (VPoints (Some l)) => Some (N.of_nat (length l))
               | Some (VPoints None) => Some 0
               | Some v => option_map len (bytes_of v)
               | None => None end
  | _ => option_map len (eval_e en s e)
  end.

Fixpoint eval_n (en : env) (s : store) (n : wnum) : option N :=
  match n with
  | NLit k => Some k
  | NConst c => wconst wconsts c
  | NLen e => eval_len en s e
  | NVal a => match lookup en a with Some (VNum k) => Some k | _ => None end
  | NBits a => match lookup en a with Some (VNum k) => Some (N.size k) | _ => None end
  | NAdd a b => match eval_n en s a, eval_n en s b with Some x, Some y => Some (x + y) | _, _ => None end
  | NConv bits a => match eval_n en s a with Some x => Some (x mod 2 ^ bits) | None => None end
  end.

Definition is_nil (v : cval) : bool :=
  match v with
  | VNil => true
  | VPoints None => true
  | VDyn _ VNil _ => true
  | _ => false
  end.

Fixpoint eval_c (en : env) (s : store) (c : wcond) : option bool :=
  match c with
  | CNil a => option_map is_nil (lookup en a)
  | CEmpty a => match lookup en a with Some (VBytes b) => Some (match b with [] => true | _ => false end) | _ => None end
  | CGt a b => match eval_n en s a, eval_n en s b with Some x, Some y => Some (y <? x) | _, _ => None end
  | CNot a => option_map negb (eval_c en s a)
  | CAnd a b => match eval_c en s a with
                | Some true => eval_c en s b
                | Some false => Some false
                | None => None end
  | COr a b => match eval_c en s a with
               | Some false => eval_c en s b
               | Some true => Some true
               | None => None end
  end.

(* ---------------------------------------------------------------- byte-slice operations *)

(* N -> nat by structural recursion on the binary representation (computes under cbn, unlike n_nat) *)
Fixpoint pos_nat (p : positive) : nat :=
  match p with
  | xH => 1
  | xO q => pos_nat q + pos_nat q
  | xI q => S (pos_nat q + pos_nat q)
  end.
Definition n_nat (n : N) : nat := match n with N0 => O | Npos p => pos_nat p end.


(* binary.BigEndian.PutUintW(x, v): the first w bytes of x are overwritten (panics when x is shorter) *)
Definition put_int (w : nat) (cur : bytes) (v : N) : option bytes :=
  if (w <=? length cur)%nat then Some (be_bytes w v ++ skipn w cur) else None.

(* copy(x[off:], b) *)
Definition copy_at (cur : bytes) (off : nat) (b : bytes) : option bytes :=
  if (off <=? length cur)%nat
  then Some (firstn off cur ++ firstn (length cur - off) b ++ skipn (off + length b) cur)
  else None.

(* fxamacker/cbor, struct as a map: head(5, #fields), then per field  text-string key, value.
   Values that occur: bool (f4/f5), []curve.Point (f6 when nil, else an array of byte strings = MarshalBinary) *)
Definition cbor_value (ty : string) (v : cval) : option bytes :=
  match v with
  | VBool b => if String.eqb ty "bool" then Some [if b then 245 else 244] else None
  | VPoints o => if String.eqb ty "[]curve.Point"
                 then Some (match o with
                            | None => [246]
                            | Some l => cbor_head 4 (N.of_nat (length l))
                                        ++ flat_map (fun p => cbor_head 2 (len (point_bytes p)) ++ point_bytes p) l
                            end)
                 else None
  | _ => None
  end.

Fixpoint cbor_fields (en : env) (fs : list (string * string * string)) : option bytes :=
  match fs with
  | [] => Some []
  | (k, ty, a) :: fs' =>
      match lookup en a, cbor_fields en fs' with
      | Some v, Some r => match cbor_value ty v with
                          | Some b => Some (cbor_head 3 (len (str k)) ++ str k ++ b ++ r)
                          | None => None end
      | _, _ => None
      end
  end.

Definition cbor_struct (en : env) (fs : list (string * string * string)) : option bytes :=
  option_map (fun b => cbor_head 5 (N.of_nat (length fs)) ++ b) (cbor_fields en fs).

(* ---------------------------------------------------------------- interpreter *)

Inductive rval :=
| RNone
| RBytes (l : list bytes)          (* return e1, .., nil *)
| RBool (b : bool)                 (* return bytes.Equal(..) *)
| RHash (st : bytes)               (* return <*Hash>: the bytes it has absorbed *)
| RDigest (st : bytes).            (* return <reader over the digest of st> *)

Inductive res :=
| Next (s : store) (e : bool)      (* fell through; e: err != nil *)
| Ret (s : store) (v : rval)       (* returned with a nil error *)
| Err (s : store)                  (* returned a non-nil error (Decommit: false) *)
| Stuck.

Section Exec.
  (* digest stream of the hasher: the first n bytes of the output for the absorbed bytes *)
  Variable xof : bytes -> nat -> bytes.
  (* callee semantics of x.WriteAny(items...): new state and "returned nil" -- instantiated with the run of the
     translated WriteAny itself (second level), absent at the first level *)
  Variable wany : bytes -> list cval -> option (bytes * bool).
  (* callee semantics of x.Sum() *)
  Variable sum : bytes -> option bytes.
  (* a byte-slice local of the given static type as an interface value *)
  Variable local_dyn : string -> bytes -> option cval.

  Section Seq.
    Variable step : env -> wop -> store -> bool -> res.

    Fixpoint seq (en : env) (p : list wop) (s : store) (e : bool) : res :=
      match p with
      | [] => Next s e
      | o :: p' => match step en o s e with
                   | Next s' e' => seq en p' s' e'
                   | r => r
                   end
      end.

    (* a nested block: what it declares is gone afterwards *)
    Definition blk (en : env) (p : list wop) (s : store) (e : bool) : res :=
      match seq en p s e with
      | Next s' e' => Next (restrict s s') e'
      | r => r
      end.

    (* type switch: the first case whose type the dynamic value satisfies; None = no case does (default) *)
    Fixpoint switch (en : env) (tys : list string) (cases : list (string * list wop)) (s : store) (e : bool) : option res :=
      match cases with
      | [] => None
      | (ty, body) :: cs => if existsb (String.eqb ty) tys then Some (blk en body s e) else switch en tys cs s e
      end.
  End Seq.

  (* range loop: f runs the body on the bindings of one iteration *)
  Fixpoint loop (f : env -> store -> bool -> res) (its : list env) (s : store) (e : bool) : res :=
    match its with
    | [] => Next s e
    | it :: its' => match f it s e with
                    | Next s' e' => loop f its' s' e'
                    | r => r
                    end
    end.

  Definition set_err (seterr : bool) (failed : bool) (e : bool) : bool := if seterr then failed else e.

  (* x, err := <fallible bytes>: on failure x is nil *)
  Definition bind_res (s : store) (x : string) (r : option bytes) (seterr e : bool) : res :=
    match r with
    | Some b => Next (sset s x b) (set_err seterr false e)
    | None => Next (sset s x []) (set_err seterr true e)
    end.

  (* _, err = <fallible writer>(dst): on failure nothing is appended (what was written before the error is never used) *)
  Definition append_res (s : store) (dst : string) (r : option bytes) (seterr e : bool) : res :=
    match sget s dst with
    | None => Stuck
    | Some cur => match r with
                  | Some b => Next (sset s dst (cur ++ b)) (set_err seterr false e)
                  | None => Next s (set_err seterr true e)
                  end
    end.

  Fixpoint exec_op (en : env) (o : wop) (s : store) (e : bool) {struct o} : res :=
    match o with
    | WFailIf c => match eval_c en s c with
                   | Some true => Err s
                   | Some false => Next s e
                   | None => Stuck end
    | WFail => Err s
    | WCheck => if e then Err s else Next s false
    | WCheckPanic => if e then Stuck else Next s false
    | WWrite dst ex se =>
        match eval_e en s ex with
        | Some b => append_res s dst (Some b) se e
        | None => Stuck end
    | WWriteInt dst w v se =>
        match eval_n en s v with
        | Some n => append_res s dst (Some (be_bytes (n_nat w) n)) se e
        | None => Stuck end
    | WMake x n => match eval_n en s n with
                   | Some k => Next (sset s x (repeat 0 (n_nat k))) e
                   | None => Stuck end
    | WNewBuf x => Next (sset s x []) e
    | WSet x ex => match eval_e en s ex with
                   | Some b => Next (sset s x b) e
                   | None => Stuck end
    | WPutInt w x v =>
        match sget s x, eval_n en s v with
        | Some cur, Some n => match put_int (n_nat w) cur n with
                              | Some b => Next (sset s x b) e
                              | None => Stuck end
        | _, _ => Stuck end
    | WFill x a =>
        match sget s x, lookup en a with
        | Some cur, Some (VNum n) => Next (sset s x (be_bytes (length cur) n)) e
        | _, _ => Stuck end
    | WCopy x off ex =>
        match sget s x, eval_e en s ex with
        | Some cur, Some b => match copy_at cur (n_nat off) b with
                              | Some r => Next (sset s x r) e
                              | None => Stuck end
        | _, _ => Stuck end
    | WMarshal x a se =>
        match lookup en a with
        | Some (VPoint p) => bind_res s x (Some (point_bytes p)) se e
        | Some v => match method v "MarshalBinary" with
                    | Some (VRes r) => bind_res s x r se e
                    | _ => Stuck end
        | None => Stuck end
    | WCallB x f a se =>
        match lookup en (callkey f a) with
        | Some (VRes r) => bind_res s x r se e
        | _ => Stuck end
    | WGob x a =>
        match lookup en a with
        | Some (VBig z) | Some (VDyn _ (VBig z) _) => Next (sset s x (gob_bigint z)) e
        | _ => Stuck end
    | WCbor x fs se =>
        match cbor_struct en fs with
        | Some b => bind_res s x (Some b) se e
        | None => Stuck end
    | WCall f a dst se =>
        match lookup en (callkey f a) with
        | Some (VRes r) => append_res s dst r se e
        | _ => Stuck end
    | WCallDyn a dst se =>
        match lookup en a with
        | Some v => match method v "WriteTo" with
                    | Some (VRes r) => append_res s dst r se e
                    | _ => Stuck end
        | None => Stuck end
    | WCount _ => Next s e
    | WIf c a b => match eval_c en s c with
                   | Some true => blk exec_op en a s e
                   | Some false => blk exec_op en b s e
                   | None => Stuck end
    | WFor _ r body => match lookup en r with
                       | Some (VIter its) => loop (fun it s' e' => blk exec_op (it ++ en) body s' e') its s e
                       | _ => Stuck end
    | WSwitch t d cases def =>
        match lookup en d with
        | Some (VDyn tys self ms) =>
            match switch exec_op ((t, VDyn tys self ms) :: en) tys cases s e with
            | Some r => r
            | None => blk exec_op en def s e
            end
        | _ => Stuck end
    | WReturn _ => Ret s RNone
    | WRetErr _ => if e then Err s else Ret s RNone
    | WReturnB es =>
        match fold_right (fun ex acc => match eval_e en s ex, acc with
                                        | Some b, Some l => Some (b :: l)
                                        | _, _ => None end) (Some []) es with
        | Some l => Ret s (RBytes l)
        | None => Stuck end
    | WHashNew x => Next (sset s x []) e
    | WHashCopy x y | WHashClone x y =>
        match sget s y with
        | Some st => Next (sset s x st) e
        | None => Stuck end
    | WAny h arg spread se =>
        let items :=
          match arg with
          | AAtom a => match lookup en a with
                       | Some (VItems l) => if spread then Some l else None
                       | Some (VDyn tys self ms) => if spread then None else Some [VDyn tys self ms]
                       | _ => None end
          | ALocal ty x => if spread then None else
                           match sget s x with
                           | Some b => option_map (fun v => [v]) (local_dyn ty b)
                           | None => None end
          end in
        match sget s h, items with
        | Some st, Some l => match wany st l with
                             | Some (st', ok) => Next (sset s h st') (set_err se (negb ok) e)
                             | None => Stuck end
        | _, _ => Stuck end
    | WReadFull x h =>
        match sget s x, sget s h with
        | Some cur, Some st => Next (sset s x (xof st (length cur))) false
        | _, _ => Stuck end
    | WSum x h =>
        match sget s h with
        | Some st => match sum st with
                     | Some b => Next (sset s x b) e
                     | None => Stuck end
        | None => Stuck end
    | WRand x se =>
        match sget s x, lookup en "rand.Read" with
        | Some cur, Some (VBytes r) => if (length r =? length cur)%nat then Next (sset s x r) (set_err se false e) else Stuck
        | Some cur, Some VNil => Next s (set_err se true e)
        | _, _ => Stuck end
    | WTry a => match lookup en a with
                | Some (VBool ok) => Next s (negb ok)
                | _ => Stuck end
    | WRetEq a b => match eval_e en s a, eval_e en s b with
                    | Some x, Some y => Ret s (RBool (bytes_eqb x y))
                    | _, _ => Stuck end
    | WRetHash x => match sget s x with Some st => Ret s (RHash st) | None => Stuck end
    | WRetDigest x => match sget s x with Some st => Ret s (RDigest st) | None => Stuck end
    end.

  Definition exec := seq exec_op.
End Exec.

(* what a run returned: Some (Some v) = value v with a nil error, Some None = an error, None = stuck *)
Definition result_of (r : res) : option (option rval) :=
  match r with Ret _ v => Some (Some v) | Err _ => Some None | _ => None end.
(* ... for a function that returns a bool and reports failure as false (Decommit) *)
Definition bool_result (r : res) : option bool :=
  match r with Ret _ (RBool b) => Some b | Err _ => Some false | _ => None end.

(* the translated program registered under a key `dir.Type.Method` *)
Fixpoint prog_of (l : list (string * list wop)) (k : string) : option (list wop) :=
  match l with
  | [] => None
  | (k', p) :: l' => if String.eqb k' k then Some p else prog_of l' k
  end.

(* the body of the first range loop of a program (for stating lemmas about that loop) *)
Fixpoint first_for (p : list wop) : list wop :=
  match p with
  | [] => []
  | WFor _ _ b :: _ => b
  | _ :: p' => first_for p'
  end.

(* ---------------------------------------------------------------- running a translated function *)

Section Run.
  Variable xof : bytes -> nat -> bytes.

  (* first level: no calls back into pkg/hash *)
  Definition exec1 := exec xof (fun _ _ => None) (fun _ => None) (fun _ _ => None).

  (* WriteTo(w): Some (Some b) = wrote b and returned nil, Some None = returned an error, None = stuck *)
  Definition writer_result (en : env) (p : list wop) : option (option bytes) :=
    match exec1 en p [("w", [])] false with
    | Ret s _ => match sget s "w" with Some b => Some (Some b) | None => None end
    | Err _ => Some None
    | _ => None
    end.

  (* MarshalBinary() ([]byte, error) *)
  Definition marshal_result (en : env) (p : list wop) : option (option bytes) :=
    match exec1 en p [] false with
    | Ret _ (RBytes [b]) => Some (Some b)
    | Err _ => Some None
    | _ => None
    end.

  (* Domain() string *)
  Definition domain_result (en : env) (p : list wop) : option bytes :=
    match exec1 en p [] false with
    | Ret _ (RBytes [b]) => Some b
    | _ => None
    end.

  (* the outcome of a callee as an environment entry; a stuck callee makes the caller stuck *)
  Definition res_of (r : option (option bytes)) : cval :=
    match r with Some o => VRes o | None => VBool false end.
  Definition dom_of (r : option bytes) : cval :=
    match r with Some d => VBytes d | None => VBool false end.

  (* hash.WriteAny(items...) on a hasher that has absorbed st *)
  Definition any_iters (items : list cval) : list env := map (fun v => [("d", v)]) items.
  Definition writeany_run (p : list wop) (st : bytes) (items : list cval) : option (bytes * bool) :=
    match exec1 [("data", VIter (any_iters items))] p [("hash.h", st)] false with
    | Ret s _ => option_map (fun b => (b, true)) (sget s "hash.h")
    | Err s => option_map (fun b => (b, false)) (sget s "hash.h")
    | _ => None
    end.

  Definition sum_run (p : list wop) (st : bytes) : option bytes :=
    match exec1 [] p [("hash.h", st)] false with
    | Ret _ (RBytes [b]) => Some b
    | _ => None
    end.
End Run.

(* ---------------------------------------------------------------- environments: the components of the model values *)

Definition opt_bytes (o : option bytes) : cval := match o with Some b => VBytes b | None => VNil end.

Definition env_id (b : bytes) : env := [("id", VBytes b)].
Definition idslice_iters (l : list bytes) : list env := map (fun id => [("id", VBytes id)]) l.
Definition env_idslice (o : option (list bytes)) : env :=
  [("partyIDs", match o with
                | Some l => VIter (idslice_iters l)
                | None => VNil end)].
Definition env_rid (o : option bytes) : env := [("rid", opt_bytes o)].
Definition env_commitment (o : option bytes) : env := [("c", opt_bytes o)].
Definition env_decommitment (o : option bytes) : env := [("d", opt_bytes o)].
Definition env_threshold (t : N) : env := [("t", VNum t)].
Definition env_round (r : N) : env := [("i", VNum r)].
Definition env_sigmsg (o : option bytes) : env := [("t", opt_bytes o)].
Definition env_withdomain (d : bytes) (o : option bytes) : env := [("b.TheDomain", VBytes d); ("b.Bytes", opt_bytes o)].
Definition env_ciphertext (c : N) : env := [("ct", VObj); ("ct.c", VNum c)].
Definition env_paillierpk (n : N) : env := [("pk", VObj); ("pk.n", VNum n)].
Definition env_pedersen (n s t : N) : env := [("p", VObj); ("p.n.Nat()", VNum n); ("p.s", VNum s); ("p.t", VNum t)].
Definition env_exponent_marshal (isconst : bool) (co : option (list cpoint)) : env :=
  [("e.IsConstant", VBool isconst); ("e.coefficients", VPoints co)].
Definition env_elgamal (l m : cpoint) : env := [("c.L", VPoint l); ("c.M", VPoint m)].
Definition env_sch (c : cpoint) : env := [("c.C", VPoint c)].
Definition env_msghash (o : option bytes) : env := [("m", opt_bytes o)].

Section Envs.
  Variable xof : bytes -> nat -> bytes.

  (* Exponent.WriteTo calls p.MarshalBinary(): the run of the translated MarshalBinary on the same polynomial *)
  Definition env_exponent (isconst : bool) (co : option (list cpoint)) : env :=
    [(callkey "pkg/math/polynomial.Exponent.MarshalBinary" "p",
      res_of (marshal_result xof (env_exponent_marshal isconst co) gw_polynomial_Exponent_MarshalBinary))].

  (* config.Public: the two points, and the runs of the translated writers of the Paillier key and the Pedersen
     parameters on the corresponding components *)
  Definition env_public (p : cmp_public) : env :=
    [("p", VObj); ("p.ECDSA", VPoint (cp_ecdsa p)); ("p.ElGamal", VPoint (cp_elgamal p));
     (callkey "pkg/paillier.PublicKey.WriteTo" "p.Paillier",
      res_of (writer_result xof (env_paillierpk (cp_paillier p)) gw_paillier_PublicKey_WriteTo));
     (callkey "pkg/pedersen.Parameters.WriteTo" "p.Pedersen",
      res_of (writer_result xof (env_pedersen (cp_ped_n p) (cp_ped_s p) (cp_ped_t p)) gw_pedersen_Parameters_WriteTo))].
  Definition env_public_opt (o : option cmp_public) : env :=
    match o with Some p => env_public p | None => [("p", VNil)] end.

  (* the loop `for _, j := range partyIDs`: in the iteration of entry e, c.Public[j].WriteTo(w) is the run of the
     translated Public.WriteTo on that entry *)
  Definition config_iters (es : list (bytes * cmp_public)) : list env :=
    map (fun e => [(callkey "protocols/cmp/config.Public.WriteTo" "c.Public[j]",
                    res_of (writer_result xof (env_public (snd e)) gw_config_Public_WriteTo))]) es.

  (* config.Config: c.PartyIDs() = the sorted keys of c.Public; c.Public[j] = the entry of j;
     types.ThresholdWrapper(c.Threshold) = the Go int converted to uint32 *)
  Definition env_config (c : cmp_config) : env :=
    let es := sort_entries (cc_public c) in
    [("c", VObj);
     (callkey "internal/types.ThresholdWrapper.WriteTo" "types.ThresholdWrapper(c.Threshold)",
      res_of (writer_result xof (env_threshold (Z.to_N (cc_threshold c mod 4294967296))) gw_types_ThresholdWrapper_WriteTo));
     (callkey "pkg/party.IDSlice.WriteTo" "c.PartyIDs()",
      res_of (writer_result xof (env_idslice (Some (map fst es))) gw_party_IDSlice_WriteTo));
     ("c.RID", opt_bytes (cc_rid c));
     (callkey "internal/types.RID.WriteTo" "c.RID", res_of (writer_result xof (env_rid (cc_rid c)) gw_types_RID_WriteTo));
     ("c.ChainKey", VBytes (cc_chainkey c));
     ("c.PartyIDs()", VIter (config_iters es))].
  Definition env_config_opt (o : option cmp_config) : env :=
    match o with Some c => env_config c | None => [("c", VNil)] end.

  (* per kind of model value with a WriteTo: (environment, translated WriteTo, translated Domain) *)
  Definition hval_writer (v : hval) : option (env * list wop * list wop) :=
    match v with
    | HID b => Some (env_id b, gw_party_ID_WriteTo, gw_party_ID_Domain)
    | HIDSlice o => Some (env_idslice o, gw_party_IDSlice_WriteTo, gw_party_IDSlice_Domain)
    | HRID o => Some (env_rid o, gw_types_RID_WriteTo, gw_types_RID_Domain)
    | HCommitment o => Some (env_commitment o, gw_hash_Commitment_WriteTo, gw_hash_Commitment_Domain)
    | HDecommitment o => Some (env_decommitment o, gw_hash_Decommitment_WriteTo, gw_hash_Decommitment_Domain)
    | HThreshold t => Some (env_threshold t, gw_types_ThresholdWrapper_WriteTo, gw_types_ThresholdWrapper_Domain)
    | HRound r => Some (env_round r, gw_round_Number_WriteTo, gw_round_Number_Domain)
    | HSigMsg o => Some (env_sigmsg o, gw_types_SigningMessage_WriteTo, gw_types_SigningMessage_Domain)
    | HWithDomain d o => Some (env_withdomain d o, gw_hash_BytesWithDomain_WriteTo, gw_hash_BytesWithDomain_Domain)
    | HCiphertext c => Some (env_ciphertext c, gw_paillier_Ciphertext_WriteTo, gw_paillier_Ciphertext_Domain)
    | HPaillierPK n => Some (env_paillierpk n, gw_paillier_PublicKey_WriteTo, gw_paillier_PublicKey_Domain)
    | HPedersen n s t => Some (env_pedersen n s t, gw_pedersen_Parameters_WriteTo, gw_pedersen_Parameters_Domain)
    | HExponent c co => Some (env_exponent c co, gw_polynomial_Exponent_WriteTo, gw_polynomial_Exponent_Domain)
    | HElGamal l m => Some (env_elgamal l m, gw_elgamal_Ciphertext_WriteTo, gw_elgamal_Ciphertext_Domain)
    | HSchCommitment c => Some (env_sch c, gw_sch_Commitment_WriteTo, gw_sch_Commitment_Domain)
    | HMessageHash o => Some (env_msghash o, gw_sign_messageHash_WriteTo, gw_sign_messageHash_Domain)
    | HCmpPublic o => Some (env_public_opt o, gw_config_Public_WriteTo, gw_config_Public_Domain)
    | HCmpConfig o => Some (env_config_opt o, gw_config_Config_WriteTo, gw_config_Config_Domain)
    | HBytes _ | HBigInt _ | HNat _ _ | HInt _ _ | HModulus _ | HScalar _ | HPoint _ _ => None
    end.

  (* the source key (dir.Type) of the Go type of a kind with a WriteTo *)
  Definition hval_go_type (v : hval) : option string :=
    match v with
    | HID _ => Some "pkg/party.ID" | HIDSlice _ => Some "pkg/party.IDSlice" | HRID _ => Some "internal/types.RID"
    | HCommitment _ => Some "pkg/hash.Commitment" | HDecommitment _ => Some "pkg/hash.Decommitment"
    | HThreshold _ => Some "internal/types.ThresholdWrapper" | HRound _ => Some "internal/round.Number"
    | HSigMsg _ => Some "internal/types.SigningMessage" | HWithDomain _ _ => Some "pkg/hash.BytesWithDomain"
    | HCiphertext _ => Some "pkg/paillier.Ciphertext" | HPaillierPK _ => Some "pkg/paillier.PublicKey"
    | HPedersen _ _ _ => Some "pkg/pedersen.Parameters" | HExponent _ _ => Some "pkg/math/polynomial.Exponent"
    | HElGamal _ _ => Some "internal/elgamal.Ciphertext" | HSchCommitment _ => Some "pkg/zk/sch.Commitment"
    | HMessageHash _ => Some "protocols/frost/sign.messageHash" | HCmpPublic _ => Some "protocols/cmp/config.Public"
    | HCmpConfig _ => Some "protocols/cmp/config.Config"
    | _ => None
    end.

  (* an interface value that satisfies WriterToWithDomain (and, for some types, encoding.BinaryMarshaler too) *)
  Definition writer_dyn (also_marshaler : bool) (wt : cval) (dm : cval) : cval :=
    VDyn (if also_marshaler then ["WriterToWithDomain"; "encoding.BinaryMarshaler"] else ["WriterToWithDomain"])
         VObj [("WriteTo", wt); ("Domain", dm)].
  (* ... only encoding.BinaryMarshaler: MarshalBinary and the type name are the reading of the external libraries
     (saferith, the curve package) that Model/Framing.v has as well *)
  Definition marshaler_dyn (tn : string) (b : bytes) : cval :=
    VDyn ["encoding.BinaryMarshaler"] VObj [("MarshalBinary", VRes (Some b)); ("TypeOf", VBytes (str tn))].

  (* paillier.Ciphertext and polynomial.Exponent also have a MarshalBinary method *)
  Definition also_marshals (v : hval) : bool :=
    match v with HCiphertext _ | HExponent _ _ => true | _ => false end.

  (* a model value as the interface value handed to WriteAny *)
  Definition dyn_of (v : hval) : cval :=
    match v with
    | HBytes o => VDyn ["[]byte"] (opt_bytes o) []
    | HBigInt z => VDyn ["*big.Int"] (VBig z) []
    | HNat k n => marshaler_dyn "*saferith.Nat" (be_bytes k n)
    | HInt k z => marshaler_dyn "*saferith.Int" ((if (z <? 0)%Z then 1 else 0) :: be_bytes k (Z.abs_N z))
    | HModulus n => marshaler_dyn "*saferith.Modulus" (be_min n)
    | HScalar s => marshaler_dyn "*curve.Secp256k1Scalar" (be_bytes 32 s)
    | HPoint x odd => marshaler_dyn "*curve.Secp256k1Point" ((if odd then 3 else 2) :: be_bytes 32 x)
    | _ => match hval_writer v with
           | Some (en, wp, dp) => writer_dyn (also_marshals v) (res_of (writer_result xof en wp)) (dom_of (domain_result xof en dp))
           | None => VNil
           end
    end.

  (* second level: the functions of pkg/hash that call WriteAny / Sum / Clone *)
  Definition local_dyn (ty : string) (b : bytes) : option cval :=
    if String.eqb ty "pkg/hash.Decommitment" then Some (dyn_of (HDecommitment (Some b))) else None.

  Definition exec2 :=
    exec xof (writeany_run xof gw_hash_WriteAny) (sum_run xof gw_hash_Sum) local_dyn.

  (* the digest function of the model (64 bytes of output) *)
  Definition H64 (b : bytes) : bytes := xof b 64.

  Definition item_iters (x : string) (vs : list hval) : list env := map (fun v => [(x, dyn_of v)]) vs.
  Definition items_iter (x : string) (vs : list hval) : cval := VIter (item_iters x vs).

  Definition env_new (vs : list hval) : env := [("initialData", items_iter "d" vs)].
  Definition env_fork (vs : list hval) : env := [("data", VItems (map dyn_of vs))].
  (* Commit: rand.Read fills the decommitment with r *)
  Definition env_commit (vs : list hval) (r : bytes) : env := [("data", items_iter "item" vs); ("rand.Read", VBytes r)].
  (* Decommit: the two Validate calls are the translated guards of Generated/Guards.v, proved equal to
     commitment_valid / decommitment_valid in Properties/C19_guards.v *)
  Definition env_decommit (c d : bytes) (vs : list hval) : env :=
    [("c.Validate()", VBool (commitment_valid c)); ("d.Validate()", VBool (decommitment_valid d));
     ("data", items_iter "item" vs); ("d", dyn_of (HDecommitment (Some d))); ("c", VBytes c)].
End Envs.
