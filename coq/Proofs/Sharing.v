(* Sharing.v -- Shamir/Feldman sharing as produced by the keygen, refresh and derive code of
   /repo/protocols/{cmp,frost,doerner}: consistency of shares, public table and key (C02),
   preservation along histories of refresh/derive/restore (C08), derivation and chain keys (C14).
   Abstract field F (the scalars), abstract F-module G (the curve group) with base point g. *)
From Coq Require Import List Arith Lia Field Ring Permutation Bool NArith ZArith.
From MPS Require Import Model.Bytes Proofs.FieldPoly.
Import ListNotations.

Lemma NoDup_app_tail {A} (l1 l2 : list A) : NoDup (l1 ++ l2) -> NoDup l2.
Proof. induction l1 as [|a l1 IH]; cbn; [auto|]. intros H. inversion H; auto. Qed.

Section Sharing.
Variable F : Type.
Variables (f0 f1 : F) (fadd fmul fsub : F -> F -> F) (fopp : F -> F) (fdiv : F -> F -> F) (finv : F -> F).
Hypothesis FT : field_theory f0 f1 fadd fmul fsub fopp fdiv finv eq.
Hypothesis Feq_dec : forall a b : F, {a = b} + {a <> b}.
Add Field Sfield : FT.
Variable G : Type.
Variables (gadd : G -> G -> G) (gzero : G) (gopp : G -> G) (smul : F -> G -> G).
Hypothesis ML : module_laws f1 fadd fmul gadd gzero gopp smul.
Variable g : G.

Notation "0" := f0 : F_scope.
Notation "1" := f1 : F_scope.
Notation "a + b" := (fadd a b) : F_scope.
Notation "a * b" := (fmul a b) : F_scope.
Notation "a - b" := (fsub a b) : F_scope.
Notation "- a" := (fopp a) : F_scope.
Notation "a / b" := (fdiv a b) : F_scope.
Notation "/ a" := (finv a) : F_scope.
Local Open Scope F_scope.

Notation peval := (FieldPoly.peval F f0 fadd fmul).
Notation fsum := (FieldPoly.fsum F f0 fadd).
Notation fprod := (FieldPoly.fprod F f1 fmul).
Notation psum := (FieldPoly.psum F fadd).
Notation pmul_lin := (FieldPoly.pmul_lin F f0 fadd fmul fopp).
Notation lagrange := (FieldPoly.lagrange F f1 fmul fsub finv Feq_dec).
Notation gsum := (FieldPoly.gsum G gadd gzero).
Notation act := (FieldPoly.act F G smul g).
Notation erep := (FieldPoly.erep G).
Notation eeval := (FieldPoly.eeval F G gadd gzero smul).
Notation efull := (FieldPoly.efull G gzero).
Notation econst := (FieldPoly.econst G gzero).
Notation eofpoly := (FieldPoly.eofpoly F f0 Feq_dec G smul g).
Notation esum := (FieldPoly.esum G gadd).

Let ga_comm := gadd_comm _ _ _ _ _ _ _ ML.
Let ga_assoc := gadd_assoc _ _ _ _ _ _ _ ML.
Let ga_0_l := gadd_0_l _ _ _ _ _ _ _ ML.
Let sm_mul := smul_mul _ _ _ _ _ _ _ ML.
Let sm_add_l := smul_add_l _ _ _ _ _ _ _ ML.
Let sm_add_r := smul_add_r _ _ _ _ _ _ _ ML.

(* ---------- small facts about the base-point action ---------- *)
Lemma act_add a b : act (a + b) = gadd (act a) (act b).
Proof. unfold FieldPoly.act. apply sm_add_l. Qed.
Lemma act_smul c a : smul c (act a) = act (c * a).
Proof. unfold FieldPoly.act. symmetry. apply sm_mul. Qed.
Lemma act_0 : act 0 = gzero.
Proof. unfold FieldPoly.act. apply (smul_0_l FT ML). Qed.
Lemma act_opp a : act (- a) = gopp (act a).
Proof. unfold FieldPoly.act. apply (smul_opp_l FT ML). Qed.
Lemma gopp_add a b : gopp (gadd a b) = gadd (gopp a) (gopp b).
Proof.
  apply (gadd_cancel_l ML (gadd a b)).
  rewrite (gadd_opp_r _ _ _ _ _ _ _ ML), (gadd_swap ML), !(gadd_opp_r _ _ _ _ _ _ _ ML).
  symmetry. apply ga_0_l.
Qed.
Lemma smul_gopp c P : smul c (gopp P) = gopp (smul c P).
Proof.
  apply (gadd_cancel_l ML (smul c P)).
  rewrite <- sm_add_r, !(gadd_opp_r _ _ _ _ _ _ _ ML). apply (smul_0_r ML).
Qed.
Lemma gsum_map_gopp {A} (p : A -> G) l : gsum (map (fun x => gopp (p x)) l) = gopp (gsum (map p l)).
Proof.
  induction l as [|a l IH]; cbn.
  - apply (gadd_cancel_l ML gzero). rewrite (gadd_opp_r _ _ _ _ _ _ _ ML). apply ga_0_l.
  - rewrite IH. symmetry. apply gopp_add.
Qed.

(* the base point is faithful: only the zero scalar kills it (g generates a group of prime order |F|) *)
Definition g_faithful : Prop := forall a, act a = gzero -> a = 0.
Lemma act_inj : g_faithful -> forall a b, act a = act b -> a = b.
Proof.
  intros Hf a b H.
  assert (E : act (a - b) = gzero).
  { replace (a - b) with (a + - b) by ring. rewrite act_add, act_opp, H.
    apply (gadd_opp_r _ _ _ _ _ _ _ ML). }
  apply Hf in E. apply (Fsub_eq0 FT). exact E.
Qed.

(* =====================  C02: key generation  ===================== *)
(* Dealer j holds the polynomial f_j (coefficients constant first) and broadcasts F_j = NewPolynomialExponent(f_j).
   The party with scalar x receives f_j(x) from every j and adds them up (cmp round4.Finalize, frost round3.Finalize). *)
Definition dealt_share (fs : list (list F)) (x : F) : F := fsum (map (fun f => peval f x) fs).
(* sum over the broadcast exponent polynomials of their evaluations at x *)
Definition Phi (es : list erep) (x : F) : G := gsum (map (fun e => eeval e x) es).
(* what the code computes: polynomial.Sum, then Evaluate; None when Sum returns an error *)
Definition code_table (es : list erep) (x : F) : option G :=
  match esum es with Some s => Some (eeval s x) | None => None end.
(* frost: the group key is the sum of the constants; cmp: interpolation of all table entries *)
Definition sum_constants (es : list erep) : G := gsum (map econst es).

Lemma code_table_Phi es x T : code_table es x = Some T -> T = Phi es x.
Proof.
  unfold code_table. destruct (esum es) as [s|] eqn:E; [|discriminate].
  intros H. injection H as <-. apply (esum_spec ML es s E).
Qed.

Lemma dealt_share_psum fs x : dealt_share fs x = peval (psum fs) x.
Proof. unfold dealt_share. symmetry. apply (peval_psum FT). Qed.

(* the secret share times the base point is the party's entry in the public table *)
Theorem share_matches_table fs x : act (dealt_share fs x) = Phi (map eofpoly fs) x.
Proof.
  unfold dealt_share, Phi. rewrite map_map, <- (gsum_map_act FT ML g). f_equal.
  apply map_ext. intros f. symmetry. apply (eeval_eofpoly FT Feq_dec ML).
Qed.
Theorem share_matches_code_table fs x T :
  code_table (map eofpoly fs) x = Some T -> act (dealt_share fs x) = T.
Proof. intros H. rewrite (code_table_Phi _ _ _ H). apply share_matches_table. Qed.

Lemma sum_constants_eofpoly fs : sum_constants (map eofpoly fs) = act (fsum (map (hd 0) fs)).
Proof.
  unfold sum_constants. rewrite map_map, <- (gsum_map_act FT ML g). f_equal.
  apply map_ext. intros f. apply (econst_eofpoly FT Feq_dec ML).
Qed.

(* polynomial.Sum succeeds for honest dealers: all f_j of the same length, constants all non-zero
   (keygen) or all zero (refresh) *)
Theorem honest_sum_succeeds f fs (z : bool) :
  f <> [] ->
  Forall (fun f' => length f' = length f) fs ->
  Forall (fun f' => (if Feq_dec (hd 0 f') 0 then true else false) = z) (f :: fs) ->
  exists s, esum (map eofpoly (f :: fs)) = Some s.
Proof.
  intros Hne Hlen Hz. cbn [map]. apply esum_succeeds.
  assert (Shape : forall h, h <> [] -> (if Feq_dec (hd 0 h) 0 then true else false) = z ->
            fst (eofpoly h) = z /\ length (snd (eofpoly h)) = (if z then pred (length h) else length h)).
  { intros [|a h] Hh Hzh; [congruence|]. cbn [hd] in Hzh. unfold FieldPoly.eofpoly.
    destruct (Feq_dec a 0); subst z; cbn [fst snd]; rewrite map_length; auto. }
  pose proof (Forall_inv Hz) as Hzf. pose proof (Forall_inv_tail Hz) as Hzfs.
  destruct (Shape f Hne Hzf) as [E1 E2].
  rewrite Forall_map. rewrite Forall_forall in *. intros h Hh.
  assert (Hhl : length h = length f) by auto.
  assert (Hhne : h <> []) by (intros ->; destruct f; cbn in Hhl; congruence).
  destruct (Shape h Hhne (Hzfs h Hh)) as [E3 E4]. rewrite E1, E2, E3, E4, Hhl. auto.
Qed.

(* any set S of at least t+1 parties reconstructs: secret shares ... *)
Theorem subset_reconstructs_share S t fs :
  NoDup S -> ~ In 0 S -> Forall (fun f => (length f <= t + 1)%nat) fs -> (t + 1 <= length S)%nat ->
  fsum (map (fun x => lagrange S x * dealt_share fs x) S) = fsum (map (hd 0) fs).
Proof.
  intros Hnd H0 Hlen Ht.
  rewrite (map_ext _ (fun x => lagrange S x * peval (psum fs) x)).
  2:{ intros x. now rewrite dealt_share_psum. }
  rewrite (lagrange_interp FT Feq_dec).
  - rewrite (peval_at0 FT). apply (psum_hd FT).
  - exact Hnd.
  - exact H0.
  - pose proof (psum_length (fadd:=fadd) fs (t + 1) Hlen). lia.
Qed.
(* ... and the public table entries, to the matching public key *)
Theorem subset_reconstructs_table S t fs :
  NoDup S -> ~ In 0 S -> Forall (fun f => (length f <= t + 1)%nat) fs -> (t + 1 <= length S)%nat ->
  gsum (map (fun x => smul (lagrange S x) (Phi (map eofpoly fs) x)) S) = act (fsum (map (hd 0) fs)).
Proof.
  intros Hnd H0 Hlen Ht.
  rewrite <- (subset_reconstructs_share S t fs Hnd H0 Hlen Ht).
  rewrite <- (gsum_map_act FT ML g). f_equal. apply map_ext. intros x.
  rewrite <- share_matches_table. apply act_smul.
Qed.
(* the same for ARBITRARY broadcast exponent polynomials of degree <= t (a cheating dealer cannot
   make different subsets interpolate to different keys): the result is the sum of the constants *)
Theorem subset_reconstructs_table_any S t es :
  NoDup S -> ~ In 0 S -> Forall (fun e => (length (efull e) <= t + 1)%nat) es -> (t + 1 <= length S)%nat ->
  gsum (map (fun x => smul (lagrange S x) (Phi es x)) S) = sum_constants es.
Proof.
  intros Hnd H0 Hlen Ht. unfold Phi, sum_constants.
  rewrite (gsum_exchange ML). f_equal. apply map_ext_in. intros e He.
  apply (lagrange_interp_erep FT Feq_dec ML); try assumption.
  rewrite Forall_forall in Hlen. specialize (Hlen e He). lia.
Qed.

(* two parties that hold the same broadcast exponent polynomials -- in any order: the code collects them
   by ranging over a Go map -- compute the same table and the same key *)
Theorem table_is_function_of_broadcasts es es' s s' :
  Permutation es es' -> esum es = Some s -> esum es' = Some s' ->
  (forall x, eeval s x = eeval s' x) /\ sum_constants es = sum_constants es'.
Proof.
  intros Hp E E'. split.
  - intros x. rewrite (proj2 (esum_spec ML es s E)), (proj2 (esum_spec ML es' s' E')).
    apply (gsum_perm ML). now apply Permutation_map.
  - unfold sum_constants. apply (gsum_perm ML). now apply Permutation_map.
Qed.

(* Feldman check (cmp round4.StoreMessage, frost round3.StoreMessage): every received sub-share u_j satisfies
   u_j . g = F_j(x).  Then the summed share matches the table entry, whatever the F_j are. *)
Theorem vss_check_sound es us x :
  Forall2 (fun u e => act u = eeval e x) us es -> act (fsum us) = Phi es x.
Proof.
  unfold Phi. induction 1 as [|u e us es Hue _ IH]; cbn.
  - apply act_0.
  - rewrite act_add, Hue, IH. reflexivity.
Qed.

(* ---------- the invariant: a good (t+1)-out-of-n sharing of sk ---------- *)
Record sstate := mkSt {
  st_xs : list F;      (* the parties' scalars (ID.Scalar) *)
  st_t : nat;          (* threshold *)
  st_sh : F -> F;      (* secret share of the party with scalar x *)
  st_tb : F -> G;      (* public table: entry of the party with scalar x *)
  st_pk : G }.         (* group public key *)

Definition GoodSharing (sk : F) (st : sstate) : Prop :=
  NoDup (st_xs st) /\ ~ In 0 (st_xs st) /\ (st_t st < length (st_xs st))%nat /\
  (forall x, In x (st_xs st) -> act (st_sh st x) = st_tb st x) /\
  st_pk st = act sk /\
  (forall S, NoDup S -> incl S (st_xs st) -> (st_t st + 1 <= length S)%nat ->
     fsum (map (fun x => lagrange S x * st_sh st x) S) = sk).

Lemma incl_notin0 (S xs : list F) : incl S xs -> ~ In 0 xs -> ~ In 0 S.
Proof. intros Hi H0 Hin. apply H0, Hi, Hin. Qed.

(* the table entries of any t+1 parties interpolate to the group key *)
Theorem good_table_reconstructs sk st S :
  GoodSharing sk st -> NoDup S -> incl S (st_xs st) -> (st_t st + 1 <= length S)%nat ->
  gsum (map (fun x => smul (lagrange S x) (st_tb st x)) S) = st_pk st.
Proof.
  intros (_ & _ & _ & Hm & Hpk & Hrec) Hnd Hi Ht.
  rewrite Hpk, <- (Hrec S Hnd Hi Ht), <- (gsum_map_act FT ML g). f_equal.
  apply map_ext_in. intros x Hx. rewrite <- (Hm x (Hi x Hx)). apply act_smul.
Qed.
(* cmp Config.PublicPoint: Lagrange over ALL n table entries *)
Theorem cmp_public_point sk st :
  GoodSharing sk st ->
  gsum (map (fun x => smul (lagrange (st_xs st) x) (st_tb st x)) (st_xs st)) = st_pk st.
Proof.
  intros H. apply (good_table_reconstructs sk st _ H).
  - apply H.
  - apply incl_refl.
  - destruct H as (_ & _ & Ht & _). lia.
Qed.

(* honest key generation (frost-style key = sum of constants; by cmp_public_point it equals cmp's) *)
Definition keygen_state (xs : list F) (t : nat) (fs : list (list F)) : sstate :=
  mkSt xs t (dealt_share fs) (Phi (map eofpoly fs)) (sum_constants (map eofpoly fs)).

Theorem keygen_good xs t fs :
  NoDup xs -> ~ In 0 xs -> (t < length xs)%nat -> Forall (fun f => (length f <= t + 1)%nat) fs ->
  GoodSharing (fsum (map (hd 0) fs)) (keygen_state xs t fs).
Proof.
  intros Hnd H0 Ht Hlen. unfold GoodSharing, keygen_state; cbn [st_xs st_t st_sh st_tb st_pk].
  repeat split; try assumption.
  - intros x _. apply share_matches_table.
  - apply sum_constants_eofpoly.
  - intros S HS Hi HtS. apply (subset_reconstructs_share S t fs); try assumption.
    eapply incl_notin0; eassumption.
Qed.

(* key generation with cheating dealers that pass every check of an honest party: exponent polynomials of the
   right degree, and sub-shares that pass the Feldman check at every party.  Still a good sharing of the
   discrete logarithm of the sum of the constants. *)
Theorem keygen_adversarial_good xs t es (us : F -> list F) sk :
  g_faithful ->
  NoDup xs -> ~ In 0 xs -> (t < length xs)%nat ->
  Forall (fun e => (length (efull e) <= t + 1)%nat) es ->
  (forall x, In x xs -> Forall2 (fun u e => act u = eeval e x) (us x) es) ->
  act sk = sum_constants es ->
  GoodSharing sk (mkSt xs t (fun x => fsum (us x)) (Phi es) (sum_constants es)).
Proof.
  intros Hf Hnd H0 Ht Hlen Hvss Hsk. unfold GoodSharing; cbn [st_xs st_t st_sh st_tb st_pk].
  repeat split; try assumption.
  - intros x Hx. apply vss_check_sound. auto.
  - now symmetry.
  - intros S HS Hi HtS. apply (act_inj Hf). rewrite Hsk.
    rewrite <- (subset_reconstructs_table_any S t es HS (incl_notin0 _ _ Hi H0) Hlen HtS).
    rewrite <- (gsum_map_act FT ML g). f_equal. apply map_ext_in. intros x Hx.
    rewrite <- (vss_check_sound es (us x) x (Hvss x (Hi x Hx))). symmetry. apply act_smul.
Qed.

(* Taproot even-Y normalisation (frost round3.Finalize, TaprootConfig.Derive): negate every share and every
   table entry; the key becomes its negation *)
Definition neg_state (st : sstate) : sstate :=
  mkSt (st_xs st) (st_t st) (fun x => - st_sh st x) (fun x => gopp (st_tb st x)) (gopp (st_pk st)).

Theorem taproot_negation_good sk st : GoodSharing sk st -> GoodSharing (- sk) (neg_state st).
Proof.
  intros (Hnd & H0 & Ht & Hm & Hpk & Hrec). unfold GoodSharing, neg_state; cbn [st_xs st_t st_sh st_tb st_pk].
  repeat split; try assumption.
  - intros x Hx. rewrite act_opp, Hm by assumption. reflexivity.
  - rewrite Hpk. symmetry. apply act_opp.
  - intros S HS Hi HtS. rewrite <- (Hrec S HS Hi HtS).
    rewrite (map_ext _ (fun x => (- (1)) * (lagrange S x * st_sh st x))) by (intros; ring).
    rewrite (fsum_map_scale FT). ring.
Qed.

(* ---------- Doerner: two parties, ADDITIVE sharing  Public = (s_R + s_S) . g ---------- *)
(* keygen round2R/round2S.StoreMessage: public = own publicShare + peer's PublicShare (only when not refreshing),
   secretShare = secretShare + own refreshScalar - peer's refreshScalar *)
Theorem doerner_keygen_consistent sR sS rR rS :
  let sR' := sR + rR - rS in
  let sS' := sS + rS - rR in
  let pubR := gadd (act sR) (act sS) in
  let pubS := gadd (act sS) (act sR) in
  pubR = pubS /\ act (sR' + sS') = pubR.
Proof.
  cbv zeta. split; [apply ga_comm|]. rewrite <- act_add. f_equal. ring.
Qed.
Theorem doerner_refresh_preserves_key sR sS rR rS pub :
  act (sR + sS) = pub -> act ((sR + rR - rS) + (sS + rS - rR)) = pub.
Proof. intros <-. f_equal. ring. Qed.
(* ConfigReceiver.Derive and ConfigSender.Derive BOTH add [adjust] to their additive share, Public gets
   adjust.g once: the derived pair is consistent only if adjust.g is the identity. *)
Theorem doerner_derive_consistent_iff sR sS adj pub :
  act (sR + sS) = pub ->
  (act ((sR + adj) + (sS + adj)) = gadd pub (act adj) <-> act adj = gzero).
Proof.
  intros <-. rewrite <- act_add.
  replace ((sR + adj) + (sS + adj)) with ((sR + sS + adj) + adj) by ring.
  rewrite (act_add (sR + sS + adj) adj). split.
  - intros H. apply (gadd_cancel_l ML (act (sR + sS + adj))). rewrite H.
    symmetry. apply (gadd_0_r ML).
  - intros ->. apply (gadd_0_r ML).
Qed.
Corollary doerner_derive_breaks_key sR sS adj pub :
  g_faithful -> adj <> 0 -> act (sR + sS) = pub ->
  act ((sR + adj) + (sS + adj)) <> gadd pub (act adj).
Proof.
  intros Hf Hadj Hp H. apply Hadj, Hf. now apply (doerner_derive_consistent_iff sR sS adj pub Hp).
Qed.

(* =====================  C08 / C14: refresh, derive, restore along histories  ===================== *)
(* refresh: zero-constant polynomials dealt as in keygen, previous share / previous table entry added
   (cmp round4.Finalize, frost round3.Finalize); the group key is kept *)
Definition refresh_state (st : sstate) (polys : list (list F)) : sstate :=
  mkSt (st_xs st) (st_t st)
       (fun x => st_sh st x + dealt_share polys x)
       (fun x => gadd (Phi (map eofpoly polys) x) (st_tb st x))
       (st_pk st).
(* Derive: adjust added to every share, adjust.g to every table entry and to the key *)
Definition derive_state (st : sstate) (adj : F) : sstate :=
  mkSt (st_xs st) (st_t st)
       (fun x => st_sh st x + adj)
       (fun x => gadd (st_tb st x) (act adj))
       (gadd (st_pk st) (act adj)).

Inductive op :=
| Refresh (polys : list (list F))
| Derive (adj : F)
| DeriveTaproot (adj : F) (odd : bool)    (* TaprootConfig.Derive: negate everything if the new key has odd Y *)
| Restore.                                (* serialize + deserialize: identity on the algebraic content *)

Definition step (st : sstate) (o : op) : sstate :=
  match o with
  | Refresh polys => refresh_state st polys
  | Derive adj => derive_state st adj
  | DeriveTaproot adj odd => if odd then neg_state (derive_state st adj) else derive_state st adj
  | Restore => st
  end.
Definition key_step (sk : F) (o : op) : F :=
  match o with
  | Derive adj => sk + adj
  | DeriveTaproot adj odd => if odd then - (sk + adj) else sk + adj
  | _ => sk
  end.
(* the checks of the code: refresh polynomials have degree t and zero constant (own: NewPolynomial(.., zero);
   peers: cmp round3 "incorrect constant"/"incorrect degree", frost round2 "non-zero constant while refreshing") *)
Definition op_ok (t : nat) (o : op) : Prop :=
  match o with
  | Refresh polys => Forall (fun p => (length p <= t + 1)%nat /\ hd 0 p = 0) polys
  | _ => True
  end.
Definition run (st : sstate) (ops : list op) : sstate := fold_left step ops st.
Definition key_run (sk : F) (ops : list op) : F := fold_left key_step ops sk.

Lemma fsum_hd_zero polys : Forall (fun p => hd 0 p = 0) polys -> fsum (map (hd 0) polys) = 0.
Proof. induction 1 as [|p polys Hp _ IH]; cbn; [reflexivity|rewrite Hp, IH; ring]. Qed.

Theorem refresh_good sk st polys :
  GoodSharing sk st -> op_ok (st_t st) (Refresh polys) -> GoodSharing sk (refresh_state st polys).
Proof.
  intros (Hnd & H0 & Ht & Hm & Hpk & Hrec) Hok. cbn [op_ok] in Hok.
  unfold GoodSharing, refresh_state; cbn [st_xs st_t st_sh st_tb st_pk].
  repeat split; try assumption.
  - intros x Hx. rewrite act_add, Hm, share_matches_table by assumption. apply ga_comm.
  - intros S HS Hi HtS.
    rewrite (map_ext _ (fun x => lagrange S x * st_sh st x + lagrange S x * dealt_share polys x))
      by (intros; ring).
    rewrite (fsum_map_add FT), (Hrec S HS Hi HtS).
    rewrite (subset_reconstructs_share S (st_t st) polys); try assumption.
    + rewrite fsum_hd_zero; [ring|]. eapply Forall_impl; [|exact Hok]. cbn. tauto.
    + eapply incl_notin0; eassumption.
    + eapply Forall_impl; [|exact Hok]. cbn. tauto.
Qed.

Theorem derive_good sk st adj : GoodSharing sk st -> GoodSharing (sk + adj) (derive_state st adj).
Proof.
  intros (Hnd & H0 & Ht & Hm & Hpk & Hrec).
  unfold GoodSharing, derive_state; cbn [st_xs st_t st_sh st_tb st_pk].
  repeat split; try assumption.
  - intros x Hx. rewrite act_add, Hm by assumption. reflexivity.
  - rewrite Hpk. symmetry. apply act_add.
  - intros S HS Hi HtS.
    rewrite (map_ext _ (fun x => lagrange S x * st_sh st x + adj * lagrange S x)) by (intros; ring).
    rewrite (fsum_map_add FT), (Hrec S HS Hi HtS), (fsum_map_scale FT).
    rewrite (sum_lagrange_eq_1 FT Feq_dec); [ring|exact HS|eapply incl_notin0; eassumption|].
    intros ->. cbn in HtS. lia.
Qed.

Lemma step_t st o : st_t (step st o) = st_t st.
Proof. destruct o as [| | ? [|] |]; reflexivity. Qed.
Lemma step_xs st o : st_xs (step st o) = st_xs st.
Proof. destruct o as [| | ? [|] |]; reflexivity. Qed.

Theorem step_good sk st o :
  GoodSharing sk st -> op_ok (st_t st) o -> GoodSharing (key_step sk o) (step st o).
Proof.
  intros H Hok. destruct o as [polys|adj|adj [|]|]; cbn [step key_step].
  - now apply refresh_good.
  - now apply derive_good.
  - apply taproot_negation_good. now apply derive_good.
  - now apply derive_good.
  - exact H.
Qed.

(* the invariant along any history *)
Theorem history_preserves_sharing ops : forall sk st,
  GoodSharing sk st -> Forall (op_ok (st_t st)) ops -> GoodSharing (key_run sk ops) (run st ops).
Proof.
  induction ops as [|o ops IH]; intros sk st H Hok; [exact H|].
  cbn [run key_run fold_left]. apply IH.
  - apply step_good; [exact H|]. now inversion Hok.
  - rewrite step_t. now inversion Hok.
Qed.
(* the key moves only by Derive *)
Theorem key_run_no_derive ops sk :
  Forall (fun o => match o with Refresh _ | Restore => True | _ => False end) ops -> key_run sk ops = sk.
Proof.
  induction 1 as [|o ops Ho _ IH]; [reflexivity|].
  cbn [key_run fold_left]. destruct o; try tauto; exact IH.
Qed.
Theorem run_no_derive_pk ops : forall st,
  Forall (fun o => match o with Refresh _ | Restore => True | _ => False end) ops ->
  st_pk (run st ops) = st_pk st.
Proof.
  induction ops as [|o ops IH]; intros st H; [reflexivity|].
  inversion H as [|? ? Ho H']; subst. cbn [run fold_left]. fold (run (step st o) ops).
  rewrite IH by assumption. destruct o; try tauto; reflexivity.
Qed.

(* G = sum of the refresh polynomials: the share of x changes unless G vanishes at x *)
Theorem share_changed_iff st polys x :
  st_sh (refresh_state st polys) x = st_sh st x <-> peval (psum polys) x = 0.
Proof.
  cbn [refresh_state st_sh]. rewrite dealt_share_psum. split.
  - intros H. set (a := st_sh st x) in *. set (b := peval (psum polys) x) in *.
    assert (E : b = (a + b) - a) by ring. rewrite E, H. ring.
  - intros ->. ring.
Qed.

(* reconstruction from a set S = A ++ B using OLD shares on A and NEW shares on B *)
Theorem mixed_epoch_reconstruct_iff sk st polys A B :
  GoodSharing sk st -> NoDup (A ++ B) -> incl (A ++ B) (st_xs st) -> (st_t st + 1 <= length (A ++ B))%nat ->
  let S := A ++ B in
  let st' := refresh_state st polys in
  (fsum (map (fun x => lagrange S x * st_sh st x) A) + fsum (map (fun x => lagrange S x * st_sh st' x) B) = sk
   <-> fsum (map (fun x => lagrange S x * peval (psum polys) x) B) = 0).
Proof.
  intros (Hnd & H0 & Ht & Hm & Hpk & Hrec) HS Hi HtS S st'.
  pose proof (Hrec S HS Hi HtS) as E. unfold S in E at 2. rewrite map_app, (fsum_app FT) in E.
  subst st'. cbn [refresh_state st_sh].
  rewrite (map_ext (fun x => lagrange S x * (st_sh st x + dealt_share polys x))
                   (fun x => lagrange S x * st_sh st x + lagrange S x * peval (psum polys) x)).
  2:{ intros x. rewrite dealt_share_psum. ring. }
  rewrite (fsum_map_add FT).
  set (a := fsum (map (fun x => lagrange S x * st_sh st x) A)) in *.
  set (b := fsum (map (fun x => lagrange S x * st_sh st x) B)) in *.
  set (d := fsum (map (fun x => lagrange S x * peval (psum polys) x) B)).
  split.
  - intros H. assert (E' : d = (a + (b + d)) - (a + b)) by ring. rewrite E', H, E. ring.
  - intros ->. rewrite <- E. ring.
Qed.

(* threshold 0: every share IS the key, and no zero-constant refresh can change any share *)
Theorem threshold0_shares_fixed sk st :
  GoodSharing sk st -> st_t st = 0%nat ->
  (forall x, In x (st_xs st) -> st_sh st x = sk) /\
  (forall polys, op_ok (st_t st) (Refresh polys) ->
     forall x, st_sh (refresh_state st polys) x = st_sh st x).
Proof.
  intros (Hnd & H0 & Ht & Hm & Hpk & Hrec) Ht0. split.
  - intros x Hx.
    assert (HS : NoDup [x]) by (constructor; [tauto|constructor]).
    assert (Hi : incl [x] (st_xs st)) by (intros y [<-|[]]; exact Hx).
    assert (H0x : ~ In 0 [x]) by (eapply incl_notin0; eassumption).
    pose proof (Hrec [x] HS Hi) as E. rewrite Ht0 in E. specialize (E (le_n _)).
    pose proof (sum_lagrange_eq_1 FT Feq_dec [x] HS H0x) as E1.
    cbn [map FieldPoly.fsum] in E, E1.
    assert (E2 : lagrange [x] x = 1).
    { transitivity (lagrange [x] x + 0); [ring|apply E1; discriminate]. }
    rewrite E2 in E. rewrite <- E. ring.
  - intros polys Hok x. rewrite Ht0 in Hok. cbn [op_ok] in Hok.
    apply share_changed_iff. rewrite <- dealt_share_psum. unfold dealt_share.
    rewrite (map_ext_in _ (fun _ => 0)); [apply (fsum_map_zero FT)|].
    intros p Hp. rewrite Forall_forall in Hok. destruct (Hok p Hp) as [Hl Hh].
    destruct p as [|a [|b p]]; cbn in Hl, Hh; [reflexivity| |lia].
    subst a. cbn. ring.
Qed.

(* FROST signing, per-share check of sign/round3.StoreBroadcastMessage:
      z_i . g  ==  c . (lambda_i . Y_i) + R_i
   where the signer computed z_i = lambda_i * s_i * c + d_i + rho_i * e_i (sign/round2.Finalize) and
   R_i = rho_i . E_i + D_i.  If the signer still uses its PRE-refresh share while the verifier's table entry
   Y_i is the refreshed one, the check passes iff the refresh polynomial vanishes at x_i. *)
Definition frost_share_check (c lam : F) (Y R : G) (z : F) : Prop :=
  act z = gadd (smul c (smul lam Y)) R.
Theorem stale_frost_share_rejected_iff s_old Gx c lam d e rho :
  g_faithful -> c <> 0 -> lam <> 0 ->
  let Y_new := act (s_old + Gx) in
  let R := gadd (smul rho (act e)) (act d) in
  let z := lam * s_old * c + d + rho * e in
  frost_share_check c lam Y_new R z <-> Gx = 0.
Proof.
  intros Hf Hc Hl Y_new R z. unfold frost_share_check. subst Y_new R z.
  rewrite !act_smul, <- !act_add. split.
  - intros H. apply (act_inj Hf) in H.
    assert (E : c * lam * Gx = 0).
    { assert (E' : c * lam * Gx = (c * (lam * (s_old + Gx)) + (rho * e + d)) - (lam * s_old * c + d + rho * e)) by ring.
      rewrite E', <- H. ring. }
    destruct (Fmul_integral FT Feq_dec _ _ E) as [E1|E1]; [|exact E1].
    destruct (Fmul_integral FT Feq_dec _ _ E1); tauto.
  - intros ->. f_equal. ring.
Qed.

(* a (t+1)-set S = A ++ B mixing epochs, A and B both non-empty: the defect  sum_{i in B} lambda_i G(x_i)
   is NOT identically zero on admissible refresh polynomials G (degree <= t, zero constant). *)
Definition proots (rs : list F) : list F := fold_right pmul_lin [1] rs.
Lemma peval_proots rs x : peval (proots rs) x = fprod (map (fun r => x - r) rs).
Proof.
  induction rs as [|r rs IH]; [cbn; ring|].
  change (proots (r :: rs)) with (pmul_lin r (proots rs)).
  rewrite (peval_pmul_lin FT), IH. reflexivity.
Qed.
Lemma proots_length rs : length (proots rs) = S (length rs).
Proof.
  induction rs as [|r rs IH]; [reflexivity|].
  change (proots (r :: rs)) with (pmul_lin r (proots rs)).
  rewrite (pmul_lin_length), IH. reflexivity.
Qed.

Theorem mixed_defect_nondegenerate A B t :
  NoDup (A ++ B) -> ~ In 0 (A ++ B) -> length (A ++ B) = (t + 1)%nat -> A <> [] -> B <> [] ->
  exists Gp, (length Gp <= t + 1)%nat /\ hd 0 Gp = 0 /\
             fsum (map (fun x => lagrange (A ++ B) x * peval Gp x) B) <> 0.
Proof.
  intros HS H0 Hlen HA HB.
  destruct A as [|a A']; [congruence|]. destruct B as [|b B']; [congruence|].
  set (A := a :: A') in *. set (B := b :: B') in *. set (S := A ++ B) in *.
  assert (HaS : In a S) by (apply in_or_app; left; now left).
  assert (HbS : In b S) by (apply in_or_app; right; now left).
  assert (HndB : NoDup B) by (apply NoDup_app_tail in HS; exact HS).
  assert (Hab : forall x, In x B -> x <> a).
  { intros x Hx ->. unfold S, A in HS. cbn in HS. inversion HS as [|? ? Hn _]; subst.
    apply Hn. apply in_or_app. now right. }
  set (R := remove Feq_dec a (remove Feq_dec b S)).
  exists (0 :: proots R).
  assert (HlenR : length R = (t - 1)%nat).
  { unfold R. rewrite !(remove_length_NoDup Feq_dec).
    - rewrite Hlen. lia.
    - exact HS.
    - exact HbS.
    - now apply NoDup_remove_elt.
    - apply in_in_remove; [|exact HaS]. intros E. apply (Hab b); [now left|now symmetry]. }
  assert (Ht : (2 <= t + 1)%nat).
  { rewrite <- Hlen. unfold S. rewrite app_length. cbn. lia. }
  split; [cbn [length]; rewrite proots_length, HlenR; lia|].
  split; [reflexivity|].
  assert (Hev : forall x, peval (0 :: proots R) x = x * fprod (map (fun r => x - r) R)).
  { intros x. rewrite (peval_cons (F:=F)), peval_proots. ring. }
  rewrite (fsum_remove FT Feq_dec _ b B HndB) by (now left).
  rewrite (map_ext_in _ (fun _ => 0)).
  - rewrite (fsum_map_zero FT).
    assert (Hb0 : b <> 0) by (intros E; apply H0; rewrite <- E; exact HbS).
    assert (HbR : forall r, In r R -> b - r <> 0).
    { intros r Hr. apply (Fsub_neq0 FT). intros E. subst r. unfold R in Hr.
      apply in_remove in Hr. destruct Hr as [Hr _]. apply in_remove in Hr. tauto. }
    intros E.
    assert (E' : lagrange S b * peval (0 :: proots R) b = 0) by (etransitivity; [|exact E]; ring).
    destruct (Fmul_integral FT Feq_dec _ _ E') as [E1|E1].
    + revert E1. apply (lagrange_neq0 FT Feq_dec); assumption.
    + rewrite Hev in E1. destruct (Fmul_integral FT Feq_dec _ _ E1) as [E2|E2]; [tauto|].
      revert E2. apply (fprod_neq0 FT Feq_dec). exact HbR.
  - intros x Hx. apply in_remove in Hx. destruct Hx as [HxB Hxb].
    rewrite Hev.
    assert (HxR : In x R).
    { unfold R. apply in_in_remove; [now apply Hab|]. apply in_in_remove; [exact Hxb|].
      apply in_or_app. now right. }
    assert (E : fprod (map (fun r => x - r) R) = 0).
    { clear -HxR FT. induction R as [|r R' IH]; [destruct HxR|].
      cbn. destruct HxR as [->|HxR]; [ring|]. rewrite IH by assumption. ring. }
    rewrite E. ring.
Qed.

(* refresh with cheating dealers that pass every check of an honest party: IsConstant exponent polynomials
   (cmp round3 "incorrect constant", frost round2 "non-zero constant while refreshing") of degree <= t and sub-shares
   passing the Feldman check at every party.  The key and the invariant are still preserved. *)
Theorem refresh_adversarial_good sk st es (us : F -> list F) :
  g_faithful ->
  GoodSharing sk st ->
  Forall (fun e => fst e = true /\ (length (efull e) <= st_t st + 1)%nat) es ->
  (forall x, In x (st_xs st) -> Forall2 (fun u e => act u = eeval e x) (us x) es) ->
  GoodSharing sk (mkSt (st_xs st) (st_t st)
                       (fun x => st_sh st x + fsum (us x))
                       (fun x => gadd (Phi es x) (st_tb st x))
                       (st_pk st)).
Proof.
  intros Hf (Hnd & H0 & Ht & Hm & Hpk & Hrec) Hes Hvss.
  unfold GoodSharing; cbn [st_xs st_t st_sh st_tb st_pk].
  repeat split; try assumption.
  - intros x Hx. rewrite act_add, Hm, (vss_check_sound es (us x) x) by auto. apply ga_comm.
  - intros S HS Hi HtS.
    rewrite (map_ext _ (fun x => lagrange S x * st_sh st x + lagrange S x * fsum (us x))) by (intros; ring).
    rewrite (fsum_map_add FT), (Hrec S HS Hi HtS).
    assert (E : fsum (map (fun x => lagrange S x * fsum (us x)) S) = 0).
    { apply (act_inj Hf). rewrite act_0.
      assert (Hc : sum_constants es = gzero).
      { unfold sum_constants. rewrite (map_ext_in _ (fun _ => gzero)); [apply (gsum_map_zero ML)|].
        intros e He. rewrite Forall_forall in Hes. destruct (Hes e He) as [Hfe _].
        unfold FieldPoly.econst. now rewrite Hfe. }
      rewrite <- Hc.
      rewrite <- (subset_reconstructs_table_any S (st_t st) es HS (incl_notin0 _ _ Hi H0)); [|
        eapply Forall_impl; [|exact Hes]; cbn; tauto | exact HtS].
      rewrite <- (gsum_map_act FT ML g). f_equal. apply map_ext_in. intros x Hx.
      rewrite <- (vss_check_sound es (us x) x (Hvss x (Hi x Hx))). symmetry. apply act_smul. }
    rewrite E. ring.
Qed.

(* the shape checks of cmp round3.StoreBroadcastMessage on a received VSS polynomial:
     r.VSSSecret.Constant().IsZero() == VSSPolynomial.IsConstant   and   VSSPolynomial.Degree() == r.Threshold()
   with Degree() = len(coefficients) if IsConstant else len(coefficients) - 1 (an int: -1 for no coefficients) *)
Definition cmp_round3_shape_ok (own_zero : bool) (t : nat) (e : erep) : bool :=
  Bool.eqb own_zero (fst e) &&
  ((if fst e then Z.of_nat (length (snd e)) else (Z.of_nat (length (snd e)) - 1)%Z) =? Z.of_nat t)%Z.
Theorem cmp_round3_accepts_iff own_zero t e :
  cmp_round3_shape_ok own_zero t e = true <-> fst e = own_zero /\ length (efull e) = S t.
Proof.
  unfold cmp_round3_shape_ok, FieldPoly.efull. rewrite andb_true_iff, Z.eqb_eq.
  destruct e as [[|] cs]; cbn [fst snd length]; split.
  - intros [Hb Hl]. apply eqb_prop in Hb. split; [congruence|lia].
  - intros [Hb Hl]. subst. split; [reflexivity|lia].
  - intros [Hb Hl]. apply eqb_prop in Hb. split; [congruence|lia].
  - intros [Hb Hl]. subst. split; [reflexivity|lia].
Qed.

(* C14: repeated derivation along a path of adjustments *)
Theorem derive_iter adjs : forall sk st,
  GoodSharing sk st ->
  GoodSharing (fold_left fadd adjs sk) (fold_left derive_state adjs st).
Proof.
  induction adjs as [|a adjs IH]; intros sk st H; [exact H|].
  cbn [fold_left]. apply IH. now apply derive_good.
Qed.

End Sharing.

Arguments mkSt {F G} _ _ _ _ _.
Arguments st_xs {F G} _.
Arguments st_t {F G} _.
Arguments st_sh {F G} _ _.
Arguments st_tb {F G} _ _.
Arguments st_pk {F G} _.
Arguments Refresh {F} _.
Arguments Derive {F} _.
Arguments DeriveTaproot {F} _ _.
Arguments Restore {F}.
(* implicit arguments for the generalized lemmas of Section Sharing: operations are inferred from FT / ML *)
Arguments act_add {F} {f1} {fadd} {fmul} {G} {gadd} {gzero} {gopp} {smul}.
Arguments act_smul {F} {f1} {fadd} {fmul} {G} {gadd} {gzero} {gopp} {smul}.
Arguments act_0 {F} {f0} {f1} {fadd} {fmul} {fsub} {fopp} {fdiv} {finv} FT {G} {gadd} {gzero} {gopp} {smul}.
Arguments act_opp {F} {f0} {f1} {fadd} {fmul} {fsub} {fopp} {fdiv} {finv} FT {G} {gadd} {gzero} {gopp} {smul}.
Arguments gopp_add {F} {f1} {fadd} {fmul} {G} {gadd} {gzero} {gopp} {smul}.
Arguments smul_gopp {F} {f1} {fadd} {fmul} {G} {gadd} {gzero} {gopp} {smul}.
Arguments gsum_map_gopp {F} {f1} {fadd} {fmul} {G} {gadd} {gzero} {gopp} {smul}.
Arguments act_inj {F} {f0} {f1} {fadd} {fmul} {fsub} {fopp} {fdiv} {finv} FT {G} {gadd} {gzero} {gopp} {smul}.
Arguments code_table_Phi {F} {f1} {fadd} {fmul} {G} {gadd} {gzero} {gopp} {smul}.
Arguments dealt_share_psum {F} {f0} {f1} {fadd} {fmul} {fsub} {fopp} {fdiv} {finv}.
Arguments share_matches_table {F} {f0} {f1} {fadd} {fmul} {fsub} {fopp} {fdiv} {finv} FT Feq_dec {G} {gadd} {gzero} {gopp} {smul}.
Arguments share_matches_code_table {F} {f0} {f1} {fadd} {fmul} {fsub} {fopp} {fdiv} {finv} FT Feq_dec {G} {gadd} {gzero} {gopp} {smul}.
Arguments sum_constants_eofpoly {F} {f0} {f1} {fadd} {fmul} {fsub} {fopp} {fdiv} {finv} FT Feq_dec {G} {gadd} {gzero} {gopp} {smul}.
Arguments honest_sum_succeeds {F} {f0} Feq_dec {G} {gadd} {smul}.
Arguments subset_reconstructs_share {F} {f0} {f1} {fadd} {fmul} {fsub} {fopp} {fdiv} {finv}.
Arguments subset_reconstructs_table {F} {f0} {f1} {fadd} {fmul} {fsub} {fopp} {fdiv} {finv} FT Feq_dec {G} {gadd} {gzero} {gopp} {smul}.
Arguments subset_reconstructs_table_any {F} {f0} {f1} {fadd} {fmul} {fsub} {fopp} {fdiv} {finv} FT Feq_dec {G} {gadd} {gzero} {gopp} {smul}.
Arguments table_is_function_of_broadcasts {F} {f1} {fadd} {fmul} {G} {gadd} {gzero} {gopp} {smul}.
Arguments vss_check_sound {F} {f0} {f1} {fadd} {fmul} {fsub} {fopp} {fdiv} {finv} FT {G} {gadd} {gzero} {gopp} {smul}.
Arguments incl_notin0 {F} {f0}.
Arguments good_table_reconstructs {F} {f0} {f1} {fadd} {fmul} {fsub} {fopp} {fdiv} {finv} FT Feq_dec {G} {gadd} {gzero} {gopp} {smul}.
Arguments cmp_public_point {F} {f0} {f1} {fadd} {fmul} {fsub} {fopp} {fdiv} {finv} FT Feq_dec {G} {gadd} {gzero} {gopp} {smul}.
Arguments keygen_good {F} {f0} {f1} {fadd} {fmul} {fsub} {fopp} {fdiv} {finv} FT Feq_dec {G} {gadd} {gzero} {gopp} {smul}.
Arguments keygen_adversarial_good {F} {f0} {f1} {fadd} {fmul} {fsub} {fopp} {fdiv} {finv} FT Feq_dec {G} {gadd} {gzero} {gopp} {smul}.
Arguments taproot_negation_good {F} {f0} {f1} {fadd} {fmul} {fsub} {fopp} {fdiv} {finv} FT Feq_dec {G} {gadd} {gzero} {gopp} {smul}.
Arguments doerner_keygen_consistent {F} {f0} {f1} {fadd} {fmul} {fsub} {fopp} {fdiv} {finv} FT {G} {gadd} {gzero} {gopp} {smul}.
Arguments doerner_refresh_preserves_key {F} {f0} {f1} {fadd} {fmul} {fsub} {fopp} {fdiv} {finv} FT {G} {smul}.
Arguments doerner_derive_consistent_iff {F} {f0} {f1} {fadd} {fmul} {fsub} {fopp} {fdiv} {finv} FT {G} {gadd} {gzero} {gopp} {smul}.
Arguments doerner_derive_breaks_key {F} {f0} {f1} {fadd} {fmul} {fsub} {fopp} {fdiv} {finv} FT {G} {gadd} {gzero} {gopp} {smul}.
Arguments fsum_hd_zero {F} {f0} {f1} {fadd} {fmul} {fsub} {fopp} {fdiv} {finv}.
Arguments refresh_good {F} {f0} {f1} {fadd} {fmul} {fsub} {fopp} {fdiv} {finv} FT Feq_dec {G} {gadd} {gzero} {gopp} {smul}.
Arguments derive_good {F} {f0} {f1} {fadd} {fmul} {fsub} {fopp} {fdiv} {finv} FT Feq_dec {G} {gadd} {gzero} {gopp} {smul}.
Arguments step_t {F} {f0} {fadd} {fmul} {fopp} Feq_dec {G} {gadd} {gzero} {gopp} {smul}.
Arguments step_xs {F} {f0} {fadd} {fmul} {fopp} Feq_dec {G} {gadd} {gzero} {gopp} {smul}.
Arguments step_good {F} {f0} {f1} {fadd} {fmul} {fsub} {fopp} {fdiv} {finv} FT Feq_dec {G} {gadd} {gzero} {gopp} {smul}.
Arguments history_preserves_sharing {F} {f0} {f1} {fadd} {fmul} {fsub} {fopp} {fdiv} {finv} FT Feq_dec {G} {gadd} {gzero} {gopp} {smul}.
Arguments key_run_no_derive {F} {fadd} {fopp}.
Arguments run_no_derive_pk {F} {f0} {fadd} {fmul} {fopp} Feq_dec {G} {gadd} {gzero} {gopp} {smul}.
Arguments share_changed_iff {F} {f0} {f1} {fadd} {fmul} {fsub} {fopp} {fdiv} {finv} FT Feq_dec {G} {gadd} {gzero} {smul}.
Arguments mixed_epoch_reconstruct_iff {F} {f0} {f1} {fadd} {fmul} {fsub} {fopp} {fdiv} {finv} FT Feq_dec {G} {gadd} {gzero} {smul}.
Arguments threshold0_shares_fixed {F} {f0} {f1} {fadd} {fmul} {fsub} {fopp} {fdiv} {finv} FT Feq_dec {G} {gadd} {gzero} {smul}.
Arguments stale_frost_share_rejected_iff {F} {f0} {f1} {fadd} {fmul} {fsub} {fopp} {fdiv} {finv} FT Feq_dec {G} {gadd} {gzero} {gopp} {smul}.
Arguments peval_proots {F} {f0} {f1} {fadd} {fmul} {fsub} {fopp} {fdiv} {finv}.
Arguments proots_length {F} {f0} {f1} {fadd} {fmul} {fopp}.
Arguments mixed_defect_nondegenerate {F} {f0} {f1} {fadd} {fmul} {fsub} {fopp} {fdiv} {finv}.
Arguments refresh_adversarial_good {F} {f0} {f1} {fadd} {fmul} {fsub} {fopp} {fdiv} {finv} FT Feq_dec {G} {gadd} {gzero} {gopp} {smul}.
Arguments cmp_round3_accepts_iff {G} {gzero}.
Arguments derive_iter {F} {f0} {f1} {fadd} {fmul} {fsub} {fopp} {fdiv} {finv} FT Feq_dec {G} {gadd} {gzero} {gopp} {smul}.

(* =====================  C14: chain key = XOR of all contributions  ===================== *)
(* round3.Finalize (cmp, frost): chainKey = EmptyRID(); for j in PartyIDs: chainKey.XOR(ChainKeys[j]) *)
Definition chain_key_fold (cks : list bytes) (acc : bytes) : bytes := fold_left xor_bytes cks acc.

Lemma xor_bytes_swap : forall a x y, xor_bytes (xor_bytes a x) y = xor_bytes (xor_bytes a y) x.
Proof.
  induction a as [|p a IH]; intros [|q x] [|r y]; cbn; try reflexivity.
  f_equal; [|apply IH].
  rewrite !N.lxor_assoc. f_equal. apply N.lxor_comm.
Qed.
Theorem chain_key_perm l1 l2 : Permutation l1 l2 -> forall acc, chain_key_fold l1 acc = chain_key_fold l2 acc.
Proof.
  unfold chain_key_fold.
  induction 1 as [|x l1 l2 _ IH|x y l|l1 l2 l3 _ IH1 _ IH2]; intros acc; cbn [fold_left].
  - reflexivity.
  - apply IH.
  - now rewrite xor_bytes_swap.
  - now rewrite IH1.
Qed.
Lemma xor_bytes_length : forall a b, length (xor_bytes a b) = Nat.min (length a) (length b).
Proof. induction a as [|p a IH]; intros [|q b]; cbn; auto. Qed.
Theorem chain_key_length cks : forall acc n,
  length acc = n -> Forall (fun c => length c = n) cks -> length (chain_key_fold cks acc) = n.
Proof.
  unfold chain_key_fold. induction cks as [|c cks IH]; intros acc n Ha Hc; [exact Ha|].
  cbn [fold_left]. inversion Hc; subst. apply IH; [|assumption].
  rewrite xor_bytes_length. lia.
Qed.

(* =====================  a concrete instance for the Examples: F = G = Z_101, g = 1  ===================== *)
Definition q101 : Z := 101%Z.
Lemma q101_gt1 : (1 < q101)%Z.
Proof. reflexivity. Qed.
Lemma q101_inv : inv_ok q101.
Proof. apply inv_ok_check_sound. vm_compute. reflexivity. Qed.
Notation F101 := (Zq q101).
Definition FT101 := Zq_field q101 q101_gt1 q101_inv.
Definition dec101 := Zq_eq_dec q101.
(* the group is the field itself ("discrete logarithms"), base point 1 *)
Definition ML101 := F_module FT101.
Definition z101 (z : Z) : F101 := zn q101 z.
Definition g101 : F101 := zq1 q101.
Lemma faithful101 : g_faithful F101 (zq0 q101) F101 (zq0 q101) (zqmul q101) g101.
Proof.
  intros a H. unfold act, g101 in H. rewrite <- H.
  pose proof (Rmul_1_l (F_R FT101)) as M1. pose proof (Rmul_comm (F_R FT101)) as MC.
  now rewrite MC, M1.
Qed.

Ltac z101_eq := apply (zq_eq q101); vm_compute; reflexivity.
Ltac z101_neq := let H := fresh in intro H; apply (f_equal (zval q101)) in H; vm_compute in H; discriminate.
Ltac z101_nodup :=
  apply (NoDup_map_inv (zval q101)); vm_compute; repeat constructor; cbn; intuition discriminate.
Ltac z101_notin0 :=
  let H := fresh in intro H; apply (in_map (zval q101)) in H; vm_compute in H; intuition discriminate.
Ltac z101_incl :=
  let x := fresh in let H := fresh in intros x H; cbn in H |- *;
  repeat (destruct H as [<-|H]; [auto 10|]); destruct H.
