(* RefSigProofs.v -- proofs about the reference signature code (Model/RefSig.v, Model/Secp256k1.v).
   1. the modular inverse used everywhere (extended Euclid with fuel) is correct for every modulus > 1;
   2. over an ABSTRACT group with a Z-action factoring through Z/q, q prime (the module laws are hypotheses,
      collected in [module_laws]): what the full-point ECDSA verifier decides, sign-then-verify,
      (R,s) |-> (-R,-s), public key recovery, Schnorr sign-then-verify.  The statements are about the generic
      definitions [ecdsa_verify_gen] etc. of Model/RefSig.v, whose instance at secp256k1 is the executable
      reference;
   3. facts about the concrete code that need no number theory (verifier unfolding, strict decoding);
   4. an instance of the hypotheses (Z/101), for non-vacuity;
   5. BIP-340 reference: facts that hold by construction;
   6. Fermat's little theorem, correctness of square-and-multiply, and from them
      decompress (compress P) = P for every finite point of the curve, with [prime secp_p] as premise.
   The group laws of secp256k1 itself are NOT proved (DESIGN section 7); [prime secp_p], [prime secp_q] are
   premises wherever they are needed, never axioms. *)
From Coq Require Import List NArith ZArith Bool Lia Znumtheory Zpow_facts Permutation.
From MPS Require Import Model.Bytes Model.Sha Model.Secp256k1 Model.RefSig Proofs.BytesProofs.
Import ListNotations.
Open Scope Z_scope.

(* ---- congruences as divisibility ---- *)
Lemma mod_eq_divide q a b : 0 < q -> (a mod q = b mod q <-> (q | a - b)).
Proof.
  intro Hq. split.
  - intro H. exists (a / q - b / q).
    pose proof (Z.div_mod a q ltac:(lia)) as Ha. pose proof (Z.div_mod b q ltac:(lia)) as Hb. nia.
  - intros [c Hc]. replace a with (b + c * q) by lia. apply Z.mod_add. lia.
Qed.

Lemma size_nat_gt p : Zpos p < 2 ^ Z.of_nat (Pos.size_nat p).
Proof.
  induction p as [p IH|p IH|]; cbn [Pos.size_nat]; rewrite ?Nat2Z.inj_succ, ?Z.pow_succ_r by lia; lia.
Qed.

(* ---- extended Euclid ---- *)
Lemma egcd_fuel_spec a m : forall fuel r0 r1 u0 u1,
  0 <= r1 < r0 -> r0 * r1 < 2 ^ Z.of_nat fuel ->
  (m | r0 - u0 * a) -> (m | r1 - u1 * a) ->
  let '(g, u) := egcd_fuel fuel r0 r1 u0 u1 in
  g = Z.gcd r0 r1 /\ (m | g - u * a).
Proof.
  induction fuel as [|f IH]; intros r0 r1 u0 u1 Hr Hf H0 H1.
  - cbn [egcd_fuel]. change (2 ^ Z.of_nat 0) with 1 in Hf.
    assert (r1 = 0) as -> by nia. rewrite Z.gcd_0_r, Z.abs_eq by lia. auto.
  - cbn [egcd_fuel]. destruct (Z.eqb_spec r1 0) as [E|E].
    + subst r1. rewrite Z.gcd_0_r, Z.abs_eq by lia. auto.
    + set (t := r0 / r1).
      assert (Hmod : r0 - t * r1 = r0 mod r1) by (unfold t; rewrite Z.mod_eq by lia; lia).
      pose proof (Z.mod_pos_bound r0 r1 ltac:(lia)) as Hb.
      assert (Ht : 1 <= t) by (unfold t; apply Z.div_le_lower_bound; lia).
      specialize (IH r1 (r0 - t * r1) u1 (u0 - t * u1)).
      destruct (egcd_fuel f r1 (r0 - t * r1) u1 (u0 - t * u1)) as [g u].
      destruct IH as [IHg IHu].
      * lia.
      * rewrite Nat2Z.inj_succ, Z.pow_succ_r in Hf by lia. nia.
      * assumption.
      * replace (r0 - t * r1 - (u0 - t * u1) * a) with ((r0 - u0 * a) - t * (r1 - u1 * a)) by ring.
        apply Z.divide_sub_r; [assumption | now apply Z.divide_mul_r].
      * split; [|assumption]. rewrite IHg, Hmod. rewrite (Z.gcd_comm r1), Z.gcd_mod by lia.
        apply Z.gcd_comm.
Qed.

Lemma modinv_spec a m : 1 < m -> Z.gcd a m = 1 -> (a * modinv a m) mod m = 1.
Proof.
  intros Hm Hg. unfold modinv.
  pose proof (Z.mod_pos_bound a m ltac:(lia)) as Hb.
  assert (Hfuel : m * (a mod m) < 2 ^ Z.of_nat (egcd_steps m)).
  { destruct m as [|pm|pm]; try lia. cbn [egcd_steps].
    pose proof (size_nat_gt pm) as Hs.
    replace (Z.of_nat (2 * Pos.size_nat pm + 2)) with (Z.of_nat (Pos.size_nat pm) + Z.of_nat (Pos.size_nat pm) + 2) by lia.
    rewrite !Z.pow_add_r by lia. change (2 ^ 2) with 4.
    set (P := 2 ^ Z.of_nat (Pos.size_nat pm)) in *. nia. }
  pose proof (egcd_fuel_spec a m (egcd_steps m) m (a mod m) 0 1 ltac:(lia) Hfuel) as H.
  destruct (egcd_fuel (egcd_steps m) m (a mod m) 0 1) as [g u].
  destruct H as [Eg Eu].
  - exists 1. ring.
  - apply mod_eq_divide; [lia|]. rewrite Z.mul_1_l. apply Z.mod_mod. lia.
  - rewrite (Z.gcd_comm m), Z.gcd_mod, Z.gcd_comm in Eg by lia. rewrite Hg in Eg. subst g.
    cbn [Z.eqb Pos.eqb]. rewrite Z.mul_mod_idemp_r by lia.
    transitivity (1 mod m); [|apply Z.mod_1_l; lia]. apply mod_eq_divide; [lia|].
    destruct Eu as [c Hc]. exists (- c). lia.
Qed.

Lemma modinv_range a m : 0 < m -> 0 <= modinv a m < m.
Proof.
  intro Hm. unfold modinv. destruct (egcd_fuel _ _ _ _ _) as [g u].
  destruct (g =? 1); [apply Z.mod_pos_bound; lia | lia].
Qed.

Lemma modinv_mod a m : modinv (a mod m) m = modinv a m.
Proof. unfold modinv. destruct (Z.eq_dec m 0) as [->|Hm]; [now rewrite !Zmod_0_r|]. now rewrite Z.mod_mod. Qed.

(* ---- arithmetic modulo a prime q ---- *)
Section ModQ.
  Variable q : Z.
  Hypothesis q_prime : prime q.

  Lemma q_gt_1 : 1 < q.
  Proof. pose proof (prime_ge_2 q q_prime). lia. Qed.
  Let q_ne_0 : q <> 0. Proof. pose proof q_gt_1. lia. Qed.

  Lemma inv_spec s : s mod q <> 0 -> (s * modinv s q) mod q = 1.
  Proof.
    intro Hs. apply modinv_spec; [apply q_gt_1|].
    rewrite Z.gcd_comm. apply Zgcd_1_rel_prime. apply prime_rel_prime; [assumption|].
    intro Hd. apply Hs. now apply Z.mod_divide.
  Qed.

  Lemma inv_unique a u v : (a * u) mod q = 1 -> (a * v) mod q = 1 -> u mod q = v mod q.
  Proof.
    intros Hu Hv.
    transitivity ((u * ((a * v) mod q)) mod q).
    { rewrite Hv. f_equal. ring. }
    rewrite Z.mul_mod_idemp_r by assumption.
    replace (u * (a * v)) with ((a * u) * v) by ring.
    rewrite <- Z.mul_mod_idemp_l, Hu by assumption. f_equal. ring.
  Qed.

  Lemma opp_mod_nonzero s : s mod q <> 0 -> (- s) mod q <> 0.
  Proof.
    intros Hs H. apply Hs. apply Z.mod_divide in H; [|assumption].
    apply Z.mod_divide; [assumption|]. exact (proj1 (Z.divide_opp_r q s) H).
  Qed.

  Lemma modinv_opp s : s mod q <> 0 -> modinv (- s) q mod q = (- modinv s q) mod q.
  Proof.
    intro Hs. apply (inv_unique (- s)).
    - apply inv_spec. now apply opp_mod_nonzero.
    - replace (- s * - modinv s q) with (s * modinv s q) by ring. now apply inv_spec.
  Qed.

  (* the arithmetic core of "a signature made by the signing equation verifies" *)
  Lemma sign_arith k kinv s sinv A :
    (k * kinv) mod q = 1 -> s = (kinv * A) mod q -> (s * sinv) mod q = 1 ->
    (sinv * A) mod q = k mod q.
  Proof.
    intros Hk Hs Hsi.
    assert (HA : (k * s) mod q = A mod q).
    { rewrite Hs, Z.mul_mod_idemp_r by assumption.
      replace (k * (kinv * A)) with ((k * kinv) * A) by ring.
      rewrite <- Z.mul_mod_idemp_l, Hk by assumption. f_equal. ring. }
    rewrite <- Z.mul_mod_idemp_r, <- HA, Z.mul_mod_idemp_r by assumption.
    replace (sinv * (k * s)) with ((s * sinv) * k) by ring.
    rewrite <- Z.mul_mod_idemp_l, Hsi by assumption. f_equal. ring.
  Qed.
End ModQ.

(* ---- a group written additively with an action of Z that factors through Z/q ---- *)
Record module_laws {G : Type} (q : Z) (gadd : G -> G -> G) (gneg : G -> G) (gzero : G)
       (smul : Z -> G -> G) : Prop := {
  ml_add_assoc : forall a b c, gadd a (gadd b c) = gadd (gadd a b) c;
  ml_add_comm : forall a b, gadd a b = gadd b a;
  ml_add_0 : forall a, gadd a gzero = a;
  ml_add_neg : forall a, gadd a (gneg a) = gzero;
  ml_smul_1 : forall P, smul 1 P = P;
  ml_smul_mul : forall a b P, smul (a * b) P = smul a (smul b P);
  ml_smul_add_l : forall a b P, smul (a + b) P = gadd (smul a P) (smul b P);
  ml_smul_add_r : forall a P Q, smul a (gadd P Q) = gadd (smul a P) (smul a Q);
  ml_smul_mod : forall a P, smul (a mod q) P = smul a P
}.

Section AbstractGroup.
  Variable q : Z.
  Hypothesis q_prime : prime q.
  Context {G : Type}.
  Variables (gadd : G -> G -> G) (gneg : G -> G) (gzero : G) (smul : Z -> G -> G).
  Hypothesis L : module_laws q gadd gneg gzero smul.
  Variable geqb : G -> G -> bool.
  Hypothesis geqb_spec : forall a b, geqb a b = true <-> a = b.
  Variable xof : G -> Z.
  Variable g : G.

  Let q_ne_0 : q <> 0. Proof. pose proof (q_gt_1 q q_prime). lia. Qed.

  Local Notation "a +' b" := (gadd a b) (at level 50, left associativity).
  Local Notation "k *' P" := (smul k P) (at level 40, left associativity).

  Lemma add_0_l a : gzero +' a = a.
  Proof. rewrite (ml_add_comm _ _ _ _ _ L). apply (ml_add_0 _ _ _ _ _ L). Qed.

  Lemma neg_unique x y : y +' x = gzero -> y = gneg x.
  Proof.
    intro H. rewrite <- (ml_add_0 _ _ _ _ _ L y), <- (ml_add_neg _ _ _ _ _ L x).
    rewrite (ml_add_assoc _ _ _ _ _ L), H. apply add_0_l.
  Qed.

  Lemma idem_zero x : x +' x = x -> x = gzero.
  Proof.
    intro H. rewrite <- (ml_add_neg _ _ _ _ _ L x).
    assert (E : x +' gneg x = x +' x +' gneg x) by now rewrite H.
    rewrite E. rewrite <- (ml_add_assoc _ _ _ _ _ L), (ml_add_neg _ _ _ _ _ L).
    symmetry. apply (ml_add_0 _ _ _ _ _ L).
  Qed.

  Lemma smul_0 P : 0 *' P = gzero.
  Proof. apply idem_zero. rewrite <- (ml_smul_add_l _ _ _ _ _ L). reflexivity. Qed.

  Lemma smul_opp a P : (- a) *' P = gneg (a *' P).
  Proof.
    apply neg_unique. rewrite <- (ml_smul_add_l _ _ _ _ _ L).
    replace (- a + a) with 0 by ring. apply smul_0.
  Qed.

  Lemma smul_congr a b P : a mod q = b mod q -> a *' P = b *' P.
  Proof. intro H. rewrite <- (ml_smul_mod _ _ _ _ _ L a), H. apply (ml_smul_mod _ _ _ _ _ L). Qed.

  Lemma add_sub_cancel a b : a +' b +' gneg a = b.
  Proof.
    rewrite (ml_add_comm _ _ _ _ _ L a b), <- (ml_add_assoc _ _ _ _ _ L), (ml_add_neg _ _ _ _ _ L).
    apply (ml_add_0 _ _ _ _ _ L).
  Qed.

  Local Notation verify := (ecdsa_verify_gen gadd smul geqb xof g q).
  Local Notation sign := (ecdsa_sign_gen smul xof g q).
  Local Notation recover := (ecdsa_recover_gen gadd gneg smul xof g q).
  Local Notation schnorr := (schnorr_verify_gen gadd smul geqb g q).

  (* what the full-point verifier decides *)
  Theorem ecdsa_verify_iff X R s m :
    verify X R s m = true <->
    xof R mod q <> 0 /\ s mod q <> 0 /\
    modinv s q *' (m *' g +' (xof R mod q) *' X) = R.
  Proof.
    unfold ecdsa_verify_gen.
    rewrite !andb_true_iff, !negb_true_iff, !Z.eqb_neq, geqb_spec, (ml_smul_mod _ _ _ _ _ L).
    tauto.
  Qed.

  (* a signature produced by the signing equation, with k, r, s all non-zero mod q, verifies *)
  Theorem ecdsa_sign_verify k d m R s :
    sign k d m = Some (R, s) -> verify (d *' g) R s m = true.
  Proof.
    unfold ecdsa_sign_gen.
    set (R0 := (k mod q) *' g). set (r := xof R0 mod q). set (s0 := (modinv k q * (m + r * d)) mod q).
    destruct ((k mod q =? 0) || (r =? 0) || (s0 =? 0)) eqn:E; [discriminate|].
    intro H. injection H as <- <-.
    apply orb_false_iff in E as [E Es]. apply orb_false_iff in E as [Ek Er].
    apply Z.eqb_neq in Ek, Er, Es.
    apply ecdsa_verify_iff. fold r. split; [assumption|].
    assert (Hs0 : s0 mod q = s0) by (unfold s0; now apply Z.mod_mod).
    split; [now rewrite Hs0|].
    rewrite (ml_smul_add_r _ _ _ _ _ L), <- !(ml_smul_mul _ _ _ _ _ L), <- (ml_smul_add_l _ _ _ _ _ L).
    unfold R0. apply smul_congr. rewrite Z.mod_mod by assumption.
    replace (modinv s0 q * m + modinv s0 q * r * d) with (modinv s0 q * (m + r * d)) by ring.
    apply (sign_arith q q_prime k (modinv k q) s0).
    - now apply inv_spec.
    - reflexivity.
    - apply inv_spec; [assumption | now rewrite Hs0].
  Qed.

  (* the same with the side conditions spelled out *)
  Corollary ecdsa_sign_verify_explicit k d m :
    let R := k *' g in
    let r := xof R mod q in
    let s := (modinv k q * (m + r * d)) mod q in
    k mod q <> 0 -> r <> 0 -> s <> 0 -> verify (d *' g) R s m = true.
  Proof.
    intros R r s Hk Hr Hs. apply (ecdsa_sign_verify k d m).
    unfold ecdsa_sign_gen. rewrite (ml_smul_mod _ _ _ _ _ L). fold R. fold r. fold s.
    apply Z.eqb_neq in Hk, Hr, Hs. now rewrite Hk, Hr, Hs.
  Qed.

  (* (R, s) valid  ==>  (-R, -s) valid, provided negation keeps the x coordinate.
     This is what the low-s normalisation of the Ethereum export relies on. *)
  Theorem neg_sig_still_valid X R s m :
    (forall P, xof (gneg P) = xof P) ->
    verify X R s m = true -> verify X (gneg R) (- s) m = true.
  Proof.
    intros Hx H. apply ecdsa_verify_iff in H as (Hr & Hs & HR).
    apply ecdsa_verify_iff. rewrite Hx. split; [assumption|].
    split; [now apply opp_mod_nonzero|].
    rewrite (smul_congr (modinv (- s) q) (- modinv s q)) by now apply modinv_opp.
    rewrite smul_opp. now rewrite HR.
  Qed.

  (* public key recovery from a valid full-point signature returns the key *)
  Theorem ecdsa_recover_correct X R s m :
    verify X R s m = true -> recover R s m = X.
  Proof.
    intro H. apply ecdsa_verify_iff in H as (Hr & Hs & HR).
    unfold ecdsa_recover_gen.
    set (r := xof R mod q) in *. set (T := m *' g +' r *' X) in *.
    assert (HsR : (s mod q) *' R = T).
    { rewrite (ml_smul_mod _ _ _ _ _ L), <- HR, <- (ml_smul_mul _ _ _ _ _ L).
      rewrite (smul_congr (s * modinv s q) 1); [apply (ml_smul_1 _ _ _ _ _ L)|].
      rewrite (inv_spec q q_prime s Hs). symmetry. apply Z.mod_1_l. apply (q_gt_1 q q_prime). }
    rewrite HsR, (ml_smul_mod _ _ _ _ _ L). unfold T. rewrite add_sub_cancel.
    rewrite <- (ml_smul_mul _ _ _ _ _ L).
    rewrite (smul_congr (modinv r q * r) 1); [apply (ml_smul_1 _ _ _ _ _ L)|].
    rewrite Z.mul_comm, (inv_spec q q_prime r).
    - symmetry. apply Z.mod_1_l. apply (q_gt_1 q q_prime).
    - unfold r. now rewrite Z.mod_mod.
  Qed.

  (* Schnorr: z = k + c x (mod q), R = k g, Y = x g  ==>  z g = R + c Y *)
  Theorem schnorr_sign_verify k x c z :
    z mod q = (k + c * x) mod q -> schnorr (x *' g) (k *' g) z c = true.
  Proof.
    intro Hz. unfold schnorr_verify_gen. apply geqb_spec.
    rewrite !(ml_smul_mod _ _ _ _ _ L), (smul_congr z (k + c * x)) by assumption.
    now rewrite (ml_smul_add_l _ _ _ _ _ L), (ml_smul_mul _ _ _ _ _ L).
  Qed.

  (* and conversely the verification equation pins z down modulo the order of g *)
  Theorem schnorr_verify_sound k x c z :
    schnorr (x *' g) (k *' g) z c = true -> z *' g = (k + c * x) *' g.
  Proof.
    unfold schnorr_verify_gen. rewrite geqb_spec, !(ml_smul_mod _ _ _ _ _ L). intros ->.
    now rewrite (ml_smul_add_l _ _ _ _ _ L), (ml_smul_mul _ _ _ _ _ L).
  Qed.
End AbstractGroup.

(* ---- the concrete reference verifier is the generic one at secp256k1, plus point validation ---- *)
Lemma pt_eqb_spec P Q : pt_eqb P Q = true <-> P = Q.
Proof.
  destruct P as [[x1 y1]|], Q as [[x2 y2]|]; cbn [pt_eqb]; try (split; [discriminate|discriminate]); try tauto.
  rewrite andb_true_iff, !Z.eqb_eq. split; [intros [-> ->]; reflexivity | intro H; injection H; auto].
Qed.

Theorem ecdsa_verify_ref_iff X R s m :
  ecdsa_verify X R s m = true <->
  X <> infinity /\ R <> infinity /\ on_curve X = true /\ on_curve R = true /\
  pt_x R mod secp_q <> 0 /\ s mod secp_q <> 0 /\
  pt_mul (modinv s secp_q)
         (pt_add (pt_mul (m mod secp_q) secp_G) (pt_mul (pt_x R mod secp_q) X)) = R.
Proof.
  unfold ecdsa_verify, ecdsa_verify_gen.
  rewrite !andb_true_iff, !negb_true_iff, !Z.eqb_neq, pt_eqb_spec.
  assert (HX : is_inf X = false <-> X <> infinity) by (unfold infinity; destruct X; cbn; split; congruence).
  assert (HR : is_inf R = false <-> R <> infinity) by (unfold infinity; destruct R; cbn; split; congruence).
  rewrite HX, HR. tauto.
Qed.

Theorem ecdsa_verify_ref_is_generic X R s m :
  ecdsa_verify X R s m = true ->
  ecdsa_verify_gen pt_add pt_mul pt_eqb pt_x secp_G secp_q X R s m = true.
Proof. unfold ecdsa_verify. intro H. now apply andb_true_iff in H as [_ H]. Qed.

(* ---- simple facts about the concrete encodings ---- *)
Lemma secp_p_pos : 0 < secp_p. Proof. reflexivity. Qed.
Lemma secp_p_ne_0 : secp_p <> 0. Proof. discriminate. Qed.
Lemma secp_p_odd : Z.even secp_p = false. Proof. reflexivity. Qed.
Lemma secp_e4_spec : 4 * ((secp_p + 1) / 4) = secp_p + 1. Proof. reflexivity. Qed.
Lemma secp_p_lt_2_256 : secp_p < 2 ^ 256. Proof. reflexivity. Qed.
(* from here on the 256-bit constant is never unfolded by tactics *)
Local Opaque secp_p.

Lemma compress_length P b : compress P = Some b -> length b = 33%nat.
Proof.
  destruct P as [[x y]|]; cbn [compress]; [|discriminate].
  intro H. injection H as <-. cbn [length]. unfold bytes32_of_Z. now rewrite be_bytes_length.
Qed.

Lemma compress_none_iff P : compress P = None <-> P = infinity.
Proof. unfold infinity. destruct P as [[x y]|]; cbn [compress]; split; congruence. Qed.

Lemma in_field_bound a : in_field a = true <-> 0 <= a < secp_p.
Proof. unfold in_field. rewrite andb_true_iff, Z.leb_le, Z.ltb_lt. tauto. Qed.


Lemma powmod_range b e m : 0 < m -> 0 <= powmod b e m < m.
Proof.
  intro Hm. unfold powmod. destruct e as [|e|e]; [apply Z.mod_pos_bound; lia | | lia].
  destruct e; cbn [powmod_pos]; apply Z.mod_pos_bound; lia.
Qed.

Lemma lift_x_on_curve x P :
  lift_x x = Some P -> on_curve P = true /\ exists y, P = Some (x, y) /\ Z.even y = true.
Proof.
  unfold lift_x. destruct (in_field x) eqn:Hx; [|discriminate].
  unfold fsqrt.
  generalize (powmod_range (curve_rhs x) ((secp_p + 1) / 4) secp_p secp_p_pos).
  generalize (powmod (curve_rhs x) ((secp_p + 1) / 4) secp_p). intros r Hr.
  destruct (Z.eqb_spec (fmul r r) (curve_rhs x mod secp_p)) as [E|E]; [|discriminate].
  assert (Hc : curve_rhs x mod secp_p = curve_rhs x).
  { unfold curve_rhs, fadd. apply Z.mod_mod. exact secp_p_ne_0. }
  rewrite Hc in E.
  destruct (Z.even r) eqn:Ev; intro H; injection H as <-.
  - split; [|exists r; auto]. cbn [on_curve]. rewrite Hx, E, Z.eqb_refl.
    apply in_field_bound in Hr. now rewrite Hr.
  - split.
    + cbn [on_curve]. rewrite Hx.
      assert (Hr0 : r <> 0) by (intros ->; discriminate).
      assert (Hb : in_field (secp_p - r) = true) by (apply in_field_bound; pose proof secp_p_pos; lia).
      rewrite Hb. cbn [andb]. apply Z.eqb_eq. rewrite <- E. unfold fmul.
      replace ((secp_p - r) * (secp_p - r)) with (r * r + (secp_p - 2 * r) * secp_p) by ring.
      apply Z.mod_add. exact secp_p_ne_0.
    + exists (secp_p - r). split; [reflexivity|].
      rewrite Z.even_sub, secp_p_odd, Ev. reflexivity.
Qed.

(* strict decoding: only 33-byte strings with prefix 02/03 decode, and only to finite points of the curve
   whose abscissa is the encoded integer and whose parity matches the prefix *)
Theorem decompress_strict b P :
  decompress b = Some P ->
  length b = 33%nat /\ on_curve P = true /\
  exists x y, P = Some (x, y) /\ x = Z_of_bytes (tl b) /\
              (hd 0%N b = 2%N /\ Z.even y = true \/ hd 0%N b = 3%N /\ Z.even y = false).
Proof.
  destruct b as [|pre xb]; cbn [decompress]; [discriminate|].
  destruct (Nat.eqb_spec (length xb) 32) as [Hl|Hl]; cbn [negb]; [|discriminate].
  destruct (N.eqb_spec pre 2) as [E2|E2]; cbn [orb negb].
  - destruct (lift_x (Z_of_bytes xb)) as [[[x y]|]|] eqn:Hlift; try discriminate.
    intro H. injection H as <-.
    apply lift_x_on_curve in Hlift as (Hoc & y' & Hy & Hev). injection Hy as Ex Ey. subst x y'.
    split; [cbn [length]; now rewrite Hl|]. split; [assumption|].
    exists (Z_of_bytes xb), y. cbn [tl hd]. auto.
  - destruct (N.eqb_spec pre 3) as [E3|E3]; cbn [negb]; [|discriminate].
    destruct (lift_x (Z_of_bytes xb)) as [[[x y]|]|] eqn:Hlift; try discriminate.
    destruct (Z.eqb_spec y 0) as [Hy0|Hy0]; [discriminate|].
    intro H. injection H as <-.
    apply lift_x_on_curve in Hlift as (Hoc & y' & Hy & Hev). injection Hy as Ex Ey. subst x y'.
    split; [cbn [length]; now rewrite Hl|].
    cbn [on_curve] in Hoc. apply andb_true_iff in Hoc as [Hoc Heq]. apply andb_true_iff in Hoc as [Hx Hy].
    apply in_field_bound in Hy. apply Z.eqb_eq in Heq.
    split.
    + cbn [on_curve]. rewrite Hx.
      assert (Hb : in_field (secp_p - y) = true) by (apply in_field_bound; pose proof secp_p_pos; lia).
      rewrite Hb. cbn [andb]. apply Z.eqb_eq. rewrite <- Heq. unfold fmul.
      replace ((secp_p - y) * (secp_p - y)) with (y * y + (secp_p - 2 * y) * secp_p) by ring.
      apply Z.mod_add. exact secp_p_ne_0.
    + exists (Z_of_bytes xb), (secp_p - y). cbn [tl hd]. split; [reflexivity|]. split; [reflexivity|].
      right. split; [assumption|]. rewrite Z.even_sub, secp_p_odd, Hev. reflexivity.
Qed.

(* ---- non-vacuity: Z/101 as a module over itself ---- *)
Lemma prime_by_trial p :
  1 < p ->
  forallb (fun d => negb (p mod Z.of_nat d =? 0)) (seq 2 (Z.to_nat p - 2)) = true ->
  prime p.
Proof.
  intros Hp Hall. apply prime_alt. split; [assumption|].
  intros n Hn Hdiv.
  rewrite forallb_forall in Hall.
  specialize (Hall (Z.to_nat n)).
  assert (Hin : In (Z.to_nat n) (seq 2 (Z.to_nat p - 2))) by (apply in_seq; lia).
  apply Hall in Hin. rewrite Z2Nat.id in Hin by lia.
  apply negb_true_iff, Z.eqb_neq in Hin. apply Hin.
  apply Z.mod_divide; [lia | assumption].
Qed.

Lemma prime_101 : prime 101.
Proof. apply prime_by_trial; [lia | vm_compute; reflexivity]. Qed.

Definition in101 (x : Z) : bool := (0 <=? x) && (x <? 101).
Definition F101 : Type := { x : Z | in101 x = true }.
Definition val101 (a : F101) : Z := proj1_sig a.

Lemma in101_mod x : in101 (x mod 101) = true.
Proof.
  pose proof (Z.mod_pos_bound x 101 ltac:(lia)) as H. unfold in101.
  apply andb_true_iff. split; [apply Z.leb_le | apply Z.ltb_lt]; lia.
Qed.
Definition mk101 (x : Z) : F101 := exist _ (x mod 101) (in101_mod x).

Lemma F101_eq (a b : F101) : val101 a = val101 b -> a = b.
Proof.
  destruct a as [a Ha], b as [b Hb]. cbn [val101 proj1_sig]. intros <-.
  f_equal. apply Eqdep_dec.UIP_dec. apply Bool.bool_dec.
Qed.
Lemma val101_range (a : F101) : 0 <= val101 a < 101.
Proof.
  destruct a as [a Ha]. cbn [val101 proj1_sig]. unfold in101 in Ha.
  apply andb_true_iff in Ha as [H1 H2]. apply Z.leb_le in H1. apply Z.ltb_lt in H2. lia.
Qed.
Lemma val101_mk x : val101 (mk101 x) = x mod 101.
Proof. reflexivity. Qed.

Definition add101 (a b : F101) : F101 := mk101 (val101 a + val101 b).
Definition neg101 (a : F101) : F101 := mk101 (- val101 a).
Definition zero101 : F101 := mk101 0.
Definition smul101 (k : Z) (a : F101) : F101 := mk101 (k * val101 a).
Definition eqb101 (a b : F101) : bool := val101 a =? val101 b.
(* an "x coordinate" that is invariant under negation, like the one of a curve point *)
Definition xof101 (a : F101) : Z := (val101 a * val101 a) mod 101.
Definition g101 : F101 := mk101 2.

Lemma eqb101_spec a b : eqb101 a b = true <-> a = b.
Proof.
  unfold eqb101. rewrite Z.eqb_eq. split; [apply F101_eq | now intros ->].
Qed.

Lemma xof101_neg a : xof101 (neg101 a) = xof101 a.
Proof.
  unfold xof101, neg101. rewrite val101_mk.
  rewrite <- Z.mul_mod by lia. f_equal. ring.
Qed.

Lemma laws101 : module_laws 101 add101 neg101 zero101 smul101.
Proof.
  split; intros; apply F101_eq; unfold add101, neg101, zero101, smul101; rewrite ?val101_mk.
  - rewrite Z.add_mod_idemp_r, Z.add_mod_idemp_l by lia. f_equal. ring.
  - f_equal. ring.
  - rewrite Z.add_mod_idemp_r, Z.add_0_r by lia. apply Z.mod_small, val101_range.
  - rewrite Z.add_mod_idemp_r by lia. f_equal. ring.
  - rewrite Z.mul_1_l. apply Z.mod_small, val101_range.
  - rewrite Z.mul_mod_idemp_r by lia. f_equal. ring.
  - rewrite <- Z.add_mod by lia. f_equal. ring.
  - rewrite Z.mul_mod_idemp_r, <- Z.add_mod by lia. f_equal. ring.
  - rewrite Z.mul_mod_idemp_l by lia. reflexivity.
Qed.

(* ---- BIP-340 reference: facts that hold by construction ---- *)
Local Opaque sha256 base_mul pt_mul pt_add secp_q.

Lemma some_inj {A} (a b : A) : Some a = Some b -> a = b.
Proof. congruence. Qed.

(* whenever the reference signer outputs a signature, the reference verifier accepts it under the reference
   public key of the same secret key (the signer ends with the self-check the BIP recommends) *)
Theorem bip340_sign_verifies sk msg aux sig :
  bip340_sign sk msg aux = Some sig ->
  exists pk, bip340_pubkey sk = Some pk /\ bip340_verify pk msg sig = true.
Proof.
  unfold bip340_sign, bip340_pubkey.
  destruct (len_is 32 sk) eqn:Hsk; cbn [andb]; [|discriminate].
  destruct (len_is 32 aux); [|discriminate].
  destruct ((Z_of_bytes sk =? 0) || (secp_q <=? Z_of_bytes sk)); [discriminate|].
  destruct (base_mul (Z_of_bytes sk)) as [[px py]|]; [|discriminate].
  match goal with |- context [if ?c =? 0 then None else _] => destruct (c =? 0); [discriminate|] end.
  match goal with |- context [match base_mul ?k with _ => _ end] =>
    destruct (base_mul k) as [[rx ry]|]; [|discriminate] end.
  match goal with |- context [if bip340_verify ?pk ?m ?s then _ else _] =>
    destruct (bip340_verify pk m s) eqn:V; [|discriminate] end.
  intro H. apply some_inj in H. subst sig. eexists. split; [reflexivity | exact V].
Qed.

(* everything the BIP tells the verifier to reject is rejected *)
Theorem bip340_verify_accepts_only pk msg sig :
  bip340_verify pk msg sig = true ->
  length pk = 32%nat /\ length sig = 64%nat /\
  let r := Z_of_bytes (firstn 32 sig) in
  let s := Z_of_bytes (skipn 32 sig) in
  let e := Z_of_bytes (tagged_hash tag_challenge (firstn 32 sig ++ pk ++ msg)) mod secp_q in
  r < secp_p /\ s < secp_q /\
  exists P y, lift_x (Z_of_bytes pk) = Some P /\
              pt_sub (base_mul s) (pt_mul e P) = Some (r, y) /\ Z.even y = true.
Proof.
  unfold bip340_verify.
  destruct (len_is 32 pk) eqn:Hpk; cbn [andb]; [|discriminate].
  destruct (len_is 64 sig) eqn:Hsig; [|discriminate].
  destruct (lift_x (Z_of_bytes pk)) as [P|] eqn:HP; [|discriminate].
  destruct (secp_p <=? Z_of_bytes (firstn 32 sig)) eqn:Hr; cbn [orb]; [discriminate|].
  destruct (secp_q <=? Z_of_bytes (skipn 32 sig)) eqn:Hs; [discriminate|].
  destruct (pt_sub _ _) as [[x y]|] eqn:HR; [|discriminate].
  intro H. apply andb_true_iff in H as [Hev Hx]. apply Z.eqb_eq in Hx. subst x.
  apply Nat.eqb_eq in Hpk, Hsig. apply Z.leb_gt in Hr, Hs.
  repeat split; try assumption. exists P, y. auto.
Qed.


(* ---- Fermat's little theorem (not in the standard library), by the permutation-of-residues argument ---- *)

Definition prodl (l : list Z) : Z := fold_right Z.mul 1 l.

Lemma prodl_perm l l' : Permutation l l' -> prodl l = prodl l'.
Proof.
  unfold prodl. induction 1 as [|x l l' _ IH|x y l|l l' l'' _ IH1 _ IH2]; cbn [fold_right].
  - reflexivity.
  - now rewrite IH.
  - ring.
  - congruence.
Qed.

Lemma NoDup_map_inj_in {A B} (f : A -> B) (l : list A) :
  (forall x y, In x l -> In y l -> f x = f y -> x = y) -> NoDup l -> NoDup (map f l).
Proof.
  induction l as [|a l IH]; intros Hinj Hnd; cbn [map]; [constructor|].
  inversion Hnd as [|? ? Hnotin Hnd']; subst. constructor.
  - intro Hin. apply in_map_iff in Hin as [x [Hfx Hx]].
    assert (x = a) by (apply Hinj; [now right | now left | assumption]). subst. contradiction.
  - apply IH; [|assumption]. intros x y Hx Hy. apply Hinj; now right.
Qed.

Section Fermat.
  Variable p : Z.
  Hypothesis p_prime : prime p.
  Let p_gt_1 : 1 < p := q_gt_1 p p_prime.

  Definition residues : list Z := map Z.of_nat (seq 1 (Z.to_nat (p - 1))).

  Lemma in_residues x : In x residues <-> 1 <= x < p.
  Proof.
    unfold residues. rewrite in_map_iff. split.
    - intros [n [<- Hn]]. apply in_seq in Hn. lia.
    - intro Hx. exists (Z.to_nat x). split; [lia|]. apply in_seq. lia.
  Qed.

  Lemma residues_NoDup : NoDup residues.
  Proof.
    unfold residues. apply NoDup_map_inj_in; [|apply seq_NoDup].
    intros x y _ _. apply Nat2Z.inj.
  Qed.

  Lemma residues_length : length residues = Z.to_nat (p - 1).
  Proof. unfold residues. now rewrite map_length, seq_length. Qed.

  Lemma not_divide_small x : 1 <= x < p -> ~ (p | x).
  Proof. intros Hx Hd. apply Z.divide_pos_le in Hd; lia. Qed.

  Lemma prodl_map_mul a l :
    prodl (map (fun x => (a * x) mod p) l) mod p = (a ^ Z.of_nat (length l) * prodl l) mod p.
  Proof.
    induction l as [|x l IH]; cbn [map prodl fold_right length].
    - reflexivity.
    - fold (prodl (map (fun x => (a * x) mod p) l)). fold (prodl l).
      rewrite Nat2Z.inj_succ, Z.pow_succ_r by lia.
      rewrite Z.mul_mod_idemp_l by lia.
      rewrite <- Z.mul_mod_idemp_r, IH, Z.mul_mod_idemp_r by lia. f_equal. ring.
  Qed.

  Lemma prodl_rel_prime l : (forall x, In x l -> 1 <= x < p) -> rel_prime p (prodl l).
  Proof.
    induction l as [|x l IH]; intro H; cbn [prodl fold_right].
    - apply rel_prime_sym, rel_prime_1.
    - apply rel_prime_mult.
      + apply rel_prime_sym, rel_prime_le_prime; [assumption | apply H; now left].
      + apply IH. intros y Hy. apply H. now right.
  Qed.

  Theorem fermat_little a : ~ (p | a) -> a ^ (p - 1) mod p = 1.
  Proof.
    intro Ha.
    set (f := fun x => (a * x) mod p).
    assert (Hrange : forall x, 1 <= x < p -> 1 <= f x < p).
    { intros x Hx. unfold f. pose proof (Z.mod_pos_bound (a * x) p ltac:(lia)) as Hb.
      assert ((a * x) mod p <> 0); [|lia].
      intro H0. apply Z.mod_divide in H0; [|lia].
      apply prime_mult in H0; [|assumption]. destruct H0 as [H0|H0]; [contradiction|].
      now apply (not_divide_small x). }
    assert (Hinj : forall x y, In x residues -> In y residues -> f x = f y -> x = y).
    { intros x y Hx Hy Hf. apply in_residues in Hx, Hy. unfold f in Hf.
      apply mod_eq_divide in Hf; [|lia].
      replace (a * x - a * y) with (a * (x - y)) in Hf by ring.
      apply prime_mult in Hf; [|assumption]. destruct Hf as [Hf|Hf]; [contradiction|].
      destruct (Z.eq_dec x y) as [|Hne]; [assumption|exfalso].
      destruct Hf as [c Hc]. assert (c = 0 \/ c <= -1 \/ 1 <= c) as [?|[?|?]] by lia; nia. }
    assert (Hperm : Permutation (map f residues) residues).
    { apply NoDup_Permutation_bis.
      - apply NoDup_map_inj_in; [assumption | apply residues_NoDup].
      - rewrite map_length. lia.
      - intros y Hy. apply in_map_iff in Hy as [x [<- Hx]].
        apply in_residues. apply Hrange. now apply in_residues. }
    apply prodl_perm in Hperm.
    pose proof (prodl_map_mul a residues) as Hm. fold f in Hm. rewrite Hperm, residues_length in Hm.
    rewrite Z2Nat.id in Hm by lia.
    symmetry in Hm. apply mod_eq_divide in Hm; [|lia].
    replace (a ^ (p - 1) * prodl residues - prodl residues) with (prodl residues * (a ^ (p - 1) - 1)) in Hm by ring.
    apply Gauss in Hm.
    - rewrite <- (Z.mod_1_l p) at 2 by lia. apply mod_eq_divide; [lia | assumption].
    - apply prodl_rel_prime. intros x Hx. now apply in_residues.
  Qed.
End Fermat.

(* ---- square-and-multiply computes the modular power ---- *)
Lemma powmod_pos_spec m b e : 0 < m -> powmod_pos m b e = b ^ Zpos e mod m.
Proof.
  intro Hm. induction e as [e IH|e IH|]; cbn [powmod_pos].
  - rewrite IH, Pos2Z.inj_xI.
    replace (2 * Z.pos e + 1) with (Z.pos e + Z.pos e + 1) by lia.
    rewrite !Z.pow_add_r, Z.pow_1_r by lia.
    rewrite <- Z.mul_mod by lia. rewrite Z.mul_mod_idemp_l by lia. reflexivity.
  - rewrite IH, Pos2Z.inj_xO.
    replace (2 * Z.pos e) with (Z.pos e + Z.pos e) by lia.
    rewrite Z.pow_add_r by lia. now rewrite <- Z.mul_mod by lia.
  - now rewrite Z.pow_1_r.
Qed.

Lemma powmod_spec b e m : 0 < m -> 0 <= e -> powmod b e m = b ^ e mod m.
Proof.
  intros Hm He. unfold powmod. destruct e as [|e|e]; [reflexivity | | lia].
  rewrite powmod_pos_spec by assumption.
  symmetry. apply Zpow_facts.Zpower_mod. assumption.
Qed.

(* ---- decompress (compress P) = P, given that the field characteristic is prime ---- *)
Section RoundTrip.
  Hypothesis p_prime : prime secp_p.

  Let e4 := (secp_p + 1) / 4.

  (* the candidate square root is a square root whenever there is one (Euler's criterion for p = 3 mod 4) *)
  Lemma sqrt_candidate y :
    0 <= y < secp_p ->
    let r := powmod ((y * y) mod secp_p) e4 secp_p in
    0 <= r < secp_p /\ (r = y \/ r = secp_p - y).
  Proof.
    intros Hy r. pose proof secp_p_pos as Hp. pose proof secp_e4_spec as He. fold e4 in He.
    assert (Hr : 0 <= r < secp_p) by (apply powmod_range; assumption).
    split; [assumption|].
    assert (Er : r = ((y * y) mod secp_p) ^ e4 mod secp_p) by (apply powmod_spec; lia).
    destruct (Z.eq_dec y 0) as [->|Hy0].
    - left. rewrite Er, Z.mul_0_l. rewrite Z.mod_0_l by lia.
      try rewrite Z.pow_0_l by lia. try rewrite Z.mod_0_l by lia. reflexivity.
    - assert (Hnd : ~ (secp_p | y)) by (intro Hd; apply Z.divide_pos_le in Hd; lia).
      pose proof (fermat_little secp_p p_prime y Hnd) as HF.
      assert (Hsq : (r * r) mod secp_p = (y * y) mod secp_p).
      { rewrite Er at 1 2. rewrite <- Z.mul_mod, <- Z.pow_add_r by lia.
        rewrite <- Zpower_mod by lia.
        rewrite Z.pow_mul_l, <- Z.pow_add_r by lia.
        replace (e4 + e4 + (e4 + e4)) with ((secp_p - 1) + 2) by lia.
        rewrite Z.pow_add_r by lia.
        rewrite <- Z.mul_mod_idemp_l, HF by lia. f_equal. ring. }
      apply mod_eq_divide in Hsq; [|lia].
      replace (r * r - y * y) with ((r - y) * (r + y)) in Hsq by ring.
      apply prime_mult in Hsq; [|assumption].
      destruct Hsq as [[c Hc]|[c Hc]].
      + left. assert (c = 0) by nia. lia.
      + right. assert (c = 1) by nia. lia.
  Qed.

  Lemma lift_x_complete x y :
    on_curve (Some (x, y)) = true ->
    exists y', lift_x x = Some (Some (x, y')) /\ Z.even y' = true /\ (y' = y \/ y' = secp_p - y).
  Proof.
    cbn [on_curve]. intro H. apply andb_true_iff in H as [H Heq]. apply andb_true_iff in H as [Hx Hy].
    apply Z.eqb_eq in Heq. apply in_field_bound in Hy. pose proof secp_p_pos as Hp.
    unfold lift_x. rewrite Hx. unfold fsqrt. rewrite <- Heq.
    change (fmul y y) with ((y * y) mod secp_p).
    destruct (sqrt_candidate y Hy) as [Hr Hcase]. fold e4.
    generalize dependent (powmod ((y * y) mod secp_p) e4 secp_p). intros r Hr Hcase.
    assert (Hsq : fmul r r = (y * y) mod secp_p mod secp_p).
    { rewrite Z.mod_mod by lia. unfold fmul. destruct Hcase as [->| ->]; [reflexivity|].
      replace ((secp_p - y) * (secp_p - y)) with (y * y + (secp_p - 2 * y) * secp_p) by ring.
      apply Z.mod_add. lia. }
    rewrite Hsq, Z.eqb_refl.
    destruct (Z.even r) eqn:Ev.
    - exists r. auto.
    - exists (secp_p - r). split; [reflexivity|]. split.
      + rewrite Z.even_sub, secp_p_odd, Ev. reflexivity.
      + destruct Hcase as [->| ->]; [now right | left; lia].
  Qed.

  Lemma bytes32_roundtrip x : 0 <= x < secp_p -> Z_of_bytes (bytes32_of_Z x) = x.
  Proof.
    intro Hx. unfold Z_of_bytes, bytes32_of_Z. rewrite be_val_be_bytes.
    pose proof secp_p_lt_2_256 as Hlt.
    rewrite N.mod_small; [apply Z2N.id; lia|].
    apply N2Z.inj_lt. rewrite Z2N.id by lia.
    change (Z.of_N (256 ^ N.of_nat 32)) with (2 ^ 256). lia.
  Qed.

  Theorem decompress_compress x y :
    on_curve (Some (x, y)) = true ->
    exists b, compress (Some (x, y)) = Some b /\ decompress b = Some (Some (x, y)).
  Proof.
    intro Hoc. pose proof Hoc as Hoc'. cbn [on_curve] in Hoc'.
    apply andb_true_iff in Hoc' as [H _]. apply andb_true_iff in H as [Hx Hy].
    apply in_field_bound in Hx, Hy.
    destruct (lift_x_complete x y Hoc) as (y' & Hlift & Hev & Hcase).
    eexists. split; [reflexivity|].
    cbn [compress decompress]. unfold bytes32_of_Z at 1. rewrite be_bytes_length. cbn [Nat.eqb negb].
    fold (bytes32_of_Z x). rewrite bytes32_roundtrip by assumption. rewrite Hlift.
    destruct (Z.even y) eqn:Ey; cbn [N.eqb Pos.eqb orb negb].
    - destruct Hcase as [->| ->]; [reflexivity|].
      rewrite Z.even_sub, secp_p_odd, Ey in Hev. discriminate.
    - destruct Hcase as [->| ->]; [congruence|].
      destruct (Z.eqb_spec (secp_p - y) 0) as [E|E]; [lia|].
      do 3 f_equal. lia.
  Qed.
End RoundTrip.
