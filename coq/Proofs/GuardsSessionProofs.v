(* GuardsSessionProofs.v -- C20 part: IDSlice.Valid and the parameter checks of round.NewSession, as translated from /repo's
   source on every run (Generated/Guards.v), are the model's ids_valid / new_session_ok.  See Proofs/GuardsBase.v. *)
From Coq Require Import String List Bool Arith NArith ZArith Lia.
From MPS Require Import Model.Bytes Model.Framing Model.Session Model.Handler Model.TwoParty.
From MPS Require Model.Cbor.
From MPS Require Import Generated.Params Generated.Guards Proofs.GuardsBase.
Import ListNotations.
Local Open Scope string_scope.
Local Open Scope nat_scope.
Local Open Scope list_scope.

Lemma existsb_seq_shift : forall (f : nat -> bool) a n,
  existsb f (seq (S a) n) = existsb (fun i => f (S i)) (seq a n).
Proof.
  intros f a n. revert a. induction n as [|n IH]; intro a; [reflexivity|].
  cbn [seq existsb]. rewrite IH. reflexivity.
Qed.

Lemma existsb_ext_in : forall (A : Type) (f g : A -> bool) l,
  (forall x, In x l -> f x = g x) -> existsb f l = existsb g l.
Proof.
  intros A f g l. induction l as [|x l IH]; intro H; [reflexivity|].
  cbn [existsb]. rewrite (H x (or_introl eq_refl)), IH; [reflexivity|].
  intros y Hy. apply H. right. exact Hy.
Qed.

Lemma any_unsorted_ids_valid : forall l, any_unsorted l = negb (ids_valid l).
Proof.
  induction l as [|x l IH]; [reflexivity|].
  destruct l as [|y l']; [reflexivity|].
  change (ids_valid (x :: y :: l')) with (bytes_ltb x y && ids_valid (y :: l')).
  rewrite negb_andb, <- IH. unfold any_unsorted.
  change (length (x :: y :: l') - 1) with (S (length l')).
  change (length (y :: l') - 1) with (length l' - 0). rewrite Nat.sub_0_r.
  cbn [seq existsb]. change (1 - 1) with 0. cbn [nth]. f_equal.
  rewrite existsb_seq_shift. apply existsb_ext_in.
  intros i Hi. apply in_seq in Hi. destruct i as [|i]; [lia|].
  cbn [nth]. replace (S (S i) - 1) with (S i) by lia. replace (S i - 1) with i by lia. reflexivity.
Qed.

Lemma idslice_Valid : forall l, geval (alookup (env_idslice l)) go_IDSlice_Valid = Some (ids_valid l).
Proof.
  intro l. unfold env_idslice, go_IDSlice_Valid. rewrite any_unsorted_ids_valid. gsolve.
Qed.

Lemma id_refused_id_ok : forall grp id, id_refused grp id = negb (id_ok grp id).
Proof.
  intros grp id. unfold id_refused, id_ok. destruct id as [|b id]; [reflexivity|].
  cbn [orb]. destruct (Cbor.utf8_valid (b :: id)); [|reflexivity].
  destruct grp; cbn [is_some negb andb orb]; [rewrite negb_involutive|]; reflexivity.
Qed.

Lemma existsb_refused : forall grp ids, existsb (id_refused grp) ids = negb (forallb (id_ok grp) ids).
Proof.
  intros grp ids. induction ids as [|x l IH]; [reflexivity|].
  cbn [existsb forallb]. rewrite IH, id_refused_id_ok, negb_andb. reflexivity.
Qed.

Lemma newSession_checks : forall p,
  geval (alookup (env_session p)) go_NewSession_checks = Some (new_session_ok p).
Proof.
  intro p. unfold new_session_ok, env_session, go_NewSession_checks. rewrite existsb_refused.
  rewrite (Z.leb_antisym (sp_thr p) 0), (Z.leb_antisym max_uint32 (sp_thr p)).
  rewrite (Z.ltb_antisym (Z.of_nat (length (sort_ids (sp_ids p)))) 0).
  rewrite (Z.leb_antisym (Z.of_nat (length (sort_ids (sp_ids p))) - 1) (sp_thr p)).
  gsolve.
Qed.

Lemma guards_session_translated : translated ["IDSlice_Valid"; "NewSession_checks"] = true.
Proof. vm_compute. reflexivity. Qed.

Lemma guards_session_lets_ok :
  go_IDSlice_Valid_lets = [("n", "len(partyIDs)")] /\
  go_NewSession_checks_lets = [("partyIDs", "party.NewIDSlice(info.PartyIDs)"); ("n", "len(partyIDs)")].
Proof. repeat split. Qed.
